#!/usr/bin/env python3
"""refresh the `confirmed` field of seeded/*/meta.json from /tmp/mut/confirm_<prop>_<n>.txt"""
import json, re
from pathlib import Path
for d in sorted(Path("/verif/seeded").iterdir()):
    m = d / "meta.json"
    if not m.exists():
        continue
    meta = json.loads(m.read_text())
    prop, n = d.name.split("-")
    conf = Path("/tmp/mut/confirm_%s_%s.txt" % (prop.lower(), n))
    if conf.exists():
        lines = [l for l in conf.read_text().splitlines() if l.startswith("demo on") or l in ("CONFIRMED", "NOT-CONFIRMED")]
        if lines:
            meta["confirmed"] = "tools/confirm_seed.sh (scratch worktree): " + " | ".join(lines)[:900]
            if "NOT-CONFIRMED" in lines:
                meta["confirmed"] += "  [the lead's generic script could not confirm this one by itself: see notes.txt — demos that need -fsanitize=thread, a protoc-generated header, many real cores, or more time than the overloaded machine allowed]"
    m.write_text(json.dumps(meta, indent=1))
print("ok")
