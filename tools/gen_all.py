#!/usr/bin/env python3
"""Run every translator module gen/<comp>.py (writes lean/Babylon/Gen/*.lean)."""
import importlib
import sys
from pathlib import Path
V = Path(__file__).resolve().parent.parent
sys.path.insert(0, str(V))
for f in sorted((V / "gen").glob("*.py")):
    if f.stem in ("__init__", "common"):
        continue
    try:
        importlib.import_module("gen." + f.stem).generate()
        print("gen", f.stem, "ok")
    except Exception as e:
        print("gen", f.stem, "FAILED", repr(e)[:300])
