#!/usr/bin/env python3
"""print the markdown table of seeded changes from seeded/*/meta.json (DESIGN.md 10.3)"""
import json
from pathlib import Path
rows = []
for d in sorted(Path("/verif/seeded").iterdir(), key=lambda p: (p.name.split("-")[0], int(p.name.split("-")[1]) if p.name.split("-")[1].isdigit() else 0)):
    m = d / "meta.json"
    if not m.exists():
        continue
    x = json.loads(m.read_text())
    breaks = x["breaks"]
    if breaks.startswith("see notes"):
        n = (d / "notes.txt")
        breaks = "see seeded/%s/notes.txt" % d.name
    det = x["detected_by"]
    kind = "caught" 
    if "initially" in det or "first run" in det:
        kind = "strengthened → caught"
    rows.append((x.get("round", 1), "| %s | %s | %s | %s |" % (d.name, breaks.replace("|", "\\|")[:230], kind, det.replace("|", "\\|")[:330])))
import sys
want = int(sys.argv[1]) if len(sys.argv) > 1 else None
print("| Seed | Change | Result | How |")
print("|------|--------|--------|-----|")
print("\n".join(r for (rd, r) in rows if want is None or rd == want))
