#!/usr/bin/env python3
"""Run every claimed check (quick tier) and print one line per property: exit code, time, obligations,
evaluations, VIOLATION / KNOWN-FINDING lines.  usage: tools/status.py [-j N] [--seed S] [ids...]"""
import argparse
import concurrent.futures
import json
import os
import subprocess
import sys
import time
from pathlib import Path

V = Path(__file__).resolve().parent.parent
ap = argparse.ArgumentParser()
ap.add_argument("-j", type=int, default=2)
ap.add_argument("--seed", default="1")
ap.add_argument("--tier", default="quick")
ap.add_argument("ids", nargs="*")
a = ap.parse_args()
ids = a.ids or sorted(p.stem for p in (V / "checks").glob("C[0-9]*.py"))


def one(pid):
    t0 = time.time()
    env = dict(os.environ, VERIF_SEED=a.seed)
    r = subprocess.run(["./check", pid, "--tier", a.tier], cwd=V, capture_output=True, text=True, env=env)
    out = r.stdout + r.stderr
    if r.returncode != 0:
        d = Path("/tmp/status_logs"); d.mkdir(exist_ok=True)
        (d / ("%s-%s-%s.txt" % (pid, a.tier, a.seed))).write_text(out)
        for f in (V / "build" / "replay").glob(pid + "-*"):
            (d / ("%s-%s-%s-%s" % (pid, a.tier, a.seed, f.name))).write_bytes(f.read_bytes())
    viol = [l for l in out.splitlines() if l.startswith("VIOLATION")]
    known = [l for l in out.splitlines() if l.startswith("KNOWN-FINDING")]
    ev = {}
    try:
        ev = json.loads((V / "evidence" / (pid + ".json")).read_text())
    except Exception:
        pass
    cov = ev.get("coverage", {})
    return "%s rc=%d %6.1fs oblig=%s/%s eval=%s distinct=%s viol=%d known=%d %s" % (
        pid, r.returncode, time.time() - t0, cov.get("discharged"), cov.get("obligations"), cov.get("evaluations"),
        cov.get("distinct_nontrivial"), len(viol), len(known), (viol[0][:120] if viol else ""))


with concurrent.futures.ThreadPoolExecutor(max_workers=a.j) as ex:
    for line in ex.map(one, ids):
        print(line, flush=True)
