#!/usr/bin/env python3
"""Pre-compile harnesses so the first quick check does not pay for them (best effort)."""
import importlib
import sys
from pathlib import Path
V = Path(__file__).resolve().parent.parent
sys.path.insert(0, str(V))
for f in sorted((V / "checks").glob("C*.py")):
    mod = importlib.import_module("checks." + f.stem)
    w = getattr(mod, "warm", None)
    if w:
        try:
            w()
            print("warm", f.stem, "ok")
        except Exception as e:
            print("warm", f.stem, "failed", e)
