#!/bin/bash
# usage: tools/confirm_seed.sh <dir with patch.diff + demo.cpp> <repo test file rel. path> [extra repo cpp globs...]
# Confirms a seeded change in a scratch worktree: (1) demo passes on HEAD, (2) patch applies and the
# tree still compiles, (3) demo fails with the patch, (4) the named existing unit test still passes
# with the patch.  Prints a summary line CONFIRMED / NOT-CONFIRMED.
set -u
D=$(readlink -f "$1"); TEST=$2; shift 2
WT=/tmp/confirm-wt-${CONFIRM_LANE:-$$}
OC=/tmp/confirm-objcache; mkdir -p $OC
git -C /repo worktree add -q --detach "$WT" HEAD || exit 2
SRCS="$WT/src/babylon/concurrent/*.cpp $WT/src/babylon/*.cpp $WT/src/babylon/reusable/*.cpp $WT/src/babylon/reusable/patch/*.cpp $WT/src/babylon/logging/*.cpp $WT/src/babylon/coroutine/*.cpp $WT/src/babylon/serialization/*.cpp"
LIBS="-labsl_time_zone -lprotobuf -labsl_base -labsl_time -labsl_strings -labsl_int128 -labsl_raw_logging_internal -labsl_throw_delegate -labsl_hash -labsl_raw_hash_set -labsl_city -labsl_low_level_hash -labsl_bad_optional_access -labsl_cord -labsl_synchronization -labsl_status -labsl_strings_internal -labsl_str_format_internal -lpthread -ldl -latomic"
FLAGS="-std=gnu++20 -O1 -g -DNDEBUG -w -fno-access-control -ffile-prefix-map=$WT=. -I$WT/src -isystem /root/miniconda/include"
# object cache keyed on the preprocessed text (paths mapped away with -ffile-prefix-map), so the
# unpatched build and every translation unit a patch does not reach are compiled only once
cc1() { h=$(g++ $FLAGS -E -P "$1" 2>/dev/null | md5sum | cut -c1-16); [ -f $OC/$h.o ] || { g++ $FLAGS -c "$1" -o $OC/$h.$$.tmp && mv $OC/$h.$$.tmp $OC/$h.o; } || exit 1; cp $OC/$h.o $WT/_o/$(echo "$1" | md5sum | cut -c1-12).o; }
export -f cc1; export FLAGS OC WT
lib() { rm -rf $WT/_o $WT/_lib.a; mkdir -p $WT/_o && ls $SRCS $WT/src/babylon/anyflow/*.cpp $WT/src/babylon/anyflow/builtin/*.cpp 2>/dev/null | xargs -P 16 -I{} bash -c 'cc1 {}' && ar rcs $WT/_lib.a $WT/_o/*.o; }
demo() { g++ $FLAGS $D/demo.cpp $WT/_lib.a $LIBS -o $WT/_demo 2>$WT/_demo.err && ( cd $WT && timeout 900 ./_demo >$WT/_demo.out 2>&1 ); }
lib || { echo "NOT-CONFIRMED: base tree does not build"; git -C /repo worktree remove --force $WT; exit 1; }
demo; R0=$?
( cd $WT && git apply $D/patch.diff ) || { echo "NOT-CONFIRMED: patch does not apply"; git -C /repo worktree remove --force $WT; exit 1; }
lib || { echo "NOT-CONFIRMED: patched tree does not build"; git -C /repo worktree remove --force $WT; exit 1; }
demo; R1=$?
TAIL1=$(tail -2 $WT/_demo.out 2>/dev/null | tr '\n' ' ')
RT=0; UTSUM=""
for T in $(echo $TEST | tr ',' ' '); do
  PB=""; grep -q "arena_example.pb.h" $WT/$T && PB="-I/repo/_build /repo/_build/arena_example.pb.cc"
  g++ $FLAGS -I$WT/test $WT/$T $PB $WT/_lib.a -L/root/miniconda/lib -Wl,-rpath,/root/miniconda/lib -lgtest -lgtest_main $LIBS -labsl_time_zone -o $WT/_ut 2>$WT/_ut.err && ( cd $WT && timeout 600 ./_ut > $WT/_ut.out 2>&1 ); R=$?
  UTSUM="$UTSUM $T:rc=$R($(tail -1 $WT/_ut.out 2>/dev/null | tr -d '\n'))"
  [ $R -ne 0 ] && { RT=$R; tail -5 $WT/_ut.err; }
done
echo "demo on HEAD rc=$R0; demo with patch rc=$R1 ($TAIL1); unit tests with patch:$UTSUM"
if [ $R0 -eq 0 ] && [ $R1 -ne 0 ] && [ $RT -eq 0 ]; then echo CONFIRMED; else echo NOT-CONFIRMED; fi
git -C /repo worktree remove --force $WT
