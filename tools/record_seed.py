#!/usr/bin/env python3
"""tools/record_seed.py <Cxx> <n> <srcdir> <breaks> <needs> <detected-by / result>
copies patch.diff, demo.cpp, notes.txt into seeded/<Cxx>-<n>/ and writes meta.json
(the confirmation line is taken from /tmp/mut/confirm_<cxx>_<i>.txt when present)."""
import json, shutil, sys, re
from pathlib import Path
prop, n, src, breaks, needs, detected = sys.argv[1:7]
src = Path(src)
d = Path("/verif/seeded") / ("%s-%s" % (prop, n))
d.mkdir(parents=True, exist_ok=True)
for f in ("patch.diff", "demo.cpp", "notes.txt"):
    if (src / f).exists():
        shutil.copy(src / f, d / f)
conf = Path("/tmp/mut/confirm_%s_%s.txt" % (prop.lower(), src.name))
ctext = ""
if conf.exists():
    lines = [l for l in conf.read_text().splitlines() if l.startswith("demo on") or l in ("CONFIRMED", "NOT-CONFIRMED")]
    ctext = " | ".join(lines)[:900]
caught = "caught" if "VIOLATION" in detected or "caught" in detected else ("missed" if "missed" in detected else detected.split()[0])
json.dump({"property": prop, "breaks": breaks, "needs_to_manifest": needs,
           "produced_by": "independent sub-agent given only the property text and a scratch worktree of /repo",
           "confirmed": ctext or "see notes.txt (tools/confirm_seed.sh)",
           "detected_by": detected, "check_result": caught}, open(d / "meta.json", "w"), indent=1)
print("recorded", d)
