#!/usr/bin/env python3
"""Regenerate MANIFEST.json from checks/*.py (each claimed property has a checks/Cxx.py with a
MANIFEST dict) and validate it against the schema."""
import importlib
import json
import sys
from pathlib import Path

V = Path(__file__).resolve().parent.parent
sys.path.insert(0, str(V))
props = [json.loads(l) for l in (V / "properties.jsonl").read_text().splitlines() if l.strip()]
checks, na = [], []
for p in props:
    pid = p["id"]
    f = V / "checks" / (pid + ".py")
    meta = None
    if f.exists():
        mod = importlib.import_module("checks." + pid)
        meta = getattr(mod, "MANIFEST", None)
    if not meta:
        na.append({"property_id": pid, "reason": "check not built yet (work in progress; see DESIGN.md section 6 for the planned model and theorems) - no technique switch, simply unclaimed so far"})
        continue
    checks.append({
        "property_id": pid,
        "quick_cmd": "./check %s --tier quick" % pid,
        "thorough_cmd": "./check %s --tier thorough" % pid,
        "evidence_file": "evidence/%s.json" % pid,
        "replay_cmd_template": "./check %s --replay {path}" % pid,
        "engine": "lean4-proof+correspondence",
        "level_claimed": {"category": "proof", "text": meta["text"], "design_ref": meta.get("design_ref", "DESIGN.md section 6, " + pid)},
        "level_note": meta["note"],
        "technique": meta["technique"],
    })
man = {
    "version": 1,
    "setup_cmd": "./setup.sh",
    "hooks": {"guard": "BABYLON_VERIF", "enable": "no source hooks are needed: harnesses include the headers with -fno-access-control and the concurrent ones are compiled with -fsanitize=thread against /verif/vrt's own __tsan_* runtime", "baseline_off_cmd": "cmake --build /repo/_build -j16 && ctest --test-dir /repo/_build -j8 --timeout 900", "source_commits": [], "add_only": True},
    "engines": [{"name": "lean4-proof+correspondence", "path": "check", "serves_properties": [c["property_id"] for c in checks],
                 "kind_free_text": "Lean 4 theorems over executable models (lean/Babylon), tied to /repo on every run by a translator (gen/) regenerating constants/skeletons and by a correspondence check (harness/ + lean/Drivers, vrt/ for concurrent code)"}],
    "checks": checks,
    "not_applicable": na,
    "notes": "See DESIGN.md. known_findings.txt lists recorded findings and fixed defects.",
}
(V / "MANIFEST.json").write_text(json.dumps(man, indent=1) + "\n")
try:
    import jsonschema
    jsonschema.validate(man, json.loads(Path("/root/.vp/MANIFEST.schema.json").read_text()))
    print("MANIFEST.json valid:", len(checks), "checks,", len(na), "unclaimed")
except ImportError:
    print("jsonschema not available; written without validation")
