#!/usr/bin/env python3
"""tools/record_round2.py <results file> [<first-result file>]
Records the round-2 seeded changes (/tmp/mut/r2cNN/out/{1,2,3}) as seeded/<Cxx>-<n>/ (n continues after
the round-1 numbers): patch.diff, demo.cpp, notes.txt, meta.json.  `breaks` / `needs_to_manifest` are
taken from the producing agent's notes.txt, `detected_by` from the mutest result line of the final run
(<results file>) and, when given, the result of the first run before the checks were strengthened."""
import json, re, shutil, sys
from pathlib import Path

def parse(path, keep_first=False):
    out = {}
    for l in Path(path).read_text().splitlines():
        m = re.match(r"(C\d\d) seed=(r2c\d\d)/(\d) violations=(\d+) nofail=(\d+) \| (.*?) \| (.*)$", l)
        if m and not (keep_first and (m.group(1), int(m.group(3))) in out):
            out[(m.group(1), int(m.group(3)))] = dict(viol=int(m.group(4)), nofail=int(m.group(5)),
                                                     done=m.group(6).strip(), key=m.group(7).replace("# failing-input key:", "").strip())
    return out

final = parse(sys.argv[1])
first = parse(sys.argv[2], True) if len(sys.argv) > 2 else {}
seeded = Path("/verif/seeded")
ROUND1 = {}
for d in seeded.iterdir():
    m = re.match(r"(C\d\d)-(\d+)$", d.name)
    if m and not (d / "round2").exists():
        ROUND1[m.group(1)] = max(ROUND1.get(m.group(1), 0), int(m.group(2)))

def title_and_needs(notes):
    lines = notes.splitlines()
    title = next((l.strip() for l in lines if l.strip() and not set(l.strip()) <= set("=-")), "")
    title = re.sub(r"^(CHANGE|Change|change)\s*\d*\s*(--|—|-|:)\s*", "", title)
    needs = []
    for i, l in enumerate(lines):
        if re.search(r"needs to manifest", l, re.I):
            for k in lines[i + 1:]:
                if set(k.strip()) <= set("=-") and k.strip():
                    continue
                if not k.strip():
                    if needs:
                        break
                    continue
                needs.append(k.strip())
            break
    return title[:400], " ".join(needs)[:700]

def classify(r):
    if r is None:
        return "not run"
    if r["viol"] == 0:
        return "missed (exit 0)"
    if r["nofail"] and r["viol"] == r["nofail"]:
        return "VIOLATION ... no-failing-input-found (broken obligation only)"
    return "caught, VIOLATION with replay, first key `%s`" % r["key"]

for (prop, i), r in sorted(final.items()):
    src = Path("/tmp/mut/r2c%s/out/%d" % (prop[1:], i))
    n = ROUND1.get(prop, 0) + i
    d = seeded / ("%s-%d" % (prop, n))
    d.mkdir(parents=True, exist_ok=True)
    (d / "round2").write_text("round 2\n")
    for f in ("patch.diff", "demo.cpp", "notes.txt"):
        if (src / f).exists():
            shutil.copy(src / f, d / f)
    notes = (src / "notes.txt").read_text(errors="replace") if (src / "notes.txt").exists() else ""
    breaks, needs = title_and_needs(notes)
    conf = Path("/tmp/mut/confirm_r2c%s_%d.txt" % (prop[1:], i))
    ctext = ""
    if conf.exists():
        ls = [l for l in conf.read_text().splitlines() if l.startswith("demo on") or l in ("CONFIRMED", "NOT-CONFIRMED")]
        ctext = "tools/confirm_seed.sh (scratch worktree): " + " | ".join(ls)[:900]
    f0 = first.get((prop, i))
    det = classify(r)
    def cls(x):
        return "missed" if x["viol"] == 0 else ("nofail" if x["nofail"] and x["viol"] == x["nofail"] else "caught")
    if f0 is not None and cls(f0) != cls(r):
        det = "initially %s; after strengthening the check: %s" % (classify(f0), det)
    det += " (%s)" % re.sub(r"^\[C\d\d\s+[\d.]+s\] done: ", "", r["done"])
    meta = {"property": prop, "round": 2, "breaks": breaks, "needs_to_manifest": needs,
            "produced_by": "independent sub-agent given only the property text and a scratch worktree of /repo",
            "confirmed": ctext or "see notes.txt",
            "detected_by": det,
            "check_result": "caught" if r["viol"] > r["nofail"] or (r["viol"] and not r["nofail"]) else ("no-failing-input-found" if r["viol"] else "missed")}
    json.dump(meta, open(d / "meta.json", "w"), indent=1)
    print("recorded", d.name, meta["check_result"])
