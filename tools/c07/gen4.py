import sys
fields = {
 "m1": ("s'.firstMarker ≠ none → s'.stopCalled = true ∧ balExited c s'", "intro hfm", ["m1","m7"], ["r3","r6"], []),
 "m2": ("∀ j, s'.g.itemAt j = some .stop → s'.firstMarker ≠ none ∧ ∀ j0, s'.firstMarker = some j0 → j0 ≤ j", "intro j hit0", ["m2","m4"], [], []),
 "m3": ("∀ id i j, (s'.preStop id = true ∨ s'.viaLocal id = true) → s'.gTicket id = some i → s'.firstMarker = some j → i < j", "intro id i j hor hg hfm", ["m1","m3","m4"], ["r2"], ["t2","t3c","v2","f5"]),
 "m4": ("∀ j0, s'.firstMarker = some j0 → j0 < s'.g.cells.length", "intro j0 hfm", ["m4"], [], []),
 "m7": ("∀ t', (s'.pc t').pastB = true → balExited c s'", "intro t' hp", ["m7"], ["run1"], []),
 "j1": ("∀ t' n, s'.pc t' = .sJoinW n → ∀ m u, m < n → c.workers[m]? = some u → s'.pc u = .exited", "intro t' n hp m u hm hu", ["j1"], [], []),
 "j2": ("∀ t', s'.pc t' = .sEnd → (∀ u, u ∈ c.workers → s'.pc u = .exited) ∧ balExited c s'", "intro t' hp", ["j1","j2","m7"], ["run1"], []),
 "j3": ("s'.stopReturned = true → (∀ u, u ∈ c.workers → s'.pc u = .exited) ∧ balExited c s'", "intro hp", ["j2","j3"], [], []),
 "e1": ("∀ w, (s'.pc w = .wStopping ∨ (s'.pc w = .exited ∧ w ∈ c.workers)) → s'.exitTicket w ≠ none ∧ ∀ j, s'.exitTicket w = some j → s'.g.itemAt j = some .stop ∧ s'.g.stAt j = some .free", "intro w hw", ["e1"], ["r4"], []),
}

def e1_take(case, args, item):
    return """  case %s %s =>
    clear l4
    dsimp only at hw ⊢
    have hwt : w ≠ t := by
      intro e; subst e; simp [upd] at hw
    have hw' : s.pc w = .wStopping ∨ (s.pc w = .exited ∧ w ∈ c.workers) := by simpa [upd, hwt] using hw
    obtain ⟨h1, h2⟩ := e1 w hw'
    refine ⟨h1, fun j hj => ?_⟩
    obtain ⟨h3, h4⟩ := h2 j hj
    have := Q.take_old s.g %s _ j h3
    exact ⟨this.1, by rw [this.2]; exact h4⟩""" % (case, args, item)

SPECIAL = {
 "j1": """  case sJoinW n0 u0 hpc hw hu0 =>
    clear l4
    simp only [exec_proj] at hp hstab ⊢
    by_cases ht : t' = t
    · subst ht
      simp only [upd_same] at hp
      have hn : n = n0 + 1 := hj5 n0 n hp
      subst hn
      by_cases hmn : m = n0
      · subst hmn
        rw [hw] at hu; injection hu with hu; subst hu
        exact hstab _ hu0
      · have hlt : m < n0 := by omega
        exact hstab u (j1 t' n0 hpc m u hlt hu)
    · have hp' : s.pc t' = .sJoinW n := by simpa [upd, ht] using hp
      exact hstab u (j1 t' n hp' m u hm hu)""",
 "j2": """  case sJoinW n0 u0 hpc hw hu0 =>
    clear l4
    simp only [exec_proj] at hp hstab ⊢
    by_cases ht : t' = t
    · subst ht
      simp only [upd_same] at hp
      have hlen : c.workers.length ≤ n0 + 1 := hj6 n0 hp
      refine ⟨fun u huw => ?_, fun b hb => ?_⟩
      · obtain ⟨m, hm, hmu⟩ := hmem u huw
        by_cases hmn : m = n0
        · subst hmn
          rw [hw] at hmu; injection hmu with hmu; subst hmu
          exact hstab _ hu0
        · exact hstab u (j1 t' n0 hpc m u (by omega) hmu)
      · exact hstab b (m7 t' (by rw [hpc]; rfl) b hb)
    · have hp' : s.pc t' = .sEnd := by simpa [upd, ht] using hp
      obtain ⟨h1, h2⟩ := j2 t' hp'
      exact ⟨fun u hu' => hstab u (h1 u hu'), fun b hb => hstab b (h2 b hb)⟩""",
 "e1": e1_take("gTakeTask", "id0 k hpc", "(.task id0)") + "\n" + e1_take("gTakeStop", "k hpc", ".stop") + "\n" + e1_take("gTakeWakeup", "k hpc", ".wakeup"),
}

HEAD='''/-
  `Inv4` (phases of stop(), markers, joins, exit tickets) is inductive — part %s.
-/
import Babylon.Exec.Inv4

namespace Babylon.Exec
open Babylon.Core

macro "s_close" : tactic => `(tactic| (
  (try simp only [balExited] at *)
  (try simp only [exec_proj, upd_same, Q.claim_fold, Q.bump_fold] at *)
  first
    | done
    | grind [upd, Pc.role, Pc.carry, Pc.exec, Pc.pastB, claimPc, dispatchPc, PopCtx.onEmpty, PopCtx.role, afterLdRunS,
        afterLdRunB, role_chk, popctx_role,
        Q.itemAt_setSt, Q.stAt_setSt, Q.itemAt_take, Q.stAt_take, Q.length_take, Q.length_setSt, Q.popIdx_setSt, Q.popIdx_take,
        Q.itemAt_claim, Q.stAt_claim, Q.popIdx_claim, Q.length_claim, Q.itemAt_bump, Q.stAt_bump, Q.popIdx_bump, Q.length_bump,
        Q.itemAt_some_lt, Q.stAt_some_lt, Q.take_old]))

section
variable {c : Cfg} {s s' : State} {t : Nat} {lb : Lbl}
'''
def gen(names, part):
    out=[HEAD % part]
    for name in names:
        stmt,intro,ms,is_,ks = fields[name]
        out.append("set_option maxHeartbeats 4000000 in")
        out.append("theorem Inv4.step_%s (I : Inv1 c s) (J : Inv2 c s) (B : Inv2b s) (K : Inv3 c s) (M : Inv4 c s) (h : StepCase c s t lb s') :\n    %s := by" % (name, stmt))
        out.append("  "+intro)
        for j in ms: out.append("  have %s := M.%s" % (j,j))
        for j in is_: out.append("  have %s := I.%s" % (j,j))
        for j in ks: out.append("  have %s := K.%s" % (j,j))
        out.append("  have l4 := J.l4")
        out.append("  have hwf := I.wf t")
        out.append("  have hstab := exited_stable h")
        out.append("  have hpb1 := pastB_dispatchPc")
        out.append("  have hpb2 := pastB_onEmpty")
        out.append("  have hpb3 := pastB_afterSubmit c")
        out.append("  have hpb4 := pastB_afterSize c")
        out.append("  have hpb5 := pastB_afterLdRunB")
        out.append("  have hpb6 := pastB_afterJoinW c")
        out.append("  have hpb7 := pastB_afterStore c")
        out.append("  have hpb8 := pastB_markChain c")
        out.append("  have hpb9 := pastB_claimPc")
        out.append("  have hj1 := markChain_sJoinW c")
        out.append("  have hj2 := markChain_sEnd c")
        out.append("  have hj3 := afterStore_sJoinW c")
        out.append("  have hj4 := afterStore_sEnd c")
        out.append("  have hj5 := afterJoinW_sJoinW c")
        out.append("  have hj6 := afterJoinW_sEnd c")
        out.append("  have hmem := mem_getElem? c.workers")
        out.append("  have hx1 := ne_exit_markChain c")
        out.append("  have hx2 := ne_exit_afterStore c")
        out.append("  have hx3 := ne_exit_onEmpty")
        out.append("  have hx4 := ne_exit_afterSubmit c")
        out.append("  have hx5 := ne_exit_afterSize c")
        out.append("  have hx6 := ne_exit_afterLdRunS")
        out.append("  have hx7 := ne_exit_afterLdRunB")
        out.append("  have hx8 := ne_exit_afterJoinW c")
        out.append("  have hnm1 := noteMarker_some")
        out.append("  have hnm2 := noteMarker_ne_none")
        out.append("  have hkx : ∀ p k, s.pc t = .gPub p k → k ≠ .wStopping ∧ k ≠ .exited := by")
        out.append("    intro p k hp; rw [hp] at hwf; exact ne_exit_cont c none k hwf")
        out.append("  have hr4 := I.r4")
        out.append("  have hkj : ∀ p k, s.pc t = .gPub p k → (∀ n, k = .sJoinW n → n = 0) ∧ (k = .sEnd → c.workers = []) := by")
        out.append("    intro p k hp; rw [hp] at hwf; exact cont_join c none k hwf")
        out.append("  have hne1 := dispatchPc_ne")
        out.append("  have hne2 := onEmpty_ne")
        out.append("  have hst0 : ∀ k, s.pc t = .gTake .stop k → (s.pc t).role = .stopper ∧ (s.pc t).pastB = true := by")
        out.append("    intro k hp")
        out.append("    have hnb : ∀ k', k ≠ .bSweep k' := by")
        out.append("      intro k' e; subst e; have := B.l9 t .stop k' hp; simp [Item.isTask] at this")
        out.append("    rw [hp] at hwf ⊢; simp only [Pc.role, Pc.pastB]; exact contOK_stop_role c k hwf hnb")
        out.append("  have hidle : s.pc t = .idle → t ∉ c.workers := by")
        out.append("    intro hi hw; rcases I.r4 t hw with h1 | h1 <;> simp [hi, Pc.role] at h1")
        out.append("  have hbs : s.pc t = .bStopping → t ∉ c.workers := by")
        out.append("    intro hi hw; rcases I.r4 t hw with h1 | h1 <;> simp [hi, Pc.role] at h1")
        out.append("  clear I J B K M hwf")
        out.append("  cases h")
        out.append("  case popClaim ctx i0 k0 nr cl hpc hq hi hcell hfull =>")
        out.append("    have hit := (isTask_iff cl.item).mp (l4 k0 i0 cl hcell)")
        out.append("    obtain ⟨idx, hidx⟩ := hit")
        out.append("    clear hcell l4")
        out.append("    cases ctx <;> simp only [hidx] at * <;> s_close")
        out.append("  case wRecv i0 cl hpc hcell hfull =>")
        out.append("    have hc1 := Q.itemAt_eq _ _ _ hcell")
        out.append("    have hc2 := Q.stAt_eq _ _ _ hcell")
        out.append("    have hc3 : i0 < s.g.cells.length := Q.stAt_some_lt _ _ _ hc2")
        out.append("    rw [hfull] at hc2")
        out.append("    clear hcell l4")
        out.append("    cases hx : cl.item <;> simp only [hx] at * <;> s_close")
        out.append("  case gPublish p k hpc hfree hst =>")
        out.append("    have hc3 : p < s.g.cells.length := Q.stAt_some_lt _ _ _ hst")
        out.append("    clear l4; s_close")
        out.append("  case sLd hpc =>")
        out.append("    have hr : s.running = true := by first | exact run1 t (Or.inl hpc) | skip" if "run1" in is_ else "    skip")
        out.append("    clear l4; (try simp only [hr] at *); s_close" if "run1" in is_ else "    clear l4; s_close")
        if name in SPECIAL: out.append(SPECIAL[name])
        out.append("  all_goals (clear l4; try s_close)")
        pass
        out.append("")
    out.append("end\nend Babylon.Exec\n")
    return "\n".join(out)
part=sys.argv[1]; names=sys.argv[2].split(",")
open('/verif/lean/Babylon/Exec/Inv4Pres%s.lean'%part,'w').write(gen(names,part))
