import sys
# generator for Inv3 preservation theorems; each field: (name, statement, intro, K-hyps)
fields = {
 "a1": ("∀ id i, s'.loc id = .gq i → s'.g.itemAt i = some (.task id) ∧ s'.g.stAt i ≠ some .free", "intro id i hl", ["a1"]),
 "a2": ("∀ id k i, s'.loc id = .lq k i → (s'.l k).itemAt i = some (.task id) ∧ (s'.l k).stAt i ≠ some .free", "intro id k i hl", ["a2"]),
 "a3": ("∀ id t', s'.loc id = .hand t' → (s'.pc t').carry = some id ∨ (s'.pc t').exec = some id", "intro id t' hl", ["a3","b1","b2"]),
 "a4": ("∀ id, s'.loc id = .fin ↔ s'.done id = true", "intro id", ["a4","a5","b1","b2","b3c","b3e"]),
 "a5": ("∀ id, s'.loc id = .nowhere ↔ s'.known id = false", "intro id", ["a5","b1","b2","b3c","b3e"]),
 "b1": ("∀ (i id : Nat), s'.g.itemAt i = some (.task id) → s'.g.stAt i ≠ some .free → s'.loc id = .gq i", "intro i id hit0 hst0", ["b1","b2","b3c","b3e","a5"]),
 "b2": ("∀ (k i id : Nat), (s'.l k).itemAt i = some (.task id) → (s'.l k).stAt i ≠ some .free → s'.loc id = .lq k i", "intro k i id hit0 hst0", ["b1","b2","b3c","b3e","a5"]),
 "b3c": ("∀ t' id, (s'.pc t').carry = some id → s'.loc id = .hand t'", "intro t' id hcar", ["b1","b2","b3c","b3e","a5","a6"]),
 "b3e": ("∀ t' id, (s'.pc t').exec = some id → s'.loc id = .hand t'", "intro t' id hex", ["b1","b2","b3c","b3e","a5","a6"]),
 "a6": ("∀ t' a b, (s'.pc t').carry = some a → (s'.pc t').exec = some b → a ≠ b", "intro t' a b hcar hex", ["a6","b3c","b3e","a5","b1","b2"]),
 "f1": ("∀ id, s'.rejected id = true → s'.known id = false", "intro id hr", ["f1"]),
 "f2": ("∀ id, s'.accepted id = true → s'.known id = true ∧ s'.futValid id = true", "intro id ha", ["f2","x1"]),
 "f3": ("∀ id, s'.done id = true → s'.futReady id = true", "intro id hd", ["f3"]),
 "f4": ("∀ id, s'.futValid id = true → s'.accepted id = true", "intro id hv", ["f4"]),
 "f5": ("∀ id, s'.preStop id = true → s'.accepted id = true", "intro id hp", ["f5"]),
 "f6": ("∀ id, s'.viaLocal id = true → s'.known id = true", "intro id hv", ["f6","b3c","a5"]),
 "v2": ("∀ t' id, (s'.pc t').carry = some id → (s'.pc t').role ≠ .bal → s'.viaLocal id = false ∧ s'.accepted id = false", "intro t' id hcar hrole", ["v2","f2","f6","a5","b3c","a6","x1","t3c"]),
 "x1": ("∀ t' id, (s'.pc t').pushed = some id → s'.known id = true ∧ s'.accepted id = false ∧ (s'.gTicket id ≠ none ∨ s'.viaLocal id = true)", "intro t' id hpu", ["x1","x2","v2","t3c","b3c","a5","f2"]),
 "x2": ("∀ t1 t2 id, (s'.pc t1).pushed = some id → (s'.pc t2).pushed = some id → t1 = t2", "intro t1 t2 id h1 h2", ["x1","x2","v2","t3c","b3c"]),
 "t1": ("∀ id i, s'.loc id = .gq i → s'.gTicket id = some i", "intro id i hl", ["t1"]),
 "t2": ("∀ id i, s'.gTicket id = some i → i < s'.g.cells.length", "intro id i hg", ["t2"]),
 "t3a": ("∀ id, s'.loc id = .nowhere → s'.gTicket id = none", "intro id hl", ["t3a","b3c","b1","b2"]),
 "t3b": ("∀ id k i, s'.loc id = .lq k i → s'.gTicket id = none", "intro id k i hl", ["t3b","t3c","b3c"]),
 "t3c": ("∀ t' id, (s'.pc t').carry = some id → s'.gTicket id = none", "intro t' id hcar", ["t3a","t3b","t3c","b2","a5","b3c","a6"]),
}

SPECIAL = {
 "a1": """  case gTakeTask id0 k hpc =>
    clear l4
    dsimp only at hl ⊢
    by_cases hid : id = id0
    · subst hid
      have hi : s.g.cells.length = i := by simpa [upd] using hl
      subst hi
      have := Q.take_new s.g (.task id)
      exact ⟨this.1, by rw [this.2]; simp⟩
    · have hl' : s.loc id = .gq i := by simpa [upd, hid] using hl
      obtain ⟨h1, h2⟩ := a1 id i hl'
      have := Q.take_old s.g (.task id0) _ i h1
      exact ⟨this.1, by rw [this.2]; exact h2⟩
  case gTakeStop k hpc =>
    clear l4
    dsimp only at hl ⊢
    obtain ⟨h1, h2⟩ := a1 id i hl
    have := Q.take_old s.g .stop _ i h1
    exact ⟨this.1, by rw [this.2]; exact h2⟩
  case gTakeWakeup k hpc =>
    clear l4
    dsimp only at hl ⊢
    obtain ⟨h1, h2⟩ := a1 id i hl
    have := Q.take_old s.g .wakeup _ i h1
    exact ⟨this.1, by rw [this.2]; exact h2⟩""",
 "a2": """  case rLSt id0 cid p k0 hpc hown hp =>
    clear l4
    dsimp only at hl ⊢
    by_cases hid : id = cid
    · subst hid
      have hl2 : Loc.lq k0 p = Loc.lq k i := by simpa [upd] using hl
      injection hl2 with hk hi
      subst hk; subst hi
      have := Q.take_new (s.l k0) (.task id)
      simp only [upd, if_true]
      rw [hp]; exact ⟨this.1, by rw [this.2]; simp⟩
    · have hl' : s.loc id = .lq k i := by simpa [upd, hid] using hl
      obtain ⟨h1, h2⟩ := a2 id k i hl'
      by_cases hk : k = k0
      · subst hk
        simp only [upd, if_true]
        have := Q.take_old (s.l k) (.task cid) _ i h1
        exact ⟨this.1, by rw [this.2]; exact h2⟩
      · simp only [upd, hk, if_false]; exact ⟨h1, h2⟩""",
 "x1": """  case gTakeTask id0 k hpc =>
    clear l4
    dsimp only at hpu ⊢
    by_cases ht : t' = t
    · subst ht
      simp only [upd_same, Pc.pushed] at hpu
      rcases hpk _ _ hpc with hn | ⟨id1, hx, hp1⟩
      · rw [hn] at hpu; cases hpu
      · injection hx with hx
        rw [hp1] at hpu; injection hpu with hpu
        have hid : id = id0 := by rw [← hpu, ← hx]
        subst hid
        have hcar : (s.pc t').carry = some id := by rw [hpc]; rfl
        have hrole : (s.pc t').role ≠ .bal := by
          rw [hpc]; simp only [Pc.role]
          exact pushed_cont_role c _ k (hwfk _ _ hpc) id1 hp1
        have hv := v2 t' id hcar hrole
        have hk' : s.known id = true := by
          have := b3c t' id hcar
          cases hkn : s.known id with
          | true => rfl
          | false => rw [(a5 id).mpr hkn] at this; cases this
        exact ⟨hk', hv.2, Or.inl (by simp [upd])⟩
    · have hpu' : (s.pc t').pushed = some id := by simpa [upd, ht] using hpu
      obtain ⟨h1, h2, h3⟩ := x1 t' id hpu'
      refine ⟨h1, h2, ?_⟩
      by_cases hid : id = id0
      · left; simp [upd, hid]
      · simpa [upd, hid] using h3""",
 "x2": """  case gTakeTask id0 k hpc =>
    clear l4
    dsimp only at h1 h2
    have hcon : ∀ u, u ≠ t → (s.pc u).pushed = some id → (upd s.pc t (.gPub s.g.cells.length k) t).pushed = some id → False := by
      intro u hu hpu hpt
      simp only [upd_same, Pc.pushed] at hpt
      rcases hpk _ _ hpc with hn | ⟨id1, hx, hp1⟩
      · rw [hn] at hpt; cases hpt
      · injection hx with hx
        rw [hp1] at hpt; injection hpt with hpt
        have hid : id = id0 := by rw [← hpt, ← hx]
        subst hid
        have hcar : (s.pc t).carry = some id := by rw [hpc]; rfl
        have hrole : (s.pc t).role ≠ .bal := by
          rw [hpc]; simp only [Pc.role]
          exact pushed_cont_role c _ k (hwfk _ _ hpc) id1 hp1
        have hv := v2 t id hcar hrole
        have hg := t3c t id hcar
        obtain ⟨_, _, h3⟩ := x1 u id hpu
        rcases h3 with h3 | h3
        · exact h3 hg
        · rw [hv.1] at h3; cases h3
    by_cases ha : t1 = t <;> by_cases hb : t2 = t
    · rw [ha, hb]
    · exfalso; subst ha
      have h2' : (s.pc t2).pushed = some id := by simpa [upd, hb] using h2
      exact hcon t2 hb h2' h1
    · exfalso; subst hb
      have h1' : (s.pc t1).pushed = some id := by simpa [upd, ha] using h1
      exact hcon t1 ha h1' h2
    · have h1' : (s.pc t1).pushed = some id := by simpa [upd, ha] using h1
      have h2' : (s.pc t2).pushed = some id := by simpa [upd, hb] using h2
      exact x2 t1 t2 id h1' h2'""",
}

HEAD = '''/-
  `Inv3` (place of every task, futures, global tickets) is inductive — part %s.
-/
import Babylon.Exec.Inv3X
import Babylon.Exec.Inv2Pres

namespace Babylon.Exec
open Babylon.Core

/-- closing tactic for the place goals -/
macro "p_close" : tactic => `(tactic| (
  (try simp only [exec_proj, upd_same, Q.claim_fold, Q.bump_fold] at *)
  first
    | done
    | grind [upd, Pc.role, Pc.carry, Pc.exec, claimPc, dispatchPc, PopCtx.onEmpty, PopCtx.role, PopCtx.queue, afterLdRunS,
        afterLdRunB, afterJoinW, role_chk, popctx_role, Pc.pushed,
        Q.itemAt_setSt, Q.stAt_setSt, Q.itemAt_take, Q.stAt_take, Q.length_take, Q.length_setSt, Q.popIdx_setSt, Q.popIdx_take,
        Q.itemAt_claim, Q.stAt_claim, Q.popIdx_claim, Q.length_claim, Q.itemAt_bump, Q.stAt_bump, Q.popIdx_bump, Q.length_bump,
        Item.isTask, Q.itemAt_some_lt, Q.stAt_some_lt]))

section
variable {c : Cfg} {s s' : State} {t : Nat} {lb : Lbl}
'''
def gen(names, part, only_cases=None):
    out=[HEAD % part]
    for name in names:
        stmt, intro, ks = fields[name]
        out.append("set_option maxHeartbeats 4000000 in")
        out.append("theorem Inv3.step_%s (I : Inv1 c s) (J : Inv2 c s) (K : Inv3 c s) (X : Inv3X s) (h : StepCase c s t lb s') :\n    %s := by" % (name, stmt))
        out.append("  "+intro)
        for j in ks: out.append("  have %s := %s.%s" % (j, "X" if j in ("x1","x2") else "K", j))
        out.append("  have l4 := J.l4")
        out.append("  have hwf := I.wf t")
        out.append("  have hx1 := carry_dispatchPc")
        out.append("  have hx2 := carry_onEmpty")
        out.append("  have hx3 := exec_onEmpty")
        out.append("  have hx4 := carry_markChain c")
        out.append("  have hx5 := markChain_exec c")
        out.append("  have hx6 := carry_afterStore c")
        out.append("  have hx7 := exec_afterStore c")
        out.append("  have hx8 := carry_afterSubmit c")
        out.append("  have hx9 := exec_afterSubmit c")
        out.append("  have hx10 := carry_afterSize c")
        out.append("  have hx11 := exec_afterSize c")
        out.append("  have hx14 := role_afterSubmit c")
        out.append("  have hx15 := role_afterSize c")
        if name in ("x1","x2","f2","v2"):
            out.append("  have hy1 := pushed_dispatchPc")
            out.append("  have hy2 := pushed_onEmpty")
            out.append("  have hy3 := pushed_markChain c")
            out.append("  have hy4 := pushed_afterStore c")
            out.append("  have hy5 := pushed_afterSubmit c")
            out.append("  have hy6 := pushed_afterSize c")
            out.append("  have hy7 := pushed_afterLdRunS")
            out.append("  have hy8 := pushed_afterLdRunB")
            out.append("  have hy9 := pushed_afterJoinW c")
            out.append("  have hy10 := pushed_claimPc")
            out.append("  have hpk : ∀ x k, s.pc t = .gTake x k → k.pushed = none ∨ ∃ id, x = .task id ∧ k.pushed = some id := by")
            out.append("    intro x k hp; rw [hp] at hwf; exact pushed_cont c x k hwf")
            out.append("  have hx1t := X.x1 t")
            out.append("  have hwfk : ∀ x k, s.pc t = .gTake x k → ContOK c (some x) k := by")
            out.append("    intro x k hp; rw [hp] at hwf; exact hwf")
        out.append("  have hk : ∀ p k, s.pc t = .gPub p k → k.carry = none := by")
        out.append("    intro p k hp; rw [hp] at hwf; exact carry_cont c none k hwf")
        if "b3c" in ks: out.append("  have hb3c := b3c t")
        if "b3e" in ks: out.append("  have hb3e := b3e t")
        out.append("  clear I J K X hwf")
        out.append("  cases h")
        out.append("  case popClaim ctx i0 k0 nr cl hpc hq hi hcell hfull =>")
        out.append("    have hit := (isTask_iff cl.item).mp (l4 k0 i0 cl hcell)")
        out.append("    obtain ⟨idx, hidx⟩ := hit")
        out.append("    have hc1 := Q.itemAt_eq _ _ _ hcell")
        out.append("    have hc2 := Q.stAt_eq _ _ _ hcell")
        out.append("    have hc3 : i0 < (s.l k0).cells.length := Q.stAt_some_lt _ _ _ hc2")
        out.append("    rw [hidx] at hc1; rw [hfull] at hc2")
        if "b2" in ks: out.append("    have hb2 : s.loc idx = .lq k0 i0 := b2 k0 i0 idx hc1 (by rw [hc2]; simp)")
        out.append("    clear hcell l4")
        out.append("    cases ctx <;> simp only [hidx] at * <;> p_close")
        out.append("  case wRecv i0 cl hpc hcell hfull =>")
        out.append("    have hc1 := Q.itemAt_eq _ _ _ hcell")
        out.append("    have hc2 := Q.stAt_eq _ _ _ hcell")
        out.append("    have hc3 : i0 < s.g.cells.length := Q.stAt_some_lt _ _ _ hc2")
        out.append("    rw [hfull] at hc2")
        if "b1" in ks: out.append("    have hb1 : ∀ idx, cl.item = .task idx → s.loc idx = .gq i0 := by\n      intro idx hx; rw [hx] at hc1; exact b1 i0 idx hc1 (by rw [hc2]; simp)")
        out.append("    clear hcell l4")
        out.append("    cases hx : cl.item <;> simp only [hx] at * <;> p_close")
        if only_cases:
            out.append("  all_goals sorry")
        else:
            out.append("  case gPublish p k hpc hfree hst =>")
            out.append("    have hc3 : p < s.g.cells.length := Q.stAt_some_lt _ _ _ hst")
            out.append("    clear l4; p_close")
            out.append("  case rLPub id0 cid p k0 hpc hown hfree hst =>")
            out.append("    have hc3 : p < (s.l k0).cells.length := Q.stAt_some_lt _ _ _ hst")
            out.append("    clear l4; p_close")
            if name in SPECIAL: out.append(SPECIAL[name])
            out.append("  all_goals (clear l4; try p_close)")
            pass
        out.append("")
    out.append("end\nend Babylon.Exec\n")
    return "\n".join(out)
if __name__=="__main__":
    part=sys.argv[1]; names=sys.argv[2].split(","); only=len(sys.argv)>3
    open('/verif/lean/Babylon/Exec/Inv3Pres%s.lean'%part,'w').write(gen(names,part,only))
