fields = {
 "s1": ("∀ w id cid a k, s'.pc w = .rSz1 id cid a → s'.own w = some k → a ≤ (s'.l k).popIdx", "intro w id cid a k hp ho"),
 "s2": ("∀ w id cid k, s'.pc w = .rLLd id cid → s'.own w = some k → (s'.l k).cells.length < (s'.l k).popIdx + c.L", "intro w id cid k hp ho"),
 "s3": ("∀ w id cid p k, s'.pc w = .rLSt id cid p → s'.own w = some k → (s'.l k).cells.length < (s'.l k).popIdx + c.L", "intro w id cid p k hp ho"),
 "s4": ("∀ w id cid p k, s'.pc w = .rLPub id cid p → s'.own w = some k → p < (s'.l k).popIdx + c.L", "intro w id cid p k hp ho"),
}
out=['''/-
  `Inv5` (size bound of the local queues) is inductive.
-/
import Babylon.Exec.Inv5

namespace Babylon.Exec
open Babylon.Core

macro "z_close" : tactic => `(tactic| (
  (try simp only [exec_proj, upd_same, Q.claim_fold, Q.bump_fold] at *)
  first
    | done
    | grind [upd, Pc.role, Pc.notR, PopCtx.queue, afterSize, role_chk, popctx_role,
        Q.length_take, Q.length_setSt, Q.popIdx_setSt, Q.popIdx_take, Q.popIdx_claim, Q.length_claim]))

section
variable {c : Cfg} {s s' : State} {t : Nat} {lb : Lbl}
''']
for name,(stmt,intro) in fields.items():
    out.append("set_option maxHeartbeats 4000000 in")
    out.append("theorem Inv5.step_%s (I : Inv1 c s) (J : Inv2 c s) (Z : Inv5 c s) (h : StepCase c s t lb s') :\n    %s := by" % (name, stmt))
    out.append("  "+intro)
    for j in ["s1","s2","s3","s4"]: out.append("  have %s := Z.%s" % (j,j))
    for j in ["o1","o2","o3"]: out.append("  have %s := I.%s" % (j,j))
    out.append("  have l0 := J.l0")
    out.append("  have hwf := I.wf t")
    out.append("  have hn1 := notR_dispatchPc")
    out.append("  have hn2 := notR_claimPc")
    out.append("  have hn3 := notR_onEmpty")
    out.append("  have hn4 := notR_markChain c")
    out.append("  have hn5 := notR_afterStore c")
    out.append("  have hn6 := notR_afterSubmit c")
    out.append("  have hn7 := notR_afterLdRunS")
    out.append("  have hn8 := notR_afterLdRunB")
    out.append("  have hn9 := notR_afterJoinW c")
    out.append("  have hk : ∀ p k, s.pc t = .gPub p k → k.notR := by")
    out.append("    intro p k hp; rw [hp] at hwf; exact notR_cont c none k hwf")
    out.append("  have hrole : ∀ u, s.pc u = .rLSt id cid 0 → True := fun _ _ => trivial")
    out.append("  clear I J Z hwf hrole")
    out.append("  cases h")
    out.append("  all_goals (try z_close)")
    pass
    out.append("")
out.append("end\nend Babylon.Exec\n")
open('/verif/lean/Babylon/Exec/Inv5Pres.lean','w').write("\n".join(out))
