fields = {
 "u1": ("∀ id, s'.loc id = .nowhere → s'.runs id = 0", "intro id hl"),
 "u2": ("∀ id i, s'.loc id = .gq i → s'.runs id = 0", "intro id i hl"),
 "u3": ("∀ id k i, s'.loc id = .lq k i → s'.runs id = 0", "intro id k i hl"),
 "u4": ("∀ id, s'.loc id = .fin → s'.runs id = 1", "intro id hl"),
 "u5": ("∀ id t', s'.loc id = .hand t' → (s'.pc t').exec = some id → s'.pc t' ≠ .wPre id → s'.runs id = 1", "intro id t' hl hex hne"),
 "u6": ("∀ id t', s'.loc id = .hand t' → ((s'.pc t').exec ≠ some id ∨ s'.pc t' = .wPre id) → s'.runs id = 0", "intro id t' hl hor"),
}
out=['''/-
  Run counters: a task's function has been entered exactly once iff the task is running or finished,
  and never otherwise.  Inductive together with `Inv3`.
-/
import Babylon.Exec.Inv3
import Babylon.Exec.Inv2Pres

namespace Babylon.Exec
open Babylon.Core

structure Inv3U (s : State) : Prop where
  u1 : ∀ id, s.loc id = .nowhere → s.runs id = 0
  u2 : ∀ id i, s.loc id = .gq i → s.runs id = 0
  u3 : ∀ id k i, s.loc id = .lq k i → s.runs id = 0
  u4 : ∀ id, s.loc id = .fin → s.runs id = 1
  u5 : ∀ id t, s.loc id = .hand t → (s.pc t).exec = some id → s.pc t ≠ .wPre id → s.runs id = 1
  u6 : ∀ id t, s.loc id = .hand t → ((s.pc t).exec ≠ some id ∨ s.pc t = .wPre id) → s.runs id = 0

theorem Inv3U.init (c : Cfg) : Inv3U (State.init c) := by
  refine ⟨?_, ?_, ?_, ?_, ?_, ?_⟩ <;> intros <;> simp_all [State.init]

macro "u_close" : tactic => `(tactic| (
  (try simp only [exec_proj, upd_same, Q.claim_fold, Q.bump_fold] at *)
  first
    | done
    | grind [upd, Pc.role, Pc.carry, Pc.exec, claimPc, dispatchPc, PopCtx.onEmpty, afterLdRunS,
        afterLdRunB, afterJoinW]))

section
variable {c : Cfg} {s s' : State} {t : Nat} {lb : Lbl}
''']
for name,(stmt,intro) in fields.items():
    out.append("set_option maxHeartbeats 4000000 in")
    out.append("theorem Inv3U.step_%s (I : Inv1 c s) (J : Inv2 c s) (K : Inv3 c s) (U : Inv3U s) (h : StepCase c s t lb s') :\n    %s := by" % (name, stmt))
    out.append("  "+intro)
    for j in ["u1","u2","u3","u4","u5","u6"]: out.append("  have %s := U.%s" % (j,j))
    for j in ["b1","b2","b3c","b3e","a3","a6","a5"]: out.append("  have %s := K.%s" % (j,j))
    out.append("  have l4 := J.l4")
    out.append("  have hwf := I.wf t")
    out.append("  have hx1 := carry_dispatchPc")
    out.append("  have hx2 := carry_onEmpty")
    out.append("  have hx3 := exec_onEmpty")
    out.append("  have hx4 := carry_markChain c")
    out.append("  have hx5 := markChain_exec c")
    out.append("  have hx6 := carry_afterStore c")
    out.append("  have hx7 := exec_afterStore c")
    out.append("  have hx8 := carry_afterSubmit c")
    out.append("  have hx9 := exec_afterSubmit c")
    out.append("  have hx10 := carry_afterSize c")
    out.append("  have hx11 := exec_afterSize c")
    out.append("  have hx12 := ne_wPre_afterSubmit c")
    out.append("  have hx13 := ne_wPre_afterSize c")
    out.append("  have hx16 := markChain_ne c")
    out.append("  have hk : ∀ p k, s.pc t = .gPub p k → k.carry = none ∧ ∀ y, k ≠ .wPre y := by")
    out.append("    intro p k hp; rw [hp] at hwf; exact ⟨carry_cont c none k hwf, cont_ne_wPre c none k hwf⟩")
    out.append("  have hk2 : ∀ x k, s.pc t = .gTake x k → ∀ y, k ≠ .wPre y := by")
    out.append("    intro x k hp; rw [hp] at hwf; exact cont_ne_wPre c _ k hwf")
    out.append("  have hb3c := b3c t")
    out.append("  have hb3e := b3e t")
    out.append("  have ha3t := a3")
    out.append("  clear I J K U hwf")
    out.append("  cases h")
    out.append("  case popClaim ctx i0 k0 nr cl hpc hq hi hcell hfull =>")
    out.append("    have hit := (isTask_iff cl.item).mp (l4 k0 i0 cl hcell)")
    out.append("    obtain ⟨idx, hidx⟩ := hit")
    out.append("    have hc1 := Q.itemAt_eq _ _ _ hcell")
    out.append("    have hc2 := Q.stAt_eq _ _ _ hcell")
    out.append("    rw [hidx] at hc1; rw [hfull] at hc2")
    out.append("    have hb2 : s.loc idx = .lq k0 i0 := b2 k0 i0 idx hc1 (by rw [hc2]; simp)")
    out.append("    clear hcell l4 b1 b2")
    out.append("    cases ctx <;> simp only [hidx] at * <;> u_close")
    out.append("  case wRecv i0 cl hpc hcell hfull =>")
    out.append("    have hc1 := Q.itemAt_eq _ _ _ hcell")
    out.append("    have hc2 := Q.stAt_eq _ _ _ hcell")
    out.append("    rw [hfull] at hc2")
    out.append("    have hb1 : ∀ idx, cl.item = .task idx → s.loc idx = .gq i0 := by\n      intro idx hx; rw [hx] at hc1; exact b1 i0 idx hc1 (by rw [hc2]; simp)")
    out.append("    clear hcell l4 b1 b2")
    out.append("    cases hx : cl.item <;> simp only [hx] at * <;> u_close")
    out.append("  all_goals (clear l4 b1 b2; try u_close)")
    pass
    out.append("")
out.append("end\nend Babylon.Exec\n")
open('/verif/lean/Babylon/Exec/Inv3U.lean','w').write("\n".join(out))
