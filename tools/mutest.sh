#!/bin/bash
# usage: tools/mutest.sh <Cxx> <patch.diff> [tier]
# Runs the check of one property against a scratch worktree of /repo with the patch applied, from a
# private copy of /verif (so neither /repo, nor /verif's generated files, caches and evidence are
# disturbed while other work is going on).  Prints the VIOLATION / done lines and the first replay.
set -u
P=$1; PATCH=$(readlink -f "$2"); TIER=${3:-quick}
WT=/tmp/mutest-wt-$$; VC=/tmp/mutest-verif-${MUTEST_SLOT:-0}
git -C /repo worktree add -q --detach "$WT" HEAD || exit 2
( cd "$WT" && git apply "$PATCH" ) || { echo "patch does not apply"; git -C /repo worktree remove --force "$WT"; exit 2; }
mkdir -p "$VC"
rsync -a --delete --exclude '.git' --exclude 'build/replay' --exclude 'evidence' /verif/ "$VC"/
mkdir -p "$VC/evidence"
mkdir -p /tmp/mutest-logs
LOG=/tmp/mutest-logs/$P-$(echo "$PATCH" | md5sum | cut -c1-8).log
( cd "$VC" && VERIF_REPO="$WT" timeout 3000 ./check "$P" --tier "$TIER" > "$LOG" 2>&1 )
echo "log: $LOG ($PATCH)"
grep -E "^VIOLATION|done:|Traceback" "$LOG" | head -8
grep -c "^KNOWN-FINDING" "$LOG" | sed 's/^/known-finding lines: /' 
for f in "$VC"/build/replay/$P-*.txt; do [ -f "$f" ] && { echo "--- $f"; head -25 "$f" | cut -c1-220; break; }; done
git -C /repo worktree remove --force "$WT"
