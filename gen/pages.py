"""Translator for the page allocators / object pool (C17): layout constants, atomic skeletons with
memory orders of the queue paths the allocators use (compensating pop_n / push_n, try_ paths, single
deal), call skeletons of the allocators and the pool, the template flags / constants at each internal
call site and the shape of the compensating decision  ->  lean/Babylon/Gen/Pages.lean"""
from .common import *

QH = "babylon/concurrent/bounded_queue.h"
QHPP = "babylon/concurrent/bounded_queue.hpp"
PA = "babylon/reusable/page_allocator.cpp"
PAH = "babylon/reusable/page_allocator.h"
OPH = "babylon/concurrent/object_pool.h"
OPHPP = "babylon/concurrent/object_pool.hpp"
Q = "::babylon::ConcurrentBoundedQueue<void*>"
QO = "::babylon::ConcurrentBoundedQueue<::std::unique_ptr<int>>"


def _need(rx, txt, what):
    m = re.search(rx, txt, flags=re.S)
    if not m:
        raise ExtractError("%s not found (source shape changed)" % what)
    return m


def _atoms(sites):
    return [s for s in sites if not s.startswith(".call")]


def _flags(s):
    """'true, false' -> Lean list of Bool"""
    out = []
    for a in s.split(","):
        a = a.strip()
        if a not in ("true", "false"):
            raise ExtractError("unexpected template flag %r" % a)
        out.append(a)
    return "[" + ", ".join(out) + "]"


def generate():
    c = probe([QH, "memory"], {
        "slotStride": "sizeof(%s::Slot)" % Q,
        "futexOffset": "offsetof(%s::Slot, futex)" % Q,
        "slotStrideObj": "sizeof(%s::Slot)" % QO,
        "futexOffsetObj": "offsetof(%s::Slot, futex)" % QO,
        "versionBits": "8 * sizeof(decltype(((%s::SlotFutex*)nullptr)->version(::std::memory_order_relaxed)))" % Q,
        "futexWordBits": "8 * sizeof(uint32_t)",
        "defaultCapacity": "%s().capacity()" % Q,
        "ceil3": "%s(3).capacity()" % Q,
        "ceil0": "%s(0).capacity()" % Q,
    })
    items = [nat_def(k, v) for k, v in c.items()]
    items.append(nat_def("verMod", 2 ** c["versionBits"]))

    q = resolve_ifs(QHPP)
    qf = lambda name, nth=0: function_body(q, r"ConcurrentBoundedQueue<T, S>::" + name + r"\s*\(", nth)
    sf = lambda name: function_body(q, r"SlotFutex::" + name + r"\s*\(")
    sk = {}
    calls_q = [r"deal_n_continuously", r"try_deal_n_continuously", r"try_pop_n", r"try_push_n", r"S::yield", r"callback", r"reverse_callback",
               r"wait_until_reach_expected_version", r"set_version_and_wakeup_waiters", r"set_version", r"wakeup_waiters", r"version", r"deal", r"try_deal"]
    # the compensating overloads are the last definitions of push_n / pop_n / deal_n_continuously
    def last(name):
        n = 0
        while True:
            try:
                qf(name, n)
                n += 1
            except ExtractError:
                break
        if n == 0:
            raise ExtractError(name + " not found")
        return qf(name, n - 1)
    comp = last("deal_n_continuously")
    if "reverse_callback" not in comp:
        raise ExtractError("compensating deal_n_continuously not found")
    sk["comp_deal_n"] = skeleton(comp, [r"try_pop_n", r"try_push_n", r"S::yield", r"reverse_callback", r"callback", r"version", r"set_version"])
    sk["comp_push_n"] = skeleton(last("push_n"), [r"deal_n_continuously"])
    sk["comp_pop_n"] = skeleton(last("pop_n"), [r"deal_n_continuously"])
    sk["try_deal_n"] = skeleton(qf("try_deal_n_continuously"), [r"callback", r"version", r"set_version", r"wakeup_waiters"])
    sk["try_push_n"] = skeleton(qf("try_push_n"), [r"try_deal_n_continuously"])
    sk["try_pop_n"] = skeleton(qf("try_pop_n"), [r"try_deal_n_continuously"])
    sk["deal"] = skeleton(qf("deal"), [r"wait_until_reach_expected_version", r"callback", r"set_version_and_wakeup_waiters", r"set_version"])
    sk["try_deal"] = skeleton(qf("try_deal"), [r"callback", r"version", r"set_version_and_wakeup_waiters", r"set_version"])
    sk["size"] = skeleton(qf("size"))
    sk["sf_version"] = skeleton(sf("version"))
    sk["sf_set_version"] = skeleton(sf("set_version"))
    sk["sf_set_version_and_wakeup"] = skeleton(sf("set_version_and_wakeup_waiters"), [r"wake_all"])
    sk["sf_wait"] = skeleton(sf("wait_until_reach_expected_version"), [r"block_until_reach_expected_version_slow", r"spin_until_reach_expected_version_slow"])
    # single-element push/pop with explicit flags (the overloads taking a callback): ticket fetch_add
    push1 = None
    for n in range(8):
        try:
            b = qf("push", n)
        except ExtractError:
            break
        if "fetch_add" in b:
            push1 = b
    pop1 = None
    for n in range(8):
        try:
            b = qf("pop", n)
        except ExtractError:
            break
        if "fetch_add" in b:
            pop1 = b
    if push1 is None or pop1 is None:
        raise ExtractError("single push/pop with fetch_add not found")
    sk["push1"] = skeleton(push1, [r"deal"])
    sk["pop1"] = skeleton(pop1, [r"deal"])

    # memory orders come from SlotFutex call sites: record the order argument passed at each call
    def order_args(body, callee):
        out = []
        for m in re.finditer(callee + r"\s*(?:<[^;(){}]*?>)?\s*\(", strip_comments(body)):
            args, _ = common_call_args(strip_comments(body), m.end() - 1)
            mo = re.findall(r"memory_order_(\w+)", args)
            out.append(ORD[mo[-1]] if mo else "none")
        return out

    cb = strip_comments(comp)
    # decision of the compensating loop
    m = _need(r"auto\s+need_index\s*=\s*PUSH_OR_POP\s*\?\s*_next_pop_index\.load\(\s*::std::memory_order_(\w+)\s*\)\s*\+\s*capacity\(\)\s*:\s*_next_push_index\.load\(\s*::std::memory_order_(\w+)\s*\)\s*;", cb, "need_index expression")
    items.append("def ordOppPush : Ord := .%s" % ORD[m.group(1)])
    items.append("def ordOppPop : Ord := .%s" % ORD[m.group(2)])
    m = _need(r"if\s*\(\s*need_index\s*(<=|<|>=|>|==)\s*index\s*\+\s*num\s*\)", cb, "compensating decision")
    items.append('def compDecisionOp : String := "%s"' % m.group(1))
    m = _need(r"try_pop_n<([^>]*)>\s*\(\s*::std::forward<RC>\(reverse_callback\)\s*,\s*(\d+)\s*\)", cb, "compensating try_pop_n")
    items.append("def compTryPopFlags : List Bool := %s" % _flags(m.group(1)))
    items.append(nat_def("compTryPopNum", int(m.group(2))))
    m = _need(r"try_push_n<([^>]*)>\s*\(\s*::std::forward<RC>\(reverse_callback\)\s*,\s*(\d+)\s*\)", cb, "compensating try_push_n")
    items.append("def compTryPushFlags : List Bool := %s" % _flags(m.group(1)))
    items.append(nat_def("compTryPushNum", int(m.group(2))))
    m = _need(r"expected_version\s*!=\s*_slots\.futex\(slot_index \+ i\)\.version\(\s*::std::memory_order_(\w+)\s*\)", cb, "compensating version check")
    items.append("def ordCompVer : Ord := .%s" % ORD[m.group(1)])
    so = order_args(comp, r"\.set_version")
    if len(so) != 1:
        raise ExtractError("compensating deal_n_continuously: set_version sites")
    items.append("def ordCompSetVer : Ord := .%s" % so[0])
    # ring split: next_round_begin_index = (index + _slot_mask + 1) & ~_slot_mask
    for nm in ("push_n", "pop_n"):
        b = strip_comments(last(nm))
        _need(r"next_round_begin_index\s*=\s*\(index \+ _slot_mask \+ 1\)\s*&\s*~_slot_mask", b, nm + " ring split")
        _need(r"if\s*\(\s*index \+ num\s*<=\s*next_round_begin_index\s*\)", b, nm + " ring split test")
    tp = strip_comments(qf("try_pop_n"))
    _need(r"next_round_begin_index\s*=\s*\(index \+ _slot_mask \+ 1\)\s*&\s*~_slot_mask", tp, "try_pop_n ring split")
    _need(r"if\s*\(\s*poped\s*<\s*continuous_num\s*\)\s*\{\s*return poped;", tp, "try_pop_n early return")
    items.append(nat_def("ringSplitChecked", 1))
    # versions
    pv = strip_comments(qf("push_version_for_index"))
    _need(r"return\s*\(index >> _slot_bits\)\s*<<\s*1\s*;", pv, "push_version_for_index")
    pp = strip_comments(qf("pop_version_for_index"))
    _need(r"return\s*push_version_for_index\(index\)\s*\+\s*1\s*;", pp, "pop_version_for_index")
    items.append(nat_def("pushVersionFactor", 2))
    items.append(nat_def("popVersionOffset", 1))
    # try_deal_n_continuously orders
    td = qf("try_deal_n_continuously")
    tdc = strip_comments(td)
    m = _need(r"expected_version\s*!=\s*futex\.version\(\s*::std::memory_order_(\w+)\s*\)", tdc, "try_deal_n version check")
    items.append("def ordTryNVer : Ord := .%s" % ORD[m.group(1)])
    so = order_args(td, r"\.set_version")
    items.append("def ordTryNSetVer : Ord := .%s" % so[0])
    a = _atoms(sk["try_deal_n"])
    items.append("def ordTryNCas : Ord := %s" % a[0].split()[-2])
    items.append("def ordTryNCasFail : Ord := %s" % a[0].split()[-1])
    items.append("def ordTryNStoreIdx : Ord := %s" % a[1].split()[-1])
    for nm in ("try_push_n", "try_pop_n"):
        items.append("def ord_%s_idx : Ord := %s" % (nm, _atoms(sk[nm])[0].split()[-1]))
    items.append("def ordTicketPushN : Ord := %s" % _atoms(sk["comp_push_n"])[0].split()[-1])
    items.append("def ordTicketPopN : Ord := %s" % _atoms(sk["comp_pop_n"])[0].split()[-1])
    # single deal / try_deal
    d = qf("deal")
    wo = order_args(d, r"wait_until_reach_expected_version")
    items.append("def ordDealWait : Ord := .%s" % wo[0])
    so = order_args(d, r"\.set_version")
    items.append("def ordDealSetVer : Ord := .%s" % so[0])
    items.append("def ordDealXchg : Ord := %s" % _atoms(sk["sf_set_version_and_wakeup"])[0].split()[-1])
    items.append("def ordTicket1Push : Ord := %s" % _atoms(sk["push1"])[0].split()[-1])
    items.append("def ordTicket1Pop : Ord := %s" % _atoms(sk["pop1"])[0].split()[-1])
    t1 = qf("try_deal")
    t1c = strip_comments(t1)
    m = _need(r"expected_version\s*!=\s*futex\.version\(\s*::std::memory_order_(\w+)\s*\)", t1c, "try_deal version check")
    items.append("def ordTry1Ver : Ord := .%s" % ORD[m.group(1)])
    a = _atoms(sk["try_deal"])
    items.append("def ordTry1Idx : Ord := %s" % a[0].split()[-1])
    items.append("def ordTry1Idx2 : Ord := %s" % a[1].split()[-1])
    items.append("def ordTry1Cas : Ord := %s" % a[2].split()[-2])
    items.append("def ordTry1CasFail : Ord := %s" % a[2].split()[-1])
    so = order_args(t1, r"\.set_version")
    items.append("def ordTry1SetVer : Ord := .%s" % so[0])
    a = _atoms(sk["size"])
    items.append("def ordSizePop : Ord := %s" % a[0].split()[-1])
    items.append("def ordSizePush : Ord := %s" % a[1].split()[-1])
    if '"_next_pop_index"' not in a[0] or '"_next_push_index"' not in a[1]:
        raise ExtractError("size(): load order of the two counters changed")
    _need(r"return\s*next_push_index\s*>\s*next_pop_index\s*\?\s*next_push_index\s*-\s*next_pop_index\s*:\s*0\s*;", strip_comments(qf("size")), "size() clamp")

    # ---- page allocators
    pa = resolve_ifs(PA)
    pf = lambda cls, name, nth=0: function_body(pa, cls + r"::" + name + r"\s*\(", nth)
    pcalls = [r"pop_n", r"push_n", r"try_pop_n", r"_upstream->allocate", r"_upstream->deallocate", r"_cache_hit\s*<<", r"_allocate_page_num\s*<<",
              r"_cached_allocator\.allocate", r"_cached_allocator\.deallocate", r"_cache\.local", r"_cache\.for_each", r"::std::copy_n", r"::std::copy"]
    sk["cached_allocate"] = skeleton(pf("CachedPageAllocator", "allocate"), pcalls)
    sk["cached_deallocate"] = skeleton(pf("CachedPageAllocator", "deallocate"), pcalls)
    sk["cached_dtor"] = skeleton(pf("CachedPageAllocator", "~CachedPageAllocator"), pcalls)
    sk["batch_allocate1"] = skeleton(pf("BatchPageAllocator", "allocate", 0), pcalls)
    sk["batch_allocate_n"] = skeleton(pf("BatchPageAllocator", "allocate", 1), pcalls + [r"allocate"])
    sk["batch_deallocate"] = skeleton(pf("BatchPageAllocator", "deallocate"), pcalls)
    sk["batch_dtor"] = skeleton(pf("BatchPageAllocator", "~BatchPageAllocator"), pcalls)
    sk["counting_allocate1"] = skeleton(pf("CountingPageAllocator", "allocate", 0), pcalls)
    sk["counting_allocate_n"] = skeleton(pf("CountingPageAllocator", "allocate", 1), pcalls)
    sk["counting_deallocate1"] = skeleton(pf("CountingPageAllocator", "deallocate", 0), pcalls)
    sk["counting_deallocate_n"] = skeleton(pf("CountingPageAllocator", "deallocate", 1), pcalls)
    sk["heap_allocate"] = skeleton(pf("PageHeap", "allocate"), pcalls)
    sk["heap_deallocate"] = skeleton(pf("PageHeap", "deallocate"), pcalls)
    ca = strip_comments(pf("CachedPageAllocator", "allocate"))
    _need(r"need_pop_num\s*=\s*::std::min\(num,\s*_free_pages\.capacity\(\)\)", ca, "allocate: need_pop_num")
    _need(r"hit_num\s*=\s*::std::max<ssize_t>\(hit_num - \(end - iter\),\s*0\)", ca, "allocate: hit clamp")
    _need(r"_cache_hit\s*<<\s*ConcurrentSummer::Summary\s*\{hit_num,\s*num\}", ca, "allocate: hit summary")
    _need(r"while\s*\(pages < pages_end\)\s*\{\s*\*pages\+\+\s*=\s*_upstream->allocate\(\);", ca, "allocate: remainder loop")
    cd = strip_comments(pf("CachedPageAllocator", "deallocate"))
    _need(r"need_push_num\s*=\s*::std::min<size_t>\(num,\s*_free_pages\.capacity\(\)\)", cd, "deallocate: need_push_num")
    _need(r"while\s*\(pages < pages_end\)\s*\{\s*_upstream->deallocate\(\*pages\+\+\);", cd, "deallocate: remainder loop")
    ct = strip_comments(pf("CachedPageAllocator", "~CachedPageAllocator"))
    m = _need(r"_free_pages\.try_pop_n<([^>]*)>\(", ct, "destructor try_pop_n")
    items.append("def dtorTryPopFlags : List Bool := %s" % _flags(m.group(1)))
    _need(r",\s*_free_pages\.capacity\(\)\s*\)\s*;", ct, "destructor pops capacity()")
    ba = strip_comments(pf("BatchPageAllocator", "allocate", 0))
    # (an optional lazy `buffer.resize(_batch_size)` in front of the refill does not change the token moves)
    _need(r"if\s*\(local\.next_page < local\.buffer\.end\(\)\)\s*\{\s*return \*local\.next_page\+\+;\s*\}\s*"
          r"(?:if\s*\([^{};]*local\.buffer\.size\(\)\s*!=\s*_batch_size[^{};]*\)\s*\{\s*local\.buffer\.resize\(_batch_size\);\s*\}\s*)?"
          r"_upstream->allocate\(local\.buffer\.data\(\),\s*_batch_size\);\s*local\.next_page = local\.buffer\.begin\(\) \+ 1;\s*return \*local\.buffer\.data\(\);",
          ba, "BatchPageAllocator::allocate shape")
    items.append(nat_def("batchShapeChecked", 1))
    # repaired shape (fix 57c94b4): a slot built by the default constructor gets its buffer before the first refill
    items.append(nat_def("batchLazyBuffer", 1 if re.search(r"if\s*\([^{};]*local\.buffer\.size\(\)\s*!=\s*_batch_size[^{};]*\)\s*\{\s*local\.buffer\.resize\(_batch_size\);", ba) else 0))
    # counter update relative to the forwarded call: Counting counts BEFORE, PageHeap AFTER
    def count_pos(body, callee, what):
        b = strip_comments(body)
        i, j = b.find("_allocate_page_num <<"), b.find(callee)
        if i < 0 or j < 0:
            raise ExtractError(what + ": counter update / forwarded call not found")
        return 1 if i < j else 0
    for nm, nth in (("allocate", 0), ("allocate", 1), ("deallocate", 0), ("deallocate", 1)):
        if count_pos(pf("CountingPageAllocator", nm, nth), "_upstream->" + nm, "Counting " + nm) != 1:
            raise ExtractError("CountingPageAllocator::%s no longer counts before forwarding" % nm)
    items.append(nat_def("countingCountsBefore", 1))
    for nm in ("allocate", "deallocate"):
        if count_pos(pf("PageHeap", nm), "_cached_allocator." + nm, "PageHeap " + nm) != 0:
            raise ExtractError("PageHeap::%s no longer counts after forwarding" % nm)
    items.append(nat_def("heapCountsAfter", 1))
    _need(r"_allocate_page_num << num;", strip_comments(pf("PageHeap", "allocate")), "PageHeap::allocate count")
    _need(r"_allocate_page_num << -num;", strip_comments(pf("PageHeap", "deallocate")), "PageHeap::deallocate count")
    _need(r"_allocate_page_num << num;", strip_comments(pf("CountingPageAllocator", "allocate", 1)), "Counting::allocate count")
    _need(r"_allocate_page_num << -num;", strip_comments(pf("CountingPageAllocator", "deallocate", 1)), "Counting::deallocate count")
    _need(r"::std::max<ssize_t>\(0,\s*_allocate_page_num\.value\(\)\)", strip_comments(pf("CountingPageAllocator", "allocated_page_num")), "allocated_page_num clamp")
    items.append(nat_def("countDeltaChecked", 1))
    ph = strip_comments(pf("PageHeap", "PageHeap", 0))
    m = _need(r"set_free_page_capacity\((\d+)\)", ph, "PageHeap default capacity")
    items.append(nat_def("pageHeapDefaultCapacity", int(m.group(1))))
    pah = read(PAH)
    m = _need(r"size_t\s+_batch_size\s*\{(\d+)\}", pah, "default batch size")
    items.append(nat_def("defaultBatchSize", int(m.group(1))))

    # ---- object pool
    op = resolve_ifs(OPHPP)
    of = lambda name, nth=0: function_body(op, r"ObjectPool<T>::" + name + r"\s*\(", nth)
    ocalls = [r"_free_objects\.template pop_n", r"_free_objects\.template push_n", r"_free_objects\.template pop", r"_free_objects\.template try_pop",
              r"_free_objects\.template push", r"_free_objects\.size", r"_object_recycler", r"_object_creator", r"push"]
    sk["pool_pop"] = skeleton(of("pop"), ocalls[:-1])
    sk["pool_try_pop"] = skeleton(of("try_pop"), ocalls[:-1])
    sk["pool_push"] = skeleton(of("push", 0), ocalls[:-1])
    sk["pool_push_deleter"] = skeleton(of("push", 1), [r"push"])
    sk["pool_deleter_call"] = skeleton(function_body(op, r"ObjectPool<T>::Deleter::operator\(\)\s*\("), [r"_pool->push"])
    # repaired shape (fix f852e35): Deleter::operator=(Deleter&&) returns *this
    da = strip_comments(function_body(op, r"ObjectPool<T>::Deleter::operator=\s*\("))
    items.append(nat_def("deleterAssignReturnsThis", 1 if re.search(r"swap\(_pool,\s*other\._pool\);\s*return\s*\*this\s*;", da) else 0))
    po = strip_comments(of("pop"))
    m = _need(r"_free_objects\.template pop<([^>]*)>\(", po, "pool pop flags")
    items.append("def poolPopFlags : List Bool := %s" % _flags(m.group(1)))
    _need(r"\},\s*1\);\s*\}\s*else", po, "pool pop_n num = 1")
    tpo = strip_comments(of("try_pop"))
    m = _need(r"_free_objects\.template try_pop<([^>]*)>\(", tpo, "pool try_pop flags")
    items.append("def poolTryPopFlags : List Bool := %s" % _flags(m.group(1)))
    pu = strip_comments(of("push", 0))
    m = _need(r"_free_objects\.template push<([^>]*)>\(", pu, "pool push flags")
    items.append("def poolPushFlags : List Bool := %s" % _flags(m.group(1)))
    _need(r"_object_recycler\(\*object\);\s*if\s*\(_object_creator\)\s*\{\s*if\s*\([^{};]*?_capacity <= _free_objects\.size\(\)[^{};]*?\)\s*\{\s*return;", pu, "pool push gate")
    rc = strip_comments(of("reserve_and_clear"))
    m = _need(r"_free_objects\.reserve_and_clear\(capacity \* (\d+)\)", rc, "pool queue capacity factor")
    items.append(nat_def("poolQueueFactor", int(m.group(1))))

    for k, v in sk.items():
        items.append(skel_def("skel_" + k, v))
    emit("Pages", items)


def common_call_args(txt, i):
    from .common import _call_args
    return _call_args(txt, i)
