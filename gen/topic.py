"""Translator for ConcurrentTransientTopic (C15): constants, memory orders, atomic skeletons and the
source shapes the model's control flow was written against  ->  lean/Babylon/Gen/Topic.lean"""
from .common import *

H = "babylon/concurrent/transient_topic.h"
HPP = "babylon/concurrent/transient_topic.hpp"
VEC = "babylon/concurrent/vector.hpp"
TOPIC = "::babylon::ConcurrentTransientTopic<uint64_t>"


def _need(rx, txt, what):
    m = re.search(rx, txt, flags=re.S)
    if not m:
        raise ExtractError("transient_topic: %s not found (source shape changed)" % what)
    return m


def _atoms(sites):
    return [s for s in sites if not s.startswith(".call")]


def generate():
    c = probe([H], {
        "stInitial": TOPIC + "::INITIAL",
        "stPublished": TOPIC + "::PUBLISHED",
        "stClosed": TOPIC + "::CLOSED",
        "blockSize": TOPIC + "()._slots.block_size()",
        "sizeofSlot": "sizeof(%s::Slot)" % TOPIC,
        "futexOffset": "offsetof(%s::Slot, futex)" % TOPIC,
        "valueOffset": "offsetof(%s::Slot, value)" % TOPIC,
        "sizeofFutex": "sizeof(%s::SlotFutex)" % TOPIC,
        "sizeofNext": "sizeof(((%s*)nullptr)->_next_event_index)" % TOPIC,
        "futexNeedCreate": "::babylon::SchedInterface::futex_need_create() ? 1 : 0",
    })
    items = [nat_def(k, v) for k, v in c.items()]
    txt = resolve_ifs(HPP)
    top = lambda name, nth=0: function_body(txt, r"ConcurrentTransientTopic<T, S>::" + name + r"\s*\(", nth)
    sf = lambda name: function_body(txt, r"SlotFutex::" + name + r"\s*\(")
    sk = {}
    sk["publish"] = skeleton(top("publish", 1), [r"publish_n"])
    sk["publish_n_fwd"] = skeleton(top("publish_n", 0), [r"publish_n"])
    sk["publish_n"] = skeleton(top("publish_n", 1), [r"reserved_snapshot", r"for_each", r"callback", r"set_published", r"wakeup_waiters"])
    sk["close"] = skeleton(top("close"), [r"ensure", r"set_closed", r"wakeup_waiters"])
    sk["clear"] = skeleton(top("clear"), [r"for_each", r"size", r"reset"])
    sk["set_published"] = skeleton(sf("set_published"))
    sk["set_closed"] = skeleton(sf("set_closed"))
    sk["wakeup_waiters"] = skeleton(sf("wakeup_waiters"), [r"wakeup_waiters_slow"])
    sk["wakeup_waiters_slow"] = skeleton(sf("wakeup_waiters_slow"), [r"_futex\.wake_all", r"_futex\.wake_one"])
    sk["is_published"] = skeleton(sf("is_published"))
    sk["is_closed"] = skeleton(sf("is_closed"))
    sk["wait_until_ready"] = skeleton(sf("wait_until_ready"), [r"wait_until_ready_slow"])
    sk["wait_until_ready_slow"] = skeleton(sf("wait_until_ready_slow"), [r"_futex\.wait"])
    sk["reset"] = skeleton(sf("reset"))
    sk["consume1"] = skeleton(function_body(txt, r"Consumer::consume\s*\(", 0), [r"consume"])
    sk["consume"] = skeleton(function_body(txt, r"Consumer::consume\s*\(", 1),
                             [r"reserved_snapshot", r"for_each", r"is_closed", r"is_published", r"wait_until_ready"])
    for k, v in sk.items():
        items.append(skel_def("skel_" + k, v))

    def order(name, fn, k, field=-1):
        a = _atoms(sk[fn])
        if k >= len(a):
            raise ExtractError("skeleton of %s too short for %s" % (fn, name))
        items.append("def %s : Ord := %s" % (name, a[k].split()[field]))
    order("ordNextAdd", "publish_n", 0)
    # fences are located by their position between the notable calls; a fence that is no longer there is
    # emitted as `.rlx` (a relaxed fence is a no-op), so that dropping it reaches the theorems
    # (gen_orders, gen_skel_*, ordPubFence_releases, topic_wake_view, ...) instead of stopping the translator
    def fence_between(name, fn, after, before):
        s = sk[fn]
        try:
            i = max(k for k, x in enumerate(s) if x == '.call "%s"' % after) if after else -1
            j = min(k for k, x in enumerate(s) if x == '.call "%s"' % before and k > i) if before else len(s)
        except ValueError:
            raise ExtractError("skeleton of %s lost the call %s / %s" % (fn, after, before))
        f = [x for x in s[i + 1:j] if x.startswith(".fence")]
        if len(f) > 1:
            raise ExtractError("%s: more than one fence between %s and %s" % (fn, after, before))
        items.append("def %s : Ord := %s" % (name, f[0].split()[-1] if f else ".rlx"))
    fence_between("ordPubFence", "publish_n", "callback", "set_published")
    fence_between("ordPubScFence", "publish_n", "set_published", "wakeup_waiters")
    order("ordStatusStore", "set_published", 0)
    order("ordClosedStore", "set_closed", 0)
    order("ordCloseLoad", "close", 0)
    fence_between("ordCloseScFence", "close", "set_closed", "wakeup_waiters")
    order("ordWakeLoad", "wakeup_waiters", 0)
    order("ordWakeCasSucc", "wakeup_waiters_slow", 0, 3)
    order("ordWakeCasFail", "wakeup_waiters_slow", 0, 4)
    order("ordIsPublished", "is_published", 0)
    order("ordIsClosed", "is_closed", 0)
    order("ordWaitLoad", "wait_until_ready", 0)
    order("ordWaitCasSucc", "wait_until_ready_slow", 0, 3)
    order("ordWaitCasFail", "wait_until_ready_slow", 0, 4)
    order("ordWaitReload", "wait_until_ready_slow", 1)
    fence_between("ordAcqFence", "consume", "wait_until_ready", None)
    order("ordReset", "reset", 0)
    order("ordClearNext", "clear", 0)

    U16 = r"\(?\s*65535\s*\)?"
    # ---- status accesses are 16-bit accesses to the low half of the 32-bit futex word
    for fn, st in (("set_published", "PUBLISHED"), ("set_closed", "CLOSED")):
        b = strip_comments(sf(fn))
        _need(r"auto\s*&\s*status\s*=\s*reinterpret_cast<\s*::std::atomic<\s*uint16_t\s*>\s*&\s*>\s*\(\s*value\s*\)\s*;\s*status\.store\(\s*" + st + r"\s*,", b, fn + ": 16-bit store of " + st)
    for fn, st in (("is_published", "PUBLISHED"), ("is_closed", "CLOSED")):
        b = strip_comments(sf(fn))
        _need(r"reinterpret_cast<\s*const\s*::std::atomic<\s*uint16_t\s*>\s*&\s*>\s*\(\s*value\s*\)\s*;\s*return\s+" + st + r"\s*==\s*status\.load\(", b, fn + ": 16-bit load compared with " + st)
    items.append(nat_def("statusBits", 16))
    _need(r"_futex\.value\(\)\.store\(\s*INITIAL\s*,", strip_comments(sf("reset")), "reset: 32-bit store of INITIAL")
    # ---- waker
    w = strip_comments(sf("wakeup_waiters"))
    m = _need(r"if\s*\(\s*current_status_and_waiters\s*<=\s*(" + U16 + r")\s*\)\s*\{\s*return\s*;\s*\}\s*wakeup_waiters_slow\(\s*current_status_and_waiters\s*\)", w, "wakeup_waiters: no-waiter fast path")
    items.append(nat_def("noWaiterMax", 65535))
    ws = strip_comments(sf("wakeup_waiters_slow"))
    _need(r"uint16_t\s+status\s*=\s*current_status_and_waiters\s*;\s*_futex\.value\(\)\.compare_exchange_weak\(\s*current_status_and_waiters\s*,\s*status\s*,[^;]*\)\s*;\s*_futex\.wake_all\(\)\s*;\s*\}\s*$", ws, "wakeup_waiters_slow: CAS (result ignored) then unconditional wake_all")
    # ---- waiter
    r0 = strip_comments(sf("wait_until_ready"))
    _need(r"uint16_t\s+status\s*=\s*current_status_and_waiters\s*;\s*if\s*\(\s*status\s*!=\s*INITIAL\s*\)\s*\{\s*return\s*;\s*\}\s*wait_until_ready_slow\(\s*current_status_and_waiters\s*\)", r0, "wait_until_ready shape")
    r1 = strip_comments(sf("wait_until_ready_slow"))
    m = _need(r"uint16_t\s+status\s*=\s*current_status_and_waiters\s*;\s*while\s*\(\s*status\s*==\s*INITIAL\s*\)\s*\{\s*"
              r"if\s*\(\s*current_status_and_waiters\s*<=\s*" + U16 + r"\s*\)\s*\{\s*"
              r"uint32_t\s+wait_status_and_waiters\s*=\s*current_status_and_waiters\s*\+\s*" + U16 + r"\s*\+\s*(\d+)\s*;\s*"
              r"if\s*\(\s*_futex\.value\(\)\.compare_exchange_weak\(\s*current_status_and_waiters\s*,\s*wait_status_and_waiters\s*,[^;{]*\)\s*\)\s*\{\s*"
              r"_futex\.wait\(\s*wait_status_and_waiters\s*,\s*nullptr\s*\)\s*;\s*\}\s*\}\s*else\s*\{\s*"
              r"_futex\.wait\(\s*current_status_and_waiters\s*,\s*nullptr\s*\)\s*;\s*\}\s*"
              r"current_status_and_waiters\s*=\s*_futex\.value\(\)\.load\([^;]*\)\s*;\s*status\s*=\s*current_status_and_waiters\s*;\s*\}\s*\}\s*$",
              r1, "wait_until_ready_slow loop shape")
    items.append(nat_def("waiterUnit", 65535 + int(m.group(1))))
    # ---- publish_n / close / clear / consume control flow
    p = strip_comments(top("publish_n", 1))
    _need(r"if\s*\(\s*CONCURRENT\s*\)\s*\{\s*begin_index\s*=\s*_next_event_index\.fetch_add\(\s*num\s*,", p, "publish_n: fetch_add(num)")
    _need(r"auto\s+end_index\s*=\s*begin_index\s*\+\s*num\s*;\s*auto\s+\w+\s*=\s*_slots\.reserved_snapshot\(\s*end_index\s*\)\s*;\s*\w+\.for_each\(\s*begin_index\s*,\s*end_index\s*,", p, "publish_n: range and snapshot")
    _need(r"callback\(\s*Iterator\(begin\)\s*,\s*Iterator\(end\)\s*\)\s*;\s*(?:::std::atomic_thread_fence\([^;]*\)\s*;\s*)?"
          r"for\s*\(\s*auto\s+iter\s*=\s*begin\s*;\s*iter\s*!=\s*end\s*;\s*\+\+iter\s*\)\s*\{\s*iter->futex\.set_published\(\)\s*;\s*\}\s*"
          r"(?:::std::atomic_thread_fence\([^;]*\)\s*;\s*)?"
          r"for\s*\(\s*auto\s+iter\s*=\s*begin\s*;\s*iter\s*!=\s*end\s*;\s*\+\+iter\s*\)\s*\{\s*iter->futex\.wakeup_waiters\(\)\s*;\s*\}\s*\}\s*\)\s*;\s*\}\s*$",
          p, "publish_n: per-piece callback / fence / stores / fence / wakes")
    pub = strip_comments(top("publish", 1))
    _need(r"publish_n<\s*CONCURRENT\s*>\(\s*1\s*,", pub, "publish = publish_n(1)")
    _need(r"publish_n<\s*true\s*>\(\s*num\s*,", strip_comments(top("publish_n", 0)), "publish_n defaults to CONCURRENT = true")
    _need(r"publish<\s*true\s*>\(", strip_comments(top("publish", 0)), "publish defaults to CONCURRENT = true")
    cl = strip_comments(top("close"))
    _need(r"auto\s+index\s*=\s*_next_event_index\.load\([^;]*\)\s*;\s*auto\s*&\s*slot\s*=\s*_slots\.ensure\(\s*index\s*\)\s*;\s*slot\.futex\.set_closed\(\)\s*;\s*"
          r"(?:::std::atomic_thread_fence\([^;]*\)\s*;\s*)?slot\.futex\.wakeup_waiters\(\)\s*;\s*\}\s*$", cl, "close shape")
    cr = strip_comments(top("clear"))
    _need(r"_slots\.for_each\(\s*0\s*,\s*_slots\.size\(\)\s*,.*?while\s*\(\s*iter\s*!=\s*end\s*\)\s*\{\s*\(\*iter\+\+\)\.futex\.reset\(\)\s*;\s*\}\s*\}\s*\)\s*;\s*"
          r"_next_event_index\.store\(\s*0\s*,[^;]*\)\s*;\s*\}\s*$", cr, "clear shape")
    co = strip_comments(function_body(txt, r"Consumer::consume\s*\(", 1))
    _need(r"auto\s+begin_index\s*=\s*_next_consume_index\s*;\s*auto\s+end_index\s*=\s*begin_index\s*\+\s*num\s*;\s*"
          r"auto\s+\w+\s*=\s*_queue->_slots\.reserved_snapshot\(\s*end_index\s*\)\s*;\s*size_t\s+consumed\s*=\s*0\s*;\s*bool\s+closed\s*=\s*false\s*;\s*"
          r"\w+\.for_each\(\s*begin_index\s*,\s*end_index\s*,\s*\[&\]\s*\(\s*Slot\s*\*\s*iter\s*,\s*Slot\s*\*\s*end\s*\)\s*\{\s*"
          r"if\s*\(\s*closed\s*\)\s*\{\s*return\s*;\s*\}\s*while\s*\(\s*iter\s*!=\s*end\s*\)\s*\{\s*auto\s*&\s*slot\s*=\s*\*iter\s*;\s*"
          r"if\s*\(\s*slot\.futex\.is_closed\(\)\s*\)\s*\{\s*closed\s*=\s*true\s*;\s*return\s*;\s*\}\s*"
          r"else\s+if\s*\(\s*slot\.futex\.is_published\(\)\s*\)\s*\{\s*\+\+consumed\s*;\s*\+\+iter\s*;\s*continue\s*;\s*\}\s*"
          r"slot\.futex\.wait_until_ready\(\)\s*;\s*\}\s*\}\s*\)\s*;\s*"
          r"_next_consume_index\s*\+=\s*consumed\s*;\s*(?:::std::atomic_thread_fence\([^;]*\)\s*;\s*)?"
          r"return\s+ConsumeRange\s*\{\s*\w+\s*,\s*begin_index\s*,\s*consumed\s*\}\s*;\s*\}\s*$", co, "consume(num) shape")
    _need(r"auto\s+range\s*=\s*consume\(\s*1\s*\)\s*;\s*if\s*\(\s*range\.size\(\)\s*>\s*0\s*\)\s*\{\s*return\s*&range\[0\]\s*;\s*\}\s*return\s+nullptr\s*;",
          strip_comments(function_body(txt, r"Consumer::consume\s*\(", 0)), "consume() = consume(1)")
    # ---- the vector operations the model replaces by their specification
    v = resolve_ifs(VEC)
    fe = strip_comments(function_body(v, r"ConcurrentVector<T, BLOCK_SIZE>::Snapshot::for_each\s*\(", 0))
    _need(r"while\s*\(\s*block_index\s*!=\s*end_block_index\s*\)\s*\{\s*T\s*\*\s*block_begin\s*=\s*_block_table->blocks\[block_index\]\s*;\s*"
          r"callback\(\s*block_begin\s*\+\s*block_offset\s*,\s*block_begin\s*\+\s*_meta\.block_size\(\)\s*\)\s*;\s*block_index\s*\+=\s*1\s*;\s*block_offset\s*=\s*0\s*;\s*\}\s*"
          r"if\s*\(\s*block_offset\s*!=\s*end_block_offset\s*\)\s*\{\s*T\s*\*\s*block_begin\s*=\s*_block_table->blocks\[block_index\]\s*;\s*"
          r"callback\(\s*block_begin\s*\+\s*block_offset\s*,\s*block_begin\s*\+\s*end_block_offset\s*\)\s*;\s*\}\s*\}\s*$", fe, "Snapshot::for_each splits the range at block boundaries")
    rs = strip_comments(function_body(v, r"ConcurrentVector<T, BLOCK_SIZE>::reserved_snapshot\s*\("))
    _need(r"get_qualified_block_table\(\s*_meta\.block_index\(\s*size\s*\+\s*_meta\.block_mask\(\)\s*\)\s*\)", rs, "reserved_snapshot(size) reserves ceil(size / block) blocks")
    en = strip_comments(function_body(v, r"ConcurrentVector<T, BLOCK_SIZE>::ensure\s*\("))
    _need(r"auto\s+block_index\s*=\s*_meta\.block_index\(\s*index\s*\)\s*;\s*auto\s*\*\s*block_table\s*=\s*get_qualified_block_table\(\s*block_index\s*\+\s*1\s*\)", en, "ensure(index) reserves block_index + 1 blocks")
    sz = strip_comments(function_body(v, r"ConcurrentVector<T, BLOCK_SIZE>::Snapshot::size\s*\("))
    _need(r"return\s+_block_table->size\s*<<\s*_meta\.block_mask_bits\(\)", sz, "size() = blocks * block size")
    # ---- the futex wake-all argument (INT32_MAX) as passed by SchedInterface
    si = resolve_ifs("babylon/concurrent/sched_interface.hpp")
    wa = strip_comments(function_body(si, r"SchedInterface::futex_wake_all\s*\("))
    _need(r"\(\s*(?:FUTEX_WAKE|1)\s*\|\s*(?:FUTEX_PRIVATE_FLAG|128)\s*\)\s*,\s*(?:INT32_MAX|\(?2147483647\)?)", wa, "futex_wake_all wakes INT32_MAX")
    items.append(nat_def("wakeAllTraceCount", 99))   # VRT prints min(count, 99)
    emit("Topic", items)
