"""
Translator helpers: /repo/src  ->  lean/Babylon/Gen/<Comp>.lean

 * preprocess(header)        g++ -E -P with the repo's own flags, so #if branches are resolved
                             exactly as in the build being checked
 * function_body(text, rx)   source text of a function located by a regex on its head
 * skeleton(body, ...)       ordered atomic operations / fences / notable calls with memory orders
 * probe(includes, exprs)    compile+run a tiny program printing constant expressions
                             (sizeof, constexpr members, template defaults)
 * emit(component, items)    write the Lean file only when its content changed
"""
import hashlib
import os
import re
import subprocess
from pathlib import Path

VERIF = Path(__file__).resolve().parent.parent
REPO = Path(os.environ.get("VERIF_REPO", "/repo"))
GEN_DIR = VERIF / "lean" / "Babylon" / "Gen"
BUILD = VERIF / "build"
CXXFLAGS = ["-std=gnu++20", "-DNDEBUG", "-w", "-I" + str(REPO / "src"), "-isystem", "/root/miniconda/include"]


class ExtractError(Exception):
    pass


def read(rel):
    return (REPO / "src" / rel).read_text()


def preprocess(rel, extra=()):
    """Preprocessed text of a TU that includes only `rel` (keeps the header's own text, drops comments)."""
    src = '#include "%s"\n' % rel
    r = subprocess.run(["g++", "-E", "-P", "-x", "c++"] + CXXFLAGS + list(extra) + ["-"], input=src,
                       capture_output=True, text=True)
    if r.returncode != 0:
        raise ExtractError("preprocess %s: %s" % (rel, r.stderr[-500:]))
    return r.stdout


def strip_comments(txt):
    txt = re.sub(r"/\*.*?\*/", " ", txt, flags=re.S)
    txt = re.sub(r"//[^\n]*", " ", txt)
    return txt


def resolve_ifs(rel, extra=()):
    """Source text of one file with comments removed and #if/#ifdef branches resolved by the real
    preprocessor (macros of the repo are expanded too). Implementation: preprocess the single
    file with includes neutralised is fragile, so we preprocess the including TU and cut out the
    region that came from `rel` using linemarkers."""
    src = '#include "%s"\n' % rel
    r = subprocess.run(["g++", "-E", "-x", "c++"] + CXXFLAGS + list(extra) + ["-"], input=src,
                       capture_output=True, text=True)
    if r.returncode != 0:
        raise ExtractError("preprocess %s: %s" % (rel, r.stderr[-500:]))
    want = str(REPO / "src" / rel)
    out, on = [], False
    for line in r.stdout.splitlines():
        m = re.match(r'# \d+ "([^"]+)"', line)
        if m:
            on = (m.group(1) == want)
            continue
        if on:
            out.append(line)
    return "\n".join(out)


def match_brace(txt, i):
    """txt[i] == '{' -> index just after the matching '}'."""
    depth = 0
    n = len(txt)
    while i < n:
        c = txt[i]
        if c == "{":
            depth += 1
        elif c == "}":
            depth -= 1
            if depth == 0:
                return i + 1
        elif c == '"':
            i += 1
            while i < n and txt[i] != '"':
                i += 2 if txt[i] == "\\" else 1
        elif c == "'":
            i += 1
            while i < n and txt[i] != "'":
                i += 2 if txt[i] == "\\" else 1
        i += 1
    raise ExtractError("unbalanced braces")


def function_body(txt, head_rx, nth=0):
    """Body (including braces) of the nth function whose head matches head_rx; the head must be
    followed (after params / qualifiers / ctor-initialisers) by '{'."""
    hits = list(re.finditer(head_rx, txt, flags=re.S))
    k = -1
    for m in hits:
        j = m.start()
        depth = 0
        # skip the parameter list and trailing qualifiers up to '{' or ';'
        while j < len(txt):
            c = txt[j]
            if c == "(":
                depth += 1
            elif c == ")":
                depth -= 1
            elif depth == 0 and c == ";":
                j = -1
                break
            elif depth == 0 and c == "{":
                break
            j += 1
        if j < 0 or j >= len(txt):
            continue  # declaration only
        k += 1
        if k == nth:
            return txt[j:match_brace(txt, j)]
    raise ExtractError("function not found: %s (nth=%d, %d head matches)" % (head_rx, nth, len(hits)))


ORD = {"relaxed": "rlx", "consume": "cns", "acquire": "acq", "release": "rel", "acq_rel": "acqrel", "seq_cst": "sc"}


def _split_args(s):
    args, depth, cur = [], 0, ""
    for c in s:
        if c in "([{<" and not (c == "<" and False):
            depth += c in "([{"
        if c in ")]}":
            depth -= 1
        if c == "," and depth == 0:
            args.append(cur.strip())
            cur = ""
        else:
            cur += c
    if cur.strip():
        args.append(cur.strip())
    return args


def _call_args(txt, i):
    """txt[i] == '(' -> (argument string, index after ')')."""
    depth = 0
    j = i
    while j < len(txt):
        if txt[j] == "(":
            depth += 1
        elif txt[j] == ")":
            depth -= 1
            if depth == 0:
                return txt[i + 1:j], j + 1
        j += 1
    raise ExtractError("unbalanced parens")


def _orders(args):
    out = []
    for a in args:
        m = re.search(r"memory_order_(\w+)", a)
        if m:
            out.append(ORD[m.group(1)])
    return out


ATOMIC_RX = re.compile(
    r"(?P<obj>[A-Za-z_][\w\.\->\[\]\(\)\*:]*?)\s*(?:\.|->)\s*(?P<op>load|store|exchange|compare_exchange_strong|compare_exchange_weak|fetch_add|fetch_sub|fetch_or|fetch_and|fetch_xor)\s*\("
    r"|(?P<fence>atomic_thread_fence)\s*\("
)


def skeleton(body, calls=(), default_ord="sc"):
    """Ordered list of Lean `Site` terms for the atomics / fences in `body`, in source order, plus
    calls to any function named in `calls` (regexes on the callee name)."""
    body = strip_comments(body)
    sites = []
    call_rx = re.compile(r"(?<![\w])(?P<name>" + "|".join(calls) + r")\s*(?:<[^;(){}]*?>)?\s*\(") if calls else None
    events = []
    for m in ATOMIC_RX.finditer(body):
        events.append((m.start(), "atomic", m))
    if call_rx:
        for m in call_rx.finditer(body):
            events.append((m.start(), "call", m))
    events.sort(key=lambda e: e[0])
    for pos, kind, m in events:
        if kind == "call":
            sites.append('.call "%s"' % m.group("name"))
            continue
        args, _ = _call_args(body, m.end() - 1)
        al = _split_args(args)
        ords = _orders(al)
        if m.group("fence"):
            sites.append(".fence .%s" % (ords[0] if ords else default_ord))
            continue
        obj = re.sub(r"\s+", "", m.group("obj"))
        obj = obj.split("=")[-1]
        op = m.group("op")
        o = ords[0] if ords else default_ord
        if op == "load":
            sites.append('.load "%s" .%s' % (obj, o))
        elif op == "store":
            sites.append('.store "%s" .%s' % (obj, o))
        elif op == "exchange":
            sites.append('.xchg "%s" .%s' % (obj, o))
        elif op.startswith("compare_exchange"):
            strong = "true" if op.endswith("strong") else "false"
            succ = ords[0] if ords else default_ord
            if len(ords) > 1:
                fail = ords[1]
            else:  # C++ rule for the single-order overload
                fail = {"acqrel": "acq", "rel": "rlx"}.get(succ, succ)
            sites.append('.cas "%s" %s .%s .%s' % (obj, strong, succ, fail))
        else:
            sites.append('.rmw "%s" "%s" .%s' % (op, obj, o))
    return sites


def probe(includes, exprs, extra=(), prologue=""):
    """Compile and run a program printing `name value` for each constant expression (integers)."""
    lines = ["#include <cstdio>", "#include <cstdint>", "#include <cstddef>"] + ['#include "%s"' % i for i in includes]
    lines.append(prologue)
    lines.append("int main() {")
    for name, e in exprs.items():
        lines.append('  std::printf("%s %%lld\\n", (long long)(%s));' % (name, e))
    lines.append("  return 0; }")
    src = "\n".join(lines)
    pp = subprocess.run(["g++", "-E", "-P", "-x", "c++"] + CXXFLAGS + list(extra) + ["-fno-access-control", "-"], input=src, capture_output=True, text=True)
    if pp.returncode != 0:
        raise ExtractError("probe preprocess: " + pp.stderr[-800:])
    key = hashlib.sha256(pp.stdout.encode()).hexdigest()[:24]
    d = BUILD / "probe"
    d.mkdir(parents=True, exist_ok=True)
    res = d / (key + ".txt")
    if not res.exists():
        exe = d / (key + ".exe")
        r = subprocess.run(["g++", "-x", "c++"] + CXXFLAGS + list(extra) + ["-O0", "-fno-access-control", "-", "-o", str(exe)], input=src, capture_output=True, text=True)
        if r.returncode != 0:
            raise ExtractError("probe compile: " + r.stderr[-1500:])
        rr = subprocess.run([str(exe)], capture_output=True, text=True)
        if rr.returncode != 0:
            raise ExtractError("probe run rc=%d" % rr.returncode)
        res.write_text(rr.stdout)
        exe.unlink()
    out = {}
    for line in res.read_text().splitlines():
        k, v = line.split()
        out[k] = int(v)
    return out


def lean_list(items, indent="  "):
    if not items:
        return "[]"
    return "[\n" + ",\n".join(indent + i for i in items) + "\n" + indent[:-2] + "]"


def emit(component, body_lines, opens=("Babylon.Core",), imports=("Babylon.Core.Skel",)):
    """Write lean/Babylon/Gen/<component>.lean (only if changed)."""
    GEN_DIR.mkdir(parents=True, exist_ok=True)
    txt = "-- GENERATED by gen/%s.py from %s/src on every check run. Do not edit.\n" % (component.lower(), REPO)
    txt += "".join("import %s\n" % i for i in imports)
    txt += "namespace Babylon.Gen.%s\n" % component
    txt += "".join("open %s\n" % o for o in opens)
    txt += "\n".join(body_lines) + "\n"
    txt += "end Babylon.Gen.%s\n" % component
    p = GEN_DIR / (component + ".lean")
    if not p.exists() or p.read_text() != txt:
        tmp = p.with_suffix(".tmp")
        tmp.write_text(txt)
        os.replace(tmp, p)
    return p


def nat_def(name, v):
    return "def %s : Nat := %d" % (name, v)


def int_def(name, v):
    return "def %s : Int := %d" % (name, v)


def skel_def(name, sites):
    return "def %s : List Site := %s" % (name, lean_list(sites))
