"""Translator for Future / Promise / CountDownLatch (C08): constants, memory orders, atomic skeletons and
the shape of the deadline arithmetic  ->  lean/Babylon/Gen/Future.lean"""
from .common import *

H = "babylon/future.h"
HPP = "babylon/future.hpp"
CTX = "::babylon::FutureContext<int, ::babylon::SchedInterface>"


def _need(rx, txt, what):
    m = re.search(rx, txt, flags=re.S)
    if not m:
        raise ExtractError("future.hpp: %s not found (source shape changed)" % what)
    return m


def _ord_of(sites, k, what):
    """memory order(s) of the k-th atomic site of a skeleton, as Lean terms"""
    atom = [s for s in sites if not s.startswith(".call")]
    if k >= len(atom):
        raise ExtractError("skeleton too short for " + what)
    return atom[k].split()


def generate():
    c = probe([H], {
        "readyMask": CTX + "::READY_MASK",
        "sealedHead": "(unsigned long long)" + CTX + "::SEALED_HEAD_VALUE",
        "sizeofFutexWord": "sizeof(((%s*)nullptr)->_futex)" % CTX,
        "sizeofHead": "sizeof(((%s*)nullptr)->_head)" % CTX,
        "sizeofCount": "sizeof(((::babylon::CountDownLatch<>*)nullptr)->_count)",
        "futexNeedCreate": "::babylon::SchedInterface::futex_need_create() ? 1 : 0",
    })
    # SEALED_HEAD_VALUE is all ones: printed through long long it is -1; store the unsigned value
    c["sealedHead"] %= 2 ** 64
    items = [nat_def(k, v) for k, v in c.items()]
    txt = resolve_ifs(HPP)
    ctx = lambda name, nth=0: function_body(txt, r"FutureContext<T, M>::" + name + r"\s*\(", nth)
    sk = {}
    sk["set_value"] = skeleton(ctx("set_value"), ["new", "seal", r"_futex\.wake_all", r"head->function"])
    sk["seal"] = skeleton(ctx("seal"))
    sk["get"] = skeleton(ctx("get"), ["wait_slow"])
    sk["wait_for"] = skeleton(ctx("wait_for"), ["wait_for_slow"])
    sk["on_finish"] = skeleton(ctx("on_finish"), [r"run_callback", r"node->function"])
    sk["wait_slow"] = skeleton(ctx("wait_slow"), [r"_futex\.wait"])
    sk["wait_for_slow"] = skeleton(ctx("wait_for_slow"), [r"clock_gettime", r"_futex\.wait"])
    sk["promise_set_value"] = skeleton(function_body(txt, r"Promise<T, M>::set_value\s*\("), ["ready", "set_value"])
    sk["future_ready"] = skeleton(function_body(txt, r"Future<T, M>::ready\s*\("), ["ready"])
    sk["count_down"] = skeleton(function_body(txt, r"CountDownLatch<M>::count_down\s*\("), [r"_promise\.set_value"])
    sk["latch_ctor"] = skeleton(function_body(txt, r"CountDownLatch<M>::CountDownLatch\s*\(\s*size_t"), [r"_promise\.set_value"])
    for k, v in sk.items():
        items.append(skel_def("skel_" + k, v))

    # named memory orders the model's labels use (position in the skeleton of the function)
    def order(name, fn, k, field=-1):
        items.append("def %s : Ord := %s" % (name, _ord_of(sk[fn], k, name)[field]))
    order("ordSeal", "seal", 0)
    order("ordFutexXchg", "set_value", 0)
    order("ordGetLoad", "get", 0)
    order("ordWaitForLoad", "wait_for", 0)
    order("ordRegLoad", "on_finish", 0)
    order("ordRegCasSucc", "on_finish", 1, 3)
    order("ordRegCasFail", "on_finish", 1, 4)
    order("ordWaitRmw", "wait_slow", 0)
    order("ordWaitLoad", "wait_slow", 1)
    order("ordWaitForRmw", "wait_for_slow", 0)
    order("ordWaitForSlowLoad", "wait_for_slow", 1)
    order("ordCountSub", "count_down", 0)
    # order arguments passed to FutureContext::ready(order) by its callers
    ps = strip_comments(function_body(txt, r"Promise<T, M>::set_value\s*\("))
    m = _need(r"!\s*_context->ready\(\s*::std::memory_order_(\w+)\s*\)", ps, "Promise::set_value ready check")
    items.append("def ordPromiseReadyCheck : Ord := .%s" % ORD[m.group(1)])
    fr = strip_comments(function_body(txt, r"Future<T, M>::ready\s*\("))
    m = _need(r"_context->ready\(\s*::std::memory_order_(\w+)\s*\)", fr, "Future::ready order")
    items.append("def ordFutureReady : Ord := .%s" % ORD[m.group(1)])
    cr = strip_comments(ctx("ready"))
    _need(r"return\s+is_sealed\s*\(\s*_head\.load\s*\(\s*memory_order\s*\)\s*\)", cr, "FutureContext::ready shape")

    # shapes the model's arithmetic / branches were written against
    sv = strip_comments(ctx("set_value"))
    m = _need(r"exchange\s*\(\s*READY_MASK", sv, "set_value: exchange(READY_MASK)")
    m = _need(r"if\s*\(\s*waiter_num\s*>\s*(\d+)\s*\)\s*\{\s*_futex\.wake_all\(\)", sv, "set_value: wake condition")
    items.append(nat_def("wakeIfWaitersAbove", int(m.group(1))))
    ws = strip_comments(ctx("wait_slow"))
    # the waiter mark is a flag (fetch_or(1) | 1), not a counter: a counter that is never decremented carries into READY_MASK
    m = _need(r"fetch_or\s*\(\s*(\d+)\s*,[^)]*\)\s*\|\s*(\d+)\s*;\s*while\s*\(\s*!\s*\(\s*value\s*&\s*READY_MASK\s*\)\s*\)\s*\{\s*_futex\.wait\s*\(\s*value\s*,\s*nullptr\s*\)", ws, "wait_slow loop shape (fetch_or flag)")
    items.append(nat_def("waitOrOperand", int(m.group(1))))
    items.append(nat_def("waitOrLocalMask", int(m.group(2))))
    wf = strip_comments(ctx("wait_for_slow"))
    m = _need(r"fetch_or\s*\(\s*(\d+)\s*,[^)]*\)\s*\|\s*(\d+)\s*;\s*while\s*\(\s*!\s*\(\s*value\s*&\s*READY_MASK\s*\)\s*\)", wf, "wait_for_slow loop shape (fetch_or flag)")
    items.append(nat_def("waitForOrOperand", int(m.group(1))))
    items.append(nat_def("waitForOrLocalMask", int(m.group(2))))
    _need(r"until_ns\s*=\s*static_cast<int64_t>\s*\(\s*spec\.tv_sec\s*\)\s*\*\s*\(\s*1000\s*\*\s*1000\s*\*\s*1000\s*\)\s*;\s*until_ns\s*\+=\s*spec\.tv_nsec\s*\+\s*timeout_ns\s*;", wf, "until_ns = now + timeout")
    _need(r"spec\.tv_sec\s*=\s*timeout_ns\s*/\s*\(\s*1000\s*\*\s*1000\s*\*\s*1000\s*\)\s*;\s*spec\.tv_nsec\s*=\s*timeout_ns\s*%\s*\(\s*1000\s*\*\s*1000\s*\*\s*1000\s*\)\s*;\s*_futex\.wait\s*\(\s*value\s*,\s*&spec\s*\)", wf, "relative futex timeout = timeout_ns")
    _need(r"now_ns\s*\+=\s*spec\.tv_nsec\s*;\s*timeout_ns\s*=\s*until_ns\s*-\s*now_ns\s*;", wf, "timeout_ns = until_ns - now_ns")
    m = _need(r"if\s*\(\s*timeout_ns\s*<=\s*(\d+)\s*\)\s*\{\s*return\s+false\s*;", wf, "timeout test")
    items.append(int_def("timeoutExpiredAtMost", int(m.group(1))))
    m = _need(r"\}\s*return\s+(true|false)\s*;\s*\}\s*$", wf, "wait_for_slow final return")
    items.append("def waitForSlowFinal : Bool := %s" % m.group(1))
    w = strip_comments(ctx("wait_for"))
    m = _need(r"if\s*\(\s*value\s*&\s*READY_MASK\s*\)\s*\{\s*return\s+(true|false)\s*;", w, "wait_for fast path")
    items.append("def waitForFast : Bool := %s" % m.group(1))
    m = _need(r"wait_for_slow\s*\(\s*::std::max<int64_t>\s*\(\s*(-?\d+)\s*,\s*timeout_ns\s*\)\s*\)", w, "wait_for clamp")
    items.append(int_def("timeoutClampLow", int(m.group(1))))
    g = strip_comments(ctx("get"))
    _need(r"if\s*\(\s*!\s*\(\s*futex_value\s*&\s*READY_MASK\s*\)\s*\)\s*\{\s*wait_slow\(\)\s*;\s*\}\s*return\s+value\(\)", g, "get shape")
    cd = strip_comments(function_body(txt, r"CountDownLatch<M>::count_down\s*\("))
    m = _need(r"fetch_sub\s*\(\s*down\s*,[^)]*\)\s*-\s*down\s*;\s*if\s*\(\s*count\s*==\s*(\d+)\s*\)\s*\{\s*_promise\.set_value\s*\(\s*(\d+)\s*\)", cd, "count_down shape")
    items.append(nat_def("latchFireAt", int(m.group(1))))
    items.append(nat_def("latchValue", int(m.group(2))))
    of = strip_comments(ctx("on_finish"))
    _need(r"node->next\s*=\s*head\s*;\s*if\s*\(\s*_head\.compare_exchange_weak\s*\(\s*head\s*,\s*node\s*,", of, "on_finish push shape")
    _need(r"if\s*\(\s*is_sealed\s*\(\s*head\s*\)\s*\)\s*\{\s*node->function\(\)\s*;\s*delete\s+node\s*;\s*break\s*;", of, "on_finish inline-run on sealed")
    # the futex wake-all argument (INT32_MAX) as passed by SchedInterface
    si = resolve_ifs("babylon/concurrent/sched_interface.hpp")
    wa = strip_comments(function_body(si, r"SchedInterface::futex_wake_all\s*\("))
    _need(r"\(\s*(?:FUTEX_WAKE|1)\s*\|\s*(?:FUTEX_PRIVATE_FLAG|128)\s*\)\s*,\s*(?:INT32_MAX|\(?2147483647\)?)", wa, "futex_wake_all wakes INT32_MAX")
    emit("Future", items)
