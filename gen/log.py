"""Translator for the logging component (C20): constants of log_entry.h / async_file_appender.cpp,
call skeletons of the modelled functions and the few source-level facts the model relies on
-> lean/Babylon/Gen/Log.lean"""
from .common import *

H_ENTRY = "babylon/logging/log_entry.h"
H_APP = "babylon/logging/async_file_appender.h"


def _need(rx, txt, what):
    m = re.search(rx, txt, re.S)
    if not m:
        raise ExtractError("log: cannot find " + what)
    return m


def generate():
    c = probe([H_ENTRY, H_APP, "climits", "sys/uio.h"], {
        "inlinePageCapacity": "::babylon::LogEntry::INLINE_PAGE_CAPACITY",
        "sizeofPageTable": "sizeof(::babylon::LogEntry::PageTable)",
        "sizeofPtr": "sizeof(char*)",
        "sizeofLogEntry": "sizeof(::babylon::LogEntry)",
        "offsetofSize": "offsetof(::babylon::LogEntry, size)",
        "offsetofPages": "offsetof(::babylon::LogEntry, pages)",
        "offsetofHead": "offsetof(::babylon::LogEntry, head)",
        "offsetofTableNext": "offsetof(::babylon::LogEntry::PageTable, next)",
        "offsetofTablePages": "offsetof(::babylon::LogEntry::PageTable, pages)",
        "iovMax": "IOV_MAX",
        "uioMaxIov": "UIO_MAXIOV",
    })
    items = [nat_def(k, v) for k, v in c.items()]

    entry = strip_comments(read("babylon/logging/log_entry.cpp"))
    app = strip_comments(read("babylon/logging/async_file_appender.cpp"))
    hdr = strip_comments(read(H_ENTRY))

    # ---- call skeletons (ordered notable calls) of the functions the model transcribes
    def sk(name, txt, head, calls, nth=0):
        items.append(skel_def(name, skeleton(function_body(txt, head, nth), calls)))

    sk("skel_overflow", entry, r"LogStreamBuffer::overflow\s*\(",
       ["sync", "allocate", "overflow_page_table", "setp", "sputc"])
    sk("skel_sync", entry, r"LogStreamBuffer::sync\s*\(", ["pptr"])
    sk("skel_overflow_page_table", entry, r"LogStreamBuffer::overflow_page_table\s*\(", ["allocate", "page_size"])
    sk("skel_append_to_iovec", entry, r"LogEntry::append_to_iovec\s*\(",
       ["pages_append_to_iovec", "page_table_append_to_iovec"])
    sk("skel_pages_append_to_iovec", entry, r"LogEntry::pages_append_to_iovec\s*\(", ["emplace_back"])
    sk("skel_page_table_append_to_iovec", entry, r"LogEntry::page_table_append_to_iovec\s*\(",
       ["pages_append_to_iovec", "emplace_back"])
    sk("skel_begin", hdr, r"LogStreamBuffer::begin\s*\(", ["setp"])
    sk("skel_end", hdr, r"LogStreamBuffer::end\s*\(", ["sync"])
    sk("skel_write", app, r"AsyncFileAppender::write\s*\(", ["push"])
    sk("skel_discard", app, r"AsyncFileAppender::discard\s*\(", ["append_to_iovec", "push_back", "deallocate", "clear"])
    sk("skel_close", app, r"AsyncFileAppender::close\s*\(", ["joinable", "push", "join", "clear", "erase", "resize"])
    sk("skel_keep_writing", app, r"AsyncFileAppender::keep_writing\s*\(",
       ["capacity", "try_pop_n", "destination", "append_to_iovec", "check_and_get_file_descriptor", "close",
        "write_use_plain_writev", "usleep", "clear", "deallocate", "writev"])
    sk("skel_write_use_plain_writev", app, r"AsyncFileAppender::write_use_plain_writev\s*\(",
       ["writev", "deallocate", "clear"])

    # ---- source-level facts the model is written against (strings, compared by `decide`)
    ov = function_body(entry, r"LogStreamBuffer::overflow\s*\(")
    m = _need(r"\b(if|while)\s*\(\s*(?:ABSL_PREDICT_FALSE\s*\()?\s*_pages\s*==\s*_pages_end", ov, "table-full test in overflow")
    items.append('def overflowTableTest : String := "%s"' % m.group(1))
    # the data page is allocated before the table page
    a, t = ov.find("allocate"), ov.find("overflow_page_table")
    items.append("def overflowAllocBeforeTable : Bool := %s" % ("true" if 0 <= a < t else "false"))
    pt = function_body(entry, r"LogEntry::page_table_append_to_iovec\s*\(")
    m = _need(r"full_table_size\s*=\s*(.*?);", pt, "full_table_size")
    items.append('def fullTableSizeExpr : String := "%s"' % re.sub(r"\s+", "", m.group(1)))
    ai = function_body(entry, r"LogEntry::append_to_iovec\s*\(")
    m = _need(r"full_inline_size\s*=\s*(.*?);", ai, "full_inline_size")
    items.append('def fullInlineSizeExpr : String := "%s"' % re.sub(r"\s+", "", m.group(1)))
    m = _need(r"if\s*\(\s*size\s*(>=?)\s*full_inline_size\s*\)", ai, "inline/table test in append_to_iovec")
    items.append('def inlineTestOp : String := "%s"' % m.group(1))
    m = _need(r"while\s*\(\s*size\s*(>=?)\s*full_table_size\s*\)", pt, "full-table loop test")
    items.append('def tableLoopOp : String := "%s"' % m.group(1))
    kw = function_body(app, r"AsyncFileAppender::keep_writing\s*\(")
    m = _need(r"batch\s*=\s*(.*?);", kw, "batch")
    items.append('def batchExpr : String := "%s"' % re.sub(r"\s+", "", m.group(1)))
    m = _need(r"item\.entry\.size\s*==\s*(\w+)", kw, "stop-marker test")
    items.append('def stopMarkerSize : String := "%s"' % m.group(1))
    wv = function_body(app, r"AsyncFileAppender::write_use_plain_writev\s*\(")
    m = _need(r"size\s*=\s*(.*?);", wv, "writev chunk size")
    items.append('def writevChunkExpr : String := "%s"' % re.sub(r"\s+", "", m.group(1)))
    wr = function_body(app, r"AsyncFileAppender::write\s*\(")
    m = _need(r"push\s*<([^>]*)>", wr, "push template arguments in write")
    items.append('def writePushFlags : String := "%s"' % re.sub(r"\s+", "", m.group(1)))
    m = _need(r"try_pop_n\s*<([^>]*)>", kw, "try_pop_n template arguments")
    items.append('def popFlags : String := "%s"' % re.sub(r"\s+", "", m.group(1)))
    # push flags of close(): no template arguments = the queue's defaults <true, true, true>
    cl = function_body(app, r"AsyncFileAppender::close\s*\(")
    _need(r"push\s*(?:<[^>]*>)?\s*\(", cl, "push in close")
    m = re.search(r"push\s*<([^>]*)>", cl)
    close_flags = re.sub(r"\s+", "", m.group(1)) if m else "true,true,true"
    items.append('def closePushFlags : String := "%s"' % close_flags)
    # queue pairing rule (bounded_queue.h): a producer that sleeps on the slot futex (USE_FUTEX_WAIT, 2nd
    # push argument) is only woken by a consumer that pops with USE_FUTEX_WAKE (2nd try_pop_n argument)
    def flag(flags, i, what):
        a = flags.split(",")
        if len(a) <= i or a[i] not in ("true", "false"):
            raise ExtractError("log: cannot read flag %d of %s: %r" % (i, what, flags))
        return "true" if a[i] == "true" else "false"
    # several logging threads (and close()) push at the same time: the index must be claimed atomically
    items.append("def writePushConcurrent : Bool := %s" % flag(re.sub(r"\s+", "", re.search(r"push\s*<([^>]*)>", wr).group(1)), 0, "write push"))
    items.append("def closePushConcurrent : Bool := %s" % flag(close_flags, 0, "close push"))
    items.append("def writePushFutexWait : Bool := %s" % flag(re.sub(r"\s+", "", re.search(r"push\s*<([^>]*)>", wr).group(1)), 1, "write push"))
    items.append("def closePushFutexWait : Bool := %s" % flag(close_flags, 1, "close push"))
    items.append("def popFutexWake : Bool := %s" % flag(re.sub(r"\s+", "", re.search(r"try_pop_n\s*<([^>]*)>", kw).group(1)), 1, "try_pop_n"))
    # scratch storage of discard() (called concurrently by the logging threads) and of
    # write_use_plain_writev (writer thread only): per thread (thread_local or automatic) or shared
    def storage(body, name, what):
        m = re.search(r"(?:^|[;{}\n])[ \t]*((?:static\s+|thread_local\s+)*)((?:::)?std::vector\s*<[^;=&]*>)\s+%s\s*;" % name, body)
        if m:
            q = m.group(1)
            if "thread_local" in q:
                return "thread_local"
            return "static" if "static" in q else "automatic"
        if re.search(r"\b%s\b" % name, body):
            return "shared"      # a reference / member / global declared elsewhere
        raise ExtractError("log: %s does not use %s" % (what, name))
    dc = function_body(app, r"AsyncFileAppender::discard\s*\(")
    kinds = [storage(dc, "iov", "discard"), storage(dc, "pages", "discard")]
    items.append('def discardScratchStorage : String := "%s"' % ",".join(kinds))
    items.append("def discardScratchPerThread : Bool := %s" % ("true" if all(k in ("thread_local", "automatic") for k in kinds) else "false"))
    emit("Log", items)
