"""Translator for counters / enumerable thread-locals (C19): constants, behaviour flags and the
normalised source text of every modelled function -> lean/Babylon/Gen/Counter.lean

 * constants (compiled probe): cache-line size, NUM_PER_CACHELINE of every counter kind, block sizes
   of the storage vectors, initial values of the never-reused instance id counter and of the
   per-thread cache, the comparer's EXTREMUM and the slot's initial version
 * flags the model follows (two of them were false before the repairs f87c6ba / aff20d8 in /repo; the
   Properties file pins all of them to the repaired / present shape):
     forEachU16Cast       for_each bounds the walk by static_cast<uint16_t>(snapshot.size())
     feaClipped           the non-const for_each_alive clips the live id ranges to the snapshot size
     feaConstClipped      the const one does
     cmpFirstGuard        ConcurrentComparer::value accepts the first matching slot unconditionally
     dtorZeroesFirst      ~CompactEnumerableThreadLocal zeroes its offset in every line, then releases the id
 * `src_*`: whitespace-free text of each modelled function body; Properties/C19.lean pins each one
   (`gen_src_*` obligations), so any edit of these functions stops the proof from checking.
"""
from .common import *

TL = "babylon/concurrent/thread_local.h"
CH = "babylon/concurrent/counter.h"
CC = "babylon/concurrent/counter.cpp"


def norm(s):
    return re.sub(r"\s+", "", s)


def lean_str(name, s):
    return 'def %s : String := "%s"' % (name, s.replace("\\", "\\\\").replace('"', '\\"'))


def bool_def(name, b):
    return "def %s : Bool := %s" % (name, "true" if b else "false")


def generate():
    T = "::babylon::CompactEnumerableThreadLocal"
    c = probe([CH], {
        "cacheLine": "BABYLON_CACHELINE_SIZE",
        "numAdder": T + "<ssize_t, 64, true>::NUM_PER_CACHELINE",
        "numSummer": T + "<::babylon::ConcurrentSummer::Summary, 64, true>::NUM_PER_CACHELINE",
        "numMaxer": T + "<::babylon::ConcurrentMaxer::Slot, 64, true>::NUM_PER_CACHELINE",
        "numMiner": T + "<::babylon::ConcurrentMiner::Slot, 64, true>::NUM_PER_CACHELINE",
        "numCetl": T + "<uint64_t, 1, false>::NUM_PER_CACHELINE",
        "sizeofSummary": "sizeof(::babylon::ConcurrentSummer::Summary)",
        "sizeofSlot": "sizeof(::babylon::ConcurrentMaxer::Slot)",
        "slotVersionInitLow32": "(::babylon::ConcurrentMaxer::Slot{}.version) & 0xffffffffu",
        "slotVersionInitHigh32": "(::babylon::ConcurrentMaxer::Slot{}.version) >> 32",
        "extremumMax": "::babylon::ConcurrentMaxer::EXTREMUM",
        "extremumMin": "::babylon::ConcurrentMiner::EXTREMUM",
        "cacheIdInit": "::babylon::EnumerableThreadLocal<uint64_t>::Cache{}.id",
        "adderLeaky": "::std::is_same<decltype(::babylon::ConcurrentAdder::_storage), " + T + "<ssize_t, 64, true>>::value",
    })
    items = []
    for k in ["cacheLine", "numAdder", "numSummer", "numMaxer", "numMiner", "numCetl", "sizeofSummary",
              "sizeofSlot", "cacheIdInit", "adderLeaky"]:
        items.append(nat_def(k, c[k]))
    items.append(nat_def("slotVersionInit", (c["slotVersionInitHigh32"] << 32) | c["slotVersionInitLow32"]))
    items.append(int_def("extremumMax", c["extremumMax"]))
    items.append(int_def("extremumMin", c["extremumMin"]))

    tl = resolve_ifs(TL)
    ntl = norm(tl)
    # block sizes of the two storage vectors
    m = re.search(r"ConcurrentVector<T,(\d+)>_storage;", ntl)
    if not m:
        raise ExtractError("EnumerableThreadLocal::_storage declaration not found")
    items.append(nat_def("storageBlock", int(m.group(1))))
    m = re.search(r"usingStorageVector=ConcurrentVector<Storage,(\d+)>;", ntl)
    if not m:
        raise ExtractError("StorageVector alias not found")
    items.append(nat_def("storageVecBlock", int(m.group(1))))
    m = re.search(r"static::std::atomic<size_t>next_id\{(\d+)\};returnnext_id\.fetch_add\((\d+),", ntl)
    if not m:
        raise ExtractError("fetch_add_id: next_id initialiser / increment not found")
    items.append(nat_def("nextIdInit", int(m.group(1))))
    items.append(nat_def("nextIdStep", int(m.group(2))))

    # for_each of EnumerableThreadLocal (both overloads must agree)
    fe = [norm(function_body(tl, r"inline\s+void\s+for_each\s*\(\s*C&&\s*callback\s*\)", n)) for n in (0, 1)]
    if fe[0] != fe[1]:
        raise ExtractError("the two EnumerableThreadLocal::for_each overloads differ")
    items.append(lean_str("src_etl_for_each", fe[0]))
    items.append(bool_def("forEachU16Cast", "static_cast<uint16_t>(snapshot.size())" in fe[0]))
    fa = [norm(function_body(tl, r"inline\s+void\s+for_each_alive\s*\(\s*C&&\s*callback\s*\)", n)) for n in (0, 1)]
    clip = "begin=::std::min(begin,size);end=::std::min(end,size);"

    def clipped(s):
        return clip in s and "uint16_tsize=snapshot.size();" in s

    items.append(bool_def("feaClipped", clipped(fa[0])))
    items.append(bool_def("feaConstClipped", clipped(fa[1])))
    items.append(lean_str("src_etl_for_each_alive", fa[0]))
    items.append(lean_str("src_etl_for_each_alive_const", fa[1]))
    # the Compact wrappers (for_each x2, for_each_alive x2) are the overloads 2,3 of the same heads
    cfe = [norm(function_body(tl, r"inline\s+void\s+for_each\s*\(\s*C&&\s*callback\s*\)", n)) for n in (2, 3)]
    cfa = [norm(function_body(tl, r"inline\s+void\s+for_each_alive\s*\(\s*C&&\s*callback\s*\)", n)) for n in (2, 3)]
    items.append(lean_str("src_compact_for_each", cfe[0] + "|" + cfe[1]))
    items.append(lean_str("src_compact_for_each_alive", cfa[0] + "|" + cfa[1]))

    items.append(lean_str("src_etl_local", norm(function_body(tl, r"EnumerableThreadLocal<T,\s*Leaky>::local\s*\(\s*\)"))))
    items.append(lean_str("src_etl_local_fast", norm(function_body(tl, r"EnumerableThreadLocal<T,\s*Leaky>::local_fast\s*\(\s*\)"))))
    items.append(lean_str("src_etl_move_assign", norm(function_body(tl, r"EnumerableThreadLocal<T,\s*Leaky>::operator=\s*\("))))
    items.append(lean_str("src_compact_move_assign", norm(function_body(tl, r"Leaky>::operator=\s*\(\s*CompactEnumerableThreadLocal&&"))))
    # compact constructor: member initialisers up to the empty body
    m = re.search(r"Leaky>::CompactEnumerableThreadLocal\(\)noexcept:(.*?)\{\}template", ntl)
    if not m:
        raise ExtractError("CompactEnumerableThreadLocal default constructor not found")
    items.append(lean_str("src_compact_ctor", m.group(1) + "{}"))
    m = re.search(r"CompactEnumerableThreadLocal\(CompactEnumerableThreadLocal&&other\)noexcept:CompactEnumerableThreadLocal\(\)(\{.*?\})template", ntl)
    if not m:
        raise ExtractError("CompactEnumerableThreadLocal move constructor not found")
    items.append(lean_str("src_compact_move_ctor", m.group(1)))
    dtor = norm(function_body(tl, r"~CompactEnumerableThreadLocal\(\)\s*noexcept\s*\{"))
    items.append(lean_str("src_compact_dtor", dtor))
    z = dtor.find("iter->value[_cacheline_offset]=T();")
    d = dtor.find("id_allocator().deallocate(_instance_id);")
    items.append(bool_def("dtorZeroesFirst", 0 <= z < d and "_storage->for_each(" in dtor[:z]))
    m = re.search(r"inlinetypename::std::enable_if<!L,T&>::typelocal\(\)(\{.*?\})", ntl)
    if not m:
        raise ExtractError("CompactEnumerableThreadLocal::local not found")
    items.append(lean_str("src_compact_local", m.group(1)))

    ch = resolve_ifs(CH)
    nch = norm(ch)
    grab = lambda rx, what: (re.search(rx, nch) or (_ for _ in ()).throw(ExtractError(what + " not found"))).group(1)
    items.append(lean_str("src_adder_value", grab(r"Tvalue\(\)constnoexcept(\{Tsum=0;.*?returnsum;\})", "adder value")))
    items.append(lean_str("src_adder_reset", grab(r"voidreset\(\)noexcept(\{_storage\.for_each.*?\}\);\})", "adder reset")))
    items.append(lean_str("src_adder_count", grab(r"voidcount\(Tvalue\)noexcept(\{.*?\})", "adder count")))
    items.append(lean_str("src_cmp_put", norm(function_body(ch, r"ConcurrentComparer&\s*operator<<\s*\(\s*T\s+value\s*\)"))))
    cv = norm(function_body(ch, r"bool\s+value\s*\(\s*T&\s*compare_value\s*\)"))
    items.append(bool_def("cmpFirstGuard", "if(!has_result||_comparer(slot.value,result))" in cv))
    items.append(lean_str("src_cmp_value", cv))
    items.append(lean_str("src_cmp_value0", norm(function_body(ch, r"T\s+value\s*\(\s*\)\s*const\s*noexcept\s*\{\s*T\s+compare_value"))))
    items.append(lean_str("src_cmp_reset", grab(r"voidreset\(\)noexcept(\{\+\+_version;\})", "comparer reset")))
    items.append(lean_str("src_cmp_slot", grab(r"structSlot(\{.*?Tvalue;\});", "comparer Slot")))
    items.append(lean_str("src_cmp_extremum", grab(r"constexprstaticTEXTREMUM=(.*?);", "EXTREMUM")))
    items.append(lean_str("src_cmp_comparers", grab(r"(template<typenameT>structMaxComparer\{.*?\};template<typenameT>structMinComparer\{.*?\};)", "comparers")))
    items.append(lean_str("src_summer_put1", norm(function_body(ch, r"ConcurrentSummer::operator<<\s*\(\s*ssize_t\s+value\s*\)"))))
    items.append(lean_str("src_summer_put", norm(function_body(ch, r"ConcurrentSummer::operator<<\s*\(\s*Summary\s+summary\s*\)"))))
    cc = resolve_ifs(CC)
    items.append(lean_str("src_summer_value", norm(function_body(cc, r"ConcurrentSummer::value\s*\(\s*\)"))))
    emit("Counter", items)
