"""Translator for ConcurrentBoundedQueue (C01 / C02): layout constants, version arithmetic, waiter-bit
constants, spin period and per-function atomic skeletons (operations, order, memory orders, notable
calls) -> lean/Babylon/Gen/BQ.lean"""
from .common import *

H = "babylon/concurrent/bounded_queue.h"
HPP = "babylon/concurrent/bounded_queue.hpp"
SCHED = "babylon/concurrent/sched_interface.hpp"

PROLOGUE = r"""
struct VerifTwo { uint64_t a, b; };
using Q1 = ::babylon::ConcurrentBoundedQueue<uint64_t>;
using Q2 = ::babylon::ConcurrentBoundedQueue<VerifTwo>;
static long pv(size_t cap, size_t index, bool push) {
  Q1 q(cap);
  return push ? q.push_version_for_index(index) : q.pop_version_for_index(index);
}
static long cap_of(size_t min_capacity) { Q1 q(min_capacity); return (long)q.capacity(); }
"""


def _norm(text):
    """whitespace-free, comment-free source text"""
    return re.sub(r"\s+", "", strip_comments(text))


def _str_def(name, text):
    return 'def %s : String := "%s"' % (name, text.replace("\\", "\\\\").replace('"', '\\"'))


def function_text(txt, head_rx, nth=0):
    """`template <...> ... head(...) ... { body }` of the nth definition matching head_rx: signature (parameter and
    return types) + body"""
    body = function_body(txt, head_rx, nth)
    end = txt.index(body) + len(body)
    k = -1
    for m in re.finditer(head_rx, txt, flags=re.S):
        j = txt.find("{", m.start())
        semi = txt.find(";", m.start())
        if semi != -1 and semi < j:
            continue
        k += 1
        if k == nth:
            start = txt.rfind("template", 0, m.start())
            # the outermost of consecutive template headers
            prev = txt.rfind("template", 0, start)
            if prev != -1 and re.fullmatch(r"template\s*<[^{};]*>\s*", txt[prev:start]):
                start = prev
            return txt[start:end]
    raise ExtractError("function text not found: " + head_rx)


def generate():
    c = probe([H], {
        "sizeofSlot1": "sizeof(Q1::Slot)",
        "futexOff1": "offsetof(Q1::Slot, futex)",
        "sizeofSlot2": "sizeof(Q2::Slot)",
        "futexOff2": "offsetof(Q2::Slot, futex)",
        "sizeofFutex": "sizeof(Q1::SlotFutex)",
        # version arithmetic sampled on real queues (the model's formula is checked against these)
        "pushVer_c4_i13": "pv(4, 13, true)",
        "popVer_c4_i13": "pv(4, 13, false)",
        "pushVer_c1_i5": "pv(1, 5, true)",
        "popVer_c8_i7": "pv(8, 7, false)",
        "pushVer_c2_wrap": "pv(2, 2 * 32768 + 1, true)",      # 16-bit truncation: 65536 -> 0
        "popVer_c2_wrap": "pv(2, 2 * 32767 + 1, false)",      # 65535
        "capOf3": "cap_of(3)", "capOf1": "cap_of(1)", "capOf8": "cap_of(8)", "capOf0": "cap_of(0)",
    }, prologue=PROLOGUE)
    items = [nat_def(k, v) for k, v in c.items()]

    txt = resolve_ifs(HPP, extra=["-fsanitize=thread"])   # the VRT build: TSan annotations resolved as compiled
    raw = strip_comments(read(HPP))
    fn = lambda rx, nth=0: function_body(txt, rx, nth)
    SF = r"SlotFutex::"
    Qn = r"ConcurrentBoundedQueue<T, S>::"

    # waiter bit / threshold literals
    norm = lambda b: re.sub(r"\(\s*65535\s*\)", "65535", re.sub(r"\s+", " ", strip_comments(b)))
    blk = norm(fn(SF + r"\s*block_until_reach_expected_version_slow\s*\("))
    m = re.search(r"current_version_and_waiters\s*\+\s*(\S+)\s*\+\s*(\d+)\s*;", blk)
    if not m:
        raise ExtractError("block_until: waiter increment not found")
    lit = {"UINT16_MAX": 65535, "(65535)": 65535, "65535": 65535}
    inc = m.group(1)
    if inc not in lit:
        raise ExtractError("block_until: unexpected waiter increment literal %r" % inc)
    items.append(nat_def("waiterInc", lit[inc] + int(m.group(2))))
    thr2 = re.findall(r"current_version_and_waiters\s*(<=|<|>=|>|==|!=)\s*(\S+?)\s*\)", blk)
    if not thr2 or thr2[0][1] not in lit:
        raise ExtractError("block_until: waiter threshold not found")
    thr = [thr2[0][1]]
    items.append(nat_def("waiterThreshold", lit[thr[0]]))
    ops = [thr2[0][0]]
    for name in ("wakeup_waiters", "set_version_and_wakeup_waiters"):
        b = norm(fn(SF + r"\s*" + name + r"\s*\("))
        t = re.findall(r"current_version_and_waiters\s*(<=|<|>=|>|==|!=)\s*(\S+?)\s*\)", b)
        if not t or t[0][1] not in lit or lit[t[0][1]] != lit[thr[0]]:
            raise ExtractError(name + ": waiter threshold differs")
        ops.append(t[0][0])
    # comparison operators of the three "no waiter mark" tests (block_until, wakeup_waiters, set_version_and_wakeup_waiters)
    items.append('def waiterThresholdOps : List String := [%s]' % ", ".join('"%s"' % o for o in ops))
    sp = strip_comments(fn(SF + r"\s*spin_until_reach_expected_version_slow\s*\("))
    m = re.search(r"S::usleep\s*\(\s*(\d+)\s*\)", sp)
    if not m:
        raise ExtractError("spin_until: usleep period not found")
    items.append(nat_def("spinUsleep", int(m.group(1))))
    # the version bump written by every release path is expected_version + 1
    bumps = re.findall(r"(?:set_version_and_wakeup_waiters|set_version|wakeup_waiters)\s*\(\s*expected_version\s*\+\s*(\d+)", strip_comments(txt))
    if len(bumps) != 9 or set(bumps) != {"1"}:
        raise ExtractError("version bump sites changed: %r" % (bumps,))
    items.append(nat_def("versionBump", 1))
    items.append(nat_def("versionBumpSites", len(bumps)))
    # timed pop waits on the slot of index + num
    tp = strip_comments(fn(Qn + r"try_pop_n_exclusively_until\s*\("))
    m = re.search(r"_next_pop_index\.load\s*\([^)]*\)\s*\+\s*(\w+)\s*;", tp)
    items.append(nat_def("timedWaitsOnIndexPlusNum", 1 if (m and m.group(1) == "num") else 0))

    calls_wait = [r"block_until_reach_expected_version_slow", r"spin_until_reach_expected_version_slow"]
    sk = lambda name, body, calls=(): items.append(skel_def(name, skeleton(body, calls)))
    sk("skel_version", fn(SF + r"\s*version\s*\("))
    sk("skel_wait", fn(SF + r"\s*wait_until_reach_expected_version\s*\("), calls_wait)
    sk("skel_set_version", fn(SF + r"\s*set_version\s*\("))
    sk("skel_wakeup_waiters", fn(SF + r"\s*wakeup_waiters\s*\("), [r"wake_all"])
    sk("skel_set_version_and_wakeup", fn(SF + r"\s*set_version_and_wakeup_waiters\s*\("), [r"wake_all"])
    sk("skel_block_slow", fn(SF + r"\s*block_until_reach_expected_version_slow\s*\("), [r"_futex\.wait", r"GetCurrentTimeNanos"])
    sk("skel_spin_slow", fn(SF + r"\s*spin_until_reach_expected_version_slow\s*\("), [r"S::usleep", r"GetCurrentTimeNanos"])
    sk("skel_size", fn(Qn + r"size\s*\("))

    tail = [r"wait_until_reach_expected_version", r"callback", r"set_version_and_wakeup_waiters", r"set_version", r"wakeup_waiters",
            r"mark_tsan_acquire", r"mark_tsan_release", r"version", r"try_pop_n", r"try_push_n", r"S::yield", r"try_deal_n_continuously",
            r"deal_n_continuously", r"try_deal", r"deal"]
    # the full-template overloads (the ones that do the work) are the LAST definition of each name
    def last(rx):
        hits = len(re.findall(rx, txt))
        for nth in range(hits, -1, -1):
            try:
                return function_body(txt, rx, nth)
            except ExtractError:
                continue
        raise ExtractError("not found " + rx)
    sk("skel_push", last(Qn + r"push\s*\(\s*C\s*&&"), tail)
    sk("skel_pop", last(Qn + r"pop\s*\(\s*C\s*&&"), tail)
    sk("skel_push_n", function_body(txt, Qn + r"push_n\s*\(\s*C\s*&&\s*callback\s*,\s*size_t", 1), tail)
    sk("skel_pop_n", function_body(txt, Qn + r"pop_n\s*\(\s*C\s*&&\s*callback\s*,\s*size_t", 1), tail)
    sk("skel_try_push_n", fn(Qn + r"try_push_n\s*\("), tail)
    sk("skel_try_pop_n", fn(Qn + r"try_pop_n\s*\("), tail)
    sk("skel_cpush_n", fn(Qn + r"push_n\s*\(\s*C\s*&&\s*callback\s*,\s*RC"), tail)
    sk("skel_cpop_n", fn(Qn + r"pop_n\s*\(\s*C\s*&&\s*callback\s*,\s*RC"), tail)
    sk("skel_timed_pop_n", fn(Qn + r"try_pop_n_exclusively_until\s*\("), tail)
    sk("skel_deal", fn(Qn + r"deal\s*\("), tail)
    sk("skel_try_deal", fn(Qn + r"try_deal\s*\("), tail)
    sk("skel_deal_n", function_body(txt, Qn + r"deal_n_continuously\s*\(", 0), tail)
    sk("skel_deal_n_comp", function_body(txt, Qn + r"deal_n_continuously\s*\(", 1), tail)
    sk("skel_try_deal_n", fn(Qn + r"try_deal_n_continuously\s*\("), tail)
    # memory-order arguments in source order (orders handed to version()/wait/set_version as parameters
    # do not show in the skeletons above, where a parameter `order` prints as .sc)
    def ords(name, body):
        os_ = [ORD[x] for x in re.findall(r"memory_order_(\w+)", strip_comments(body))]
        items.append("def ords_%s : List Ord := [%s]" % (name, ", ".join("." + o for o in os_)))
    ords("deal", fn(Qn + r"deal\s*\("))
    ords("try_deal", fn(Qn + r"try_deal\s*\("))
    ords("deal_n", function_body(txt, Qn + r"deal_n_continuously\s*\(", 0))
    ords("deal_n_comp", function_body(txt, Qn + r"deal_n_continuously\s*\(", 1))
    ords("try_deal_n", fn(Qn + r"try_deal_n_continuously\s*\("))
    ords("timed_pop_n", fn(Qn + r"try_pop_n_exclusively_until\s*\("))
    # whitespace-free source text (signature types + body) of every modelled function, and of the declarations that fix the
    # 16-bit truncation: any edit — a widened parameter type, `==` turned into `>=`, a changed early return, swapped template
    # flags at a call site, a dropped timeout refresh — breaks the `gen_src_*` obligations
    head = resolve_ifs(H, extra=["-fsanitize=thread"])
    m = re.search(r"class SlotFutex\s*\{.*?\n  \};", head, flags=re.S)
    if not m:
        raise ExtractError("SlotFutex declaration not found")
    items.append(_str_def("src_decl_slotfutex", _norm(m.group(0))))
    m = re.search(r"inline\s+\w+\s+push_version_for_index\s*\([^;]*;\s*inline\s+\w+\s+pop_version_for_index\s*\([^;]*;", head, flags=re.S)
    if not m:
        raise ExtractError("version_for_index declarations not found")
    items.append(_str_def("src_decl_version_for_index", _norm(m.group(0))))
    ft = lambda rx, nth=0: _norm(function_text(txt, rx, nth))
    for name, rx, nth in [
        ("version", SF + r"\s*version\s*\(", 0), ("wait", SF + r"\s*wait_until_reach_expected_version\s*\(", 0),
        ("set_version", SF + r"\s*set_version\s*\(", 0), ("wakeup_waiters", SF + r"\s*wakeup_waiters\s*\(", 0),
        ("set_version_and_wakeup", SF + r"\s*set_version_and_wakeup_waiters\s*\(", 0),
        ("block_slow", SF + r"\s*block_until_reach_expected_version_slow\s*\(", 0),
        ("spin_slow", SF + r"\s*spin_until_reach_expected_version_slow\s*\(", 0),
        ("push_version_for_index", Qn + r"push_version_for_index\s*\(", 0),
        ("pop_version_for_index", Qn + r"pop_version_for_index\s*\(", 0),
        ("push_n", Qn + r"push_n\s*\(\s*C\s*&&\s*callback\s*,\s*size_t", 1),
        ("pop_n", Qn + r"pop_n\s*\(\s*C\s*&&\s*callback\s*,\s*size_t", 1),
        ("try_push_n", Qn + r"try_push_n\s*\(", 0), ("try_pop_n", Qn + r"try_pop_n\s*\(", 0),
        ("cpush_n", Qn + r"push_n\s*\(\s*C\s*&&\s*callback\s*,\s*RC", 0), ("cpop_n", Qn + r"pop_n\s*\(\s*C\s*&&\s*callback\s*,\s*RC", 0),
        ("timed_pop_n", Qn + r"try_pop_n_exclusively_until\s*\(", 0),
        ("deal", Qn + r"deal\s*\(", 0), ("try_deal", Qn + r"try_deal\s*\(", 0),
        ("deal_n", Qn + r"deal_n_continuously\s*\(", 0), ("deal_n_comp", Qn + r"deal_n_continuously\s*\(", 1),
        ("try_deal_n", Qn + r"try_deal_n_continuously\s*\(", 0)]:
        items.append(_str_def("src_" + name, ft(rx, nth)))
    # the scheduling interface the futex calls go through (sched_interface.hpp): signature + body from the `inline` keyword
    sched = resolve_ifs(SCHED, extra=["-fsanitize=thread"])
    def sched_text(rx):
        body = function_body(sched, rx)
        m0 = re.search(rx, sched)
        start = sched.rfind("inline", 0, m0.start())
        return _norm(sched[start:sched.index(body, m0.start()) + len(body)])
    for name in ("futex_wait", "futex_wake_one", "futex_wake_all", "usleep", "yield"):
        items.append(_str_def("src_sched_" + name, sched_text(r"SchedInterface::" + name + r"\s*\(")))
    fx = r"Futex<\s*S,\s*typename\s*::std::enable_if<!S::futex_need_create\(\)>::type>::\s*"
    items.append(_str_def("src_futex_wait", _norm(function_body(sched, fx + r"wait\s*\("))))
    items.append(_str_def("src_futex_wake_all", _norm(function_body(sched, fx + r"wake_all\s*\("))))
    items.append(_str_def("src_push", _norm(last(Qn + r"push\s*\(\s*C\s*&&"))))
    items.append(_str_def("src_pop", _norm(last(Qn + r"pop\s*\(\s*C\s*&&"))))
    # orders of the batch paths as named constants, located by their position between the notable calls of
    # deal_n_continuously; a fence that is no longer there is emitted as `.rlx` (a relaxed fence is a no-op) so that
    # dropping it reaches the view-model theorems (bq_wake_view, bq_publication_batch) instead of raising here
    def fence_between(name, sites, after, before):
        i = next((k for k, x in enumerate(sites) if x == '.call "%s"' % after), None)
        j = next((k for k, x in enumerate(sites) if k > (i if i is not None else -1) and x == '.call "%s"' % before), None)
        if i is None or j is None:
            raise ExtractError("%s: calls %s / %s not found" % (name, after, before))
        f = [x for x in sites[i + 1:j] if x.startswith(".fence")]
        if len(f) > 1:
            raise ExtractError("%s: more than one fence between %s and %s" % (name, after, before))
        items.append("def %s : Ord := %s" % (name, f[0].split()[-1] if f else ".rlx"))
    for pre, body in (("ordBatch", function_body(txt, Qn + r"deal_n_continuously\s*\(", 0)), ("ordTryBatch", fn(Qn + r"try_deal_n_continuously\s*\("))):
        sites = skeleton(body, tail)
        first = "wait_until_reach_expected_version" if pre == "ordBatch" else "version"
        fence_between(pre + "AcqFence", sites, first, "callback")
        fence_between(pre + "RelFence", sites, "callback", "set_version")
        fence_between(pre + "ScFence", sites, "set_version", "wakeup_waiters")
        b = strip_comments(body)
        m = re.search(r"(?:wait_until_reach_expected_version<[^>]*>\s*\([^;]*?|version\s*\(\s*::std::)memory_order_(\w+)", b, flags=re.S)
        if not m:
            raise ExtractError(pre + ": version load order not found")
        items.append("def %sLoad : Ord := .%s" % (pre, ORD[m.group(1)]))
        m = re.search(r"set_version\s*\([^;]*?memory_order_(\w+)", b, flags=re.S)
        if not m:
            raise ExtractError(pre + ": version store order not found")
        items.append("def %sStore : Ord := .%s" % (pre, ORD[m.group(1)]))
    ww = skeleton(fn(SF + r"\s*wakeup_waiters\s*\("), [r"wake_all"])
    lw = [x for x in ww if x.startswith(".load")]
    if len(lw) != 1:
        raise ExtractError("wakeup_waiters: waiter-word load not found")
    items.append("def ordWakeLoad : Ord := %s" % lw[0].split()[-1])
    # template flags at the internal call sites of the default (flag-less) overloads and of clear()
    defaults = {}
    for name in ("push", "try_push", "push_n", "pop", "try_pop", "pop_n"):
        body = strip_comments(function_body(txt, Qn + name + r"\s*\(", 0))
        m = re.search(name + r"\s*<\s*([\w\s,]+?)\s*>\s*\(", body)
        if not m:
            raise ExtractError("default flags of %s not found" % name)
        defaults[name] = [x.strip() for x in m.group(1).split(",")]
    items.append("def defaultFlags : List (String × List Bool) := [" + ", ".join(
        '("%s", [%s])' % (k, ", ".join(v)) for k, v in defaults.items()) + "]")
    comp = strip_comments(function_body(txt, Qn + r"deal_n_continuously\s*\(", 1))
    m1 = re.search(r"try_pop_n\s*<\s*(\w+)\s*,\s*(\w+)\s*>", comp)
    m2 = re.search(r"try_push_n\s*<\s*(\w+)\s*,\s*(\w+)\s*>", comp)
    if not (m1 and m2):
        raise ExtractError("compensation call sites not found")
    items.append("def compFlags : List Bool := [%s, %s, %s, %s]" % (m1.group(1), m1.group(2), m2.group(1), m2.group(2)))
    m = re.search(r"try_pop_n\s*<\s*(\w+)\s*,", tp)
    m0 = re.search(r"wait_until_reach_expected_version\s*<\s*(\w+)\s*>", tp)
    if not (m and m0):
        raise ExtractError("timed pop call sites not found")
    items.append("def timedFlags : List Bool := [%s, %s]" % (m0.group(1), m.group(1)))
    emit("BQ", items)


if __name__ == "__main__":
    generate()
    print((GEN_DIR / "BQ.lean").read_text())
