"""Translator for GarbageCollector (C10): constants, loop / comparison shapes, call skeletons, the
epoch and queue call sites the event-level model relies on -> lean/Babylon/Gen/GC.lean"""
from .common import *
from .common import _call_args

H = "babylon/concurrent/garbage_collector.h"
EPOCH = "babylon/concurrent/epoch.h"
BQ = "babylon/concurrent/bounded_queue.hpp"


def _norm(s):
    return re.sub(r"\s+", "", s)


def _paren_after(body, kw_rx, nth=0):
    """text inside the parentheses following the nth match of kw_rx"""
    hits = list(re.finditer(kw_rx, body))
    if len(hits) <= nth:
        raise ExtractError("not found: %s #%d" % (kw_rx, nth))
    i = body.index("(", hits[nth].start())
    args, _ = _call_args(body, i)
    return args


def str_def(name, v):
    return 'def %s : String := "%s"' % (name, v.replace("\\", "\\\\").replace('"', '\\"'))


def bool_list_def(name, vs):
    return "def %s : List Bool := [%s]" % (name, ", ".join("true" if v else "false" for v in vs))


def _tmpl_flags(body, callee):
    m = re.search(callee + r"\s*<\s*([^<>]*?)\s*>\s*\(", body)
    if not m:
        raise ExtractError("template flags of %s not found" % callee)
    out = []
    for a in m.group(1).split(","):
        a = a.strip()
        if a not in ("true", "false"):
            raise ExtractError("non-literal template flag %r at %s" % (a, callee))
        out.append(a == "true")
    return out


def generate():
    txt = resolve_ifs(H)
    fn = lambda name, nth=0: strip_comments(function_body(txt, r"GarbageCollector<R>::" + name + r"\s*\(", nth))
    items = []

    # ---- keep_reclaim: constants and the shape of the loop
    k = fn("keep_reclaim")
    m = re.search(r"batch\s*=\s*::std::min<size_t>\(\s*(\d+)\s*,\s*_queue\.capacity\(\)\s*\)", k)
    if not m:
        raise ExtractError("keep_reclaim: batch computation not found")
    items.append(nat_def("batchMax", int(m.group(1))))
    m = re.search(r"backoff_us\s*=\s*(\d+)\s*;", k)
    if not m:
        raise ExtractError("keep_reclaim: initial back-off not found")
    items.append(nat_def("backoffInit", int(m.group(1))))
    m = re.search(r"if\s*\(\s*reclaimed\s*<\s*(\d+)\s*\)\s*\{\s*backoff_us\s*=\s*::std::min<size_t>\(\s*backoff_us\s*\+\s*(\d+)\s*,\s*(\d+)\s*\)\s*;\s*::usleep\(\s*backoff_us\s*\)\s*;\s*\}\s*else\s+if\s*\(\s*reclaimed\s*>=\s*batch\s*\)\s*\{\s*backoff_us\s*>>=\s*(\d+)\s*;", k)
    if not m:
        raise ExtractError("keep_reclaim: back-off block has a new shape")
    items.append(nat_def("sleepBelow", int(m.group(1))))
    items.append(nat_def("backoffIncr", int(m.group(2))))
    items.append(nat_def("backoffMax", int(m.group(3))))
    items.append(nat_def("backoffShift", int(m.group(4))))
    items.append(str_def("loopCond", _norm(_paren_after(k, r"\bwhile\s*\("))))
    items.append(str_def("consumeCond", _norm(_paren_after(k, r"\bif\s*\(", 0))))
    # statements of the consume block and of the tail of one pass, in order
    m = re.search(r"\bif\s*\([^{]*\{(.*?)\}\s*auto\s+reclaimed\s*=\s*(.*?);\s*index\s*\+=\s*reclaimed\s*;", k, re.S)
    if not m:
        raise ExtractError("keep_reclaim: consume block / reclaim call has a new shape")
    items.append(str_def("consumeBlock", _norm(m.group(1))))
    items.append(str_def("reclaimCall", _norm(m.group(2))))
    items.append(skel_def("skel_keep_reclaim", skeleton(k, ["clear", "consume_reclaim_task", "reclaim_start_from", "usleep"])))

    # ---- consume_reclaim_task: marker test, what happens at the marker, pop flavour
    c = fn("consume_reclaim_task")
    m = re.search(r"task\.lowest_epoch\s*==\s*\(?\s*(\d+)UL?L?\s*\)?", c)
    if not m:
        raise ExtractError("consume_reclaim_task: marker comparison not found")
    items.append(nat_def("markerEpoch", int(m.group(1))))
    m = re.search(r"while\s*\(\s*iter\s*<\s*end\s*\)\s*\{\s*auto&\s*task\s*=\s*\*iter\+\+\s*;\s*if\s*\(.*?\)\s*\{\s*(.*?)\}\s*(.*?)\}", c, re.S)
    if not m:
        raise ExtractError("consume_reclaim_task: callback loop has a new shape")
    items.append(str_def("markerAction", _norm(m.group(1))))
    items.append(str_def("absorbAction", _norm(m.group(2))))
    items.append(bool_list_def("popFlags", _tmpl_flags(c, "try_pop_n")))
    m = re.search(r"bool\s+running\s*=\s*(true|false)\s*;", c)
    if not m:
        raise ExtractError("consume_reclaim_task: initial running flag not found")
    items.append("def consumeRunningInit : Bool := %s" % m.group(1))
    items.append(skel_def("skel_consume", skeleton(c, ["try_pop_n", "emplace_back"])))

    # ---- reclaim_start_from: comparison against the low water mark, prefix semantics
    r = fn("reclaim_start_from")
    m = re.search(r"for\s*\(\s*;\s*index\s*<\s*tasks\.size\(\)\s*;\s*\+\+index\s*\)\s*\{\s*auto&\s*task\s*=\s*tasks\[index\]\s*;\s*if\s*\((.*?)\)\s*\{\s*(.*?)\}", r, re.S)
    if not m:
        raise ExtractError("reclaim_start_from: loop has a new shape")
    items.append(str_def("notYetCond", _norm(m.group(1))))
    items.append(str_def("notYetAction", _norm(m.group(2))))
    items.append(skel_def("skel_reclaim_start_from", skeleton(r, ["low_water_mark", r"t\.reclaimer"])))
    if "low_water_mark()" not in r or r.index("low_water_mark()") > r.index("for"):
        raise ExtractError("reclaim_start_from: the low water mark is no longer read inside it, once, before the walk")

    # ---- start / stop / retire: the whole statement text of the two life-cycle functions
    st = fn("start")
    items.append(str_def("startBody", _norm(st)))
    items.append(skel_def("skel_start", skeleton(st, ["joinable", "clear", "reserve_and_clear", "swap", r"::std::thread"])))
    s = fn("stop")
    items.append(str_def("stopBody", _norm(s)))
    items.append(skel_def("skel_stop", skeleton(s, ["joinable", "push", "join"])))
    items.append(bool_list_def("stopPushFlags", _tmpl_flags(s, "push")))
    if not re.search(r"push<[^>]*>\(\s*ReclaimTask\s*\{\s*\}\s*\)", s):
        raise ExtractError("stop: marker is no longer a default-constructed ReclaimTask")
    r1 = fn("retire", 0)
    r2 = fn("retire", 1)
    items.append(skel_def("skel_retire", skeleton(r1, ["tick", "retire"]) + skeleton(r2, ["push"])))
    items.append(bool_list_def("retirePushFlags", _tmpl_flags(r2, "push")))
    c0 = probe([H], {"defaultEpoch": "::babylon::GarbageCollector<void(*)()>::ReclaimTask{}.lowest_epoch"})
    items.append(nat_def("defaultEpoch", c0["defaultEpoch"] & (2 ** 64 - 1)))

    # ---- epoch call sites the event-level specification is stated over (proved under C09)
    e = resolve_ifs(EPOCH)
    efn = lambda head, nth=0: strip_comments(function_body(e, head, nth))
    tick = efn(r"Epoch::tick\s*\(")
    items.append(skel_def("skel_epoch_tick", skeleton(tick)))
    m = re.search(r"version\s*=\s*(\d+)\s*\+\s*_version\.fetch_add\(\s*(\d+)\s*,", tick)
    if not m:
        raise ExtractError("Epoch::tick: shape changed")
    items.append(nat_def("tickReturnsOldPlus", int(m.group(1))))
    items.append(nat_def("tickAdds", int(m.group(2))))
    items.append(skel_def("skel_epoch_lock", skeleton(efn(r"Epoch::lock\s*\(\s*size_t"))))
    items.append(skel_def("skel_epoch_unlock", skeleton(efn(r"Epoch::unlock\s*\(\s*size_t"))))
    items.append(skel_def("skel_epoch_lwm", skeleton(efn(r"Epoch::low_water_mark\s*\("), ["snapshot", "accessor_number", "for_each"])))
    un = efn(r"Epoch::unlock\s*\(\s*size_t")
    m = re.search(r"slot\.version\.store\(\s*\(?\s*(\d+)UL?L?\s*\)?\s*,", un)
    if not m:
        raise ExtractError("Epoch::unlock: idle value not found")
    items.append(nat_def("slotIdle", int(m.group(1))))

    # ---- queue call sites (FIFO ticket queue proved under C01): ticket = fetch_add on the push index
    q = resolve_ifs(BQ)
    push = strip_comments(function_body(q, r"ConcurrentBoundedQueue<T,\s*S>::push\s*\(\s*C&&", 1))
    items.append(skel_def("skel_queue_push", skeleton(push, ["deal"])))
    tpn = strip_comments(function_body(q, r"ConcurrentBoundedQueue<T,\s*S>::try_pop_n\s*\("))
    items.append(skel_def("skel_queue_try_pop_n", skeleton(tpn, ["try_deal_n_continuously"])))
    emit("GC", items)
