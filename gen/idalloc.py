"""Translator for IdAllocator / DepositBox (C14): constants, memory orders, atomic skeletons
-> lean/Babylon/Gen/IdAlloc.lean"""
from .common import *

HPP = "babylon/concurrent/id_allocator.hpp"
H = "babylon/concurrent/id_allocator.h"
BOX = "babylon/concurrent/deposit_box.h"


def generate():
    c = probe([H], {
        "tail16": "::babylon::IdAllocator<uint16_t>::FREE_LIST_TAIL",
        "active16": "::babylon::IdAllocator<uint16_t>::ACTIVE_FLAG",
        "tail32": "::babylon::IdAllocator<uint32_t>::FREE_LIST_TAIL",
        "active32": "::babylon::IdAllocator<uint32_t>::ACTIVE_FLAG",
        "sizeofVV16": "sizeof(::babylon::VersionedValue<uint16_t>)",
        "sizeofVV32": "sizeof(::babylon::VersionedValue<uint32_t>)",
        "valueOffset": "offsetof(::babylon::VersionedValue<uint32_t>, value)",
        "versionOffset32": "offsetof(::babylon::VersionedValue<uint32_t>, version)",
        "versionOffset16": "offsetof(::babylon::VersionedValue<uint16_t>, version)",
    })
    items = [nat_def(k, v) for k, v in c.items()]
    txt = resolve_ifs(HPP)
    fn = lambda name: function_body(txt, r"IdAllocator<T>::" + name + r"\s*\(")
    items.append(skel_def("skel_allocate", skeleton(fn("allocate"), ["ensure"])))
    items.append(skel_def("skel_deallocate", skeleton(fn("deallocate"))))
    items.append(skel_def("skel_end", skeleton(fn("end"))))
    items.append(skel_def("skel_for_each", skeleton(fn("for_each"), ["snapshot", "callback"])))
    box = resolve_ifs(BOX)
    bfn = lambda name: function_body(box, r"DepositBox<T>::" + name + r"\s*\(")
    items.append(skel_def("skel_box_emplace", skeleton(bfn("emplace"), ["allocate", "ensure", r"object\.emplace"])))
    items.append(skel_def("skel_box_take_released", skeleton(bfn("take_released"))))
    items.append(skel_def("skel_box_finish_released", skeleton(bfn("finish_released"), ["deallocate"])))
    # the version increment in deallocate and the taker's CAS target
    d = strip_comments(fn("deallocate"))
    m = re.search(r"id\.version\s*=\s*current_head\.version\s*\+\s*(\d+)", d)
    if not m:
        raise ExtractError("deallocate: version bump not found")
    items.append(nat_def("pushVersionBump", int(m.group(1))))
    t = strip_comments(bfn("take_released"))
    m = re.search(r"compare_exchange_strong\s*\(\s*id\.version\s*,\s*id\.version\s*\+\s*(\d+)", t)
    if not m:
        raise ExtractError("take_released: CAS shape not found")
    items.append(nat_def("takeVersionBump", int(m.group(1))))
    a = strip_comments(fn("allocate"))
    if not re.search(r"new_head\.version\s*=\s*current_head\.version\s*;", a):
        raise ExtractError("allocate: pop no longer keeps the version")
    items.append(nat_def("popVersionBump", 0))
    emit("IdAlloc", items)
