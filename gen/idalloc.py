"""Translator for IdAllocator / DepositBox (C14): constants, memory orders, atomic skeletons
-> lean/Babylon/Gen/IdAlloc.lean"""
from .common import *

HPP = "babylon/concurrent/id_allocator.hpp"
H = "babylon/concurrent/id_allocator.h"
BOX = "babylon/concurrent/deposit_box.h"


def generate():
    c = probe([H], {
        "tail16": "::babylon::IdAllocator<uint16_t>::FREE_LIST_TAIL",
        "active16": "::babylon::IdAllocator<uint16_t>::ACTIVE_FLAG",
        "tail32": "::babylon::IdAllocator<uint32_t>::FREE_LIST_TAIL",
        "active32": "::babylon::IdAllocator<uint32_t>::ACTIVE_FLAG",
        "sizeofVV16": "sizeof(::babylon::VersionedValue<uint16_t>)",
        "sizeofVV32": "sizeof(::babylon::VersionedValue<uint32_t>)",
        "valueOffset": "offsetof(::babylon::VersionedValue<uint32_t>, value)",
        "versionOffset32": "offsetof(::babylon::VersionedValue<uint32_t>, version)",
        "versionOffset16": "offsetof(::babylon::VersionedValue<uint16_t>, version)",
    })
    items = [nat_def(k, v) for k, v in c.items()]
    txt = resolve_ifs(HPP)
    fn = lambda name: function_body(txt, r"IdAllocator<T>::" + name + r"\s*\(")
    items.append(skel_def("skel_allocate", skeleton(fn("allocate"), ["ensure"])))
    items.append(skel_def("skel_deallocate", skeleton(fn("deallocate"))))
    items.append(skel_def("skel_end", skeleton(fn("end"))))
    items.append(skel_def("skel_for_each", skeleton(fn("for_each"), ["snapshot", "callback"])))
    box = resolve_ifs(BOX)
    bfn = lambda name: function_body(box, r"DepositBox<T>::" + name + r"\s*\(")
    items.append(skel_def("skel_box_emplace", skeleton(bfn("emplace"), ["allocate", "ensure", r"object\.emplace"])))
    items.append(skel_def("skel_box_take_released", skeleton(bfn("take_released"))))
    items.append(skel_def("skel_box_finish_released", skeleton(bfn("finish_released"), ["deallocate"])))
    # the version increment in deallocate and the taker's CAS target
    d = strip_comments(fn("deallocate"))
    m = re.search(r"id\.version\s*=\s*current_head\.version\s*\+\s*(\d+)", d)
    if not m:
        raise ExtractError("deallocate: version bump not found")
    items.append(nat_def("pushVersionBump", int(m.group(1))))
    t = strip_comments(bfn("take_released"))
    m = re.search(r"compare_exchange_strong\s*\(\s*id\.version\s*,\s*id\.version\s*\+\s*(\d+)", t)
    if not m:
        raise ExtractError("take_released: CAS shape not found")
    items.append(nat_def("takeVersionBump", int(m.group(1))))
    a = strip_comments(fn("allocate"))
    if not re.search(r"new_head\.version\s*=\s*current_head\.version\s*;", a):
        raise ExtractError("allocate: pop no longer keeps the version")
    items.append(nat_def("popVersionBump", 0))
    # whitespace-free, comment-free text (head + body) of every function the models follow statement by
    # statement or that the harness-only modes (for_each scan, Accessor, per-thread ids) rely on: any edit
    # — a changed local type, a rewritten special member function, a reordered statement — breaks a
    # gen_src_* obligation of Properties/C14.lean and the model / harness has to be re-read against it
    def norm(s):
        return re.sub(r"\s+", "", strip_comments(s))

    def func_text(txt, head_rx, nth=0):
        hits = [m for m in re.finditer(head_rx, txt, flags=re.S)]
        k = -1
        for m in hits:
            j, depth = m.start(), 0
            while j < len(txt):
                c = txt[j]
                if c == "(":
                    depth += 1
                elif c == ")":
                    depth -= 1
                elif depth == 0 and c == ";":
                    j = -1
                    break
                elif depth == 0 and c == "{":
                    break
                j += 1
            if j < 0 or j >= len(txt):
                continue
            k += 1
            if k != nth:
                continue
            e = match_brace(txt, j)
            # constructor: `: Base {args} {body}` — keep going while another brace group follows directly
            while True:
                r = re.match(r"\s*,?\s*(?:\w+\s*)?\{", txt[e:])
                if not r:
                    break
                e = match_brace(txt, e + r.end() - 1)
            return txt[m.start():e]
        raise ExtractError("function not found: %s" % head_rx)

    def sdef(name, text):
        return 'def src_%s : String := "%s"' % (name, text.replace("\\", "\\\\").replace('"', '\\"'))
    A = r"IdAllocator<T>::"
    Tn = r"ThreadIdImpl<Leaky>::"
    B = r"DepositBox<T>::"
    for nm, src, rx in [
        ("allocate", txt, A + r"allocate\s*\("), ("deallocate", txt, A + r"deallocate\s*\("), ("end", txt, r"T " + A + r"end\s*\("),
        ("for_each", txt, A + r"for_each\s*\("), ("next_value", txt, A + r"next_value\s*\(\)\s*noexcept"),
        ("free_head", txt, A + r"free_head\s*\("),
        ("tid_current", txt, Tn + r"current_thread_id\s*\("), ("tid_end", txt, Tn + r"end\s*\("),
        ("tid_for_each", txt, Tn + r"for_each\s*\("), ("tid_ctor", txt, Tn + r"ThreadIdImpl\s*\("),
        ("tid_dtor", txt, Tn + r"~ThreadIdImpl\s*\("),
        ("acc_move_ctor", box, B + r"Accessor::Accessor\s*\(\s*Accessor&&"),
        ("acc_move_assign", box, B + r"Accessor::operator=\s*\(\s*Accessor&&"),
        ("acc_dtor", box, B + r"Accessor::~Accessor\s*\("), ("acc_bool", box, B + r"Accessor::operator bool\s*\("),
        ("acc_arrow", box, B + r"Accessor::operator->\s*\("), ("acc_star", box, B + r"Accessor::operator\*\s*\("),
        ("acc_ctor", box, B + r"Accessor::Accessor\s*\(\s*DepositBox\*"),
        ("box_emplace", box, B + r"emplace\s*\("), ("box_take", box, B + r"take\s*\("),
        ("box_take_released", box, B + r"take_released\s*\("), ("box_finish_released", box, B + r"finish_released\s*\("),
        ("box_unsafe_get", box, B + r"unsafe_get\s*\("),
    ]:
        items.append(sdef(nm, norm(func_text(src, rx))))
    hdr = resolve_ifs(H)
    for nm, src, rx in [
        ("decl_versioned_value", hdr, r"struct VersionedValue\s*\{"), ("decl_id_allocator", hdr, r"class IdAllocator\s*\{"),
        ("decl_thread_id_impl", hdr, r"class ThreadIdImpl\s*\{"),
        ("decl_accessor", box, r"class DepositBox<T>::Accessor\s*\{"), ("decl_slot", box, r"struct Slot\s*\{"),
    ]:
        m = re.search(rx, src)
        if not m:
            raise ExtractError("declaration not found: " + rx)
        items.append(sdef(nm, norm(src[m.start():match_brace(src, m.end() - 1)])))
    emit("IdAlloc", items)
