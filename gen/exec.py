"""Translator for the executors (C07): queue sizing factors, queue call-site template flags, the
statement skeletons of stop / keep_execute / keep_balance / enqueue_task / start, the dispatch of
the three task types, the front-end's failure branch, the inplace / new-thread executors, and the
index-level skeletons of the bounded-queue operations the ticket-level queue specification of
lean/Babylon/Exec/Model.lean is stated over  -> lean/Babylon/Gen/Exec.lean"""
from .common import *
from .common import _call_args

CPP = "babylon/executor.cpp"
HPP = "babylon/executor.hpp"
H = "babylon/executor.h"
BASIC_H = "babylon/basic_executor.h"
BASIC_CPP = "babylon/basic_executor.cpp"
BQ = "babylon/concurrent/bounded_queue.hpp"


def _norm(s):
    return re.sub(r"\s+", "", s)


def str_def(name, v):
    return 'def %s : String := "%s"' % (name, v.replace("\\", "\\\\").replace('"', '\\"'))


def bool_list_def(name, vs):
    return "def %s : List Bool := [%s]" % (name, ", ".join("true" if v else "false" for v in vs))


def str_list_def(name, vs):
    return "def %s : List String := [%s]" % (name, ", ".join('"%s"' % v.replace("\\", "\\\\").replace('"', '\\"') for v in vs))


def _tmpl_flags_all(body, callee_rx):
    """template flag lists of every call matching `<obj>.<callee><flags>(` in source order"""
    out = []
    for m in re.finditer(r"([A-Za-z_][\w\.]*)\s*\.\s*(?:template\s+)?(" + callee_rx + r")\s*<\s*([^<>]*?)\s*>\s*\(", body):
        flags = []
        for a in m.group(3).split(","):
            a = a.strip()
            if a not in ("true", "false"):
                raise ExtractError("non-literal template flag %r at %s" % (a, m.group(0)))
            flags.append(a == "true")
        out.append((_norm(m.group(1)), m.group(2), flags))
    return out


def _cpp_text(rel):
    """a .cpp of the repo, comments stripped, #if resolved by preprocessing the file itself"""
    r = subprocess.run(["g++", "-E", "-x", "c++"] + CXXFLAGS + [str(REPO / "src" / rel)], capture_output=True, text=True)
    if r.returncode != 0:
        raise ExtractError("preprocess %s: %s" % (rel, r.stderr[-500:]))
    want = str(REPO / "src" / rel)
    out, on = [], False
    for line in r.stdout.splitlines():
        m = re.match(r'# \d+ "([^"]+)"', line)
        if m:
            on = (m.group(1) == want)
            continue
        if on:
            out.append(line)
    return "\n".join(out)


def _stmts(body):
    """top-level statement heads of a function body (normalised), a cheap order-sensitive fingerprint"""
    b = strip_comments(body).strip()
    assert b[0] == "{"
    b = b[1:-1]
    out, depth, cur = [], 0, ""
    for ch in b:
        if ch in "({[":
            depth += 1
        elif ch in ")}]":
            depth -= 1
        cur += ch
        if depth == 0 and ch in ";}":
            s = _norm(cur)
            if s and s != ";":
                out.append(s)
            cur = ""
    if _norm(cur):
        out.append(_norm(cur))
    return out


def generate():
    cpp = _cpp_text(CPP)
    fn = lambda name: strip_comments(function_body(cpp, r"ThreadPoolExecutor::" + name + r"\s*\("))
    items = []

    # ---- start(): capacities of the global and of every local queue
    st = fn("start")
    m = re.search(r"_global_task_queue\.reserve_and_clear\(\s*_global_capacity\s*\*\s*(\d+)\s*\)", st)
    if not m:
        raise ExtractError("start: global queue sizing has a new shape")
    items.append(nat_def("globalFactor", int(m.group(1))))
    m = re.search(r"queue->reserve_and_clear\(\s*_local_capacity\s*\*\s*(\d+)\s*\)", st)
    if not m:
        raise ExtractError("start: local queue sizing has a new shape")
    items.append(nat_def("localFactor", int(m.group(1))))
    items.append(str_list_def("stmts_start", _stmts(st)))
    items.append(skel_def("skel_start", skeleton(st, ["reserve_and_clear", "set_constructor", "emplace_back", r"::std::thread"])))

    # ---- stop(): order of the phases
    sp = fn("stop")
    items.append(skel_def("skel_stop", skeleton(sp, ["joinable", "join", "push", "clear"])))
    items.append(str_list_def("stmts_stop", _stmts(sp)))
    fl = _tmpl_flags_all(sp, "push")
    if len(fl) != 1:
        raise ExtractError("stop: expected one push call")
    items.append(bool_list_def("stopPushFlags", fl[0][2]))
    if not re.search(r"for\s*\(\s*size_t\s+i\s*=\s*0\s*;\s*i\s*<\s*_threads\.size\(\)\s*;\s*\+\+i\s*\)\s*\{\s*_global_task_queue\.push<[^>]*>\(\s*Task\s*\{\s*\.type\s*=\s*TaskType::STOP", sp):
        raise ExtractError("stop: marker loop has a new shape (one STOP per worker thread expected)")
    d = fn("~ThreadPoolExecutor")
    items.append(str_list_def("stmts_dtor", _stmts(d)))

    # ---- keep_execute(): worker loop
    ke = fn("keep_execute")
    items.append(skel_def("skel_keep_execute", skeleton(ke, ["local", "try_pop", "for_each", "pop", r"task\.function"])))
    fl = _tmpl_flags_all(ke, "try_pop|pop")
    want = [("local_queue", "try_pop"), ("queue", "try_pop"), ("_global_task_queue", "pop")]
    if [(a, b) for a, b, _ in fl] != want:
        raise ExtractError("keep_execute: queue calls are %r, expected %r" % ([(a, b) for a, b, _ in fl], want))
    items.append(bool_list_def("ownPopFlags", fl[0][2]))
    items.append(bool_list_def("stealPopFlags", fl[1][2]))
    items.append(bool_list_def("globalPopFlags", fl[2][2]))
    m = re.search(r"if\s*\(\s*!local_queue\.try_pop<[^>]*>\(task\)\s*\)\s*\{\s*bool\s+steal_success\s*=\s*false\s*;\s*if\s*\(\s*_enable_work_stealing\s*\)\s*\{(.*?)\}\s*if\s*\(\s*!steal_success\s*\)\s*\{\s*_global_task_queue\.pop<[^>]*>\(task\)\s*;\s*\}\s*\}\s*switch", ke, re.S)
    if not m:
        raise ExtractError("keep_execute: own / steal / global order has a new shape")
    items.append(str_def("stealBlock", _norm(m.group(1))))
    m = re.search(r"switch\s*\(\s*task\.type\s*\)\s*\{(.*)\}\s*\}\s*\}\s*$", ke, re.S)
    if not m:
        raise ExtractError("keep_execute: dispatch switch not found")
    sw = _norm(m.group(1))
    items.append(str_def("dispatch", sw))
    if "RunnerScopescope{*this};while(true)" not in _norm(ke):
        raise ExtractError("keep_execute: RunnerScope no longer covers the whole loop")

    # ---- keep_balance()
    kb = fn("keep_balance")
    items.append(skel_def("skel_keep_balance", skeleton(kb, ["sleep_for", "for_each", "try_pop", "enqueue_task"])))
    fl = _tmpl_flags_all(kb, "try_pop")
    if len(fl) != 1:
        raise ExtractError("keep_balance: expected one try_pop")
    items.append(bool_list_def("balancePopFlags", fl[0][2]))
    items.append(str_list_def("stmts_keep_balance", _stmts(kb)))

    # ---- enqueue_task(): local vs. global
    eq = fn("enqueue_task")
    items.append(str_list_def("stmts_enqueue_task", _stmts(eq)))
    items.append(skel_def("skel_enqueue_task", skeleton(eq, ["is_running_in", "local", "size", "push"])))
    fl = _tmpl_flags_all(eq, "push")
    if [(a, b) for a, b, _ in fl] != [("local_queue", "push"), ("_global_task_queue", "push")]:
        raise ExtractError("enqueue_task: push calls have a new shape")
    items.append(bool_list_def("localPushFlags", fl[0][2]))
    items.append(bool_list_def("globalPushFlags", fl[1][2]))
    wk = fn("wakeup_one_worker")
    fl = _tmpl_flags_all(wk, "push")
    items.append(bool_list_def("wakeupPushFlags", fl[0][2]))
    items.append(str_list_def("stmts_invoke", _stmts(fn("invoke"))))

    # ---- inplace / new-thread executors
    ip = strip_comments(function_body(cpp, r"InplaceExecutor::invoke\s*\("))
    items.append(str_list_def("stmts_inplace_invoke", _stmts(ip)))
    nt = strip_comments(function_body(cpp, r"AlwaysUseNewThreadExecutor::invoke\s*\("))
    items.append(skel_def("skel_newthread_invoke", skeleton(nt, [r"::std::thread", "captured_function", "detach"])))
    items.append(str_list_def("stmts_newthread_invoke", _stmts(nt)))
    items.append(str_list_def("stmts_newthread_dtor", _stmts(strip_comments(function_body(cpp, r"AlwaysUseNewThreadExecutor::~AlwaysUseNewThreadExecutor\s*\(")))))
    nj = strip_comments(function_body(cpp, r"AlwaysUseNewThreadExecutor::join\s*\("))
    items.append(skel_def("skel_newthread_join", skeleton(nj, ["usleep"])))
    items.append(str_list_def("stmts_newthread_join", _stmts(nj)))

    # ---- front end: failed invoke => default (invalid) future, function not called
    hpp = resolve_ifs(HPP)
    ex = strip_comments(function_body(hpp, r"Executor::execute\s*\(", 0))
    m = re.search(r"auto\s+ret\s*=\s*invoke\(::std::move\(function\)\)\s*;\s*if\s*\((.*?)\)\s*\{\s*(.*?)\}\s*return\s+future\s*;", ex, re.S)
    if not m:
        raise ExtractError("Executor::execute: failure branch has a new shape")
    items.append(str_list_def("stmts_execute", _stmts(ex)))
    items.append(str_list_def("stmts_submit", _stmts(strip_comments(function_body(hpp, r"Executor::submit\s*\(", 0)))))
    items.append(str_def("executeFailCond", _norm(m.group(1))))
    items.append(str_def("executeFailAction", _norm(m.group(2))))
    bc = _cpp_text(BASIC_CPP)
    bi = strip_comments(function_body(bc, r"BasicExecutor::invoke\s*\("))
    items.append(str_list_def("stmts_basic_invoke", _stmts(bi)))
    bh = resolve_ifs(BASIC_H)
    items.append(str_list_def("stmts_is_running_in", _stmts(strip_comments(function_body(bh, r"BasicExecutor::is_running_in\s*\(")))))
    m = re.search(r"BasicExecutor::RunnerScope::RunnerScope\(\s*BasicExecutor&\s*new_current\)\s*noexcept\s*:\s*_old_current\s*\{\s*BasicExecutor::current\(\)\s*\}\s*\{\s*BasicExecutor::current\(\)\s*=\s*&new_current;\s*\}", strip_comments(bh))
    if not m:
        raise ExtractError("RunnerScope constructor has a new shape")
    items.append(str_def("scopeCtor", _norm(m.group(0))))
    items.append(str_list_def("stmts_scope_dtor", _stmts(strip_comments(function_body(bh, r"BasicExecutor::RunnerScope::~RunnerScope\s*\(")))))

    # ---- the index-level shape of the queue operations the ticket specification speaks about
    bq = resolve_ifs(BQ)
    qfn = lambda name, nth=0: strip_comments(function_body(bq, r"ConcurrentBoundedQueue<T, S>::" + name + r"\s*\(", nth))
    items.append(skel_def("skel_bq_size", skeleton(qfn("size"))))
    items.append(skel_def("skel_bq_push", skeleton(qfn("push", 3), ["deal"])))
    items.append(skel_def("skel_bq_pop", skeleton(qfn("pop", 4), ["deal"])))
    items.append(skel_def("skel_bq_try_deal", skeleton(qfn("try_deal"), [r"futex\.version", "callback", "set_version_and_wakeup_waiters", r"futex\.set_version"])))
    items.append(skel_def("skel_bq_deal", skeleton(qfn("deal"), ["wait_until_reach_expected_version", "callback", "set_version_and_wakeup_waiters", r"futex\.set_version"])))
    rc = qfn("reserve_and_clear")
    if not re.search(r"new_capacity\s*=\s*::absl::bit_ceil\(\s*min_capacity\s*\)", rc):
        raise ExtractError("reserve_and_clear: capacity is no longer bit_ceil(min_capacity)")
    emit("Exec", items)
