"""Translator for the reusable containers (C12):
   src/babylon/reusable/vector.hpp, manager.h/.hpp, traits.h, string.hpp  ->  lean/Babylon/Gen/RVec.lean

 * constants the model uses: growth policy of emplace_back (`_capacity == 0 ? 4 : _capacity * 2`),
   default `_recreate_interval`, the comparison used by `ReusableManager::clear`, libstdc++ string facts
   the string model depends on (SSO capacity, doubling rule) measured by a compiled probe;
 * the *normalised source text* (comments and white space removed) of every member function the model
   transcribes, as Lean string constants `src_<fn>`.  lean/Babylon/Properties/C12.lean contains one
   `gen_src_<fn>` obligation per function stating the text the model was written against, so any edit of
   one of these functions stops the build until the model is looked at again.
"""
from .common import *
from .common import _call_args as common_call_args

VH = "babylon/reusable/vector.hpp"
MH = "babylon/reusable/manager.h"
MHPP = "babylon/reusable/manager.hpp"
TH = "babylon/reusable/traits.h"
SHPP = "babylon/string.hpp"
RSH = "babylon/reusable/string.h"

V = r"ReusableVector<T,\s*MonotonicAllocator<U,\s*A>>::"


def norm(body):
    return re.sub(r"\s+", "", strip_comments(body))


def lean_str(s):
    return '"' + s.replace("\\", "\\\\").replace('"', '\\"') + '"'


def str_def(name, s):
    return "def %s : String := %s" % (name, lean_str(s))


def ctor_text(txt, head_rx):
    """Constructor: member-initialiser list + body (function_body would stop at the first brace
    initialiser `_allocator {allocator}`)."""
    m = re.search(head_rx, txt, flags=re.S)
    if not m:
        raise ExtractError("constructor not found: " + head_rx)
    j = txt.index("(", m.start())
    _, j = common_call_args(txt, j)
    start = j
    while j < len(txt):
        c = txt[j]
        if c == ";":
            raise ExtractError("declaration only: " + head_rx)
        if c == "(":
            _, j = common_call_args(txt, j)
            continue
        if c == "{":
            e = match_brace(txt, j)
            k = e
            while k < len(txt) and txt[k].isspace():
                k += 1
            if k < len(txt) and txt[k] in ",{":
                j = e        # a brace initialiser of a member
                continue
            return txt[start:e]
        j += 1
    raise ExtractError("constructor body not found: " + head_rx)


def generate():
    vh = strip_comments(read(VH))
    items = []

    def vfn(name, head, nth=0):
        if "ReusableVector\\s*\\(" in head and not head.startswith("~"):
            items.append(str_def("src_" + name, norm(ctor_text(vh, V + head))))
        else:
            items.append(str_def("src_" + name, norm(function_body(vh, V + head, nth))))

    # ---- growth policy
    eb = function_body(vh, V + r"emplace_back\s*\(")
    m = re.search(r"reserve\s*\(\s*_capacity\s*==\s*0\s*\?\s*(\d+)\s*:\s*_capacity\s*\*\s*(\d+)\s*\)", eb)
    if not m:
        raise ExtractError("emplace_back: growth policy `_capacity == 0 ? a : _capacity * b` not found")
    items.append(nat_def("growInit", int(m.group(1))))
    items.append(nat_def("growFactor", int(m.group(2))))

    # ---- member functions transcribed by the model (order = order in vector.hpp)
    vfn("move_ctor", r"ReusableVector\s*\(\s*ReusableVector&& other\s*\)")
    vfn("copy_assign", r"operator=\s*\(\s*const ReusableVector& other\s*\)")
    vfn("move_assign", r"operator=\s*\(\s*ReusableVector&& other\s*\)")
    vfn("dtor", r"~ReusableVector\s*\(")
    vfn("move_ctor_alloc", r"ReusableVector\s*\(\s*ReusableVector&& other,\s*allocator_type allocator\s*\)")
    vfn("ctor_count", r"ReusableVector\s*\(\s*size_type count,\s*allocator_type allocator\s*\)")
    vfn("ctor_count_value", r"ReusableVector\s*\(\s*size_type count,\s*const V& value,\s*allocator_type allocator\s*\)")
    vfn("ctor_range", r"ReusableVector\s*\(\s*IT first,\s*IT last,\s*allocator_type allocator\s*\)")
    vfn("assign_count_value", r"assign\s*\(\s*size_type count,\s*const V& value\s*\)")
    vfn("assign_range", r"assign\s*\(\s*IT first,\s*IT last\s*\)")
    vfn("reserve", r"reserve\s*\(")
    vfn("clear", r"clear\s*\(")
    vfn("insert_count_value", r"insert\s*\(\s*const_iterator pos,\s*size_type count,\s*const V& value\s*\)")
    vfn("insert_range", r"insert\s*\(\s*const_iterator pos,\s*IT first,\s*IT last\s*\)")
    vfn("emplace", r"emplace\s*\(\s*const_iterator pos,")
    vfn("erase", r"erase\s*\(\s*const_iterator first,\s*const_iterator last\s*\)")
    vfn("emplace_back", r"emplace_back\s*\(")
    vfn("pop_back", r"pop_back\s*\(")
    vfn("resize", r"resize\s*\(\s*size_type count\s*\)")
    vfn("resize_value", r"resize\s*\(\s*size_type count,\s*const V& value\s*\)")
    vfn("swap", r"swap\s*\(\s*ReusableVector& other\s*\)")
    vfn("ctor_meta", r"ReusableVector\s*\(\s*const AllocationMetadata& metadata,\s*allocator_type allocator\s*\)")
    vfn("update_meta", r"update_allocation_metadata\s*\(")
    vfn("assign_count", r"assign\s*\(\s*size_type count\s*\)")
    vfn("prepare_for_insert", r"prepare_for_insert\s*\(")
    # does prepare_for_insert return before its shifting loops when nothing is inserted?  (Without such a
    # guard the second loop runs `_data[i] = std::move(_data[i])` over [index, _constructed_size).)
    pfi = norm(function_body(vh, V + r"prepare_for_insert\s*\("))
    guard = re.match(r"\{(reserve\(_size\+count\);)?if\(count==0\)\{return(index|::std::min\(index,_constructed_size\));\}", pfi) is not None
    items.append("def zeroCountGuard : Bool := %s" % ("true" if guard else "false"))

    # ---- ReusableTraits: the reconstruct dispatch
    th = strip_comments(read(TH))
    for k in range(5):
        items.append(str_def("src_call_reconstruct_%d" % k, norm(function_body(th, r"static void call_reconstruct\s*\(", k))))

    # ---- manager
    mh = strip_comments(read(MH))
    m = re.search(r"_recreate_interval\s*\{\s*(\d+)\s*\}", mh)
    if not m:
        raise ExtractError("manager.h: default _recreate_interval not found")
    items.append(nat_def("defaultRecreateInterval", int(m.group(1))))
    mhpp = strip_comments(read(MHPP))
    items.append(str_def("src_manager_clear", norm(function_body(mhpp, r"void ReusableManager<R>::clear\s*\("))))
    U = r"ReusableManager<R>::TypedReusableUnit<T>::"
    for name in ["clear", "update", "recreate"]:
        items.append(str_def("src_unit_" + name, norm(function_body(mhpp, U + name + r"\s*\("))))
    items.append(str_def("src_accessor_get", norm(function_body(mhpp, r"ReusableAccessor<T>::get\s*\("))))
    items.append(str_def("src_create_with_meta", norm(function_body(th, r"static TT\* create_with_allocation_metadata\s*\("))))

    # ---- protobuf messages: the capacity metadata round trip (message.cpp / message.h)
    mc = strip_comments(read("babylon/reusable/message.cpp"))
    F = r"MessageAllocationMetadata::FieldAllocationMetadata::"
    items.append(str_def("src_msg_update", norm(function_body(mc, r"void MessageAllocationMetadata::update\s*\("))))
    items.append(str_def("src_msg_reserve", norm(function_body(mc, r"void MessageAllocationMetadata::reserve\s*\("))))
    items.append(str_def("src_msg_field_update", norm(function_body(
        mc, F + r"update\s*\(\s*const ::google::protobuf::Message& message,\s*const ::google::protobuf::Reflection\* reflection"))))
    items.append(str_def("src_msg_field_update_string", norm(function_body(mc, F + r"update\s*\(\s*const ::std::string& str"))))
    items.append(str_def("src_msg_field_update_message", norm(function_body(
        mc, F + r"update\s*\(\s*const ::google::protobuf::Message& message\s*\)"))))
    items.append(str_def("src_msg_field_reserve", norm(function_body(mc, F + r"reserve\s*\("))))
    mhh = strip_comments(read("babylon/reusable/message.h"))
    items.append(str_def("src_msg_construct_with_meta", norm(function_body(mhh, r"static void construct_with_allocation_metadata\s*\("))))
    items.append(str_def("src_msg_create_with_meta", norm(function_body(mhh, r"static Message\* create_with_allocation_metadata\s*\("))))

    # ---- strings: stable_reserve (generic version, the one compiled here) and the libstdc++ facts
    sh = strip_comments(read(SHPP))
    items.append(str_def("src_stable_reserve", norm(function_body(sh, r"inline void stable_reserve\s*\(\s*T& string,"))))
    rsh = strip_comments(read(RSH))
    items.append(str_def("src_string_move_assign", norm(function_body(rsh, r"operator=\s*\(\s*MonotonicBasicString&& other\s*\)"))))
    S = r"inline MonotonicBasicString"
    items.append(str_def("src_string_ctor_move_alloc", norm(ctor_text(rsh, S + r"\s*\(\s*MonotonicBasicString&& other,"))))
    items.append(str_def("src_string_ctor_std_alloc", norm(ctor_text(rsh, S + r"\s*\(\s*const ::std::basic_string<C, CH, A>& other,"))))
    items.append(str_def("src_string_assign_std", norm(function_body(
        rsh, S + r"& operator=\s*\(\s*const ::std::basic_string<C, ::std::char_traits<C>, A>& other"))))
    items.append(str_def("src_string_copy_assign", norm(function_body(rsh, S + r"& operator=\s*\(\s*const MonotonicBasicString& other"))))
    items.append(str_def("src_string_swap", norm(function_body(rsh, r"inline void swap\s*\(\s*MonotonicBasicString& other"))))
    items.append(str_def("src_string_resize_default_init", norm(function_body(rsh, r"inline void __resize_default_init\s*\("))))
    m = re.search(r"using Base::Base;\s*using Base::operator=;", rsh)
    items.append("def stringInheritsBaseAssign : Bool := %s" % ("true" if m else "false"))
    items.append(str_def("src_string_construct_with_meta",
                         norm(function_body(rsh, r"static void construct_with_allocation_metadata\s*\("))))
    c = probe([], {
        "ssoCap": "std::string().capacity()",
        # capacity chosen by libstdc++ when asked for one more than the current one: max(n, 2*cap)
        "growProbe": "[]{ std::string s; s.reserve(s.capacity() + 1); return s.capacity(); }()",
        "exactProbe": "[]{ std::string s; s.reserve(1000); return s.capacity(); }()",
        "cxx11abi": "_GLIBCXX_USE_CXX11_ABI",
    }, prologue="#include <string>")
    for k in ["ssoCap", "growProbe", "exactProbe", "cxx11abi"]:
        items.append(nat_def(k, c[k]))
    emit("RVec", items, opens=(), imports=())
