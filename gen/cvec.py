"""Translator for ConcurrentVector / RetireList (C04): constants, memory orders, atomic skeletons and the
shape of the timestamp arithmetic  ->  lean/Babylon/Gen/CVec.lean"""
from .common import *

H = "babylon/concurrent/vector.h"
HPP = "babylon/concurrent/vector.hpp"
V = "::babylon::ConcurrentVector<uint64_t>"


def _need(rx, txt, what):
    m = re.search(rx, txt, flags=re.S)
    if not m:
        raise ExtractError("vector.hpp: %s not found (source shape changed)" % what)
    return m


def generate():
    c = probe([H], {
        "cacheline": "BABYLON_CACHELINE_SIZE",
        "sizeofBlockTable": "sizeof(%s::BlockTable)" % V,
        "blocksOffset": "offsetof(%s::BlockTable, blocks)" % V,
        "ptrSize": "sizeof(void*)",
        "defaultBlockSize": V + "::DEFAULT_BLOCK_SIZE",
        "sizeofNode": "sizeof(::babylon::internal::concurrent_vector::RetireList<int>::Node)",
        "staticBits4": "::babylon::ConcurrentVector<uint64_t, 4>::StaticMeta::BLOCK_MASK_BITS",
        "staticBits1": "::babylon::ConcurrentVector<uint64_t, 1>::StaticMeta::BLOCK_MASK_BITS",
        "staticBits16": "::babylon::ConcurrentVector<uint64_t, 16>::StaticMeta::BLOCK_MASK_BITS",
        "indexBits": "8 * sizeof(decltype(((%s::DynamicMeta*)nullptr)->block_index(0)))" % V,
        "stampBits": "8 * sizeof(decltype(::babylon::internal::concurrent_vector::RetireList<int>::get_current_timestamp()))",
    })
    items = [nat_def(k, v) for k, v in c.items()]
    txt = resolve_ifs(HPP)
    rl = lambda name: function_body(txt, r"RetireList<T, D>::" + name + r"\s*\(")
    cv = lambda name, nth=0: function_body(txt, r"ConcurrentVector<T, BLOCK_SIZE>::" + name + r"\s*\(", nth)

    # ---- timestamp arithmetic
    ts = strip_comments(rl("get_current_timestamp"))
    _need(r"clock_gettime\s*\(\s*CLOCK_MONOTONIC_RAW|clock_gettime\s*\(\s*4\s*,", ts, "clock_gettime(CLOCK_MONOTONIC_RAW)")
    m = _need(r"return\s+spec\.tv_sec\s*>>\s*(\d+)\s*;", ts, "`return spec.tv_sec >> k`")
    items.append(nat_def("tsShift", int(m.group(1))))
    ex = strip_comments(rl("expire"))
    m = _need(r"return\s+static_cast<\s*uint16_t\s*>\s*\(\s*current_timestamp\s*-\s*get_timestamp\s*\(\s*head\s*\)\s*\)\s*>\s*(\d+)\s*;", ex,
              "`static_cast<uint16_t>(current_timestamp - get_timestamp(head)) > k`")
    items.append(nat_def("expireAfter", int(m.group(1))))
    m = _need(r"return\s+head\s*>>\s*(\d+)\s*;", strip_comments(rl("get_timestamp")), "`head >> k`")
    items.append(nat_def("nodeShift", int(m.group(1))))
    m = _need(r"head\s*&\s*(0x[0-9A-Fa-f]+)", strip_comments(rl("get_node")), "`head & mask`")
    items.append(nat_def("nodeMask", int(m.group(1), 16)))
    m = _need(r"\(\s*timestamp\s*<<\s*(\d+)\s*\)\s*\|\s*reinterpret_cast<\s*uint64_t\s*>\s*\(\s*node\s*\)", strip_comments(rl("make_head")),
              "`(timestamp << k) | node`")
    items.append(nat_def("makeHeadShift", int(m.group(1))))

    # ---- RetireList protocol
    calls = ["get_current_timestamp", "expire", "delete_list"]
    retire = rl("retire")
    items.append(skel_def("skel_retire", skeleton(retire, calls)))
    items.append(skel_def("skel_gc", skeleton(rl("gc"), calls)))
    items.append(skel_def("skel_unsafe_gc", skeleton(rl("unsafe_gc"), calls)))
    items.append(skel_def("skel_retire_dtor", skeleton(function_body(txt, r"RetireList<T, D>::~RetireList\s*\("), calls)))
    r = strip_comments(retire)
    # the retry loop: does every attempt take a fresh stamp?
    m = _need(r"\bdo\s*\{(.*?)\}\s*while\s*\(", r, "do { ... } while retry loop of retire")
    loop = m.group(1)
    _need(r"node->next\s*=\s*get_node\s*\(\s*head\s*\)\s*;", loop, "`node->next = get_node(head)` inside the retry loop")
    rereads = bool(re.search(r"get_current_timestamp\s*\(", loop))
    if rereads:
        _need(r"new_head\s*=\s*make_head\s*\(\s*node\s*,\s*get_current_timestamp\s*\(\s*\)\s*\)\s*;", loop, "`new_head = make_head(node, get_current_timestamp())` in the retry loop")
    items.append("def retireRereads : Bool := %s" % ("true" if rereads else "false"))
    # expire branch: detached list = the head value the CAS replaced
    _need(r"if\s*\(\s*expire\s*\(\s*head\s*,\s*timestamp\s*\)\s*\)\s*\{\s*node->next\s*=\s*nullptr\s*;", r, "expire branch of retire")
    _need(r"auto\s+head\s*=\s*_head\.load\s*\([^)]*\)\s*;\s*auto\s+timestamp\s*=\s*get_current_timestamp\s*\(\s*\)\s*;", r, "retire: head load, then stamp")
    _need(r"auto\s+head\s*=\s*_head\.load\s*\([^)]*\)\s*;\s*auto\s+timestamp\s*=\s*get_current_timestamp\s*\(\s*\)\s*;", strip_comments(rl("gc")), "gc: head load, then stamp")
    _need(r"compare_exchange_strong\s*\(\s*head\s*,\s*0\s*,", strip_comments(rl("gc")), "gc detaches by CAS to 0")

    # ---- vector protocol
    items.append(skel_def("skel_get_qualified", skeleton(cv("get_qualified_block_table"), ["get_qualified_block_table_slow"])))
    slow = cv("get_qualified_block_table_slow")
    items.append(skel_def("skel_slow", skeleton(slow, ["create_block_table", "create_block", r"_retire_list\.retire", "delete_block_table", "delete_block", "__builtin_memcpy"])))
    items.append(skel_def("skel_snapshot", skeleton(cv("snapshot"))))
    items.append(skel_def("skel_dtor", skeleton(function_body(txt, r"ConcurrentVector<T, BLOCK_SIZE>::~ConcurrentVector\s*\("),
                                               ["delete_block_table", "delete_block", r"_retire_list\.unsafe_gc"])))
    items.append(skel_def("skel_create_block", skeleton(cv("create_block"), ["operator new", "_constructor", "__builtin_memset"])))
    items.append(skel_def("skel_delete_block", skeleton(cv("delete_block"), [r"~T", "operator delete"])))
    s = strip_comments(slow)
    _need(r"for\s*\(\s*auto\s+i\s*=\s*block_num\s*;\s*i\s*<\s*expect_block_num\s*;\s*\+\+i\s*\)\s*\{\s*new_block_table->blocks\[i\]\s*=\s*create_block\s*\(\s*\)\s*;", s, "slow: creates blocks block_num..expect")
    _need(r"for\s*\(\s*auto\s+i\s*=\s*block_num\s*;\s*i\s*<\s*expect_block_num\s*;\s*\+\+i\s*\)\s*\{\s*delete_block\s*\(\s*new_block_table->blocks\[i\]\s*\)\s*;", s, "slow: loser deletes blocks block_num..expect")
    _need(r"__builtin_memcpy\s*\(\s*new_block_table->blocks\s*,\s*block_table->blocks\s*,\s*block_num\s*\*\s*sizeof\s*\(\s*char\s*\*\s*\)\s*\)", s, "slow: copies block_num entries")
    _need(r"block_num\s*=\s*block_table->size\s*;\s*if\s*\(\s*block_num\s*>=\s*expect_block_num\s*\)", s, "slow: loser re-reads the winner's size")
    _need(r"_retire_list\.retire\s*\(\s*block_table\s*\)\s*;\s*return\s+new_block_table\s*;", s, "slow: winner retires the table it replaced")
    # ---- named memory orders of the publication protocol (used by Babylon/CVec/View.lean)
    def ords(sites, kind):
        return [x.split() for x in sites if x.startswith(kind)]
    gq = ords(skeleton(cv("get_qualified_block_table"), []), ".load")
    sn = ords(skeleton(cv("snapshot")), ".load")
    cs = ords(skeleton(slow, []), ".cas")
    if len(gq) != 1 or len(sn) < 1 or len(cs) != 1:
        raise ExtractError("publication protocol: expected one load in get_qualified_block_table / snapshot and one CAS in the slow path")
    items.append("def ordTblLoad : Ord := %s" % gq[0][-1])          # ensure / reserve / for_each: get_qualified_block_table
    items.append("def ordSnapshotLoad : Ord := %s" % sn[0][-1])     # snapshot() / operator[]
    items.append("def ordTblCasSucc : Ord := %s" % cs[0][-2])       # publishing CAS
    items.append("def ordTblCasFail : Ord := %s" % cs[0][-1])       # the loser obtains the winner's table through this order
    # every modification of `_block_table` inside the thread-safe API is that CAS (release sequence); the plain
    # stores are in the constructor and in swap(), which are not thread-safe
    body_all = strip_comments(txt)
    n_store = len(re.findall(r"_block_table\s*\.\s*store\s*\(", body_all))
    n_xchg = len(re.findall(r"_block_table\s*\.\s*exchange\s*\(", body_all))
    items.append(nat_def("tblStoreSites", n_store))
    items.append(nat_def("tblExchangeSites", n_xchg))
    # ---- index arithmetic
    _need(r"return\s+index\s*>>\s*_block_mask_bits\s*;", strip_comments(cv("DynamicMeta::block_index")), "DynamicMeta::block_index")
    _need(r"return\s+index\s*&\s*_block_mask\s*;", strip_comments(cv("DynamicMeta::block_offset")), "DynamicMeta::block_offset")
    _need(r"return\s+index\s*>>\s*BLOCK_MASK_BITS\s*;", strip_comments(cv("StaticMeta::block_index")), "StaticMeta::block_index")
    _need(r"return\s+index\s*&\s*\(\s*BLOCK_SIZE\s*-\s*1\s*\)\s*;", strip_comments(cv("StaticMeta::block_offset")), "StaticMeta::block_offset")
    _need(r"get_qualified_block_table\s*\(\s*_meta\.block_index\s*\(\s*size\s*\+\s*_meta\.block_mask\s*\(\s*\)\s*\)\s*\)", strip_comments(cv("reserve")), "reserve rounds up")
    _need(r"get_qualified_block_table\s*\(\s*_meta\.block_index\s*\(\s*size\s*\+\s*_meta\.block_mask\s*\(\s*\)\s*\)\s*\)", strip_comments(cv("reserved_snapshot")), "reserved_snapshot rounds up")
    _need(r"get_qualified_block_table\s*\(\s*block_index\s*\+\s*1\s*\)", strip_comments(cv("ensure")), "ensure asks for block_index + 1 blocks")
    emit("CVec", items)
