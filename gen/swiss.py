"""Translator for the swiss table (C03, C18): constants + atomic skeletons of
transient_hash_table.hpp -> lean/Babylon/Gen/Swiss.lean"""
from .common import *

H = "babylon/concurrent/transient_hash_table.h"
HPP = "babylon/concurrent/transient_hash_table.hpp"


def generate():
    G = "::babylon::internal::concurrent_transient_hash_table::Group"
    c = probe([H], {
        "groupSize": G + "::SIZE",
        "groupMask": G + "::GROUP_MASK",
        "checkerMask": G + "::CHECKER_MASK",
        "checkerBits": G + "::CHECKER_MASK_BITS",
        "dummyCtl": G + "::DUMMY_CONTROL",
        "busyCtl": G + "::BUSY_CONTROL",
        "emptyCtl": G + "::EMPTY_CONTROL",
    })
    cpp = strip_comments(read("babylon/concurrent/transient_hash_table.cpp"))
    m = re.search(r"s_dummy_controls\[\]\s*=\s*\{(.*?)\};", cpp, re.S)
    if not m:
        raise ExtractError("s_dummy_controls initialiser not found")
    inits = re.findall(r"\{\s*(\w+)\s*\}", m.group(1))
    if set(inits) != {"DUMMY_CONTROL"}:
        raise ExtractError("s_dummy_controls holds something else than DUMMY_CONTROL: %r" % set(inits))
    c["dummyLen"] = len(inits)
    txt = resolve_ifs(HPP)
    tsan = resolve_ifs(HPP, extra=["-fsanitize=thread"])
    items = []
    for k in ["groupSize", "groupMask", "checkerMask", "checkerBits", "dummyLen"]:
        items.append(nat_def(k, c[k]))
    for k in ["dummyCtl", "busyCtl", "emptyCtl"]:
        items.append(int_def(k, c[k]))
    calls = ["construct", "sched_yield"]
    fn = lambda name, t=txt: function_body(t, r"ConcurrentFixedSwissTable<T, H, E>::" + name + r"\s*\(")
    items.append(skel_def("skel_do_emplace", skeleton(fn("do_emplace"), calls)))
    items.append(skel_def("skel_find", skeleton(fn("find"), calls)))
    sfn = lambda name, nth=0: function_body(txt, r"ConcurrentTransientHashSet<T, H, E>::" + name + r"\s*\(", nth)
    items.append(skel_def("skel_set_emplace", skeleton(sfn("emplace"), ["new TableNode", "delete"])))
    items.append(skel_def("skel_set_find", skeleton(sfn("find"))))
    items.append(skel_def("skel_set_begin", skeleton(sfn("begin"))))
    items.append(skel_def("skel_set_total_size", skeleton(sfn("total_size"))))
    items.append(skel_def("skel_set_size", skeleton(sfn("size"))))
    # group load under the TSan-ABI build used by the concurrent correspondence (16 relaxed loads)
    gbody = function_body(tsan, r"Group::Group\s*\(")
    items.append(skel_def("skel_group_load_tsan", skeleton(gbody)))
    # how total_size seeds its sum: bucket_count() (pre-fix) or size()
    ts = strip_comments(sfn("total_size"))
    m = re.search(r"auto\s+sum\s*=\s*_head\.table\.(\w+)\s*\(\)", ts)
    if not m:
        raise ExtractError("total_size: cannot find the initial value of sum")
    items.append('def totalSizeSeed : String := "%s"' % m.group(1))
    emit("Swiss", items)
