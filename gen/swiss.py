"""Translator for the swiss table (C03, C18): constants + atomic skeletons of
transient_hash_table.hpp -> lean/Babylon/Gen/Swiss.lean"""
from .common import *

H = "babylon/concurrent/transient_hash_table.h"
HPP = "babylon/concurrent/transient_hash_table.hpp"


def generate():
    G = "::babylon::internal::concurrent_transient_hash_table::Group"
    c = probe([H], {
        "groupSize": G + "::SIZE",
        "groupMask": G + "::GROUP_MASK",
        "checkerMask": G + "::CHECKER_MASK",
        "checkerBits": G + "::CHECKER_MASK_BITS",
        "dummyCtl": G + "::DUMMY_CONTROL",
        "busyCtl": G + "::BUSY_CONTROL",
        "emptyCtl": G + "::EMPTY_CONTROL",
    })
    cpp = strip_comments(read("babylon/concurrent/transient_hash_table.cpp"))
    m = re.search(r"s_dummy_controls\[\]\s*=\s*\{(.*?)\};", cpp, re.S)
    if not m:
        raise ExtractError("s_dummy_controls initialiser not found")
    inits = re.findall(r"\{\s*(\w+)\s*\}", m.group(1))
    if set(inits) != {"DUMMY_CONTROL"}:
        raise ExtractError("s_dummy_controls holds something else than DUMMY_CONTROL: %r" % set(inits))
    c["dummyLen"] = len(inits)
    txt = resolve_ifs(HPP)
    tsan = resolve_ifs(HPP, extra=["-fsanitize=thread"])
    items = []
    for k in ["groupSize", "groupMask", "checkerMask", "checkerBits", "dummyLen"]:
        items.append(nat_def(k, c[k]))
    for k in ["dummyCtl", "busyCtl", "emptyCtl"]:
        items.append(int_def(k, c[k]))
    calls = ["construct", "sched_yield"]
    fn = lambda name, t=txt: function_body(t, r"ConcurrentFixedSwissTable<T, H, E>::" + name + r"\s*\(")
    items.append(skel_def("skel_do_emplace", skeleton(fn("do_emplace"), calls)))
    items.append(skel_def("skel_find", skeleton(fn("find"), calls)))
    sfn = lambda name, nth=0: function_body(txt, r"ConcurrentTransientHashSet<T, H, E>::" + name + r"\s*\(", nth)
    items.append(skel_def("skel_set_emplace", skeleton(sfn("emplace"), ["new TableNode", "delete"])))
    items.append(skel_def("skel_set_find", skeleton(sfn("find"))))
    items.append(skel_def("skel_set_begin", skeleton(sfn("begin"))))
    items.append(skel_def("skel_set_total_size", skeleton(sfn("total_size"))))
    items.append(skel_def("skel_set_size", skeleton(sfn("size"))))
    # group load under the TSan-ABI build used by the concurrent correspondence (16 relaxed loads)
    gbody = function_body(tsan, r"Group::Group\s*\(")
    items.append(skel_def("skel_group_load_tsan", skeleton(gbody)))
    # how total_size seeds its sum: bucket_count() (pre-fix) or size()
    ts = strip_comments(sfn("total_size"))
    m = re.search(r"auto\s+sum\s*=\s*_head\.table\.(\w+)\s*\(\)", ts)
    if not m:
        raise ExtractError("total_size: cannot find the initial value of sum")
    items.append('def totalSizeSeed : String := "%s"' % m.group(1))
    # whitespace-free, comment-free text of every function the sequential model (Swiss/Seq.lean) follows
    # statement by statement: any edit (a capped probe loop, a changed guard or constant) breaks a
    # gen_src_* obligation of Properties/C18.lean and the model has to be re-read against the new text
    def norm(b):
        return re.sub(r"\s+", "", strip_comments(b))

    def sdef(name, text):
        return 'def src_%s : String := "%s"' % (name, text.replace("\\", "\\\\").replace('"', '\\"'))
    T = r"ConcurrentFixedSwissTable<T, H, E>::"
    S = r"ConcurrentTransientHashSet<T, H, E>::"
    for nm, rx, nth in [
        ("find", T + r"find\s*\(", 0), ("do_emplace", T + r"do_emplace\s*\(", 0), ("table_clear", T + r"clear\s*\(", 0),
        ("table_rehash", T + r"rehash\s*\(", 0), ("table_reserve", T + r"reserve\s*\(", 0),
        ("construct_with_bucket", T + r"construct_with_bucket\s*\(", 0), ("table_begin", T + r"begin\s*\(", 0),
        ("find_first_non_empty", T + r"find_first_non_empty\s*\(", 0), ("table_swap", T + r"swap\s*\(", 0),
        ("table_copy_ctor", r"ConcurrentFixedSwissTable<T, H, E>::ConcurrentFixedSwissTable\s*\(\s*const ConcurrentFixedSwissTable& other", 0),
        ("table_iter_incr", r"ConcurrentFixedSwissTable<T, H, E>::Iterator<CONST>::operator\+\+\s*\(", 0),
        ("set_emplace", S + r"emplace\s*\(", 0), ("set_find", S + r"find\s*\(", 0), ("set_begin", S + r"begin\s*\(", 0),
        ("set_size", S + r"size\s*\(", 0), ("set_total_size", S + r"total_size\s*\(", 0), ("set_clear", S + r"clear\s*\(", 0),
        ("set_rehash", S + r"rehash\s*\(", 0), ("set_reserve", S + r"reserve\s*\(", 0), ("set_swap", S + r"swap\s*\(", 0),
        ("set_copy_ctor", r"ConcurrentTransientHashSet<T, H, E>::ConcurrentTransientHashSet\s*\(\s*const ConcurrentTransientHashSet& other", 0),
        ("set_iter_incr", r"ConcurrentTransientHashSet<T, H,\s*E>::Iterator<CONST>::operator\+\+\s*\(", 0),
    ]:
        items.append(sdef(nm, norm(function_body(txt, rx, nth))))
    emit("Swiss", items)
