"""Translator for the CONCURRENT swiss-table model (C03): memory orders and atomic skeletons of
do_emplace / find / Group::Group (TSan-ABI build) / Set::emplace / Set::find, the CAS operands and the
growth factor of transient_hash_table.hpp  ->  lean/Babylon/Gen/SwissConc.lean
(constants shared with the sequential model stay in gen/swiss.py -> Gen/Swiss.lean)."""
from .common import *

H = "babylon/concurrent/transient_hash_table.h"
HPP = "babylon/concurrent/transient_hash_table.hpp"

SITE_RX = re.compile(r'^\.(\w+)(?: "([^"]*)")?(?: (true|false))?((?: \.\w+)*)$')


def _parse(site):
    m = SITE_RX.match(site)
    if not m:
        raise ExtractError("cannot parse site %r" % site)
    return m.group(1), m.group(2), [o.strip()[1:] for o in m.group(4).split()] if m.group(4) else []


def _only(sites, kind, obj=None):
    hits = [s for s in sites if _parse(s)[0] == kind and (obj is None or _parse(s)[1] == obj)]
    if len(hits) != 1:
        raise ExtractError("expected exactly one %s %s site, found %r" % (kind, obj, hits))
    return _parse(hits[0])


def ord_def(name, o):
    return "def %s : Ord := .%s" % (name, o)


def generate():
    G = "::babylon::internal::concurrent_transient_hash_table::Group"
    c = probe([H], {"emptyCtl": G + "::EMPTY_CONTROL", "busyCtl": G + "::BUSY_CONTROL",
                    "dummyCtl": G + "::DUMMY_CONTROL", "groupSize": G + "::SIZE"})
    txt = resolve_ifs(HPP)
    tsan = resolve_ifs(HPP, extra=["-fsanitize=thread"])
    fn = lambda name, t=txt: function_body(t, r"ConcurrentFixedSwissTable<T, H, E>::" + name + r"\s*\(")
    sfn = lambda name, nth=0: function_body(txt, r"ConcurrentTransientHashSet<T, H, E>::" + name + r"\s*\(", nth)
    calls = ["construct", "sched_yield"]
    emp = skeleton(fn("do_emplace"), calls)
    fnd = skeleton(fn("find"), calls)
    semp = skeleton(sfn("emplace"), [r"new TableNode", r"delete"])
    sfnd = skeleton(sfn("find"))
    grp = skeleton(function_body(tsan, r"Group::Group\s*\("))
    items = []
    items.append(skel_def("skel_do_emplace", emp))
    items.append(skel_def("skel_find", fnd))
    items.append(skel_def("skel_set_emplace", semp))
    items.append(skel_def("skel_set_find", sfnd))
    items.append(skel_def("skel_group_load_tsan", grp))
    # named memory orders used by the model's labels
    items.append(ord_def("ordGroupLoad", _only(grp, "load")[2][0]))
    items.append(ord_def("ordEmplaceFence", _only(emp, "fence")[2][0]))
    items.append(ord_def("ordFindFence", _only(fnd, "fence")[2][0]))
    cas = _only(emp, "cas", "control")
    items.append(ord_def("ordCasSucc", cas[2][0]))
    items.append(ord_def("ordCasFail", cas[2][1]))
    items.append(ord_def("ordStoreMain", _only(emp, "store", "control")[2][0]))
    items.append(ord_def("ordStoreMirror", _only(emp, "store", "cloned_control")[2][0]))
    items.append(ord_def("ordSetEmplaceNextLoad", _only(semp, "load")[2][0]))
    scas = _only(semp, "cas")
    items.append(ord_def("ordSetCasSucc", scas[2][0]))
    items.append(ord_def("ordSetCasFail", scas[2][1]))
    loads = [s for s in sfnd if _parse(s)[0] == "load"]
    if len(loads) != 2:
        raise ExtractError("Set::find: expected the _head.next load and the node->next load, found %r" % loads)
    items.append(ord_def("ordSetFindHeadLoad", _parse(loads[0])[2][0]))
    items.append(ord_def("ordSetFindNextLoad", _parse(loads[1])[2][0]))
    # operands of the slot CAS: `int8_t control_value = Group::X;  control.compare_exchange_strong(control_value, Group::Y, ...`
    body = strip_comments(fn("do_emplace"))
    m = re.search(r"int8_t\s+control_value\s*=\s*Group::(\w+)\s*;", body)
    m2 = re.search(r"control\s*\.\s*compare_exchange_strong\s*\(\s*control_value\s*,\s*Group::(\w+)", body)
    if not m or not m2:
        raise ExtractError("do_emplace: slot CAS operands not found")
    names = {"EMPTY_CONTROL": "emptyCtl", "BUSY_CONTROL": "busyCtl", "DUMMY_CONTROL": "dummyCtl"}
    items.append(int_def("casExpected", c[names[m.group(1)]]))
    items.append(int_def("casDesired", c[names[m2.group(1)]]))
    # what the failed-CAS branches compare the observed value with, in source order, and what each does
    br = re.findall(r"else\s+if\s*\(\s*control_value\s*==\s*Group::(\w+)\s*\)\s*\{([^{}]*)\}", body)
    acts = []
    for nm, blk in br:
        act = "yield-continue" if "sched_yield" in blk and "continue" in blk else ("break" if "break" in blk else ("continue" if "continue" in blk else "?"))
        acts.append('(%d, "%s")' % (c[names[nm]], act))
    items.append("def casFailBranches : List (Int × String) := [%s]" % ", ".join(acts))
    # number of relaxed byte loads of one group under the TSan-ABI build: `for (size_t i = 0; i < SIZE; ++i)`
    gb = strip_comments(function_body(tsan, r"Group::Group\s*\("))
    m = re.search(r"for\s*\(\s*size_t\s+i\s*=\s*0\s*;\s*i\s*<\s*(\w+)\s*;\s*\+\+i\s*\)", gb)
    if not m or m.group(1) != "SIZE":
        raise ExtractError("Group::Group (tsan): byte-load loop not recognised")
    items.append(nat_def("groupLoads", c["groupSize"]))
    # growth: `new TableNode {node->table.bucket_count() << K}`
    sb = strip_comments(sfn("emplace"))
    m = re.search(r"new\s+TableNode\s*\{\s*node->table\.bucket_count\(\)\s*<<\s*(\d+)\s*\}", sb)
    if not m:
        raise ExtractError("Set::emplace: growth expression not recognised")
    items.append(nat_def("growShift", int(m.group(1))))
    emit("SwissConc", items)
