"""Translator for Epoch (C09): memory orders, atomic skeletons, the tick branch the preprocessor selects
(and the one it does not), structural facts of lock/unlock/tick/low_water_mark
-> lean/Babylon/Gen/Epoch.lean"""
from .common import *

EPOCH = "babylon/concurrent/epoch.h"
IDA = "babylon/concurrent/id_allocator.hpp"
VEC = "babylon/concurrent/vector.hpp"


def ord_def(name, o):
    return "def %s : Ord := .%s" % (name, o)


def bool_def(name, b):
    return "def %s : Bool := %s" % (name, "true" if b else "false")


def _site_ord(site):
    """order of a `.load/.store/.rmw/.fence` site string produced by skeleton()"""
    m = re.search(r"\.(rlx|cns|acq|rel|acqrel|sc)\s*$", site)
    if not m:
        raise ExtractError("no order in site %r" % site)
    return m.group(1)


def _expect(sites, kinds, what):
    got = [s.split()[0] for s in sites]
    if got != kinds:
        raise ExtractError("%s: expected atomic shape %s, found %s" % (what, kinds, sites))


def _tick_branches(raw):
    """(x86 branch text, other branch text) of Epoch::tick from the *unpreprocessed* source"""
    body = function_body(strip_comments(raw), r"Epoch::tick\s*\(")
    m = re.search(r"#\s*if\s+__x86_64__\s*\n(.*?)#\s*else[^\n]*\n(.*?)#\s*endif", body, re.S)
    if not m:
        raise ExtractError("tick: #if __x86_64__ / #else / #endif structure not found")
    return m.group(1), m.group(2)


def generate():
    items = []
    txt = resolve_ifs(EPOCH)
    fn = lambda rx, nth=0: function_body(txt, rx, nth)

    # ---- lock(index) / unlock(index)
    lock = fn(r"Epoch::lock\s*\(\s*size_t\s+index\s*\)")
    sk_lock = skeleton(lock)
    _expect(sk_lock, [".load", ".store", ".fence"], "Epoch::lock(size_t)")
    items.append(skel_def("skel_lock", sk_lock))
    items.append(ord_def("lockLoadOrd", _site_ord(sk_lock[0])))
    items.append(ord_def("lockStoreOrd", _site_ord(sk_lock[1])))
    items.append(ord_def("lockFenceOrd", _site_ord(sk_lock[2])))
    ls = strip_comments(lock)
    # structure: the nesting counter is bumped first, the slot is published only on 0 -> 1, and what
    # is published is the value just loaded from the global version
    m = re.search(r"slot\.lock_times\s*\+=\s*(\d+)\s*;\s*if\s*\(\s*slot\.lock_times\s*==\s*(\d+)\s*\)", ls)
    if not m:
        raise ExtractError("lock(index): nesting counter shape not found")
    items.append(nat_def("lockDepthStep", int(m.group(1))))
    items.append(nat_def("lockPublishDepth", int(m.group(2))))
    items.append(bool_def("lockStoresLoadedVersion", bool(
        re.search(r"auto\s+global_version\s*=\s*_version\s*\.\s*load\s*\(", ls) and
        re.search(r"slot\.version\.store\s*\(\s*global_version\s*,", ls))))
    items.append(bool_def("lockIndexesSlotsByIndex", bool(re.search(r"auto\s*&\s*slot\s*=\s*_slots\s*\[\s*index\s*\]", ls))))

    unlock = fn(r"Epoch::unlock\s*\(\s*size_t\s+index\s*\)")
    sk_unlock = skeleton(unlock)
    _expect(sk_unlock, [".store"], "Epoch::unlock(size_t)")
    items.append(skel_def("skel_unlock", sk_unlock))
    items.append(ord_def("unlockStoreOrd", _site_ord(sk_unlock[0])))
    us = strip_comments(unlock)
    m = re.search(r"if\s*\(\s*slot\.lock_times\s*==\s*(\d+)\s*\)\s*\{\s*slot\.version\.store\s*\(\s*([^,]+),", us)
    if not m:
        raise ExtractError("unlock(index): shape not found")
    items.append(nat_def("unlockClearDepth", int(m.group(1))))
    maxexpr = m.group(2).strip()
    m2 = re.search(r"\}\s*slot\.lock_times\s*-=\s*(\d+)\s*;", us)
    if not m2:
        raise ExtractError("unlock(index): counter decrement not found")
    items.append(nat_def("unlockDepthStep", int(m2.group(1))))

    # ---- thread-local style wrappers and accessor plumbing (call skeletons)
    items.append(skel_def("skel_lock_tls", skeleton(fn(r"Epoch::lock\s*\(\s*\)"), ["current_thread_id", "ensure", "lock"])))
    items.append(skel_def("skel_unlock_tls", skeleton(fn(r"Epoch::unlock\s*\(\s*\)"), ["current_thread_id", "unlock"])))
    items.append(skel_def("skel_create_accessor", skeleton(fn(r"Epoch::create_accessor\s*\(\s*\)"), ["allocate", "ensure"])))
    items.append(skel_def("skel_accessor_number", skeleton(fn(r"Epoch::accessor_number\s*\(\s*\)"), ["end"])))
    unreg = fn(r"Epoch::unregister_accessor\s*\(")
    sk_unreg = skeleton(unreg, ["deallocate"])
    items.append(skel_def("skel_unregister_accessor", sk_unreg))
    # repaired shape (fix 6566b0b): an accessor released inside a region closes the region first
    ur = strip_comments(unreg)
    m = re.search(r"auto\s*&\s*slot\s*=\s*_slots\s*\[\s*index\s*\]\s*;\s*if\s*\(\s*slot\.lock_times\s*!=\s*0\s*\)\s*\{\s*"
                  r"slot\.lock_times\s*=\s*(\d+)\s*;\s*slot\.version\.store\s*\(\s*([^,]+),[^;]*;\s*\}\s*_id_allocator\.deallocate\s*\(\s*index\s*\)", ur)
    items.append(bool_def("unregisterClosesOpenRegion", bool(m)))
    if not m or [x.split()[0] for x in sk_unreg] != [".store", ".call"]:
        raise ExtractError("unregister_accessor: shape (close an open region, then deallocate) not found: %s" % sk_unreg)
    items.append(nat_def("unregisterDepthAfter", int(m.group(1))))
    items.append(ord_def("releaseStoreOrd", _site_ord(sk_unreg[0])))
    unreg_max = m.group(2).strip()
    items.append(skel_def("skel_accessor_lock", skeleton(fn(r"Epoch::Accessor::lock\s*\(\s*\)"), ["lock"])))
    items.append(skel_def("skel_accessor_unlock", skeleton(fn(r"Epoch::Accessor::unlock\s*\(\s*\)"), ["unlock"])))
    items.append(skel_def("skel_accessor_release", skeleton(fn(r"Epoch::Accessor::release\s*\(\s*\)"), ["unregister_accessor"])))

    # ---- tick: the branch selected by the preprocessor of this build, and the other one
    tick = fn(r"Epoch::tick\s*\(\s*\)")
    sk_tick = skeleton(tick)
    items.append(skel_def("skel_tick", sk_tick))
    if [s.split()[0] for s in sk_tick] == [".rmw"]:
        items.append(ord_def("tickRmwOrd", _site_ord(sk_tick[0])))
        items.append("def tickFenceOrd : Option Ord := none")
    elif [s.split()[0] for s in sk_tick] == [".rmw", ".fence"]:
        items.append(ord_def("tickRmwOrd", _site_ord(sk_tick[0])))
        items.append("def tickFenceOrd : Option Ord := some .%s" % _site_ord(sk_tick[1]))
    else:
        raise ExtractError("tick: unexpected atomic shape %s" % sk_tick)
    ts = strip_comments(tick)
    m = re.search(r"auto\s+version\s*=\s*(\d+)\s*\+\s*_version\s*\.\s*fetch_add\s*\(\s*(\d+)\s*,", ts)
    if not m or not re.search(r"return\s+version\s*;", ts):
        raise ExtractError("tick: return shape not found")
    items.append(nat_def("tickReturnPlus", int(m.group(1))))
    items.append(nat_def("tickIncrement", int(m.group(2))))
    x86, other = _tick_branches(read(EPOCH))
    sk_x86, sk_other = skeleton("{" + x86 + "}"), skeleton("{" + other + "}")
    items.append(skel_def("skel_tick_x86", sk_x86))
    items.append(skel_def("skel_tick_other", sk_other))
    items.append(bool_def("tickSelectedIsX86", sk_tick == sk_x86))
    # orders of the branch this build does NOT compile (reported, and used by the non-x86 theorems)
    o = sk_other if sk_tick == sk_x86 else sk_x86
    if [s.split()[0] for s in o] == [".rmw", ".fence"]:
        items.append(ord_def("tickAltRmwOrd", _site_ord(o[0])))
        items.append("def tickAltFenceOrd : Option Ord := some .%s" % _site_ord(o[1]))
    elif [s.split()[0] for s in o] == [".rmw"]:
        items.append(ord_def("tickAltRmwOrd", _site_ord(o[0])))
        items.append("def tickAltFenceOrd : Option Ord := none")
    else:
        raise ExtractError("tick (branch not selected): unexpected atomic shape %s" % o)

    # ---- low_water_mark
    lwm = fn(r"Epoch::low_water_mark\s*\(\s*\)")
    sk_lwm = skeleton(lwm, ["snapshot", "accessor_number", r"ThreadId::end", "for_each", r"std::min"])
    items.append(skel_def("skel_low_water_mark", sk_lwm))
    loads = [s for s in sk_lwm if s.startswith(".load")]
    if len(loads) != 1:
        raise ExtractError("low_water_mark: expected exactly one atomic load site, found %s" % loads)
    items.append(ord_def("scanSlotOrd", _site_ord(loads[0])))
    ws = strip_comments(lwm)
    items.append(bool_def("scanBoundIsMinCountSize", bool(
        re.search(r"slots\.for_each\s*\(\s*0\s*,\s*::std::min\s*\(\s*number\s*,\s*slots\.size\s*\(\s*\)\s*\)", ws))))
    items.append(bool_def("scanCountFromAccessorNumber", bool(re.search(r"auto\s+number\s*=\s*accessor_number\s*\(\s*\)\s*;", ws))))
    items.append(bool_def("scanFallsBackToThreadIds", bool(
        re.search(r"if\s*\(\s*number\s*==\s*0\s*\)\s*\{\s*number\s*=\s*ThreadId::end\s*<\s*Epoch\s*>\s*\(\s*\)\s*;", ws))))
    items.append(bool_def("scanStartsFromMax", bool(re.search(r"auto\s+min_verison\s*=\s*(?:\(?\s*18446744073709551615UL\s*\)?|UINT64_MAX)\s*;", ws))))
    items.append(bool_def("scanTakesMinimum", bool(
        re.search(r"if\s*\(\s*min_verison\s*>\s*local_version\s*\)\s*\{\s*min_verison\s*=\s*local_version\s*;", ws))))
    items.append(bool_def("scanSnapshotBeforeCount", ws.find("_slots.snapshot") < ws.find("accessor_number") and ws.find("_slots.snapshot") >= 0))

    # ---- the allocator counter and the slot table (orders only; their protocols are C14 / C04)
    ida = resolve_ifs(IDA)
    ifn = lambda name: function_body(ida, r"IdAllocator<T>::" + name + r"\s*\(")
    sk_end = skeleton(ifn("end"))
    _expect(sk_end, [".load"], "IdAllocator::end")
    items.append(ord_def("countLoadOrd", _site_ord(sk_end[0])))
    sk_alloc = skeleton(ifn("allocate"))
    mint = [s for s in sk_alloc if s.startswith('.rmw "fetch_add" "next_value()"')]
    if len(mint) != 1:
        raise ExtractError("IdAllocator::allocate: mint site not found")
    items.append(ord_def("mintOrd", _site_ord(mint[0])))
    sk_dealloc = skeleton(ifn("deallocate"))
    cas = [s for s in sk_dealloc if s.startswith(".cas")]
    if len(cas) != 1:
        raise ExtractError("IdAllocator::deallocate: push CAS not found")
    m = re.search(r"\.(\w+) \.(\w+)$", cas[0])
    items.append(ord_def("freePushOrd", m.group(1)))
    pop = [s for s in sk_alloc if s.startswith(".cas")]
    if len(pop) != 1:
        raise ExtractError("IdAllocator::allocate: pop CAS not found")
    m = re.search(r"\.(\w+) \.(\w+)$", pop[0])
    items.append(ord_def("freePopOrd", m.group(1)))
    vec = resolve_ifs(VEC)
    vfn = lambda rx, nth=0: function_body(vec, rx, nth)
    sk_snap = skeleton(vfn(r"ConcurrentVector<T, BLOCK_SIZE>::snapshot\s*\(\s*\)\s*const"))
    _expect(sk_snap, [".load"], "ConcurrentVector::snapshot const")
    items.append(ord_def("tableLoadOrd", _site_ord(sk_snap[0])))
    sk_snap2 = skeleton(vfn(r"ConcurrentVector<T, BLOCK_SIZE>::snapshot\s*\(\s*\)\s*noexcept"))
    _expect(sk_snap2, [".load"], "ConcurrentVector::snapshot")
    items.append(ord_def("tableIndexLoadOrd", _site_ord(sk_snap2[0])))
    sk_q = skeleton(vfn(r"ConcurrentVector<T, BLOCK_SIZE>::get_qualified_block_table\s*\("))
    _expect(sk_q, [".load"], "get_qualified_block_table")
    items.append(ord_def("ensureLoadOrd", _site_ord(sk_q[0])))
    sk_slow = skeleton(vfn(r"ConcurrentVector<T, BLOCK_SIZE>::get_qualified_block_table_slow\s*\("))
    _expect(sk_slow, [".cas"], "get_qualified_block_table_slow")
    m = re.search(r'\.cas "[^"]*" (true|false) \.(\w+) \.(\w+)$', sk_slow[0])
    items.append(bool_def("ensureCasStrong", m.group(1) == "true"))
    items.append(ord_def("ensureCasOrd", m.group(2)))
    items.append(ord_def("ensureCasFailOrd", m.group(3)))
    items.append(skel_def("skel_ensure_slow", sk_slow))

    # ---- constants
    c = probe(["babylon/concurrent/epoch.h"], {
        "slotInit": "(unsigned long long)(::babylon::Epoch::Slot().version.load() == UINT64_MAX)",
        "slotInitLockTimes": "::babylon::Epoch::Slot().lock_times",
        "sizeofSlot": "sizeof(::babylon::Epoch::Slot)",
        "versionOffset": "offsetof(::babylon::Epoch::Slot, version)",
        "unlockStoresMax": "(unsigned long long)((%s) == UINT64_MAX)" % maxexpr,
        "unregisterStoresMax": "(unsigned long long)((%s) == UINT64_MAX)" % unreg_max,
        "defaultBlockSize": "::babylon::ConcurrentVector<::babylon::Epoch::Slot>::DEFAULT_BLOCK_SIZE",
        # width of the scan bound: `auto number = accessor_number();` (text pinned by scanCountFromAccessorNumber)
        # takes the return type of accessor_number(), which must be at least as wide as the id counter
        "accessorNumberBytes": "sizeof(decltype(::std::declval<const ::babylon::Epoch&>().accessor_number()))",
        "idCounterBytes": "sizeof(::std::declval<::babylon::Epoch&>()._id_allocator._next_value)",
    }, prologue="#include <cstdint>\n#include <utility>")
    items.append(bool_def("slotInitIsMax", c["slotInit"] == 1))
    items.append(nat_def("slotInitLockTimes", c["slotInitLockTimes"]))
    items.append(nat_def("sizeofSlot", c["sizeofSlot"]))
    items.append(nat_def("versionOffset", c["versionOffset"]))
    items.append(bool_def("unlockStoresMax", c["unlockStoresMax"] == 1))
    items.append(bool_def("unregisterStoresMax", c["unregisterStoresMax"] == 1))
    items.append(nat_def("defaultBlockSize", c["defaultBlockSize"]))
    items.append(nat_def("accessorNumberBytes", c["accessorNumberBytes"]))
    items.append(nat_def("idCounterBytes", c["idCounterBytes"]))
    items.append("def maxVersion : Nat := 18446744073709551615")
    emit("Epoch", items)
