"""Translator for ConcurrentExecutionQueue (C16): atomic skeletons of the `_events` counter protocol
with their memory orders, the whitespace-free source text of every modelled function (`src_*`, pinned by
`gen_src_*` obligations), the constants of that protocol, the template flags of the two queue
calls, and the slot layout the harness / driver use to read the queue's trace lines
-> lean/Babylon/Gen/ExecQ.lean"""
from .common import *

H = "babylon/concurrent/execution_queue.h"
BQ = "babylon/concurrent/bounded_queue.h"

ORDNAME = {"rlx": ".rlx", "cns": ".cns", "acq": ".acq", "rel": ".rel", "acqrel": ".acqrel", "sc": ".sc"}


def _ord_def(name, o):
    return "def %s : Ord := %s" % (name, ORDNAME[o])


def _bool_def(name, b):
    return "def %s : Bool := %s" % (name, "true" if b else "false")


def _norm(body):
    """whitespace-free, comment-free text of a function body"""
    return re.sub(r"\s+", "", strip_comments(body))


def _str_def(name, text):
    return 'def %s : String := "%s"' % (name, text.replace("\\", "\\\\").replace('"', '\\"'))


def _site_ord(site, k=0):
    """k-th memory order written in a Site term produced by `skeleton`"""
    return re.findall(r"\.(rlx|cns|acqrel|acq|rel|sc)\b", site)[k]


def generate():
    txt = resolve_ifs(H)
    fn = lambda name: function_body(txt, r"ConcurrentExecutionQueue<T, S>::" + name + r"\s*\(")
    items = []
    sk_exec0 = skeleton(fn("execute"), [r"push", r"signal_push_event"])
    sk_exec1 = skeleton(function_body(txt, r"ConcurrentExecutionQueue<T, S>::execute\s*\(", 1), [r"push", r"signal_push_event"])
    sk_signal = skeleton(fn("signal_push_event"), [r"start_consumer"])
    sk_start = skeleton(fn("start_consumer"), [r"submit"])
    sk_cons = skeleton(fn("consume_until_empty"), [r"try_pop_n", r"size", r"yield", r"usleep"])
    sk_join = skeleton(fn("join"), [r"usleep", r"yield", r"size"])
    # full normalised text of every modelled function: any edit (an extra exit path, a bounded spin, a
    # changed condition) breaks the `gen_src_*` obligation that pins it in Properties/C16.lean
    items.append(_str_def("src_execute_move", _norm(fn("execute"))))
    items.append(_str_def("src_execute_copy", _norm(function_body(txt, r"ConcurrentExecutionQueue<T, S>::execute\s*\(", 1))))
    items.append(_str_def("src_signal_push_event", _norm(fn("signal_push_event"))))
    items.append(_str_def("src_start_consumer", _norm(fn("start_consumer"))))
    items.append(_str_def("src_consume_until_empty", _norm(fn("consume_until_empty"))))
    items.append(_str_def("src_join", _norm(fn("join"))))
    bq = resolve_ifs("babylon/concurrent/bounded_queue.hpp")
    items.append(_str_def("src_queue_size", _norm(function_body(bq, r"ConcurrentBoundedQueue<T, S>::size\s*\("))))
    items.append(skel_def("skel_execute_move", sk_exec0))
    items.append(skel_def("skel_execute_copy", sk_exec1))
    items.append(skel_def("skel_signal_push_event", sk_signal))
    items.append(skel_def("skel_start_consumer", sk_start))
    items.append(skel_def("skel_consume_until_empty", sk_cons))
    items.append(skel_def("skel_join", sk_join))

    # memory orders of the counter protocol, by occurrence
    def pick(sk, kind, nth=0):
        hits = [s for s in sk if s.startswith("." + kind + " ")]
        if len(hits) <= nth:
            raise ExtractError("expected %s #%d in %r" % (kind, nth, sk))
        return hits[nth]

    items.append(_ord_def("ordSignal", _site_ord(pick(sk_signal, "rmw"))))
    items.append(_ord_def("ordRollbackS", _site_ord(pick(sk_start, "cas"), 0)))
    items.append(_ord_def("ordRollbackF", _site_ord(pick(sk_start, "cas"), 1)))
    items.append(_ord_def("ordConsLoad", _site_ord(pick(sk_cons, "load", 0))))
    items.append(_ord_def("ordConsReload", _site_ord(pick(sk_cons, "load", 1))))
    items.append(_ord_def("ordExitS", _site_ord(pick(sk_cons, "cas"), 0)))
    items.append(_ord_def("ordExitF", _site_ord(pick(sk_cons, "cas"), 1)))
    items.append(_ord_def("ordJoin", _site_ord(pick(sk_join, "load"))))

    # constants of the protocol
    s = strip_comments(fn("signal_push_event"))
    m = re.search(r"if\s*\(\s*0\s*!=\s*_events\s*\.\s*fetch_add\s*\(\s*(\d+)\s*,", s)
    if not m:
        raise ExtractError("signal_push_event: `if (0 != _events.fetch_add(k, ...)) return 0` not found")
    items.append(nat_def("signalInc", int(m.group(1))))
    st = strip_comments(fn("start_consumer"))
    m = re.search(r"size_t\s+events\s*=\s*(\d+)\s*;", st)
    if not m:
        raise ExtractError("start_consumer: initial expected value not found")
    items.append(nat_def("rollbackExpectInit", int(m.group(1))))
    m = re.search(r"_events\s*\.\s*compare_exchange_strong\s*\(\s*events\s*,\s*(\d+)\s*,", st)
    if not m:
        raise ExtractError("start_consumer: roll-back CAS shape not found")
    items.append(nat_def("rollbackDesired", int(m.group(1))))
    if not re.search(r"do\s*\{.*submit.*if\s*\(\s*ret\s*==\s*0\s*\)\s*\{\s*return\s+0\s*;\s*\}\s*\}\s*while\s*\(\s*!\s*_events", st, re.S):
        raise ExtractError("start_consumer: do { submit; if (ret == 0) return 0; } while (!CAS) shape not found")
    c = strip_comments(fn("consume_until_empty"))
    m = re.search(r"_events\s*\.\s*compare_exchange_strong\s*\(\s*events\s*,\s*(\d+)\s*,", c)
    if not m:
        raise ExtractError("consume_until_empty: exit CAS shape not found")
    items.append(nat_def("exitDesired", int(m.group(1))))
    # does an empty poll look at the queue's index distance before the exit CAS?
    items.append(_bool_def("exitChecksSize", re.search(r"_queue\s*\.\s*size\s*\(", c) is not None))
    m = re.search(r"try_pop_n\s*<\s*(true|false)\s*,\s*(true|false)\s*>\s*\(\s*_consume_function\s*,\s*_queue\s*\.\s*capacity\s*\(\s*\)\s*\)", c)
    if not m:
        raise ExtractError("consume_until_empty: try_pop_n<…>(_consume_function, capacity()) not found")
    items.append(_bool_def("popConcurrent", m.group(1) == "true"))
    items.append(_bool_def("popFutexWake", m.group(2) == "true"))
    e = strip_comments(fn("execute"))
    m = re.search(r"push\s*<\s*(true|false)\s*,\s*(true|false)\s*,\s*(true|false)\s*>", e)
    if not m:
        raise ExtractError("execute: push<…> not found")
    items.append(_bool_def("pushConcurrent", m.group(1) == "true"))
    items.append(_bool_def("pushFutexWait", m.group(2) == "true"))
    items.append(_bool_def("pushFutexWake", m.group(3) == "true"))
    j = strip_comments(fn("join"))
    if not re.search(r"while\s*\(\s*_events\s*\.\s*load\s*\([^)]*\)\s*\)\s*\{\s*S::usleep", j):
        raise ExtractError("join: while (_events.load(...)) { usleep } shape not found")

    # slot layout (trace lines `slot+off`): stride and offset of the futex word inside one slot
    k = probe([H], {
        # width of the event counter and of the value its operations yield (the type of the `events` locals
        # is pinned textually by src_start_consumer / src_consume_until_empty)
        "eventsBytes": "sizeof(::babylon::ConcurrentExecutionQueue<uint64_t>::_events)",
        "eventsValueBytes": "sizeof(decltype(::std::declval<::babylon::ConcurrentExecutionQueue<uint64_t>&>()._events.load()))",
        "slotStride": "sizeof(::babylon::ConcurrentBoundedQueue<uint64_t>::Slot)",
        "slotFutexOff": "offsetof(::babylon::ConcurrentBoundedQueue<uint64_t>::Slot, futex)",
    })
    items += [nat_def(a, b) for a, b in k.items()]
    emit("ExecQ", items)
