"""Translator for anyflow (C05): dependency counter increments / case labels / terminal values, vertex and
closure counter constants, atomic skeletons (with memory orders) of the functions the models follow
  ->  lean/Babylon/Gen/Anyflow.lean"""
from .common import *

DEP_CPP = "babylon/anyflow/dependency.cpp"
DEP_HPP = "babylon/anyflow/dependency.hpp"
VERTEX_CPP = "babylon/anyflow/vertex.cpp"
VERTEX_HPP = "babylon/anyflow/vertex.hpp"
DATA_CPP = "babylon/anyflow/data.cpp"
DATA_HPP = "babylon/anyflow/data.hpp"
CLOSURE_HPP = "babylon/anyflow/closure.hpp"
GRAPH_CPP = "babylon/anyflow/graph.cpp"
EXEC_CPP = "babylon/anyflow/executor.cpp"


def _need(rx, txt, what):
    m = re.search(rx, txt, flags=re.S)
    if not m:
        raise ExtractError("anyflow: %s not found (source shape changed)" % what)
    return m


def _switch_cases(body):
    """[(label:int|None, text)] of the top-level `case N: {...}` / `default: {...}` blocks of the
    first switch in `body`."""
    m = _need(r"switch\s*\(\s*waiting_num\s*\)\s*\{", body, "switch (waiting_num)")
    i = m.end() - 1
    sw = body[i:match_brace(body, i)]
    out = []
    for c in re.finditer(r"(case\s+(-?\d+)|default)\s*:\s*\{", sw):
        j = c.end() - 1
        blk = sw[j:match_brace(sw, j)]
        out.append((int(c.group(2)) if c.group(2) is not None else None, blk))
    return out


def int_list_def(name, xs):
    return "def %s : List Int := [%s]" % (name, ", ".join(str(x) for x in xs))


def str_def(name, txt):
    return 'def %s : String := "%s"' % (name, txt.replace("\\", "\\\\").replace('"', '\\"'))


def _squash(body):
    """whitespace-free text of a function body (field list of the reset functions: a field that is no longer
    re-initialised — or a new one — changes the text)"""
    return re.sub(r"\s+", "", strip_comments(body))


def generate():
    items = []
    dep = strip_comments(resolve_ifs(DEP_CPP))
    act = function_body(dep, r"GraphDependency::activate\s*\(\s*DataStack")
    rdy = function_body(dep, r"GraphDependency::ready\s*\(\s*GraphData")
    # --- GraphDependency::activate: +1 / +2, the case labels, which cases report "finished at activation"
    m = _need(r"waiting_num\s*=\s*_condition\s*==\s*nullptr\s*\?\s*(\d+)\s*:\s*(\d+)\s*;", act, "activate increment")
    items.append(nat_def("incNoCond", int(m.group(1))))
    items.append(nat_def("incCond", int(m.group(2))))
    _need(r"waiting_num\s*=\s*_waiting_num\s*\.\s*fetch_add\s*\(\s*waiting_num\s*,[^)]*\)\s*\+\s*waiting_num\s*;", act,
          "activate: new value = fetch_add(inc) + inc")
    cases = _switch_cases(act)
    labels = [l for l, _ in cases if l is not None]
    items.append(int_list_def("activateCases", labels))
    items.append(int_list_def("activateFinishCases", [l for l, b in cases if l is not None and re.search(r"return\s+1\s*;", b)]))
    # notable calls per case, in source order (trigger of condition / target, check_established, returns)
    calls = [r"_condition->trigger", r"_target->trigger", r"check_established", r"_condition->ready", r"_target->ready",
             r"acquire_immutable_depend", r"acquire_mutable_depend", r"return"]
    for l, b in cases:
        nm = "skel_activate_case_" + ("default" if l is None else ("m%d" % -l if l < 0 else str(l)))
        items.append(skel_def(nm, skeleton(b, calls)))
    items.append(skel_def("skel_dep_activate", skeleton(act)))
    # --- GraphDependency::ready: decrements and the terminal tests
    subs = re.findall(r"_waiting_num\s*\.\s*fetch_sub\s*\(\s*(\d+)\s*,\s*::std::memory_order_(\w+)\s*\)\s*-\s*(\d+)", rdy)
    if len(subs) != 2 or any(a != b for a, _, b in subs):
        raise ExtractError("anyflow: GraphDependency::ready no longer has two `fetch_sub(k) - k`")
    items.append(nat_def("readyDec", int(subs[0][0])))
    items.append(nat_def("readyDec2", int(subs[1][0])))
    m = _need(r"if\s*\(\s*data\s*==\s*_condition\s*\)\s*\{\s*if\s*\(\s*check_established\s*\(\s*\)\s*\)\s*\{\s*if\s*\(\s*waiting_num\s*==\s*(-?\d+)\s*\)", rdy,
              "ready: condition established -> `waiting_num == 1` activates the target")
    items.append(int_def("readyActivateTargetAt", int(m.group(1))))
    m = _need(r"\}\s*else\s+if\s*\(\s*waiting_num\s*!=\s*(-?\d+)\s*\)\s*\{\s*waiting_num\s*=\s*_waiting_num\s*\.\s*fetch_sub", rdy,
              "ready: condition not established -> second fetch_sub unless 0")
    items.append(int_def("readySecondSubUnless", int(m.group(1))))
    m = _need(r"if\s*\(\s*waiting_num\s*==\s*(-?\d+)\s*&&\s*nullptr\s*!=\s*_source\s*\)", rdy, "ready: notify source at 0")
    items.append(int_def("readyNotifyAt", int(m.group(1))))
    items.append(skel_def("skel_dep_ready", skeleton(rdy, [r"check_established", r"recursive_activate", r"_source->ready",
                                                              r"_target->ready", r"closure\(\)->finish"])))
    dhpp = strip_comments(resolve_ifs(DEP_HPP))
    items.append(skel_def("skel_dep_reset", skeleton(function_body(dhpp, r"GraphDependency::reset\s*\("))))
    ce = function_body(dhpp, r"GraphDependency::check_established\s*\(")
    _need(r"if\s*\(\s*_condition\s*==\s*nullptr\s*\)\s*\{\s*_established\s*=\s*true\s*;\s*\}\s*else\s*\{\s*bool\s+value\s*=\s*_condition->as<bool>\(\)\s*;"
          r"\s*if\s*\(\s*value\s*==\s*_establish_value\s*\)\s*\{\s*_established\s*=\s*true\s*;\s*\}\s*\}\s*return\s+_established\s*;", ce,
          "check_established shape")
    items.append(nat_def("checkEstablishedShape", 1))

    # --- GraphVertex
    vcpp = strip_comments(resolve_ifs(VERTEX_CPP))
    vact = function_body(vcpp, r"GraphVertex::activate\s*\(")
    items.append(skel_def("skel_vertex_activate", skeleton(vact, [r"on_activate", r"dependency\.activate", r"runnable_vertexes\.emplace_back"])))
    _need(r"_waiting_num\s*\.\s*fetch_sub\s*\(\s*finished\s*,[^)]*\)\s*-\s*finished\s*\)\s*;\s*if\s*\(\s*waiting_num\s*==\s*0\s*\)", vact,
          "vertex activate: runnable when fetch_sub(finished) - finished == 0")
    _need(r"if\s*\(\s*finished\s*>\s*0\s*\)", vact, "vertex activate: batch only when finished > 0")
    _need(r"_waiting_num\s*\.\s*store\s*\(\s*static_cast<int64_t>\s*\(\s*waiting_num\s*\)", vact, "vertex activate: store dependency count")
    items.append(nat_def("vertexBatchRunnableAt", 0))
    items.append(skel_def("skel_vertex_reset", skeleton(function_body(vcpp, r"GraphVertex::reset\s*\("), [r"denpendency\.reset", r"_processor->reset"])))
    items.append(skel_def("skel_vertex_invoke", skeleton(function_body(vcpp, r"GraphVertex::invoke\s*\("),
                                                         [r"is_essential", r"executor\(\)\.run", r"flush_emits", r"run"])))
    items.append(skel_def("skel_vertex_flush_emits", skeleton(function_body(vcpp, r"GraphVertex::flush_emits\s*\("), [r"data->ready", r"data->emit"])))
    vhpp = strip_comments(resolve_ifs(VERTEX_HPP))
    vr = function_body(vhpp, r"GraphVertex::ready\s*\(\s*GraphDependency")
    m = _need(r"return\s+_waiting_num\s*\.\s*fetch_sub\s*\(\s*(\d+)\s*,[^)]*\)\s*==\s*(\d+)\s*;", vr, "vertex ready: fetch_sub(1) == 1")
    items.append(nat_def("vertexReadyDec", int(m.group(1))))
    items.append(nat_def("vertexReadyOldAt", int(m.group(2))))
    items.append(skel_def("skel_vertex_ready", skeleton(vr)))
    items.append(skel_def("skel_vertex_closure_done", skeleton(function_body(vhpp, r"GraphVertexClosure::done\s*\(\s*int"),
                                                               [r"_closure->finish", r"flush_emits", r"depend_vertex_sub"])))
    items.append(skel_def("skel_vertex_run", skeleton(function_body(vhpp, r"GraphVertex::run\s*\("), [r"closure\.finished", r"closure\.done", r"_processor->process"])))

    # --- GraphData
    dcpp = strip_comments(resolve_ifs(DATA_CPP))
    items.append(skel_def("skel_data_release", skeleton(function_body(dcpp, r"GraphData::release\s*\("),
                                                        [r"depend_data_sub", r"successor->ready", r"vertex->invoke"])))
    items.append(skel_def("skel_data_recursive_activate", skeleton(function_body(dcpp, r"GraphData::recursive_activate\s*\("), [r"trigger", r"one_data->activate"])))
    dahpp = strip_comments(resolve_ifs(DATA_HPP))
    dfn = lambda name: function_body(dahpp, r"GraphData::" + name + r"\s*\(")
    items.append(skel_def("skel_data_ready", skeleton(dfn("ready"))))
    items.append(skel_def("skel_data_reset", skeleton(dfn("reset"), [r"_on_reset"])))
    items.append(skel_def("skel_data_bind", skeleton(dfn("bind"), [r"depend_data_add", r"depend_data_sub"])))
    items.append(skel_def("skel_data_acquire", skeleton(dfn("acquire"))))
    items.append(skel_def("skel_data_trigger", skeleton(dfn("trigger"), [r"mark_active", r"ready", r"activating_data\.emplace_back"])))
    m = _need(r"SEALED_CLOSURE\s*=\s*reinterpret_cast<ClosureContext\*>\(\s*(0x[0-9A-Fa-f]+)L?\s*\)", dcpp, "SEALED_CLOSURE")
    items.append(nat_def("sealedClosure", int(m.group(1), 16)))

    # --- ClosureContext
    chpp = strip_comments(resolve_ifs(CLOSURE_HPP))
    cfn = lambda name: function_body(chpp, r"ClosureContext::" + name + r"\s*\(")
    items.append(skel_def("skel_closure_mark_finished", skeleton(cfn("mark_finished"), [r"notify_finish"])))
    items.append(skel_def("skel_closure_depend_vertex_add", skeleton(cfn("depend_vertex_add"))))
    items.append(skel_def("skel_closure_depend_vertex_sub", skeleton(cfn("depend_vertex_sub"), [r"mark_finished", r"notify_flush"])))
    items.append(skel_def("skel_closure_depend_data_add", skeleton(cfn("depend_data_add"))))
    items.append(skel_def("skel_closure_depend_data_sub", skeleton(cfn("depend_data_sub"), [r"mark_finished"])))
    items.append(skel_def("skel_closure_fire", skeleton(cfn("fire"), [r"depend_data_sub", r"depend_vertex_sub"])))
    items.append(skel_def("skel_closure_finish", skeleton(cfn("finish"), [r"mark_finished"])))
    _need(r"waiting_num\s*=\s*_waiting_vertex_num\s*\.\s*fetch_sub\s*\(\s*1\s*,[^)]*\)\s*-\s*1\s*;\s*if\s*\(\s*\(\s*__builtin_expect\s*\(\s*false\s*\|\|\s*\(\s*waiting_num\s*==\s*0\s*\)", chpp,
          "depend_vertex_sub: flush when the count returns to 0")
    _need(r"waiting_num\s*=\s*_waiting_data_num\s*\.\s*fetch_sub\s*\(\s*1\s*,[^)]*\)\s*-\s*1\s*;\s*if\s*\(\s*waiting_num\s*==\s*0\s*\)", chpp,
          "depend_data_sub: finish when the count returns to 0")
    ch = strip_comments(read("babylon/anyflow/closure.h"))
    m = _need(r"::std::atomic<int64_t>\s+_waiting_vertex_num\s*\{\s*(\d+)\s*\}", ch, "ClosureContext::_waiting_vertex_num initial value")
    items.append(nat_def("closureInitVertexNum", int(m.group(1))))
    m = _need(r"::std::atomic<int64_t>\s+_waiting_data_num\s*\{\s*(\d+)\s*\}", ch, "ClosureContext::_waiting_data_num initial value")
    items.append(nat_def("closureInitDataNum", int(m.group(1))))

    # --- Graph::run / reset, executors
    gcpp = strip_comments(resolve_ifs(GRAPH_CPP))
    items.append(skel_def("skel_graph_run", skeleton(function_body(gcpp, r"Graph::run\s*\(\s*GraphData"),
                                                     [r"bind", r"recursive_activate", r"context->finish", r"context->fire", r"vertex->invoke"])))
    items.append(skel_def("skel_graph_reset", skeleton(function_body(gcpp, r"Graph::reset\s*\("), [r"one_data\.reset", r"vertex\.reset"])))
    ecpp = strip_comments(resolve_ifs(EXEC_CPP))
    items.append(skel_def("skel_inplace_run", skeleton(function_body(ecpp, r"InplaceGraphExecutor::run\s*\(\s*GraphVertex"), [r"vertex->run"])))
    items.append(skel_def("skel_pool_run", skeleton(function_body(ecpp, r"ThreadPoolGraphExecutor::run\s*\(\s*GraphVertex"), [r"_executor\.submit", r"vertex->run"])))
    # --- memory orders of the publication path (view-level theorems, Babylon/Anyflow/View.lean)
    def first(sites, kind, what, field=-1):
        for x in sites:
            if x.startswith(kind):
                return x.split()[field]
        raise ExtractError("anyflow: no %s site for %s" % (kind, what))
    def ord_def(name, o):
        return "def %s : Ord := %s" % (name, o)
    items.append(ord_def("ordDepAdd", first(skeleton(act), ".rmw", "dependency activate fetch_add")))
    items.append(ord_def("ordDepSub", first(skeleton(rdy), ".rmw", "dependency ready fetch_sub")))
    items.append(ord_def("ordVertexReady", first(skeleton(vr), ".rmw", "vertex ready fetch_sub")))
    items.append(ord_def("ordVertexBatch", first(skeleton(vact), ".rmw", "vertex activate batch fetch_sub")))
    rel_sk = skeleton(function_body(dcpp, r"GraphData::release\s*\("))
    items.append(ord_def("ordSeal", first(rel_sk, ".cas", "data seal CAS", -2)))
    items.append(ord_def("ordReadyLoad", first(skeleton(dfn("ready")), ".load", "data ready load")))
    items.append(ord_def("ordAcquireCas", first(skeleton(dfn("acquire")), ".cas", "data acquire CAS", -2)))
    items.append(ord_def("ordDataSub", first(skeleton(cfn("depend_data_sub")), ".rmw", "closure depend_data_sub")))
    items.append(ord_def("ordVertexSub", first(skeleton(cfn("depend_vertex_sub")), ".rmw", "closure depend_vertex_sub")))
    items.append(ord_def("ordMarkFinished", first(skeleton(cfn("mark_finished")), ".cas", "mark_finished CAS", -2)))
    # --- reset(): the exact statements (which fields are re-initialised)
    items.append(str_def("resetTextDependency", _squash(function_body(dhpp, r"GraphDependency::reset\s*\("))))
    items.append(str_def("resetTextVertex", _squash(function_body(vcpp, r"GraphVertex::reset\s*\("))))
    items.append(str_def("resetTextData", _squash(dfn("reset"))))
    items.append(str_def("resetTextGraph", _squash(function_body(gcpp, r"Graph::reset\s*\("))))
    emit("Anyflow", items)
