"""Translator for the monotonic buffer resource (C06): constants and the statement skeletons of the
functions the model transcribes, from reusable/memory_resource.{h,cpp} -> lean/Babylon/Gen/Arena.lean

 * constants            compiled probe (capacities, sizeof/alignof/offsetof of the bookkeeping structs)
 * moveSwaps            the member names exchanged by the move-assignment operator, in source order
 * stmts_<function>     every statement of a modelled function, comments and sanitizer annotations
                        removed, white space normalised -- the model file declares the text it was
                        transcribed from and `gen_stmts_*` obligations compare the two
"""
from .common import *

H = "babylon/reusable/memory_resource.h"
CPP = "babylon/reusable/memory_resource.cpp"
E = "::babylon::ExclusiveMonotonicBufferResource"


def _norm(s):
    s = re.sub(r"\s+", " ", s).strip()
    s = re.sub(r"\s*([(){}\[\];,<>*&=!])\s*", r"\1", s)
    return s


def statements(body):
    """Flat list of normalised statements / block heads of a function body.  Pure sanitizer
    annotations (poison guards) are dropped, `SanitizerHelper::unpoison(x, n)` used as an expression
    is replaced by its first argument (it returns it)."""
    body = strip_comments(body)
    body = re.sub(r"SanitizerHelper::PoisonGuard\s+\w+\s*\{[^{}]*\}\s*;", "", body)
    # expression-level unpoison/poison wrappers return their first argument
    for _ in range(4):
        body = re.sub(r"SanitizerHelper::(?:un)?poison\s*\(\s*((?:[^(),]|\([^()]*\))+?)\s*(?:,\s*(?:[^()]|\([^()]*\))+?)?\)", r"\1", body)
    out = []
    cur = ""
    depth = 0
    for ch in body:
        if ch == "(":
            depth += 1
        elif ch == ")":
            depth -= 1
        if depth == 0 and ch in ";{}":
            t = _norm(cur)
            cur = ""
            if ch == "{" and t:
                out.append(t + "{")
            elif ch == "}":
                if t:
                    out.append(t)
                out.append("}")
            elif t:
                out.append(t)
        else:
            cur += ch
    res = []
    for t in out:
        if t.startswith("SanitizerHelper::PoisonGuard"):
            continue
        if re.fullmatch(r"[A-Za-z_]\w*((->|\.)\w+)*", t):   # bare expression statement left over from a removed wrapper
            continue
        res.append(t)
    # outermost braces
    if res and res[0] == "{":
        res = res[1:]
    if res and res[-1] == "}":
        res = res[:-1]
    return res


def str_list_def(name, items):
    esc = ['"%s"' % i.replace("\\", "\\\\").replace('"', '\\"') for i in items]
    return "def %s : List String := %s" % (name, lean_list(esc))


def generate():
    S = lambda t: "sizeof(%s::%s)" % (E, t)
    A = lambda t: "alignof(%s::%s)" % (E, t)
    O = lambda t, m: "offsetof(%s::%s, %s)" % (E, t, m)
    c = probe([H], {
        "pageArrayCap": E + "::PAGE_ARRAY_CAPACITY",
        "destroyArrayCap": E + "::DESTROY_TASK_ARRAY_CAPACITY",
        "sizeofPageArray": S("PageArray"), "alignofPageArray": A("PageArray"),
        "offsetPages": O("PageArray", "pages"),
        "sizeofOvArray": S("OversizePageArray"), "alignofOvArray": A("OversizePageArray"),
        "offsetOvPages": O("OversizePageArray", "pages"), "sizeofOvPage": S("OversizePage"),
        "sizeofDtArray": S("DestroyTaskArray"), "alignofDtArray": A("DestroyTaskArray"),
        "offsetTasks": O("DestroyTaskArray", "tasks"), "sizeofDestroyTask": S("DestroyTask"),
        "ptrSize": "sizeof(char*)",
        "ovEntriesInArray": "sizeof(((%s::OversizePageArray*)0)->pages) / sizeof(%s::OversizePage)" % (E, E),
        "pageEntriesInArray": "sizeof(((%s::PageArray*)0)->pages) / sizeof(char*)" % E,
        "taskEntriesInArray": "sizeof(((%s::DestroyTaskArray*)0)->tasks) / sizeof(%s::DestroyTask)" % (E, E),
    })
    items = [nat_def(k, v) for k, v in c.items()]

    cpp = resolve_ifs(CPP)
    hdr = resolve_ifs(H)
    q = r"ExclusiveMonotonicBufferResource::"
    # move assignment: which members are exchanged
    mv = strip_comments(function_body(cpp, q + r"operator=\s*\("))
    swaps = re.findall(r"swap\s*\(\s*(\w+)\s*,\s*other\.(\w+)\s*\)", mv)
    if not swaps or any(a != b for a, b in swaps):
        raise ExtractError("move assignment: unexpected swap list %r" % (swaps,))
    items.append(str_list_def("moveSwaps", [a for a, _ in swaps]))
    items.append("def moveSwapsUpstream : Bool := %s" % ("true" if "_upstream" in [a for a, _ in swaps] else "false"))
    # the move constructor delegates to the move assignment
    mc = re.search(q + r"ExclusiveMonotonicBufferResource\s*\(\s*ExclusiveMonotonicBufferResource\s*&&\s*other\s*\)\s*noexcept\s*:\s*"
                   r"ExclusiveMonotonicBufferResource\s*\{\s*\}\s*\{\s*\*this\s*=\s*::std::move\s*\(\s*other\s*\)\s*;\s*\}", strip_comments(cpp))
    items.append("def moveCtorDelegates : Bool := %s" % ("true" if mc else "false"))
    # default member initialisers of the state fields (initial state of the model)
    inits = []
    for m in re.finditer(r"(?:[\w:]+(?:\s*\*+)?\s+|\*\s*)(_(?:last_\w+|free_\w+|space_\w+))\s*\{([^}]*)\}\s*;", strip_comments(hdr)):
        inits.append("%s{%s}" % (m.group(1), _norm(m.group(2))))
    items.append(str_list_def("fieldInits", inits))

    fns_cpp = ["do_allocate_in_new_page", "do_allocate_with_page_in_new_page_array", "do_allocate_in_oversize_page",
               "do_get_destroy_task_in_new_array", "release", "destruct_all", "contains"]
    for f in fns_cpp:
        items.append(str_list_def("stmts_" + f, statements(function_body(cpp, q + f + r"\s*\("))))
    # inline functions in the header (second `allocate` = the (bytes, alignment) overload, etc.)
    hq = r"ExclusiveMonotonicBufferResource::"
    items.append(str_list_def("stmts_allocate", statements(function_body(hdr, hq + r"allocate\s*\(\s*size_t bytes,\s*size_t alignment"))))
    items.append(str_list_def("stmts_allocate_tpl", statements(function_body(hdr, hq + r"allocate\s*\(\s*size_t bytes\s*\)"))))
    items.append(str_list_def("stmts_do_align", statements(function_body(hdr, hq + r"do_align\s*\(\s*size_t alignment"))))
    items.append(str_list_def("stmts_do_allocate_already_aligned", statements(function_body(hdr, hq + r"do_allocate_already_aligned\s*\("))))
    items.append(str_list_def("stmts_get_destroy_task", statements(function_body(hdr, hq + r"get_destroy_task\s*\("))))
    items.append(str_list_def("stmts_register_destructor", statements(function_body(hdr, hq + r"register_destructor\s*\(\s*void\s*\*"))))
    # shared / swiss variants: release = destruct_all on every per-thread resource, then release on every one
    items.append(str_list_def("stmts_shared_release", statements(function_body(cpp, r"SharedMonotonicBufferResource::release\s*\("))))
    items.append(str_list_def("stmts_swiss_release", statements(function_body(cpp, r"SwissMemoryResource::release\s*\("))))
    items.append(str_list_def("stmts_shared_do_allocate", statements(function_body(cpp, r"SharedMonotonicBufferResource::do_allocate\s*\("))))
    # the library's own base page allocator: page size normalisation and the alignment it asks operator new for
    pcpp = resolve_ifs("babylon/reusable/page_allocator.cpp")
    nd = r"NewDeletePageAllocator::"
    for f in ["set_page_size", "allocate", "deallocate"]:
        items.append(str_list_def("stmts_newdelete_" + f, statements(function_body(pcpp, nd + f + r"\s*\("))))
    items.append(str_list_def("stmts_system_allocate", statements(function_body(pcpp, r"SystemPageAllocator::allocate\s*\("))))
    m = re.search(r"operator new\s*\(\s*_page_size\s*,\s*(.*?)\)\s*;", strip_comments(function_body(pcpp, nd + r"allocate\s*\(")), re.S)
    items.append('def newDeletePageAlignArg : String := "%s"' % (_norm(m.group(1)) if m else "?"))
    emit("Arena", items, opens=(), imports=())
