"""Translator for the coroutine futex / cancellable wrapper / awaits (C13)
-> lean/Babylon/Gen/Coro.lean

The protocol of these functions is carried by *plain* statements under a mutex (list pointer writes,
DepositBox take / finish, resume calls), not by atomics, so what is extracted per modelled function
is its whole ordered statement list (whitespace-free source text of every statement, loop header
and condition), plus the two shapes the model is parameterised by / pinned to:

  wakeAllNextFirst     wake_all's second loop reads `node->next` before `finish_released` (repaired
                       shape, DESIGN 7 #4) or after it
  wakeOneSavesNext     wake_one's scan advances through a pointer saved before `node->next` is cleared
                       (repaired shape, #3)
  waitFailRecycles     await_suspend takes and finishes its slot when add_awaiter fails (repaired, #5)
"""
from .common import *

FUTEX_H = "babylon/coroutine/futex.h"
FUTEX_CPP = "babylon/coroutine/futex.cpp"
CANCEL_H = "babylon/coroutine/cancelable.h"
PROMISE_H = "babylon/coroutine/promise.h"
TASK_H = "babylon/coroutine/task.h"
FUTAW_H = "babylon/coroutine/future_awaitable.h"
BOX_H = "babylon/concurrent/deposit_box.h"


def statements(body):
    """ordered statement texts of a function body: split at `;`, `{`, `}` outside parentheses,
    whitespace removed, `::std::` / `std::` prefixes dropped"""
    body = strip_comments(body).strip()
    if body.startswith("{"):
        body = body[1:body.rfind("}")]
    out, cur, depth = [], "", 0
    for ch in body:
        if ch in "([":
            depth += 1
        elif ch in ")]":
            depth -= 1
        if depth == 0 and ch in ";{}":
            t = re.sub(r"\s+", "", cur)
            t = t.replace("::std::", "").replace("std::", "")
            if t:
                out.append(t)
            cur = ""
        else:
            cur += ch
    t = re.sub(r"\s+", "", cur)
    if t:
        out.append(t)
    return out


def str_list_def(name, xs):
    return "def %s : List String := %s" % (name, lean_list(['"%s"' % x.replace("\\", "\\\\").replace('"', '\\"') for x in xs]))


def bool_def(name, b):
    return "def %s : Bool := %s" % (name, "true" if b else "false")


def _idx(xs, pred, what, start=0):
    for i in range(start, len(xs)):
        if pred(xs[i]):
            return i
    raise ExtractError("statement not found: " + what)


def generate():
    items = []
    cpp = resolve_ifs(FUTEX_CPP)
    h = resolve_ifs(FUTEX_H)
    fn = lambda txt, rx: function_body(txt, rx)
    st = {
        "wake_one": statements(fn(cpp, r"Futex::wake_one\s*\(")),
        "wake_all": statements(fn(cpp, r"Futex::wake_all\s*\(")),
        "add_awaiter": statements(fn(cpp, r"Futex::add_awaiter\s*\(")),
        "remove_awaiter": statements(fn(cpp, r"Futex::remove_awaiter\s*\(")),
        "await_suspend": statements(fn(h, r"Futex::Awaitable::await_suspend\s*\(")),
        "cancel": statements(fn(h, r"Futex::Awaitable::cancel\s*\(")),
    }
    for k, v in st.items():
        items.append(str_list_def("stmts_" + k, v))

    # ---- shape of wake_all's second loop
    wa = st["wake_all"]
    loops = [i for i, s in enumerate(wa) if s.startswith("for(")]
    if len(loops) != 2:
        raise ExtractError("wake_all: expected two loops, found %d" % len(loops))
    second = wa[loops[1]:]
    fin = _idx(second, lambda s: "finish_released(" in s, "wake_all: finish_released in second loop")
    hdr = second[0]
    inc = hdr[hdr.rfind(";") + 1:]
    reads_before = [i for i in range(1, fin) if "->next" in second[i]]
    reads_after = [i for i in range(fin + 1, len(second)) if "->next" in second[i] and not second[i].startswith("return")]
    if "->next" in inc and not reads_before:
        next_first = False
    elif "->next" not in inc and reads_before and not reads_after:
        next_first = True
    else:
        raise ExtractError("wake_all: second loop has an unknown shape: %r" % (second,))
    items.append(bool_def("wakeAllNextFirst", next_first))

    # ---- wake_one's advance
    wo = st["wake_one"]
    hdr = wo[_idx(wo, lambda s: s.startswith("for("), "wake_one: loop")]
    inc = hdr[hdr.rfind(";") + 1:].rstrip(")")
    saves = False
    m = re.match(r"node=(\w+)$", inc)
    if m:
        var = m.group(1)
        i_save = [i for i, s in enumerate(wo) if s == "%s=node->next" % var]
        i_clear = [i for i, s in enumerate(wo) if s == "node->next=nullptr"]
        saves = bool(i_save) and bool(i_clear) and i_save[0] < i_clear[0]
    items.append(bool_def("wakeOneSavesNext", saves))
    items.append(str_list_def("wakeOneAdvance", [inc]))

    # ---- await_suspend failure path: take + finish of the own slot when add_awaiter fails
    aw = st["await_suspend"]
    i_add = _idx(aw, lambda s: "add_awaiter(" in s, "await_suspend: add_awaiter")
    i_if = _idx(aw, lambda s: s == "if(!success)", "await_suspend: failure branch", i_add) if any(s == "if(!success)" for s in aw) else -1
    recycles = False
    if i_if >= 0:
        rest = aw[i_if + 1:]
        recycles = len(rest) >= 2 and rest[0] == "box.take_released(id)" and rest[1] == "box.finish_released(id)"
    items.append(bool_def("waitFailRecycles", recycles))

    # ---- cancellable wrapper, promise, task, future awaitable
    ch = resolve_ifs(CANCEL_H)
    ph = resolve_ifs(PROMISE_H)
    th = resolve_ifs(TASK_H)
    fh = resolve_ifs(FUTAW_H)
    st2 = {
        "bc_emplace": statements(fn(ch, r"BasicCancellable::emplace\s*\(")),
        "bc_cancel": statements(fn(ch, r"BasicCancellable::cancel\s*\(")),
        "bc_resume": statements(fn(ch, r"BasicCancellable::resume\s*\(")),
        "bc_do_cancel": statements(fn(ch, r"BasicCancellable::do_cancel\s*\(")),
        "bc_do_resume": statements(fn(ch, r"BasicCancellable::do_resume\s*\(")),
        "c_await_suspend": statements(fn(ch, r"Cancellable<A>::await_suspend\s*\(")),
        "c_await_resume": statements(fn(ch, r"Cancellable<A>::await_resume\s*\(")),
        "final_await_suspend": statements(fn(ph, r"BasicPromise::FinalAwaitable::await_suspend\s*\(")),
        "awaiter_inplace_resumable": statements(fn(ph, r"BasicPromise::awaiter_inplace_resumable\s*\(")),
        "inplace_resumable": statements(fn(ph, r"BasicPromise::inplace_resumable\s*\(")),
        "resume_awaiter": statements(fn(ph, r"BasicPromise::resume_awaiter\s*\(")),
        "promise_resume": statements(fn(ph, r"BasicPromise::resume\s*\(")),
        "resume_in_executor": statements(fn(ph, r"BasicPromise::resume_in_executor\s*\(")),
        "set_awaiter": statements(fn(ph, r"BasicPromise::set_awaiter\s*\(")),
        "task_await_suspend": statements(fn(th, r"Task<T>::await_suspend\s*\(\s*(?:::)?std::coroutine_handle<>\s+awaiter\s*,")),
        "task_await_suspend_p": statements(fn(th, r"Task<T>::await_suspend\s*\(\s*(?:::)?std::coroutine_handle<P>")),
        "future_await_ready": statements(fn(fh, r"await_ready\s*\(")),
        "future_await_suspend": statements(fn(fh, r"await_suspend\s*\(\s*(?:::)?std::coroutine_handle<P>")),
    }
    for k, v in st2.items():
        items.append(str_list_def("stmts_" + k, v))
    bx = resolve_ifs(BOX_H)
    items.append(str_list_def("stmts_accessor_dtor", statements(fn(bx, r"DepositBox<T>::Accessor::~Accessor\s*\("))))
    items.append(str_list_def("stmts_box_take", statements(fn(bx, r"DepositBox<T>::take\s*\("))))
    emit("Coro", items, opens=(), imports=())
