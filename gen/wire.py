"""Translator for the serialization layer (C11): /repo/src/babylon/serialization/* -> lean/Babylon/Gen/Wire.lean

What is extracted (and therefore re-checked against the Lean model on every run):
  * the `varint_size` expression of traits.hpp (multiplier / addend / divisor / xor / or constants) and, through a
    compiled probe, its value and protobuf's VarintSize32/64 at every power of two and 2^k - 1
  * the tag computation (`field_number << 3 | WIRE_TYPE`, `tag >> 3`, `tag & 0x7`)
  * WIRE_TYPE and SERIALIZED_SIZE_COMPLEXITY of every kind of the model's type universe (compiled probe)
  * which scalar kinds go through Varint32 and which through Varint64 (scalar.h macro groups, enum traits)
  * aggregate macro rules: omission of empty members, per-field cache for COMPLEX members only, whole-object cache
    threshold and weights, whether the base class is counted, where `field_cache` is written
  * the shape of every container's parse loop guard, string/vector clear-or-append, smart pointer reset rules
  * deserialize_field / deserialize_packed_field: wire-type check only without NDEBUG; is a failed length read checked
  * consume_unknown_field: action per wire type
"""
from .common import *

S = "babylon/serialization/"


def _body(txt, head_rx, nth=0):
    return strip_comments(function_body(txt, head_rx, nth))


def _guard(body, what):
    """loop guard of the (first) while loop in a deserialize body"""
    m = re.search(r"while\s*\((.*?)\)\s*\{", body, re.S)
    if not m:
        raise ExtractError("no while loop in %s::deserialize" % what)
    g = re.sub(r"\s+", "", m.group(1))
    if re.fullmatch(r"is\.BytesUntilLimit\(\)>0", g):
        return "BytesUntilLimit"
    if re.fullmatch(r"is\.GetDirectBufferPointer\(&\w+,&\w+\)", g):
        return "GetDirectBufferPointer"
    raise ExtractError("unknown loop guard in %s: %s" % (what, g))


def _lean_str_list(xs):
    return "[" + ", ".join('"%s"' % x for x in xs) + "]"


def generate():
    items = []
    hpp = strip_comments(read(S + "traits.hpp"))
    # ---- varint_size expression -------------------------------------------------------------
    vb = _body(hpp, r"constexpr\s+size_t\s+varint_size\s*\(")
    m_clz = re.search(r"#define\s+BABYLON_TMP_CLZ\s+static_cast<uint32_t>\(__builtin_clzll\(value\s*\|\s*(0x[0-9a-fA-F]+|\d+)\)\)", vb)
    m_log = re.search(r"#define\s+BABYLON_TMP_LOG2\s+static_cast<uint32_t>\((\d+)\s*\^\s*BABYLON_TMP_CLZ\)", vb)
    m_ret = re.search(r"return\s*\(BABYLON_TMP_LOG2\s*\*\s*(\d+)\s*\+\s*(\d+)\)\s*/\s*(\d+)\s*;", vb)
    if not (m_clz and m_log and m_ret):
        raise ExtractError("varint_size: expression shape changed: %r" % vb[:300])
    items += [nat_def("vsOr", int(m_clz.group(1), 0)), nat_def("vsXor", int(m_log.group(1))),
              nat_def("vsMul", int(m_ret.group(1))), nat_def("vsAdd", int(m_ret.group(2))),
              nat_def("vsDiv", int(m_ret.group(3)))]
    # ---- tag computation ----------------------------------------------------------------------
    tb = _body(hpp, r"constexpr\s+uint32_t\s+make_tag\s*\(")
    m = re.search(r"return\s*\(field_number\s*<<\s*(\d+)\)\s*\|\s*SerializeTraits<T>::WIRE_TYPE\s*;", tb)
    if not m:
        raise ExtractError("make_tag: shape changed: %r" % tb)
    items.append(nat_def("tagShift", int(m.group(1))))
    agg = strip_comments(read(S + "aggregate.h"))
    agg = re.sub(r"[ \t]*\\\n[ \t]*", " ", agg)      # join macro continuation lines
    agg = re.sub(r"[ \t]+", " ", agg)
    m = re.search(r"switch\s*\(__babylon_tmp_tag\s*>>\s*(\d+)\)", agg)
    if not m:
        raise ExtractError("aggregate deserialize: `switch (tag >> n)` not found")
    items.append(nat_def("tagFieldShift", int(m.group(1))))
    # ---- deserialize_field / deserialize_packed_field ---------------------------------------
    raw_hpp = read(S + "traits.hpp")
    df_raw = function_body(raw_hpp, r"static\s+bool\s+deserialize_field\s*\(")
    m = re.search(r"#ifndef\s+NDEBUG(.*?)#endif", df_raw, re.S)
    dbg = False
    mask = 7
    if m:
        blk = strip_comments(m.group(1))
        mm = re.search(r"tag\s*&\s*(0x[0-9a-fA-F]+|\d+)", blk)
        if mm and re.search(r"wire_type\s*!=\s*SerializeTraits<T>::WIRE_TYPE", blk) and "return false" in blk:
            dbg = True
            mask = int(mm.group(1), 0)
    items.append("def debugWireTypeCheck : Bool := %s" % ("true" if dbg else "false"))
    items.append(nat_def("tagWireMask", mask))
    df_nd = strip_comments(re.sub(r"#ifndef\s+NDEBUG.*?#endif[^\n]*", "", df_raw, flags=re.S))
    if re.search(r"wire_type\s*!=", df_nd):
        raise ExtractError("deserialize_field: wire type is now checked in NDEBUG builds too")
    items.append("def ndebugWireTypeCheck : Bool := false")
    checked = []
    for name in ["deserialize_field", "deserialize_packed_field"]:
        b = _body(hpp, r"static\s+bool\s+" + name + r"\s*\(")
        if "PushLimit" not in b or "PopLimit" not in b:
            raise ExtractError(name + ": PushLimit/PopLimit missing")
        if re.search(r"PushLimit\(\s*is\.ReadVarint32\(&length\)\s*\?\s*static_cast<int>\(length\)\s*:\s*0\s*\)", b):
            checked.append(False)
        elif re.search(r"if\s*\([^{};]*!\s*is\.ReadVarint32\(&length\)[^{};]*\)\s*\{\s*return false;\s*\}", b) and \
                re.search(r"PushLimit\(\s*static_cast<int>\(length\)\s*\)", b):
            checked.append(True)
        else:
            raise ExtractError(name + ": cannot classify how the length prefix is read")
        if not re.search(r"auto\s+success\s*=\s*SerializeTraits<T>::deserialize\(is,\s*value\);\s*is\.PopLimit\(saved_limit\);\s*return success;", b):
            raise ExtractError(name + ": PopLimit no longer unconditionally follows the nested parse")
    if checked[0] != checked[1]:
        raise ExtractError("deserialize_field and deserialize_packed_field treat a failed length read differently")
    items.append("def lengthReadChecked : Bool := %s" % ("true" if checked[0] else "false"))
    # ---- serialize_field / size: empty member omitted; field cache --------------------------
    sf = _body(hpp, r"static\s+void\s+serialize_field\s*\(")
    if not re.search(r"if\s*\(size\s*==\s*0\)\s*\{\s*return;\s*\}", sf):
        raise ExtractError("serialize_field: `size == 0 -> omitted` rule not found")
    if not re.search(r"os\.WriteVarint32\(tag\);.*WIRETYPE_LENGTH_DELIMITED\)\s*\{\s*os\.WriteVarint32\(size\);\s*\}\s*SerializeTraits<T>::serialize\(value,\s*os\);", sf, re.S):
        raise ExtractError("serialize_field: tag / length / payload order changed")
    items.append("def emptyMemberOmitted : Bool := true")
    cf = _body(hpp, r"static\s+calculate_serialized_size_field\s*\(")
    i_cache = cf.find("field_cache = size")
    i_zero = re.search(r"if\s*\(size\s*==\s*0\)\s*\{\s*return 0;\s*\}", cf)
    if i_cache < 0 or not i_zero:
        raise ExtractError("calculate_serialized_size_field: shape changed")
    items.append("def fieldCacheWrittenBeforeZeroTest : Bool := %s" % ("true" if i_cache < i_zero.start() else "false"))
    if not re.search(r"WIRETYPE_LENGTH_DELIMITED\)\s*\{\s*size\s*\+=\s*varint_size\(size\);\s*\}\s*size\s*\+=\s*tag_size;", cf, re.S):
        raise ExtractError("calculate_serialized_size_field: length/tag size rule changed")
    pf = _body(hpp, r"static\s+void\s+serialize_packed_field\s*\(")
    if not re.search(r"WIRETYPE_LENGTH_DELIMITED\)\s*\{\s*auto size = SerializeTraits<T>::serialized_size_cached\(value\);\s*os\.WriteVarint32\(size\);\s*\}\s*SerializeTraits<T>::serialize\(value,\s*os\);", pf, re.S):
        raise ExtractError("serialize_packed_field: shape changed")
    # ---- aggregate macro rules ----------------------------------------------------------------
    m = re.search(r"\(\s*(\d+)\s*>\s*\(0([^;]*?)\)\)\s*,\s*::babylon::ZeroSized\s*,\s*uint32_t\s*>::type\s+__babylon_cached_serialized_size", agg, re.S)
    if not m:
        raise ExtractError("aggregate.h: whole-object cache rule not found")
    items.append(nat_def("aggWholeCacheThreshold", int(m.group(1))))
    items.append("def aggCountIncludesBase : Bool := %s" % ("true" if "COUNT_BASE" in m.group(2) else "false"))
    m = re.search(r"#define\s+__BABYLON_SERIALIZABLE_COUNT_FIELD\(r, data, field\)(.*?)(?=\n#define|\n////|\Z)", agg, re.S)
    if not m:
        raise ExtractError("aggregate.h: COUNT_FIELD not found")
    cnt = re.sub(r"[\s\\]+", "", m.group(1))
    mm = re.search(r"SERIALIZED_SIZE_COMPLEXITY_COMPLEX\?(\d+):\(.*?SERIALIZED_SIZE_COMPLEXITY_TRIVIAL\?(\d+):(\d+)\)\)", cnt)
    if not mm:
        raise ExtractError("aggregate.h: COUNT_FIELD weights not understood: %s" % cnt[:200])
    items += [nat_def("aggCountComplex", int(mm.group(1))), nat_def("aggCountTrivial", int(mm.group(2))),
              nat_def("aggCountSimple", int(mm.group(3)))]
    m = re.search(r"#define\s+__BABYLON_SERIALIZABLE_CACHED_SIZE_FIELD\(r, data, field\)(.*?)(?=\n#define|\n////|\Z)", agg, re.S)
    fc = re.sub(r"[\s\\]+", "", m.group(1)) if m else ""
    if not re.search(r"SERIALIZED_SIZE_COMPLEXITY_COMPLEX,uint32_t,::babylon::ZeroSized>::type", fc):
        raise ExtractError("aggregate.h: per-field cache rule changed")
    items.append("def fieldCacheOnlyForComplex : Bool := true")
    ad = re.search(r"bool deserialize\(::google::protobuf::io::CodedInputStream& is\) noexcept \{(.*?)return true;", agg, re.S)
    if not ad:
        raise ExtractError("aggregate.h: deserialize not found")
    adb = re.sub(r"[\s\\]+", " ", ad.group(1))
    if not re.search(r"while \( is\.GetDirectBufferPointer\(&__babylon_tmp_data, &__babylon_tmp_size\)\) \{", adb):
        raise ExtractError("aggregate.h: parse loop guard changed")
    if "auto __babylon_tmp_tag = is.ReadTag();" not in adb or "consume_unknown_field( __babylon_tmp_tag, is)" not in adb:
        raise ExtractError("aggregate.h: tag read / unknown field handling changed")
    items.append('def aggLoopGuard : String := "GetDirectBufferPointer"')
    # ---- containers ---------------------------------------------------------------------------
    vec = strip_comments(read(S + "vector.h"))
    v0 = _body(vec, r"static\s+bool\s+deserialize\s*\(", 0)
    v1 = _body(vec, r"static\s+bool\s+deserialize\s*\(", 1)
    items.append('def vectorLoopGuard : String := "%s"' % _guard(v0, "vector<T>"))
    items.append('def vectorBoolLoopGuard : String := "%s"' % _guard(v1, "vector<bool>"))
    if "reserve" in v0:
        unguarded = re.search(r"auto\s+num\s*=\s*static_cast<size_t>\(is\.BytesUntilLimit\(\)\)\s*/\s*sizeof\(T\);\s*value\.reserve\(", v0)
        guarded = re.search(r"if\s*\(\s*\w+\s*>\s*0\s*\)\s*\{\s*value\.reserve\(", v0)
        if not (unguarded or guarded):
            raise ExtractError("vector<T>::deserialize: reserve computation not understood")
        items.append("def vectorReserveGuarded : Bool := %s" % ("true" if guarded and not unguarded else "false"))
    else:
        items.append("def vectorReserveGuarded : Bool := true")
    items.append("def vectorClearsBeforeParse : Bool := %s" % ("true" if re.search(r"value\.clear\(\)", v0) else "false"))
    if not re.search(r"value\.emplace_back\(\);.*deserialize_packed_field\(\s*is,\s*value\.back\(\)\).*value\.pop_back\(\);\s*return false;", v0, re.S):
        raise ExtractError("vector<T>::deserialize: body changed")
    for fname, key in [("list.h", "list"), ("unordered_set.h", "set"), ("unordered_map.h", "map")]:
        t = strip_comments(read(S + fname))
        b = _body(t, r"static\s+bool\s+deserialize\s*\(")
        items.append('def %sLoopGuard : String := "%s"' % (key, _guard(b, key)))
        if key == "set" and not re.search(r"T result;.*deserialize_packed_field\(is,\s*result\).*value\.emplace\(::std::move\(result\)\);", b, re.S):
            raise ExtractError("unordered_set::deserialize: body changed")
        if key == "map" and not re.search(r"K k;.*deserialize_packed_field\(is,\s*k\).*V v;.*deserialize_packed_field\(is,\s*v\).*value\.emplace\(::std::move\(k\),\s*::std::move\(v\)\);", b, re.S):
            raise ExtractError("unordered_map::deserialize: body changed")
    st = strip_comments(read(S + "string.h"))
    sb = _body(st, r"static\s+bool\s+deserialize\s*\(")
    if not re.search(r"value\.clear\(\);\s*while\s*\(is\.GetDirectBufferPointer\(&data,\s*&size\)\)\s*\{\s*value\.append\(.*?\);\s*is\.Skip\(size\);\s*\}\s*return true;", sb, re.S):
        raise ExtractError("string::deserialize: body changed")
    items.append("def stringClearsBeforeParse : Bool := true")
    up = _body(strip_comments(read(S + "unique_ptr.h")), r"static\s+bool\s+deserialize\s*\(")
    if not re.search(r"if\s*\(is\.GetDirectBufferPointer\(&data,\s*&size\)\)\s*\{\s*if\s*\(!value\)\s*\{\s*value\.reset\(new MutableType\);\s*\}\s*return SerializeTraits<MutableType>::deserialize\(", up, re.S):
        raise ExtractError("unique_ptr::deserialize: body changed")
    items.append("def uniquePtrKeepsExisting : Bool := true")
    sp = _body(strip_comments(read(S + "shared_ptr.h")), r"static\s+bool\s+deserialize\s*\(")
    if not re.search(r"if\s*\(is\.GetDirectBufferPointer\(&data,\s*&size\)\)\s*\{\s*value\.reset\(new MutableType\);\s*return SerializeTraits<MutableType>::deserialize\(", sp, re.S):
        raise ExtractError("shared_ptr::deserialize: body changed")
    items.append("def sharedPtrAlwaysNew : Bool := true")
    arr = _body(strip_comments(read(S + "array.h")), r"static\s+bool\s+deserialize\s*\(")
    if not re.search(r"for\s*\(size_t i = 0; i < N; \+\+i\)\s*\{.*deserialize_packed_field\(is,\s*value\[i\]\)", arr, re.S):
        raise ExtractError("T[N]::deserialize: body changed")
    # ---- trait initialisers of every container header (SERIALIZABLE / SIZE_CACHED / SIZE_COMPLEXITY) -------------
    def trait_expr(fname, name, nth=0):
        t = strip_comments(read(S + fname))
        ms = list(re.finditer(r"static\s+constexpr\s+\w+\s+" + name + r"\s*=\s*(.*?);", t, re.S))
        if len(ms) <= nth:
            return "<default>"
        e = re.sub(r"\s+", "", ms[nth].group(1))
        e = e.replace("SerializeTraits<MutableType>::", "T.").replace("SerializeTraits<T>::", "T.")
        e = e.replace("SerializeTraits<K>::", "K.").replace("SerializeTraits<V>::", "V.")
        e = e.replace("SerializationHelper::SERIALIZED_SIZE_COMPLEXITY_", "")
        return e
    exprs = []
    for fname, key, nth in [("vector.h", "vector", 0), ("vector.h", "vectorBool", 1), ("list.h", "list", 0),
                            ("array.h", "array", 0), ("unordered_set.h", "set", 0), ("unordered_map.h", "map", 0),
                            ("unique_ptr.h", "uniquePtr", 0), ("shared_ptr.h", "sharedPtr", 0), ("string.h", "string", 0)]:
        for tr in ["SERIALIZABLE", "SERIALIZED_SIZE_CACHED", "SERIALIZED_SIZE_COMPLEXITY"]:
            exprs.append('("%s.%s", "%s")' % (key, tr, trait_expr(fname, tr, nth)))
    items.append("def traitExprs : List (String × String) := [\n  " + ",\n  ".join(exprs) + "]")
    pe = [trait_expr(f, "SERIALIZED_SIZE_COMPLEXITY") for f in ("unique_ptr.h", "shared_ptr.h")]
    if pe[0] != pe[1]:
        raise ExtractError("unique_ptr and shared_ptr declare different size complexities: %r" % (pe,))
    if pe[0] == "T.SERIALIZED_SIZE_COMPLEXITY":
        inherits = True
    elif pe[0] == "T.SERIALIZED_SIZE_COMPLEXITY==TRIVIAL?SIMPLE:T.SERIALIZED_SIZE_COMPLEXITY":
        inherits = False
    else:
        raise ExtractError("smart pointer SERIALIZED_SIZE_COMPLEXITY not understood: " + pe[0])
    items.append("def ptrInheritsTrivial : Bool := %s" % ("true" if inherits else "false"))
    # the TRIVIAL shortcut of calculate_serialized_size exists in vector.h and array.h only
    for fname, has in [("vector.h", True), ("array.h", True), ("list.h", False), ("unordered_set.h", False), ("unordered_map.h", False)]:
        t = strip_comments(read(S + fname))
        b = _body(t, r"static\s+size_t\s+calculate_serialized_size\s*\(")
        found = bool(re.search(r"SERIALIZED_SIZE_COMPLEXITY_TRIVIAL\)\s*\{[^}]*calculate_serialized_size_packed_field\(\s*value\[0\]\)", b, re.S))
        if found != has:
            raise ExtractError("%s: TRIVIAL size shortcut %s" % (fname, "disappeared" if has else "appeared"))
    items.append('def trivialShortcutIn : List String := ["vector", "array"]')
    tc = strip_comments(read(S + "traits.hpp"))
    if not re.search(r"if\s+CONSTEXPR_SINCE_CXX17\s*\(SerializeTraits<T>::SERIALIZED_SIZE_CACHED\)\s*\{\s*SerializeTraits<T>::calculate_serialized_size\(value\);\s*\}\s*return serialize_to_coded_stream_with_cached_size", tc, re.S):
        raise ExtractError("serialize_to_coded_stream: `SERIALIZED_SIZE_CACHED => calculate first` rule changed")
    items.append("def calculateFirstIffSizeCached : Bool := true")
    # ---- scalar kinds: 32 vs 64 bit varint I/O ---------------------------------------------
    sc = strip_comments(read(S + "scalar.h"))
    groups = re.findall(r"#define\s+BABYLON_TMP_GEN\(type\)(.*?)#undef\s+BABYLON_TMP_GEN", sc, re.S)
    if len(groups) != 2:
        raise ExtractError("scalar.h: expected two BABYLON_TMP_GEN groups, found %d" % len(groups))
    def io_widths(body, what, tname):
        """(write, read, size) varint widths and the read-back cast of one scalar traits body"""
        mw = re.search(r"os\.WriteVarint(32|64)\(static_cast<uint(32|64)_t>\(value\)\)", body)
        mr = re.search(r"uint(32|64)_t\s+uvalue;.*?is\.ReadVarint(32|64)\(&uvalue\).*?value\s*=\s*([^;]+);", body, re.S)
        ms = re.search(r"VarintSize(32|64)\(static_cast<uint(32|64)_t>\(value\)\)", body)
        if not (mw and mr and ms) or mw.group(1) != mw.group(2) or mr.group(1) != mr.group(2) or ms.group(1) != ms.group(2):
            raise ExtractError("scalar.h: %s traits not understood" % what)
        cast = re.sub(r"\s+", "", mr.group(3)).replace("static_cast<%s>" % tname, "static_cast<T>")
        return int(mw.group(1)), int(mr.group(1)), int(ms.group(1)), cast
    kinds, io = {}, []
    for g in groups:
        w, r, z, cast = io_widths(g, "integer macro", "type")
        if not (w == r == z):
            raise ExtractError("scalar.h: an integer macro group writes %d-bit, reads %d-bit, sizes %d-bit varints" % (w, r, z))
        names = re.findall(r"BABYLON_TMP_GEN\((\w+)\);", g)
        kinds[str(w)] = names
        for nme in names:
            io.append((nme, w, r, z, cast))
    if sorted(kinds) != ["32", "64"]:
        raise ExtractError("scalar.h: expected one 32-bit and one 64-bit macro group")
    items.append("def varint32Kinds : List String := " + _lean_str_list(kinds["32"]))
    items.append("def varint64Kinds : List String := " + _lean_str_list(kinds["64"]))
    en = sc[sc.find("is_enum<T>"):]
    ew, er, ez, ecast = io_widths(en, "enum", "T")
    io.append(("enum", ew, er, ez, ecast))
    items.append(nat_def("enumVarintBits", ew))
    items.append(nat_def("enumReadBits", er))
    items.append(nat_def("enumSizeBits", ez))
    items.append("def scalarIO : List (String × Nat × Nat × Nat × String) := [" + ", ".join(
        '("%s", %d, %d, %d, "%s")' % x for x in io) + "]")
    if not ("WriteLittleEndian32(WireFormatLite::EncodeFloat(value))" in sc and "ReadLittleEndian32(&uvalue)" in sc
            and "WriteLittleEndian64(WireFormatLite::EncodeDouble(value))" in sc and "ReadLittleEndian64(&uvalue)" in sc):
        raise ExtractError("scalar.h: float/double traits changed")
    # ---- consume_unknown_field ----------------------------------------------------------------
    cpp = strip_comments(read(S + "traits.cpp"))
    cu = _body(cpp, r"bool\s+SerializationHelper::consume_unknown_field\s*\(")
    m = re.search(r"switch\s*\(tag\s*&\s*(0x[0-9a-fA-F]+|\d+)\)\s*\{(.*)\}\s*return true;", cu, re.S)
    if not m:
        raise ExtractError("consume_unknown_field: switch not found")
    if int(m.group(1), 0) != mask and dbg:
        raise ExtractError("consume_unknown_field and deserialize_field use different wire-type masks")
    cases = []
    for cm in re.finditer(r"case\s+WireFormatLite::(\w+)\s*:(.*?)break;", m.group(2), re.S):
        acts = []
        for am in re.finditer(r"is\.(ReadVarint64)\(&varint\)|is\.(Skip)\((\w+)\)", cm.group(2)):
            acts.append("varint64" if am.group(1) else "skip " + am.group(3))
        cases.append((cm.group(1), ";".join(acts)))
    if not re.search(r"default\s*:\s*return false;", m.group(2)):
        raise ExtractError("consume_unknown_field: default case no longer fails")
    # ---- compiled probes ---------------------------------------------------------------------
    K = {  # kind name -> C++ type
        "bool": "bool", "i8": "int8_t", "i16": "int16_t", "i32": "int32_t", "i64": "int64_t",
        "u8": "uint8_t", "u16": "uint16_t", "u32": "uint32_t", "u64": "uint64_t",
        "enum": "ProbeEnum", "f32": "float", "f64": "double", "str": "::std::string",
        "vec": "::std::vector<int32_t>", "vecf32": "::std::vector<float>", "vecstr": "::std::vector<::std::string>",
        "arr": "ArrI3", "arrf64": "ArrD2", "list": "::std::list<int32_t>", "set": "::std::unordered_set<int32_t>",
        "map": "::std::unordered_map<int32_t, int32_t>", "uptrI": "::std::unique_ptr<int32_t>", "uptrF": "::std::unique_ptr<float>",
        "uptrS": "::std::unique_ptr<::std::string>", "sptrI": "::std::shared_ptr<int64_t>", "sptrD": "::std::shared_ptr<double>",
        "sptrS": "::std::shared_ptr<::std::string>", "agg": "ProbeAgg", "aggTrivial": "ProbeTrivial",
    }
    TR = {   # sample types for SERIALIZED_SIZE_CACHED / SERIALIZED_SIZE_COMPLEXITY (Lean side: Properties.C11.traitSamples)
        "f32": "float", "i32": "int32_t", "str": "::std::string", "vecf32": "::std::vector<float>",
        "veci32": "::std::vector<int32_t>", "vecbool": "::std::vector<bool>", "listf32": "::std::list<float>",
        "listi32": "::std::list<int32_t>", "seti32": "::std::unordered_set<int32_t>", "arri32": "ArrI3", "arrf64": "ArrD2",
        "map_i32_i32": "::std::unordered_map<int32_t, int32_t>", "uptrf32": "::std::unique_ptr<float>",
        "sptrf64": "::std::shared_ptr<double>", "uptri32": "::std::unique_ptr<int32_t>", "sptrstr": "::std::shared_ptr<::std::string>",
        "small": "ProbeAgg", "trivial": "ProbeTrivial", "cx": "ProbeCx", "many": "ProbeMany", "nine": "ProbeNine",
        "outer": "ProbeOuter", "ptrtrivial": "ProbePtrTrivial", "basecx": "ProbeBaseCx", "uptr_trivial": "::std::unique_ptr<ProbeTrivial>",
        "vec_cx": "::std::vector<ProbeCx>", "vec_small": "::std::vector<ProbeAgg>", "vec_trivial": "::std::vector<ProbeTrivial>",
        "list_cx": "::std::list<ProbeCx>", "set_cx": "::std::unordered_set<ProbeCx>", "arr_cx": "ArrCx2", "uptr_cx": "::std::unique_ptr<ProbeCx>",
        "sptr_many": "::std::shared_ptr<ProbeMany>", "map_str_cx": "::std::unordered_map<::std::string, ProbeCx>",
        "map_cx_i32": "::std::unordered_map<ProbeCx, int32_t>", "map_cx_many": "::std::unordered_map<ProbeCx, ProbeMany>",
        "map_str_small": "::std::unordered_map<::std::string, ProbeAgg>", "map_i32_vec": "::std::unordered_map<int32_t, ::std::vector<int32_t>>",
        "map_str_uptrcx": "::std::unordered_map<::std::string, ::std::unique_ptr<ProbeCx>>", "vec_map_str_cx": "::std::vector<::std::unordered_map<::std::string, ProbeCx>>",
    }
    prologue = """
#include <list>
#include <unordered_map>
#include <unordered_set>
enum class ProbeEnum : int32_t { A, B };
using ArrI3 = int32_t[3];
using ArrD2 = double[2];
struct ProbeAgg { int32_t a; ::std::string s; BABYLON_SERIALIZABLE((a, 1)(s, 2)); };
struct ProbeTrivial { float a; double b; BABYLON_SERIALIZABLE((a, 1)(b, 2)); };
struct ProbeCx { int32_t a; ::std::vector<int32_t> v; BABYLON_SERIALIZABLE((a, 1)(v, 2)); };
struct ProbeMany { int32_t a, b, c, d, e, f, g, h, i, j; BABYLON_SERIALIZABLE((a, 1)(b, 2)(c, 3)(d, 4)(e, 5)(f, 6)(g, 7)(h, 8)(i, 9)(j, 10)); };
struct ProbeNine { int32_t a, b, c, d, e, f, g, h, i; BABYLON_SERIALIZABLE((a, 1)(b, 2)(c, 3)(d, 4)(e, 5)(f, 6)(g, 7)(h, 8)(i, 9)); };
struct ProbeOuter { ProbeCx inner; BABYLON_SERIALIZABLE((inner, 1)); };
struct ProbePtrTrivial { ::std::unique_ptr<float> p; BABYLON_SERIALIZABLE((p, 1)); };
struct ProbeBaseCx : public ::std::vector<int32_t> { int32_t a; BABYLON_SERIALIZABLE_WITH_BASE((::std::vector<int32_t>, 1), (a, 2)); };
using ArrCx2 = ProbeCx[2];
using H = ::babylon::SerializationHelper;
using W = ::google::protobuf::internal::WireFormatLite;
using O = ::google::protobuf::io::CodedOutputStream;
"""
    ex = {}
    for k, t in K.items():
        ex["wt_" + k] = "::babylon::SerializeTraits<%s>::WIRE_TYPE" % t
        ex["cx_" + k] = "::babylon::SerializeTraits<%s>::SERIALIZED_SIZE_COMPLEXITY" % t
    for k, t in TR.items():
        ex["tc_" + k] = "::babylon::SerializeTraits<%s>::SERIALIZED_SIZE_CACHED" % t
        ex["tx_" + k] = "::babylon::SerializeTraits<%s>::SERIALIZED_SIZE_COMPLEXITY" % t
    for name in ["WIRETYPE_VARINT", "WIRETYPE_FIXED64", "WIRETYPE_LENGTH_DELIMITED", "WIRETYPE_FIXED32"]:
        ex["c_" + name] = "W::" + name
    ex["cx_COMPLEX"] = "H::SERIALIZED_SIZE_COMPLEXITY_COMPLEX"
    ex["cx_SIMPLE"] = "H::SERIALIZED_SIZE_COMPLEXITY_SIMPLE"
    ex["cx_TRIVIAL"] = "H::SERIALIZED_SIZE_COMPLEXITY_TRIVIAL"
    for k in range(64):
        ex["vs_p%d" % k] = "H::varint_size(1ull << %d)" % k
        ex["vs_m%d" % k] = "H::varint_size((1ull << %d) - 1)" % k
        ex["pb64_p%d" % k] = "O::VarintSize64(1ull << %d)" % k
        ex["pb64_m%d" % k] = "O::VarintSize64((1ull << %d) - 1)" % k
    for k in range(32):
        ex["pb32_p%d" % k] = "O::VarintSize32(1u << %d)" % k
        ex["pb32_m%d" % k] = "O::VarintSize32((1u << %d) - 1)" % k
    ex["vs_max"] = "H::varint_size(~0ull)"
    ex["pb64_max"] = "O::VarintSize64(~0ull)"
    ex["pb32_max"] = "O::VarintSize32(~0u)"
    ex["tag_agg_5"] = "H::make_tag<ProbeAgg>(5)"
    ex["tag_i32_5"] = "H::make_tag<int32_t>(5)"
    ex["tag_f32_300"] = "H::make_tag<float>(300)"
    ex["tag_f64_1"] = "H::make_tag<double>(1)"
    c = probe(["babylon/serialization.h"], ex, prologue=prologue)
    wt = {"WIRETYPE_VARINT": "wtVarint", "WIRETYPE_FIXED64": "wtFixed64", "WIRETYPE_LENGTH_DELIMITED": "wtLenDelim",
          "WIRETYPE_FIXED32": "wtFixed32"}
    for k, n in wt.items():
        items.append(nat_def(n, c["c_" + k]))
    items += [nat_def("cxComplex", c["cx_COMPLEX"]), nat_def("cxSimple", c["cx_SIMPLE"]), nat_def("cxTrivial", c["cx_TRIVIAL"])]
    items.append("def wireTypes : List (String × Nat) := [" + ", ".join('("%s", %d)' % (k, c["wt_" + k]) for k in K) + "]")
    items.append("def complexities : List (String × Nat) := [" + ", ".join('("%s", %d)' % (k, c["cx_" + k]) for k in K) + "]")
    items.append("def probedTraits : List (String × Nat × Bool) := [" + ", ".join(
        '("%s", %d, %s)' % (k, c["tx_" + k], "true" if c["tc_" + k] else "false") for k in TR) + "]")
    items.append("def varintSizeAtPow2 : List Nat := [" + ", ".join(str(c["vs_p%d" % k]) for k in range(64)) + "]")
    items.append("def varintSizeBelowPow2 : List Nat := [" + ", ".join(str(c["vs_m%d" % k]) for k in range(64)) + ", %d]" % c["vs_max"])
    items.append("def pbVarintSize64AtPow2 : List Nat := [" + ", ".join(str(c["pb64_p%d" % k]) for k in range(64)) + "]")
    items.append("def pbVarintSize64BelowPow2 : List Nat := [" + ", ".join(str(c["pb64_m%d" % k]) for k in range(64)) + ", %d]" % c["pb64_max"])
    items.append("def pbVarintSize32AtPow2 : List Nat := [" + ", ".join(str(c["pb32_p%d" % k]) for k in range(32)) + "]")
    items.append("def pbVarintSize32BelowPow2 : List Nat := [" + ", ".join(str(c["pb32_m%d" % k]) for k in range(32)) + ", %d]" % c["pb32_max"])
    items.append("def probedTags : List (String × Nat × Nat) := [" + ", ".join(
        '("%s", %d, %d)' % (k, n, c["tag_%s_%d" % (k, n)]) for k, n in [("agg", 5), ("i32", 5), ("f32", 300), ("f64", 1)]) + "]")
    items.append("def unknownFieldCases : List (Nat × String) := [" + ", ".join(
        '(%d, "%s")' % (c["c_" + name], act) for name, act in cases) + "]")
    emit("Wire", items, opens=(), imports=())
