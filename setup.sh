#!/bin/sh
# Offline setup after a fresh restore: regenerate the translator output, build every Lean module
# (re-checks every theorem) and every driver executable, and warm the C++ object cache.
# Every check rebuilds what it needs again (incrementally) from /repo's current working tree, so a
# property whose modules do not build here is reported by its own check, not hidden: this script
# keeps going and prints a summary.
cd "$(dirname "$0")"
mkdir -p build evidence
python3 tools/gen_all.py || echo "setup: translator reported an error (the affected check will report it)"
cd lean
# one big build first (maximum parallelism); the per-property loop below then only re-checks / finishes
lake build Babylon $(sed -n 's/^name = "\(drv_C[0-9]*\)"/\1/p' lakefile.toml) > ../build/setup-all.log 2>&1 || echo "setup: full library build reported errors (see build/setup-all.log); building per property"
FAILED=""
for p in $(sed -n 's/^name = "drv_\(C[0-9]*\)"/\1/p' lakefile.toml); do
  lake build Babylon.Properties.$p drv_$p > ../build/setup-$p.log 2>&1 || FAILED="$FAILED $p"
done
cd ..
python3 tools/warm.py > build/setup-warm.log 2>&1 || true
if [ -n "$FAILED" ]; then echo "setup: Lean targets with errors:$FAILED"; else echo "setup: all Lean targets built"; fi
exit 0
