#!/bin/sh
# Offline setup after a fresh restore: build every Lean module (re-checks every theorem), the
# driver executables, and warm the C++ object cache.  Everything is rebuilt again, incrementally,
# by each check from /repo's current working tree.
set -e
cd "$(dirname "$0")"
python3 tools/gen_all.py
( cd lean && lake build && lake build $(sed -n 's/^name = "\(drv_[A-Za-z0-9_]*\)"/\1/p' lakefile.toml) )
python3 tools/warm.py || true
