"""C14 — id allocator / deposit box: live ids unique, one taker wins, stale ids never match.

proof:          lean/Babylon/Properties/C14.lean over the atomic-granularity models Babylon/IdAlloc/Model.lean
                (IdAllocator) and Babylon/IdAlloc/Box.lean (DepositBox on top of the allocator model)
translator:     gen/idalloc.py (sentinels, version bumps, atomic skeletons with memory orders)
correspondence: E-CONC — harness/c14.cpp runs the real IdAllocator<uint16_t|uint32_t>, DepositBox and
                ThreadId under VRT (deterministic schedules, spurious weak-CAS failures); every
                atomic-level trace of the allocator modes (stepThread) AND of the deposit-box mode (bstep /
                callEmplace / callTake / callFinish: allocator head/next/nv words + the version word of
                every slot + call/ret events with ids and items) is replayed in lock-step by
                lean/Drivers/C14.lean; the harness evaluates the ownership / single-taker / stale-id /
                wrong-item / for_each / reuse oracles itself.  ThreadId runs are oracle only.
                view mode:  the same harness modes under VRT_MEM=view (stale loads allowed by release/acquire), oracle only.
                wrap replay: harness/c14_wrap.cpp replays the schedule of theorem ida_wrap_counterexample on
                the real IdAllocator<uint16_t> (one allocate stalled before its CAS while id 0 is recycled
                65536 times; control run with 65535) — DESIGN section 7 #7; reproduces, recorded as known finding
                key oracle:wrap16:dup (printed as KNOWN-FINDING on every run).
"""
from vlib.core import *

SRCS = ["harness/c14.cpp"]
WRAP_SRCS = ["harness/c14_wrap.cpp"]
REPO_CPP = ["babylon/concurrent/*.cpp"]
LEAN_MODULES = ["Babylon.IdAlloc.Model", "Babylon.IdAlloc.Box", "Babylon.IdAlloc.Pinned", "Babylon.IdAlloc.View", "Babylon.IdAlloc.Sched", "Babylon.IdAlloc.BoxSched",
                "Babylon.IdAlloc.Lemmas", "Babylon.IdAlloc.LemmasUse", "Babylon.IdAlloc.BoxLemmas", "Babylon.Properties.C14"]


def warm():
    build_vrt_exe("c14", SRCS, repo_cpp=REPO_CPP)
    build_vrt_exe("c14wrap", WRAP_SRCS, repo_cpp=REPO_CPP)


def run(ctx):
    ctx.cov["trusted_base"] += [
        "vrt/vrt.cpp (TSan-ABI interposition, deterministic scheduler, futex/mutex emulation) and the TSan-instrumented build (differs from production in the places listed in DESIGN 3.3)",
        "theorems and lock-step replay are over sequentially consistent interleavings at atomic-operation granularity; memory orders are tied statically (generated skeleton obligations) and dynamically by trace equality; weak-memory behaviours are covered by an oracle-only pass under VRT's release/acquire view model (VRT_MEM=view), not by theorem",
        "NoWrap: fewer than 2^W pushes complete while one allocate is between its head load and its CAS (hypothesis of ida_unique; necessary: theorem ida_wrap_counterexample for W=2, and the W=16 schedule is replayed on the real IdAllocator<uint16_t> in the thorough tier); for the deposit box: fewer than 2^32-1 slot recycles in total (hypothesis BGood of box_single_taker / box_stale_never_matches)",
        "Cap: at most 2^W-2 ids are minted (ids stay below ACTIVE_FLAG / FREE_LIST_TAIL; the model's next_value is an unbounded natural number)",
    ]
    ctx.assumptions += ["NoWrap (see trusted_base)", "Cap (see trusted_base)"]
    ctx.gen(["idalloc"])
    ctx.lake_build(["Babylon.Properties.C14"])
    ctx.audit("Babylon.Properties.C14")
    if not ctx.quick:
        ctx.leanchecker(LEAN_MODULES)
    drv = ctx.driver("drv_C14")
    exe, log = build_vrt_exe("c14", SRCS, repo_cpp=REPO_CPP)
    if exe is None:
        ctx.broke("correspondence", "harness/c14.cpp does not build against /repo", log[-800:])
        return
    n = 400 if ctx.quick else 6000
    nbig = 3 if ctx.quick else 16
    # a proof / generated obligation that no longer checks ENLARGES the search for a concrete failing input
    enlarged = bool(ctx.broken)
    if enlarged:
        n *= 5
        nbig *= 3
    seed0 = ctx.seed * 1000003
    dist = {"modes": {}, "verdicts": {}, "replay_ok": 0, "replay_diverge": 0, "oracle": 0, "cas_fail_lines": 0, "max_trace": 0}
    distinct = set()
    samples = []
    view = {"VRT_MEM": "view"}
    plan = [("alloc32", n, True, {}), ("alloc16", n, True, {}), ("alloc32", n // 2, True, {"VRT_STRATEGY": "pct"}),
            ("box", n // 2, True, {}), ("box", n // 4, True, {"VRT_STRATEGY": "pct"}), ("threadid", n // 4, False, {}),
            # tight emplace/take/finish cycles on few slots: allocate()'s CAS retries while another thread completes a
            # whole round of the slot; stale ids of earlier rounds of the same slot retried after every emplace
            ("boxhot", n // 2, True, {}), ("boxhot", n // 4, True, {"VRT_STRATEGY": "pct"}),
            # IdAllocator<uint16_t> with more than 65408 ids (top of the documented range): for_each / end / reuse
            ("big16", nbig, False, {}),
            # glue around the modelled core: Accessor API of the box, leaky flavour of the per-thread ids (oracle only)
            ("boxacc", n // 4, False, {}), ("leakyid", n // 4, False, {}),
            # weak-memory pass (release/acquire view model, stale loads): oracle only, traces are not SC paths
            ("alloc32", n // 4, False, view), ("alloc16", n // 4, False, view), ("box", n // 4, False, view),
            ("threadid", n // 8, False, view)]
    ncorr = 0
    per_key = {}
    for mode, cnt, lockstep, env in plan:
        runs = ctx.econc(exe, drv if lockstep else None, [mode], seed0, cnt, env=env, **({"chunk": 1} if mode == "big16" else {}))
        tag = mode + ("/pct" if "VRT_STRATEGY" in env else "") + ("/view" if "VRT_MEM" in env else "")
        dist["modes"][tag] = len(runs)
        for r in runs:
            if "VRT_MEM" in env:
                for l in r["lines"]:
                    if " ev stats " in l and " stale " in l:
                        dist["view_stale_reads"] = dist.get("view_stale_reads", 0) + int(l.split()[-1])
            dist["verdicts"][r["verdict"]] = dist["verdicts"].get(r["verdict"], 0) + 1
            dist["max_trace"] = max(dist["max_trace"], len(r["lines"]))
            ncasfail = sum(1 for l in r["lines"] if " casw " in l and l.split()[-2] == "0")
            # deposit box: a taker that lost (failed strong CAS on a slot's version word: raced or stale id)
            ntakefail = sum(1 for l in r["lines"] if " cas ver" in l and l.split()[-2] == "0")
            dist["cas_fail_lines"] += ncasfail
            dist["take_fail_lines"] = dist.get("take_fail_lines", 0) + ntakefail
            if ncasfail > 0 or ntakefail > 0 or mode in ("threadid", "leakyid", "boxacc", "big16") or "VRT_MEM" in env:
                distinct.add(sha("\n".join(l for l in r["lines"] if " ev stats" not in l)))
            text = "mode=%s seed=%d env=%s\n%s" % (mode, r["seed"], env, "\n".join(r["lines"][-400:]))
            # every run is examined for oracle failures, however many obligations / correspondences are already
            # broken: a concrete failing input is what the search is for (at most 3 replays are kept per key)
            key = None
            if r["oracle"]:
                dist["oracle"] += 1
                kind = r["oracle"][0].split("ORACLE", 1)[1].split()[0]
                key = "oracle:%s:%s" % (mode + ("-view" if "VRT_MEM" in env else ""), kind)
            elif r["verdict"] != "ok":
                key = "verdict:%s:%s" % (mode + ("-view" if "VRT_MEM" in env else ""), r["verdict"].split()[0])
                text += "\n" + r.get("stderr", "")
            elif lockstep:
                if r["replay"] and r["replay"].startswith("ok"):
                    dist["replay_ok"] += 1
                else:
                    dist["replay_diverge"] += 1
                    ncorr += 1
                    if ncorr <= 8:
                        ctx.broke("correspondence", "E-CONC lock-step c14 mode=%s seed=%d" % (mode, r["seed"]), "%s\n%s" % (r["replay"], text))
            if key is not None:
                per_key[key] = per_key.get(key, 0) + 1
                if per_key[key] <= 3:
                    ctx.failing_input(key, text)
            if len(samples) < 1 and mode == "alloc32" and len(r["lines"]) > 60:
                samples.append(r["lines"][:60])
    dist["failing_by_key"] = per_key
    dist["search_enlarged"] = enlarged
    wrap_replay(ctx, dist)
    ctx.cov["distribution"] = dist
    ctx.cov["distinct_nontrivial"] = len(distinct)
    ctx.cov["traces_validated_against_impl"] = dist["replay_ok"]
    ctx.cov["rule"] = ("one case = one seeded program (sequential prefix, then 2-4 threads x 2-8 allocate/deallocate calls; deposit box: fresh box, sequential "
                       "prefix of 0-4 emplace/take/finish rounds, then 2-4 threads x 3-8 operations among emplace, take of a published id (newest untaken id so "
                       "that takers race, already-taken ids, stale ids whose slot was reused) and finish, replayed in lock-step against the box model; thread ids: 2-4 waves of 1-4 threads) under one seeded schedule (random with 5 stickiness "
                       "levels, or PCT; a quarter as many again under the release/acquire view memory, oracle only) with spurious weak-CAS failures 1/8; non-trivial = the trace contains at least one failed CAS on the free-list head "
                       "(threads actually interfered; boxhot = 3-4 threads x 4-9 emplace/stale-take/take/finish cycles; boxacc = Accessor API incl. self move-assignment and vector compaction; big16 = 65409..65534 ids on a 16-bit allocator) or, for box runs, also a failed strong CAS on a slot version word (a taker lost), or is a threadid run; "
                       "distinct by trace hash")
    ctx.cov["samples"] = samples or [["<no sample>"]]


def wrap_replay(ctx, dist):
    """DESIGN section 7 #7: W=16 version wrap on the real IdAllocator<uint16_t> (directed schedule through
    vrt_set_picker).  65535 recycles: the stalled CAS must fail and nothing breaks; 65536 recycles: if the real
    code hands out id 1 twice this is a failing input of the property (outside the NoWrap hypothesis)."""
    exe, log = build_vrt_exe("c14wrap", WRAP_SRCS, repo_cpp=REPO_CPP)
    if exe is None:
        ctx.broke("correspondence", "harness/c14_wrap.cpp does not build against /repo", log[-800:])
        return
    out = {}
    for rec in (65535, 65536):
        r = subprocess.run([str(exe), str(rec)], capture_output=True, text=True, timeout=600)
        lines = r.stdout.splitlines()
        ctx.cov["evaluations"] += 1
        oracle = [l for l in lines if " ev ORACLE" in l]
        stalled = any("B stalled before its CAS" in l for l in lines)
        out[rec] = {"oracle": len(oracle), "stalled": stalled, "rc": r.returncode, "tail": lines[-14:]}
        text = "mode=wrap16 recycles=%d\n%s" % (rec, "\n".join(lines[-40:]))
        if r.returncode != 0 or not stalled or not any(l.strip() == "END" for l in lines):
            ctx.broke("correspondence", "c14_wrap directed schedule did not run as intended (recycles=%d rc=%s)" % (rec, r.returncode), text + r.stderr[-400:])
        elif oracle and rec == 65535:
            ctx.failing_input("oracle:wrap16-control:dup", text)
        elif oracle:
            ctx.failing_input("oracle:wrap16:dup", text)
    dist["wrap16"] = out
    ctx.notes.append("wrap16 replay on the real IdAllocator<uint16_t>: 65535 recycles -> %d oracle failures, 65536 recycles -> %d" % (
        out.get(65535, {}).get("oracle", -1), out.get(65536, {}).get("oracle", -1)))


def replay(ctx, path):
    txt = Path(path).read_text()
    mw = re.search(r"mode=wrap16 recycles=(\d+)", txt)
    if mw:
        exe, log = build_vrt_exe("c14wrap", WRAP_SRCS, repo_cpp=REPO_CPP)
        r = subprocess.run([str(exe), mw.group(1)], capture_output=True, text=True, timeout=600)
        print("\n".join(r.stdout.splitlines()[-40:]))
        return 1 if " ev ORACLE" in r.stdout else 0
    m = re.search(r"mode=(\S+) seed=(\d+) env=(\{.*\})", txt)
    mode, seed, env = m.group(1), int(m.group(2)), eval(m.group(3))
    exe, log = build_vrt_exe("c14", SRCS, repo_cpp=REPO_CPP)
    drv = ctx.driver("drv_C14")
    runs = ctx.econc(exe, drv if ((mode.startswith("alloc") or mode in ("box", "boxhot")) and "VRT_MEM" not in env) else None, [mode], seed, 1, env=env)
    r = runs[0]
    print("\n".join(r["lines"]))
    print("verdict:", r["verdict"], "replay:", r["replay"], "oracle:", r["oracle"])
    return 1 if (r["oracle"] or r["verdict"] != "ok" or (r["replay"] and not r["replay"].startswith("ok"))) else 0


MANIFEST = {
    "technique": "Lean 4 proof (invariant over all interleavings of an atomic-granularity transition system) + translator-generated skeleton/order obligations + lock-step replay of real executions under a deterministic scheduler",
    "text": "Theorems in lean/Babylon/Properties/C14.lean hold for every interleaving, thread count and call history of the model; each model step is one atomic operation of the real code, and every trace of the real IdAllocator and of the real DepositBox produced under VRT is checked to be a path of the model (same operation, location, memory order, values)",
    "note": "Trusted: Lean kernel + 3 standard axioms; gen/idalloc.py; vrt/ (scheduler, TSan-ABI build); SC interleavings only (orders tied statically); hypotheses NoWrap (necessary: ida_wrap_counterexample; the 16-bit wrap is reproduced on the real IdAllocator<uint16_t> in the thorough tier) and Cap",
}
