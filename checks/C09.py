"""C09 — Epoch: nothing becomes reclaimable while a reader that may see it is in a region.

proof:          lean/Babylon/Properties/C09.lean over the atomic-granularity model Babylon/Epoch/Model.lean,
                stated over the release/acquire VIEW memory model Babylon/Core/MemView.lean (stale reads,
                SC fences through a global view) — the property is a store-buffering (Dekker) pattern
translator:     gen/epoch.py (memory orders of lock / unlock / tick / low_water_mark, the tick branch the
                preprocessor selects and the one it does not, nesting / bound / minimum structure, skeletons)
correspondence: E-CONC — harness/c09.cpp runs the real Epoch (Accessor and thread-local style, nesting <= 3,
                a locked Accessor handed over between threads, accessor creation racing with the scan,
                1 writer, 1 reclaimer) under VRT; every atomic-level trace is replayed in lock-step by
                lean/Drivers/C09.lean on the model restricted to "read the latest message", the model's view
                bookkeeping decides the hand-over / reclaim contracts; oracle on the real code: dereference of
                a freed cell, slot still published after unlock, low_water_mark != MAX at quiescence; the same
                programs also run under VRT_MEM=view (stale reads per the view model) as an oracle-only pass.
"""
from vlib.core import *

SRCS = ["harness/c09.cpp"]
REPO_CPP = ["babylon/concurrent/*.cpp"]
CORPUS = VERIF / "corpus" / "C09"


def warm():
    build_vrt_exe("c09", SRCS, repo_cpp=REPO_CPP)


def _nontrivial(lines):
    """a run is non-trivial when the mechanism was exercised: some low_water_mark was held back by an open
    region, or an accessor changed threads, or an accessor creation / thread-id allocation overlapped a scan"""
    kinds = set()
    in_create = {}
    in_scan = {}
    in_release = {}
    in_tick = {}
    for l in lines:
        w = l.split()
        if len(w) < 3:
            continue
        t = w[0]
        if w[1] == "ev":
            if w[2] == "ret" and w[3] == "lwm" and w[4] != "18446744073709551615":
                kinds.add("held")
            elif w[2] == "move":
                kinds.add("move")
            elif w[2] == "call" and w[3] in ("create", "tlsinit"):
                in_create[t] = True
                if any(in_scan.values()):
                    kinds.add("create-vs-scan")
            elif w[2] == "ret" and w[3] in ("create", "tlsinit"):
                in_create[t] = False
            elif w[2] == "call" and w[3] == "lwm":
                in_scan[t] = True
                if any(in_create.values()):
                    kinds.add("create-vs-scan")
            elif w[2] == "ret" and w[3] == "lwm":
                in_scan[t] = False
            elif w[2] == "call" and w[3] == "tick":
                if any(in_tick.values()):
                    kinds.add("concurrent-ticks")
                in_tick[t] = True
            elif w[2] == "ret" and w[3] == "tick":
                in_tick[t] = False
            elif w[2] == "call" and w[3] == "release":
                in_release[t] = True
            elif w[2] == "ret" and w[3] == "release":
                in_release[t] = False
        elif w[1] == "cas" and w[2] == "tbl":
            kinds.add("table-growth")
        elif w[1] == "st" and w[2].startswith("slot") and in_release.get(t):
            kinds.add("release-in-region")
    return kinds


def _canon(lines):
    """trace text without addresses (block table pointers) and statistics, for distinctness"""
    out = []
    for l in lines:
        if " ev stats" in l:
            continue
        w = l.split()
        if len(w) >= 3 and w[2] == "tbl":
            l = " ".join(w[:4] + w[-2:-1]) if w[1] == "cas" else " ".join(w[:4])
        out.append(l)
    return "\n".join(out)


def _classify(ctx, mode, env, runs, lockstep, dist, distinct, samples):
    for r in runs:
        dist["verdicts"][r["verdict"]] = dist["verdicts"].get(r["verdict"], 0) + 1
        dist["max_trace"] = max(dist["max_trace"], len(r["lines"]))
        kinds = _nontrivial(r["lines"])
        if mode == "big":
            kinds.add("many-accessors")
        for l in r["lines"][-3:]:
            m = re.search(r" ev stats .* stale (\d+)", l)
            if m:
                dist["stale_reads"] += int(m.group(1))
        for k in kinds:
            dist["mechanism"][k] = dist["mechanism"].get(k, 0) + 1
        if kinds:
            distinct.add(sha(_canon(r["lines"])))
        text = "mode=%s seed=%d env=%s\n%s" % (mode, r["seed"], env, "\n".join(r["lines"][-500:]))
        if r["oracle"]:
            dist["oracle"] += 1
            okinds = [l.split("ORACLE", 1)[1].split()[0] for l in r["oracle"]]
            # the property's own oracle (freed cell dereferenced / mark passed an open region) first
            kind = next((k for k in okinds if k in ("uaf", "mark-passed")), okinds[0])
            key = "oracle:%s:%s" % (mode, kind)
            if sum(1 for k, _ in ctx.failing if k == key) < 3:
                if kind in ("uaf", "mark-passed"):
                    ctx.failing.insert(0, (key, text))
                else:
                    ctx.failing_input(key, text)
        elif r["races"]:
            ctx.failing_input("race:%s" % mode, text)
        elif r["verdict"] != "ok":
            ctx.failing_input("verdict:%s:%s" % (mode, r["verdict"].split()[0]), text + "\n" + r.get("stderr", ""))
        elif lockstep:
            if r["replay"] and r["replay"].startswith("ok"):
                dist["replay_ok"] += 1
            else:
                dist["replay_diverge"] += 1
                if dist["replay_diverge"] <= 4:
                    ctx.broke("correspondence", "E-CONC lock-step c09 mode=%s seed=%d" % (mode, r["seed"]), "%s\n%s" % (r["replay"], text))
        if len(samples) < 1 and "held" in kinds and len(r["lines"]) > 60:
            samples.append([l if " tbl " not in l else " ".join(l.split()[:4]) + " <table>" for l in r["lines"][:70]])
        # enough concrete failing inputs, among them one of the property's own oracle; broken obligations alone
        # never stop the search
        if len(ctx.failing) > 5 and any(k.endswith(":uaf") or k.endswith(":mark-passed") for k, _ in ctx.failing):
            return False
    return True


def run(ctx):
    ctx.cov["trusted_base"] += [
        "memory model Babylon/Core/MemView.lean: operational release/acquire views with SC fences; strengthenings S1-S3 of its header (modification order = execution order, no load buffering, a seq_cst RMW is a full fence as on x86); covers TSO / ARMv8-style store-buffer delays, not load-buffering / out-of-thin-air executions",
        "vrt/vrt.cpp (TSan-ABI interposition, deterministic scheduler) and the TSan-instrumented build; VRT executes sequentially consistent interleavings, so the weak-memory content of the property rests on the theorems plus the generated order / skeleton obligations, the executions only validate the model's protocol",
        "IdAllocator (free list, property C14) enters as its specification: ids unique while held; deallocate(i) happens-before the allocate() that returns i again; ConcurrentVector growth (C04) as: the block table only grows",
        "client contract (hypotheses of the theorems, checked on every replayed execution): unlock pairs with lock, a thread does not exit inside a thread-local region (an Accessor may be released at any time since fix 6566b0b), an Accessor is handed to another thread only through release/acquire synchronisation, thread-local and Accessor style are not mixed on one Epoch, the unlink precedes tick() in program order, reclamation of epoch e is triggered only by a low_water_mark() >= e that happens after the tick",
        "NoWrap: fewer than 2^64 ticks",
    ]
    ctx.gen(["epoch"])
    ctx.lake_build(["Babylon.Properties.C09"])
    ctx.audit("Babylon.Properties.C09")
    if not ctx.quick:
        ctx.leanchecker(["Babylon.Core.MemView", "Babylon.Epoch.Model", "Babylon.Properties.C09"])
    drv = ctx.driver("drv_C09")
    exe, log = build_vrt_exe("c09", SRCS, repo_cpp=REPO_CPP)
    if exe is None:
        ctx.broke("correspondence", "harness/c09.cpp does not build against /repo", log[-800:])
        return
    n = 300 if ctx.quick else 5000
    if ctx.broken:
        n *= 6     # an obligation broke: look harder for a concrete failing schedule
    seed0 = ctx.seed * 1000003
    dist = {"modes": {}, "verdicts": {}, "mechanism": {}, "replay_ok": 0, "replay_diverge": 0, "oracle": 0, "max_trace": 0,
            "stale_reads": 0}
    distinct = set()
    samples = []
    # corpus first: fixed interesting schedules
    for f in sorted(CORPUS.glob("*.txt")) if CORPUS.exists() else []:
        m = re.search(r"mode=(\S+) seed=(\d+) env=(\{.*\})", f.read_text())
        if not m:
            continue
        mode, seed, env = m.group(1), int(m.group(2)), eval(m.group(3))
        lockstep = env.get("VRT_MEM") != "view" and mode != "big"
        runs = ctx.econc(exe, drv if lockstep else None, [mode], seed, 1, env=env)
        dist["modes"]["corpus"] = dist["modes"].get("corpus", 0) + len(runs)
        _classify(ctx, mode, env, runs, lockstep, dist, distinct, samples)
    view = {"VRT_MEM": "view"}
    plan = [("acc", n, True, {}), ("tls", n, True, {}),
            ("acc", n // 2, True, {"VRT_STRATEGY": "pct"}), ("tls", n // 2, True, {"VRT_STRATEGY": "pct"}),
            ("acc", n // 3, True, {"VRT_STICK": "0"}),
            # weak-memory simulation on the real code (stale reads allowed by the view model): oracle only
            ("acc", n, False, view), ("tls", n, False, view),
            ("acc", n // 2, False, dict(view, VRT_STALE="70")), ("tls", n // 2, False, dict(view, VRT_STALE="70", VRT_STICK="0")),
            # unusual size: 65535 ... 131072 accessors ever created, regions on probe accessors around the 2^16 wrap
            ("big", max(6, n // 40), False, {})]
    for mode, cnt, lockstep, env in plan:
        runs = ctx.econc(exe, drv if lockstep else None, [mode], seed0, cnt, env=env)
        key = mode + ("/" + ",".join("%s=%s" % kv for kv in sorted(env.items())) if env else "")
        dist["modes"][key] = len(runs)
        if not _classify(ctx, mode, env, runs, lockstep, dist, distinct, samples):
            break
    ctx.cov["distribution"] = dist
    ctx.cov["distinct_nontrivial"] = len(distinct)
    ctx.cov["traces_validated_against_impl"] = dist["replay_ok"]
    ctx.cov["rule"] = ("one case = one seeded program (1-3 readers x 1-3 regions with nesting depth 1-3, two dereferences per region with a yield in between; "
                       "Accessor style: release / re-create, 1/4 of the regions handed over LOCKED to a helper thread through a release/acquire mailbox; "
                       "1-3 concurrent writers x 1-3 unlink+tick, 0-2 threads that only tick; reclaimer = the writers or a separate thread fed through a release/acquire channel; final scan at quiescence) "
                       "under one seeded schedule (random with 5 stickiness levels, stickiness 0, or PCT); per seed the block table is pre-reserved (4 slots per block) "
                       "or starts empty with 2 slots per block (growth races with the scan); SC passes are replayed in lock-step, VRT_MEM=view passes (stale reads "
                       "per the view model, 35% / 70% of the loads) are oracle only. non-trivial = some low_water_mark() was held back by an open region, or an "
                       "Accessor changed threads, or an id allocation overlapped a scan, or the table grew, or an Accessor was released inside a region "
                       "(1/8 of the regions), or two tick() calls overlapped; mode big: 65535-131072 accessors created in bulk, sequential regions on 6 probe accessors "
                       "(first / middle / last / around the 2^16 wrap), oracle only; distinct by trace hash (addresses removed)")
    ctx.cov["samples"] = samples or [["<no sample>"]]


def replay(ctx, path):
    txt = Path(path).read_text()
    m = re.search(r"mode=(\S+) seed=(\d+) env=(\{.*\})", txt)
    if not m:
        print(txt)
        return 1
    mode, seed, env = m.group(1), int(m.group(2)), eval(m.group(3))
    exe, log = build_vrt_exe("c09", SRCS, repo_cpp=REPO_CPP)
    drv = ctx.driver("drv_C09")
    lockstep = env.get("VRT_MEM") != "view" and mode != "big"
    runs = ctx.econc(exe, drv if lockstep else None, [mode], seed, 1, env=env)
    r = runs[0]
    print("\n".join(r["lines"]))
    print("verdict:", r["verdict"], "replay:", r["replay"], "oracle:", r["oracle"])
    return 1 if (r["oracle"] or r["races"] or r["verdict"] != "ok" or (r["replay"] and not r["replay"].startswith("ok"))) else 0


MANIFEST = {
    "technique": "Lean 4 proof over a weak-memory (release/acquire view) transition system: inductive invariants over all interleavings, stale reads, thread counts and programs, with the Dekker argument through SC-fence views; translator-generated order / skeleton obligations; lock-step replay of real executions under a deterministic scheduler",
    "text": "Theorems in lean/Babylon/Properties/C09.lean hold for every execution of the view-memory model (any admissible stale read at every load, any number of threads / accessors / ticks / scans, nesting, hand-over, slot reuse, table growth); each model step is one atomic operation of the real Epoch with the memory order extracted from the source, and every VRT trace of the real code is checked to be a path of the model",
    "note": "Trusted: Lean kernel + 3 standard axioms; gen/epoch.py; MemView strengthenings S1-S3 (x86-style seq_cst RMW = full fence); vrt/ (SC interleavings for the lock-step pass, view-model stale reads for the oracle-only pass); IdAllocator / ConcurrentVector by their specifications; client contract listed in the evidence; the non-x86 branch of tick is analysed separately (counterexample theorem epoch_tick_nonx86_counterexample)",
}
