"""C01 — bounded queue: each element delivered exactly once, FIFO, with exclusive, fully published access.

proof:          lean/Babylon/Properties/C01.lean over the atomic-granularity model lean/Babylon/BQ/Model.lean
                (abstract queue specification for other properties: lean/Babylon/BQ/Spec.lean)
translator:     gen/bq.py (slot layout, version arithmetic samples, waiter-bit constants, atomic skeletons and
                memory orders of SlotFutex::*, deal, try_deal, deal_n_continuously x2, try_deal_n_continuously, push/pop*)
correspondence: E-CONC L1 — harness/bq.cpp runs the real ConcurrentBoundedQueue<uint64_t | two-word struct> under VRT
                (capacities 1,2,4,8; 1-4 producers / consumers; push, try_push, push_n, try_push_n, pop, try_pop, pop_n,
                try_pop_n with every CONCURRENT / USE_FUTEX_WAIT / USE_FUTEX_WAKE combination the pairing rules allow;
                compensating push_n / pop_n; try_pop_n_exclusively_until); every trace is replayed in lock-step by
                lean/Babylon/BQ/Replay.lean; the harness evaluates the property oracle on the real code (multiset,
                FIFO between ordered operations, callback overlap, torn payload, try-failure justification) and the
                VRT happens-before monitor checks publication of the slot payload under the orders the code uses.
"""
from checks.bqlib import *


def warm():
    build()


def run(ctx):
    ctx.cov["trusted_base"] += [
        "vrt/vrt.cpp (TSan-ABI interposition, deterministic scheduler, futex / virtual-time emulation, vector-clock race monitor) and the TSan-instrumented build (differs from production in the places listed in DESIGN 3.3)",
        "executions are sequentially consistent interleavings at atomic-operation granularity; memory orders are tied statically (generated skeleton / order obligations), dynamically by trace equality (the order is part of every trace line) and by the happens-before monitor on the slot payload; load-buffering style reorderings are not simulated",
        "Ver16Faithful: every comparison of 16-bit truncated versions agrees with the comparison of the untruncated rounds (hypothesis of the invariant theorems; holds while fewer than 2^15 x capacity tickets are simultaneously outstanding, proved for the total-traffic bound in bq_ver16_faithful)",
        "client contract (bounded_queue.h): CONCURRENT=false operations do not overlap other operations on the same side; USE_FUTEX_WAIT only against USE_FUTEX_WAKE counterparts; batch size <= capacity",
    ]
    ctx.gen(["bq"])
    ctx.lake_build(["Babylon.Properties.C01"])
    ctx.audit("Babylon.Properties.C01")
    if not ctx.quick:
        ctx.leanchecker(["Babylon.BQ.Model", "Babylon.Properties.C01"])
    runs, dist = run_all(ctx, "C01", 700, 8000)
    distinct = set()
    samples = []
    for r in runs:
        f = r["feat"]
        if f["sleep"] or f["casfail"] or f["tryfail"] or f["eagain"] or f["comp"]:
            distinct.add(sha("\n".join(l for l in r["lines"] if " ev stats" not in l)))
        if r["oracle"]:
            dist["oracle"] += 1
            ctx.failing_input("oracle:%s:%s" % (r["mode"], oracle_kind(r)), r["text"])
        elif r["races"]:
            ctx.failing_input("race:%s" % r["mode"], r["text"])
        elif r["verdict"] != "ok":
            # a hang is C02's subject, but it also means elements are never delivered
            ctx.failing_input("verdict:%s:%s" % (r["mode"], r["verdict"].split()[0]), r["text"] + "\n" + r.get("stderr", ""))
        elif r["replay"] and r["replay"].startswith("ok"):
            dist["replay_ok"] += 1
        else:
            dist["replay_diverge"] += 1
            if dist["replay_diverge"] <= 6:
              ctx.broke("correspondence", "E-CONC lock-step bq mode=%s seed=%d env=%s" % (r["mode"], r["seed"], r["env"]), "%s\n%s" % (r["replay"], r["text"]))
        if not samples and r["mode"] == "mix" and 60 < len(r["lines"]) < 200:
            samples.append(r["lines"][:60])
    vruns, vdist = view_pass(ctx, "C01", 300, 3000)
    for r in vruns:
        if r["verdict"] != "ok":
            ctx.failing_input("view-verdict:%s:%s" % (r["mode"], r["verdict"].split()[0]), r["text"] + "\n" + r.get("stderr", ""))
        elif r["oracle"]:
            vdist["oracle"] += 1
            ctx.failing_input("view-oracle:%s:%s" % (r["mode"], oracle_kind(r)), r["text"])
        elif r["races"]:
            ctx.failing_input("view-race:%s" % r["mode"], r["text"])
    dist["view_mode"] = vdist
    ctx.cov["distribution"] = dist
    ctx.cov["distinct_nontrivial"] = len(distinct)
    ctx.cov["traces_validated_against_impl"] = dist.get("replay_ok", 0)
    ctx.cov["rule"] = ("one case = one seeded program (capacity 1/2/4/8; mix: 1-4 producers + 1-4 consumers with balanced quotas over push/try_push/push_n/"
                       "try_push_n and pop/try_pop/pop_n/try_pop_n, flags drawn within the pairing rules, batches up to the capacity incl. ring wrap; comp: 2-4 "
                       "threads mixing compensating push_n/pop_n with try_ operations then a drain; timed: exclusive consumer with try_pop_n_exclusively_until) "
                       "under one seeded schedule (random with 5 stickiness levels, stickiness 0, or PCT; spurious weak-CAS failures 1/8; payload accesses are "
                       "scheduling points); non-trivial = some thread slept, lost a CAS, saw a try_ fail/short, hit EAGAIN or ran a compensating batch; "
                       "distinct by trace hash")
    ctx.cov["samples"] = samples or [["<no sample>"]]


def replay(ctx, path):
    return replay_case(ctx, "C01", path)


MANIFEST = {
    "technique": "Lean 4 proof (inductive invariants over all interleavings of an atomic-granularity transition system, all capacities 2^b, thread counts and client programs) + translator-generated skeleton / memory-order / layout obligations + lock-step replay of real executions under a deterministic scheduler with a happens-before monitor on the slot payload",
    "text": "Theorems in lean/Babylon/Properties/C01.lean hold for every interleaving, capacity, thread count and client program of the model; each model step is one atomic operation / fence / futex call / callback boundary of the real code, and every trace of the real ConcurrentBoundedQueue produced under VRT is checked to be a path of the model (same operation, location, memory order, values), while the harness checks the property's own oracle on the implementation",
    "note": "Trusted: Lean kernel + 3 standard axioms; gen/bq.py; vrt/ (scheduler, TSan-ABI build, race monitor); SC interleavings (orders tied statically and by the HB monitor); Ver16Faithful hypothesis on the truncated slot version; client pairing contract",
}
