"""C12 — reusable containers: match std behaviour; clearing keeps capacity for reuse.

proof:          lean/Babylon/Properties/C12.lean over the models Babylon/RVec/Model.lean (ReusableVector,
                allocation metadata, ReusableManager) and Babylon/RVec/Str.lean (reusable string)
translator:     gen/rvec.py (growth policy, recreate interval, normalised source text of every transcribed
                member function, libstdc++ string facts measured by a compiled probe)
correspondence: E-SEQ, harness/c12.cpp (real containers on a counting MonotonicBufferResource / on
                SwissMemoryResource, std::vector / std::string driven alongside as the property oracle)
                vs lean/Drivers/C12.lean
"""
from vlib.core import *

MODES = ["int", "str", "stdstr", "nest", "elem", "elemrb", "swissint", "swissstr"]
# `_last_page_pointer {_last_page_array->pages}` in ExclusiveMonotonicBufferResource's default member
# initialisers forms `&nullptr->pages` without reading through it (memory_resource.h:228): UBSan's null
# check would abort every run before the first operation.  Unrelated to C12; only that check is off.
NO_NULL = ["-fno-sanitize=null"]
REPO_CPP = ["babylon/reusable/*.cpp", "babylon/reusable/patch/*.cpp", "babylon/concurrent/*.cpp"]


def build():
    return build_exe("c12", ["harness/c12.cpp"], "asan", repo_cpp=REPO_CPP, extra_flags=NO_NULL)


def build_pb():
    """protobuf scene: compile /repo/test/proto/arena_example.proto with protoc (content-addressed under build/),
    then the oracle harness harness/c12pb.cpp against it"""
    proto = REPO / "test" / "proto" / "arena_example.proto"
    if not proto.exists():
        return None, "missing " + str(proto)
    d = BUILD / "c12pb" / sha(proto.read_bytes())
    cc = d / "arena_example.pb.cc"
    if not cc.exists():
        d.mkdir(parents=True, exist_ok=True)
        r = sh(["protoc", "--cpp_out=" + str(d), "-I" + str(proto.parent), str(proto)])
        if r.returncode != 0 or not cc.exists():
            return None, "protoc failed: " + r.stdout[-800:]
    rel = str(cc.relative_to(VERIF))
    return build_exe("c12pb", ["harness/c12pb.cpp", rel], "asan", repo_cpp=REPO_CPP, extra_flags=NO_NULL + ["-I" + str(d)])


def same(a, b):
    """implementation line vs model line; `-` on the implementation side = not measurable in this mode"""
    ta, tb = a.split(), b.split()
    return len(ta) == len(tb) and all(x == y or x == "-" for x, y in zip(ta, tb))


# ---------------------------------------------------------------------------------------------------------
# generator.  A tiny size/constructed/capacity simulation steers indices and counts to the boundaries that
# matter (0, size, constructed_size, capacity and one either side).
class Sim:
    def __init__(self):
        self.size = self.cons = self.cap = 0

    def reserve(self, n):
        if n > self.cap:
            self.cap = n

    def grow_to(self, n):
        self.size = n
        self.cons = max(self.cons, n)

    def push(self):
        if self.size == self.cap:
            self.cap = 4 if self.cap == 0 else self.cap * 2
        self.grow_to(self.size + 1)

    def insert(self, c):
        self.reserve(self.size + c)
        self.grow_to(self.size + c)

    def resize(self, n):
        self.reserve(n)
        self.grow_to(n) if n > self.size else setattr(self, "size", n)

    def assign(self, n):
        self.size = 0
        self.reserve(n)
        for _ in range(n):
            self.push()

    def set(self, size, cons, cap):
        self.size, self.cons, self.cap = size, cons, cap


def val(rng):
    r = rng.random()
    if r < 0.05:
        return 0                                   # the value-initialised element / empty string
    if r < 0.45:
        return rng.randrange(1, 15)                # short strings (inside the object)
    if r < 0.75:
        return rng.choice([14, 15, 16, 17, 60, 120, 121, 182]) + 61 * rng.randrange(0, 3)   # around the SSO limit / long
    return rng.randrange(1, 5000)


def near(rng, points, lo, hi):
    """a number in [lo, hi] at or next to one of the interesting points"""
    c = [p + d for p in points for d in (-1, 0, 1) if lo <= p + d <= hi]
    if c and rng.random() < 0.8:
        return rng.choice(c)
    return rng.randrange(lo, hi + 1)


MAXN = 40


def gen_vec_op(rng, s, stats, allow_set=True):
    """one single-vector operation (text after the register name), updating the simulation"""
    while True:
        r = rng.random()
        if r < 0.22:
            s.push()
            return "push %d" % val(rng)
        if r < 0.30:
            if s.size == 0:
                continue
            s.size -= 1
            return "pop"
        if r < 0.42:
            i = near(rng, [0, s.size], 0, s.size)
            c = near(rng, [0, 1, s.cons - s.size, s.cons - i, s.cap - s.size], 0, 8)
            if s.size + c > MAXN:
                continue
            stats["zero_insert"] += c == 0
            stats["insert_across_cons"] += (i < s.cons < i + c) or (s.size < s.cons < s.size + c)
            s.insert(c)
            if rng.random() < 0.5:
                return "insr %d %s" % (i, " ".join(str(val(rng)) for _ in range(c)))
            return "insn %d %d %d" % (i, c, val(rng))
        if r < 0.50:
            if s.size + 1 > MAXN:
                continue
            i = near(rng, [0, s.size], 0, s.size)
            s.insert(1)
            return "emp %d %d" % (i, val(rng))
        if r < 0.62:
            i = near(rng, [0, s.size], 0, s.size)
            j = near(rng, [i, i + 1, s.size], i, s.size)
            s.size -= j - i
            return "erase %d %d" % (i, j)
        if r < 0.72:
            n = near(rng, [0, s.size, s.cons, s.cap], 0, MAXN)
            stats["resize_into_stale"] += s.size < n and s.size < s.cons
            s.resize(n)
            if rng.random() < 0.5:
                return "resize %d" % n
            return "resizev %d %d" % (n, val(rng))
        if r < 0.80:
            n = near(rng, [0, s.size, s.cons, s.cap], 0, MAXN)
            k = rng.random()
            if k < 0.4:
                s.assign(n)
                return "assignl " + " ".join(str(val(rng)) for _ in range(n))
            if k < 0.7:
                s.assign(n)
                return "assignn %d %d" % (n, val(rng))
            s.size = 0
            s.resize(n)
            return "assignc %d" % n
        if r < 0.86:
            n = near(rng, [0, s.size, s.cons, s.cap, s.cap * 2], 0, 2 * MAXN)
            s.reserve(n)
            return "reserve %d" % n
        if r < 0.93:
            stats["clear_with_elements"] += s.size > 0
            s.size = 0
            return "clear"
        if s.size == 0 or not allow_set:
            continue
        return "set %d %d" % (rng.randrange(s.size), val(rng))


def gen_vector_case(rng, length, stats):
    sim = {"A": Sim(), "B": Sim()}
    res = {"A": 0, "B": 0}
    ops = []
    while len(ops) < length:
        r = rng.random()
        reg = "A" if rng.random() < 0.75 else "B"
        oth = "B" if reg == "A" else "A"
        if r < 0.80:
            ops.append(reg + " " + gen_vec_op(rng, sim[reg], stats))
        elif r < 0.84:
            k = rng.randrange(2)
            n = rng.randrange(0, 9)
            kind = rng.random()
            res[reg] = k
            if kind < 0.3:
                sim[reg].set(0, 0, 0)
                ops.append("new %s %d" % (reg, k))
            elif kind < 0.55:
                sim[reg].set(n, n, n)
                ops.append("newn %s %d %d %d" % (reg, k, n, val(rng)))
            elif kind < 0.75:
                sim[reg].set(n, n, n)
                ops.append("newc %s %d %d" % (reg, k, n))
            else:
                sim[reg].set(n, n, n)
                ops.append("newl %s %d %s" % (reg, k, " ".join(str(val(rng)) for _ in range(n))))
        elif r < 0.87:
            if res["A"] != res["B"]:
                continue
            sim["A"], sim["B"] = sim["B"], sim["A"]
            ops.append("swap")
        elif r < 0.91:
            sim[reg].assign(sim[oth].size)
            ops.append("copyassign " + reg)
        elif r < 0.94:
            stats["move_same" if res[reg] == res[oth] else "move_cross"] += 1
            if res[reg] == res[oth]:
                sim[reg], sim[oth] = sim[oth], sim[reg]
            else:
                n = sim[oth].size
                sim[reg].size = 0
                sim[reg].reserve(n)
                for _ in range(n):
                    sim[reg].push()
            ops.append("moveassign " + reg)
        elif r < 0.96:
            k = rng.randrange(2)
            n = sim[oth].size
            res[reg] = k
            sim[reg].set(n, n, n)
            ops.append("copyctor %s %d" % (reg, k))
        elif r < 0.98:
            k = rng.randrange(2)
            stats["move_same" if k == res[oth] else "move_cross"] += 1
            if k == res[oth]:
                sim[reg].set(sim[oth].size, sim[oth].cons, sim[oth].cap)
                sim[oth].set(0, 0, 0)
            else:
                n = sim[oth].size
                sim[reg].set(0, 0, 0)
                sim[reg].reserve(n)
                for _ in range(n):
                    sim[reg].push()
            res[reg] = k
            ops.append("movector %s %d" % (reg, k))
        else:
            ops.append("meta " + reg)
            if rng.random() < 0.6:
                k = rng.randrange(2)
                res[reg] = k
                # the metadata accumulates max(constructed) over the `meta` calls; not simulated exactly,
                # the next ops only use the simulation as a hint
                sim[reg].set(0, sim[reg].cons, sim[reg].cons)
                ops.append("remeta %s %d" % (reg, k))
                stats["metadata_roundtrip"] += 1
    return ops


def gen_workload(rng, n, stats):
    """ops on one vector starting from the logically empty state; returns (ops, fits) where `fits` says no
    explicit reserve asks for more than the peak size (so that capacity *can* converge to it)"""
    s = Sim()
    out, peak, maxres = [], 0, 0
    for _ in range(n):
        o = gen_vec_op(rng, s, stats)
        if o == "clear" and rng.random() < 0.7:
            continue
        if o.startswith("reserve"):
            maxres = max(maxres, int(o.split()[1]))
        peak = max(peak, s.size)
        out.append(o)
    return out, maxres <= peak


def gen_reuse_case(rng, stats):
    """warm a vector up with a workload, then repeat the same workload after clear(): the repeat must not
    take element buffers from the resource"""
    w, _ = gen_workload(rng, rng.choice([6, 12, 25]), stats)
    ops = ["new A 0"]
    pre = gen_vector_case(rng, rng.choice([0, 5, 15]), stats)
    ops += [o for o in pre if not o.startswith(("new", "copyctor", "movector", "remeta"))]
    rounds = rng.choice([2, 3, 4])
    for k in range(rounds):
        ops.append("A clear" if rng.random() < 0.7 else "A assignc 0")
        if k >= 1:
            ops.append("snap")
        ops += ["A " + o for o in w]
        if k >= 1:
            ops.append("noalloc")
            stats["reuse_rounds_checked"] += 1
    return ops


def gen_manager_case(rng, stats):
    """ReusableManager: units driven through accessors, clear()/recreate cadence 1..5; after a re-creation
    that has seen a whole round, the same round takes nothing at all from the resource"""
    interval = rng.choice([1, 1, 2, 3, 4, 5])
    nunits = rng.choice([1, 1, 2, 3])
    ops = ["mnew %d" % interval]
    work, fits = [], True
    for u in range(nunits):
        ops.append("mcreate")
        w, f = gen_workload(rng, rng.choice([4, 10, 20]), stats)
        work.append(w)
        fits = fits and f
    stats["manager_interval_%d" % interval] = stats.get("manager_interval_%d" % interval, 0) + 1
    clears = 0
    rounds = rng.choice([interval + 1, 2 * interval + 1, 3 * interval + 2])
    for k in range(rounds):
        converged = clears >= interval and clears % interval == 0 and fits   # the previous clear re-created
        if converged:
            ops.append("snap")
        order = list(range(nunits))
        rng.shuffle(order)
        for u in order:
            ops += ["m %d %s" % (u, o) for o in work[u]]
        if converged:
            ops.append("noalloc-total")
            stats["manager_converged_rounds_checked"] += 1
        if rng.random() < 0.1:
            ops.append("mcreate")           # a unit added late
            work.append([])
            nunits += 1
        ops.append("mclear")
        clears += 1
    if rng.random() < 0.3:
        ops.append("minterval %d" % rng.choice([1, 2, 7]))
        ops += ["mclear", "m 0 push 3", "mclear"]
    return ops


def gen_string_case(rng, length, stats):
    ops = ["snew"]
    size = 0
    for _ in range(length):
        r = rng.random()
        n = near(rng, [0, 15, 16, 30, 31, 60, 61], 0, 70)
        # binary payloads too: embedded / leading / trailing NUL and other non-printable bytes
        chars = " ".join(str(rng.choice([0, 0, 1, 127, 255]) if rng.random() < 0.15 else rng.randrange(97, 123)) for _ in range(n))
        if r < 0.06:
            ops.append(("smove " + chars).strip())
            size = n
            stats["string_move_assign"] = stats.get("string_move_assign", 0) + 1
        elif r < 0.30:
            ops.append(("sassign " + chars).strip())
            size = n
        elif r < 0.50:
            if size + n > 150:
                continue
            ops.append(("sappend " + chars).strip())
            size += n
        elif r < 0.62:
            ops.append("sclear")
            size = 0
        elif r < 0.75:
            ops.append("sreserve %d" % near(rng, [0, 15, 16, 30, 31, 60, 120], 0, 130))
        elif r < 0.85:
            ops.append("sresizeu %d" % n)
            size = n
        elif r < 0.93:
            ops.append("smeta")
        else:
            ops += ["smeta", "sremeta"]
            size = 0
            stats["string_metadata_roundtrip"] += 1
    return ops


PB_LENS = [0, 1, 15, 16, 40, 300]


def gen_pb_round(rng, stats):
    """one business round on one protobuf message: a few setters; `small` rounds leave strings / sub-messages alone"""
    kind = rng.choice(["big", "small", "sub", "rep", "mixed"])
    ops = []
    if kind in ("small", "mixed") or rng.random() < 0.3:
        ops.append("set_p %d" % rng.randrange(1, 1000))
        if rng.random() < 0.5:
            ops.append("add_rp %d" % rng.randrange(1, 1000))
    if kind in ("big", "mixed"):
        ops.append("set_s %d" % rng.choice(PB_LENS))
        if rng.random() < 0.5:
            ops.append("set_ds %d" % rng.choice(PB_LENS))
    if kind in ("sub", "big") or (kind == "mixed" and rng.random() < 0.5):
        ops.append("m_set_s %d" % rng.choice(PB_LENS))
        if rng.random() < 0.4:
            ops.append("mm_set_s %d" % rng.choice(PB_LENS))
        if rng.random() < 0.3:
            ops.append("m_add_rs %d" % rng.choice(PB_LENS))
        if rng.random() < 0.3:
            ops.append("m_set_p %d" % rng.randrange(1, 1000))
    if kind in ("rep", "big"):
        for _ in range(rng.choice([1, 2, 5])):
            ops.append(rng.choice(["add_rs %d", "add_rm %d"]) % rng.choice(PB_LENS))
        for _ in range(rng.choice([0, 3, 9])):
            ops.append("add_rp %d" % rng.randrange(1, 1000))
    stats["pb_round_" + kind] = stats.get("pb_round_" + kind, 0) + 1
    rng.shuffle(ops)
    return ops


def gen_pb_case(rng, stats):
    """protobuf messages behind a SwissManager: every unit cycles through 1..3 round types (big / small /
    sub-message set or unset / repeated), recreate cadence 1..5, so that re-creation boundaries fall after
    every kind of round; once every round type has run, a repeated round must take nothing from the resource"""
    interval = rng.choice([1, 2, 2, 3, 4, 5])
    nunits = rng.choice([1, 1, 2])
    ops = ["pnew %d" % interval] + ["pcreate"] * nunits
    cycles = [[gen_pb_round(rng, stats) for _ in range(rng.choice([1, 2, 2, 3]))] for _ in range(nunits)]
    warm = max(len(c) for c in cycles)
    rounds = rng.choice([2 * interval + 2, 3 * interval + 3, 12])
    stats["pb_interval_%d" % interval] = stats.get("pb_interval_%d" % interval, 0) + 1
    for r in range(rounds):
        check = r >= warm
        if check:
            ops.append("psnap")
        for u in range(nunits):
            ops += ["p %d %s" % (u, o) for o in cycles[u][r % len(cycles[u])]]
        if check:
            ops.append("pnoalloc")
            stats["pb_repeated_rounds_checked"] = stats.get("pb_repeated_rounds_checked", 0) + 1
        ops.append("pclear")
    return ops


def run_pb(ctx, exe, cases, dist):
    """oracle-only scene (no Lean model behind protobuf): run, look for !ORACLE / crashes, minimise"""
    def one(case):
        return ctx.run_lines(exe, ["reset"] + case)
    with concurrent.futures.ThreadPoolExecutor(max_workers=NPROC) as ex:
        results = list(ex.map(one, cases))
    ctx.cov["evaluations"] += len(cases)
    seen = set()
    for case, (io, rc, err) in zip(cases, results):
        hit = [k for k, l in enumerate(io) if "!ORACLE" in l]
        if rc == 0 and not hit:
            continue
        m0 = re.search(r"!ORACLE\((\w+)", " ".join(io))
        kind = m0.group(1) if m0 else "crash"
        if kind in seen:
            continue
        seen.add(kind)
        prefix = case[:hit[0]] if hit else case      # io[0] answers `reset`, so io[k] answers case[k - 1]

        def still(cand, kind=kind):
            o, r, _ = ctx.run_lines(exe, ["reset"] + cand)
            return r != 0 if kind == "crash" else any("!ORACLE(" + kind in l for l in o)
        small = ctx.shrink(prefix, still, budget=200) if still(prefix) else case
        o, r, e = ctx.run_lines(exe, ["reset"] + small)
        text = "mode=pb\n%s\n# implementation output:\n%s\n%s" % (
            "\n".join(small), "\n".join("#   " + l[:400] for l in o),
            ("# harness stderr:\n#   " + e[-1500:].replace("\n", "\n#   ")) if r != 0 else "")
        dist["oracle_failures"] += 1
        ctx.failing_input("oracle:%s:protobuf-message" % kind, text)


def load_corpus(mode):
    out = []
    d = VERIF / "corpus" / "C12"
    if d.exists():
        for f in sorted(d.glob("*.txt")):
            lines = [l.strip() for l in f.read_text().splitlines() if l.strip() and not l.startswith("#")]
            if lines and lines[0].startswith("mode="):
                if mode not in lines[0][5:].split(","):
                    continue
                lines = lines[1:]
            out.append(lines)
    return out


def nontrivial(case):
    kinds = set()
    for o in case:
        w = o.split()
        kinds.add(w[1] if w[0] in ("A", "B") else (w[2] if w[0] == "m" and len(w) > 2 else w[0]))
    return len(case) >= 10 and len(kinds) >= 4


def run(ctx):
    ctx.cov["trusted_base"] += [
        "harness/c12.cpp: model values are mapped injectively to int / string / nested-vector / instrumented elements; "
        "element constructors, assignments and destructors are value copies in the model (what a moved-from element "
        "holds is a universally quantified parameter of the theorems)",
        "libstdc++ basic_string buffer policy (`_M_create`: at least doubling, SSO capacity) is modelled from the "
        "translator's compiled probe, not verified; protobuf containers are trusted: the message capacity-metadata model "
        "(Babylon/RVec/Msg.lean, two levels) is tied to message.cpp/message.h by source-text obligations and exercised by the "
        "oracle harness harness/c12pb.cpp (no model-vs-code diff for that scene)",
        "memory safety of the real containers is decided by ASan+UBSan (null check off, see checks/C12.py) on the sampled histories only",
    ]
    ctx.assumptions += [
        "single-threaded use of one vector / manager (the classes are documented as not thread safe)",
        "calls respect the std::vector preconditions (index <= size, first <= last <= size, pop on non-empty, "
        "swap only between equal allocators); in generated histories arguments do not alias elements of the vector being "
        "modified — aliasing arguments are the recorded finding oracle:contents:self-aliasing-argument, replayed from "
        "corpus/C12/self_aliasing_argument.txt on every run (model ops pushself/insnself/empself reproduce the real behaviour)",
        "a workload 'fits' when neither a size it reaches nor an explicit reserve() exceeds the capacity already held",
    ]
    ctx.gen(["rvec"])
    ctx.log("translator done")
    ctx.lake_build(["Babylon.Properties.C12"])
    ctx.log("lake build done")
    ctx.audit("Babylon.Properties.C12")
    ctx.log("audit done")
    if not ctx.quick:
        ctx.leanchecker(["Babylon.RVec.Model", "Babylon.RVec.Str", "Babylon.Properties.C12"])
    drv = ctx.driver("drv_C12")
    ctx.log("driver done")
    exe, log = build()
    ctx.log("harness done")
    if exe is None:
        ctx.broke("correspondence", "harness/c12.cpp does not build against /repo", log[-800:])
        return
    if drv is None:
        return
    per_mode = 60 if ctx.quick else 500
    if ctx.broken:
        per_mode *= 4    # search mode: a proof obligation broke, look harder for a failing input
    stats = {k: 0 for k in ["zero_insert", "insert_across_cons", "resize_into_stale", "clear_with_elements", "move_same",
                            "move_cross", "metadata_roundtrip", "reuse_rounds_checked", "manager_converged_rounds_checked",
                            "string_metadata_roundtrip"]}
    dist = {"ops": {}, "modes": {}, "scenes": {"vector": 0, "reuse": 0, "manager": 0, "string": 0},
            "oracle_failures": 0, "divergences": 0, "max_case_len": 0}
    distinct = set()
    sample = None
    for mode in MODES:
        if len(ctx.failing) >= 3:
            break        # enough concrete evidence; do not spend the budget on more of the same
        cases = load_corpus(mode)
        ncorp = len(cases)
        for k in range(per_mode):
            r = k % 10
            if r < 5:
                cases.append(gen_vector_case(ctx.rng, ctx.rng.choice([15, 40, 100, 250]), stats))
                dist["scenes"]["vector"] += 1
            elif r < 7:
                cases.append(gen_reuse_case(ctx.rng, stats))
                dist["scenes"]["reuse"] += 1
            elif r < 9:
                cases.append(gen_manager_case(ctx.rng, stats))
                dist["scenes"]["manager"] += 1
            else:
                cases.append(gen_string_case(ctx.rng, ctx.rng.choice([10, 40, 120]), stats))
                dist["scenes"]["string"] += 1
        if mode == "elemrb":
            # ElemRB has no assignment from a value: `v[i] = x` cannot be expressed without a temporary
            cases = [[o for o in c if " set " not in o] for c in cases]
        sample = sample or cases[ncorp][:25]
        for c in cases:
            dist["max_case_len"] = max(dist["max_case_len"], len(c))
            for o in c:
                w = o.split()
                k = w[1] if w[0] in ("A", "B") else ("m:" + w[2] if w[0] == "m" and len(w) > 2 else w[0])
                dist["ops"][k] = dist["ops"].get(k, 0) + 1
            if nontrivial(c):
                distinct.add(sha(mode + "\n" + "\n".join(c)))
        dist["modes"][mode] = len(cases)
        ctx.log("mode", mode, "cases", len(cases))
        diffs = ctx.eseq(exe, drv, cases, impl_args=[mode], model_args=[mode], compare=lambda a, b: same(a, b) and "!ORACLE" not in a)
        seen_keys = set()
        for (ci, li, op, a, b) in diffs:
            case = cases[ci]
            oracle = "!ORACLE" in a or "<no-output" in a
            if not oracle:
                # the model and the code disagree although the property's own oracle is content; the very next
                # lines of the same case may still show an oracle failure (e.g. a later no-allocation check)
                io, rc, err = ctx.run_lines(exe, ["reset"] + case, [mode])
                hit = [k for k, l in enumerate(io) if "!ORACLE" in l]
                if rc != 0 or hit:
                    oracle, li = True, (hit[0] - 1 if hit else len(case) - 1)
                elif dist["divergences"] >= 3:
                    dist["divergences"] += 1
                    continue

            io0, rc0, _ = ctx.run_lines(exe, ["reset"] + case[:li + 1], [mode])
            m0 = re.search(r"!ORACLE\((\w+)", " ".join(io0))
            kind0 = m0.group(1) if m0 else "crash"

            def still(cand, want_oracle=oracle, kind0=kind0):
                io, rc, err = ctx.run_lines(exe, ["reset"] + cand, [mode])
                if want_oracle:   # the same kind of failure, not just any
                    return rc != 0 if kind0 == "crash" else any("!ORACLE(" + kind0 in l for l in io)
                mo, _, _ = ctx.run_lines(drv, ["reset"] + cand, [mode])
                return len(io) != len(mo) or any(not same(x, y) for x, y in zip(io, mo))
            small = ctx.shrink(case[:li + 1], still, budget=150)
            io, rc, err = ctx.run_lines(exe, ["reset"] + small, [mode])
            mo, _, _ = ctx.run_lines(drv, ["reset"] + small, [mode])
            text = "mode=%s\n%s\n# implementation output:\n%s\n# model output:\n%s\n%s" % (
                mode, "\n".join(small), "\n".join("#   " + l for l in io), "\n".join("#   " + l for l in mo),
                ("# harness stderr:\n#   " + err[-1500:].replace("\n", "\n#   ")) if rc != 0 else "")
            if oracle:
                dist["oracle_failures"] += 1
                m = re.search(r"!ORACLE\((\w+)", " ".join(io))
                kind = m.group(1) if m else "crash"
                key = "oracle:%s:%s" % (kind, signature(small, kind))
                if key.endswith(":self-aliasing-argument"):
                    key = "oracle:contents:self-aliasing-argument"   # one finding, whatever symptom shows first
                if key not in seen_keys:
                    seen_keys.add(key)
                    ctx.failing_input(key, text)
            else:
                dist["divergences"] += 1
                ctx.broke("correspondence", "E-SEQ c12 mode=%s" % mode, "first difference at op %r: impl %r, model %r; minimised case:\n%s" % (op, a[:300], b[:300], text))
            if len(seen_keys) >= 2:
                break
        if ncorp:
            ctx.notes.append("corpus cases run first for mode %s: %d" % (mode, ncorp))
    # ---- protobuf messages behind the manager (oracle only)
    pbexe, pblog = build_pb()
    if pbexe is None:
        ctx.broke("correspondence", "harness/c12pb.cpp does not build against /repo", pblog[-800:])
    else:
        npb = (60 if ctx.quick else 800) * (4 if ctx.broken else 1)
        pbcases = load_corpus("pb") + [gen_pb_case(ctx.rng, stats) for _ in range(npb)]
        dist["scenes"]["protobuf"] = len(pbcases)
        for c in pbcases:
            if len(c) >= 10:
                distinct.add(sha("pb\n" + "\n".join(c)))
        ctx.log("protobuf scene cases", len(pbcases))
        run_pb(ctx, pbexe, pbcases, dist)
    dist["boundaries_hit"] = stats
    ctx.cov["distribution"] = dist
    ctx.cov["distinct_nontrivial"] = len(distinct)
    ctx.cov["rule"] = ("random op histories, 8 element/resource modes x 4 scenes: (vector) two registers on two resources with push/pop/"
                       "insert(range|count)/emplace/erase/resize/assign(range|count|reuse)/reserve/clear/operator[] plus swap, copy/move "
                       "assignment and construction with equal and different allocators and allocation-metadata round trips; (reuse) a "
                       "workload repeated after clear() with a no-allocation check; (manager) units behind accessors, recreate interval "
                       "1..5, no-allocation check after a converged re-creation; (string) assign/append/clear/stable_reserve/"
                       "resize_uninitialized/metadata round trip; (protobuf, oracle only) ArenaExample messages behind a SwissManager, 1-2 units "
                       "cycling through big/small/sub-message/repeated round types at cadence 1..5, per-field capacities must never "
                       "shrink across ops, clear and re-creation, cleared message == fresh message, repeated rounds allocate nothing.  "
                       "Indices and counts are steered to 0/size/constructed/capacity +-1 by a "
                       "size simulation.  A case is non-trivial when it has >= 10 ops of >= 4 kinds; distinct by content hash")
    ctx.cov["samples"] = [sample] if sample else []
    ctx.cov["traces_validated_against_impl"] = ctx.cov["evaluations"]


def signature(small, kind="contents"):
    """what a minimised failing case is about: the operation kinds it still contains"""
    def body(o):
        w = o.split()
        if w and w[0] in ("A", "B"):
            return w[1:]
        if len(w) > 2 and w[0] in ("m", "p"):
            return w[2:]
        return w
    bodies = [body(o) for o in small]
    if any(b and b[0] in ("pushself", "insnself", "empself") for b in bodies):
        return "self-aliasing-argument"     # v.push_back(v[j]) / v.insert(pos, n, v[j]) / v.emplace(pos, v[j])
    if kind == "contents" and any((len(b) == 4 and b[0] == "insn" and b[2] == "0") or (len(b) == 2 and b[0] == "insr") for b in bodies):
        return "insert-zero-count"          # insert(pos, 0, v) / insert(pos, first, first)
    kinds = []
    for b in bodies:
        if b and b[0] not in kinds and b[0] not in ("new", "push", "snap", "reset"):
            kinds.append(b[0])
    return "+".join(sorted(kinds)[:4]) or "push"


def replay(ctx, path):
    lines = [l.strip() for l in Path(path).read_text().splitlines() if l.strip() and not l.startswith("#")]
    mode = "int"
    if lines and lines[0].startswith("mode="):
        mode, lines = lines[0][5:].split(",")[0], lines[1:]
    exe, log = build()
    drv = ctx.driver("drv_C12")
    io, rc, err = ctx.run_lines(exe, ["reset"] + lines, [mode])
    mo, _, _ = ctx.run_lines(drv, ["reset"] + lines, [mode])
    bad = rc != 0
    for k, op in enumerate(["reset"] + lines):
        a = io[k] if k < len(io) else "<no-output>"
        b = mo[k] if k < len(mo) else "<no-output>"
        flag = "" if same(a, b) and "!ORACLE" not in a else "   <<<<"
        bad |= bool(flag)
        print("%-30s impl: %-60s model: %s%s" % (op[:30], a, b, flag))
    if rc != 0:
        print(err[-3000:])
    return 1 if bad else 0


MANIFEST = {
    "technique": "Lean 4 proof (representation invariant + refinement of a cell-level model of ReusableVector to std::vector "
                 "semantics on lists, lifted to all operation sequences by induction; lifetime ghost counters; manager fixed point) "
                 "+ translator-generated constants and source-text obligations + E-SEQ differential correspondence with std::vector/"
                 "std::string oracles under ASan",
    "text": "Theorems in lean/Babylon/Properties/C12.lean hold for every operation sequence, every element-move behaviour and every "
            "clear/recreate cadence of the model; the model is re-tied to /repo on each run by gen/rvec.py (growth policy, source text "
            "of each transcribed function) and by running model and real containers (8 element/resource modes) on the same histories",
    "note": "Trusted: Lean kernel + 3 standard axioms; gen/rvec.py; harness/c12.cpp and its generator (sampling); element types' own "
            "constructors/assignment modelled as value copies; libstdc++ string growth policy from a probe; protobuf internals trusted "
            "(message capacity metadata modelled two levels deep, tied by source-text obligations and the c12pb oracle harness only)",
}


def warm():
    build()
    build_pb()
