"""C19 — counters / enumerable thread-locals: aggregates exact across thread and instance churn.

proof:          lean/Babylon/Properties/C19.lean over the history model Babylon/Counter/Model.lean
                (+ Babylon/Counter/Conc.lean: single-writer cells read by a concurrent reader)
translator:     gen/counter.py (NUM_PER_CACHELINE of every kind, block sizes, id-counter / cache / slot
                initial values, EXTREMUM, behaviour flags, whitespace-free text of every modelled function)
correspondence: history replay — harness/c19.cpp drives the REAL counters with real threads created /
                joined under VRT (thread ids, TLS destructors, id recycling are the library's own), prints
                the history as events; lean/Drivers/C19.lean replays it on the model and compares every
                observed location of local(), every quiescent value, every for_each / for_each_alive walk,
                and checks concurrent reads against the proven bound.  The harness keeps the reference
                arithmetic itself (ORACLE events on the real code).
"""
from vlib.core import *

SRCS = ["harness/c19.cpp"]
REPO_CPP = ["babylon/concurrent/counter.cpp"]
WITNESS = ["wext", "wfea"]          # the two repaired defects, kept as fixed cases
ORACLE_KEY = {                       # stable failing-input keys
    "extremum-sample": "extremum-sample",
    "extreme": "extremum-sample",
    "for_each_alive-untouched": "for-each-alive-untouched",
}


def warm():
    build_vrt_exe("c19", SRCS, repo_cpp=REPO_CPP)


def corpus_seeds():
    out = []
    f = VERIF / "corpus" / "C19" / "seeds.txt"
    if f.exists():
        for line in f.read_text().splitlines():
            line = line.split("#")[0].strip()
            if line:
                out.append(int(line))
    return out


def classify(ctx, r, mode, dist, lockstep=True):
    text = "mode=%s seed=%d\n%s" % (mode, r["seed"], "\n".join(r["lines"][-600:]))
    if r["oracle"]:
        dist["oracle"] += 1
        kind = r["oracle"][0].split("ORACLE", 1)[1].split()[0]
        ctx.failing_input("oracle:" + ORACLE_KEY.get(kind, kind), text)
        return False
    if r["verdict"] != "ok":
        key = "verdict:%s:%s" % (mode, r["verdict"].split()[0])
        if mode == "wfea":
            key = "oracle:for-each-alive-untouched"
        ctx.failing_input(key, text + "\n" + r.get("stderr", ""))
        return False
    if lockstep:
        if r["replay"] and r["replay"].startswith("ok"):
            dist["replay_ok"] += 1
        else:
            dist["replay_diverge"] += 1
            ctx.broke("correspondence", "history replay c19 mode=%s seed=%d" % (mode, r["seed"]), "%s\n%s" % (r["replay"], text))
            return False
    return True


def run(ctx):
    ctx.cov["trusted_base"] += [
        "vrt/vrt.cpp (TSan-ABI interposition, deterministic scheduler; plain accesses to the counter cells are scheduling points) and the TSan-instrumented build",
        "C14's specification of the two id allocators is assumed, not re-proved here: an allocation returns an id no live holder has, end() exceeds every id handed out and never decreases, for_each at quiescence reports exactly the held ids",
        "harness/c19.cpp maps cell addresses to (storage, slot, offset) by reading the block tables; its reference arithmetic is the oracle",
        "model arithmetic is over Z: signed overflow of a counter (undefined behaviour in the C++) is outside the model",
        "concurrent reads: the theorem models cells as relaxed atomics (one word); for the summer the correspondence additionally checks, on the real code under VRT (one 16-byte intrinsic access = one scheduled access), that every overlapping read equals (completed at the call) + a per-thread prefix of the overlapping contributions in BOTH components; that the hardware performs the aligned 128-bit access indivisibly is babylon's own assumption and is trusted",
    ]
    ctx.assumptions += [
        "fewer than 65409 thread ids of one type (tidEnd <= 65536 - 128): for_each narrows snapshot.size() to uint16_t; necessary, see for_each_u16_wrap_counterexample",
        "fewer than 2^64 - 1 resets of one maxer / miner (its version never reaches the slot's initial version SIZE_MAX)",
        "client contract: a counter is not destroyed / moved / reset while another thread counts into it",
    ]
    ctx.gen(["counter"])
    ctx.lake_build(["Babylon.Properties.C19"])
    ctx.audit("Babylon.Properties.C19")
    if not ctx.quick:
        ctx.leanchecker(["Babylon.Counter.Model", "Babylon.Properties.C19"])
    ctx.log("proofs built and audited")
    drv = ctx.driver("drv_C19")
    exe, log = build_vrt_exe("c19", SRCS, repo_cpp=REPO_CPP)
    ctx.log("driver and harness built")
    if exe is None:
        ctx.broke("correspondence", "harness/c19.cpp does not build against /repo", log[-800:])
        return
    if drv is None:
        return
    dist = {"verdicts": {}, "replay_ok": 0, "replay_diverge": 0, "oracle": 0, "races_by_design": 0,
            "events": {}, "totals": {}, "witness": 0, "corpus_seeds": 0, "corpus_traces": 0,
            "creads_overlapping_adds": 0}
    # hand-written histories: the driver must accept accept-*.trace and refuse reject-*.trace
    for f in sorted((VERIF / "corpus" / "C19").glob("*.trace")):
        txt = "\n".join(l for l in f.read_text().splitlines() if not l.startswith("#")) + "\n"
        out = subprocess.run([str(drv)], input=txt, capture_output=True, text=True).stdout.strip()
        dist["corpus_traces"] += 1
        want_ok = f.name.startswith("accept")
        if out.startswith("ok") != want_ok:
            ctx.broke("correspondence", "corpus/C19/" + f.name, "the model driver answered %r" % out[:300])
    # fixed cases first: the witnesses of the repaired defects, then the corpus seeds
    for mode in WITNESS:
        for r in ctx.econc(exe, None, [mode], 1, 1, chunk=1):
            dist["witness"] += 1
            classify(ctx, r, mode, dist, lockstep=False)
    n = 240 if ctx.quick else 4000
    if ctx.broken:
        n *= 4
    seed0 = ctx.seed * 1000003
    plan = [(s, {}) for s in corpus_seeds()]
    dist["corpus_seeds"] = len(plan)
    plan += [(seed0 + i, {}) for i in range(n)]
    plan += [(seed0 + n + i, {"VRT_STRATEGY": "pct"}) for i in range(n // 8)]
    distinct = set()
    samples = []
    found = 0   # failing inputs / divergences found by THIS search (a broken gen_* or proof obligation never shortens it)
    for env in ({}, {"VRT_STRATEGY": "pct"}):
        seeds = [s for s, e in plan if e == env]
        # (the harness forks one fresh process per history: the library's static allocators persist)
        runs = []
        i = 0
        while i < len(seeds):
            j = i
            while j + 1 < len(seeds) and seeds[j + 1] == seeds[j] + 1:
                j += 1
            runs += ctx.econc(exe, drv, ["hist"], seeds[i], j - i + 1, env=env)
            i = j + 1
        for r in runs:
            dist["verdicts"][r["verdict"]] = dist["verdicts"].get(r["verdict"], 0) + 1
            dist["races_by_design"] += len(r["races"])
            ok = classify(ctx, r, "hist", dist)
            found += 0 if ok else 1
            st = {}
            reading = None
            for l in r["lines"]:
                w = l.split()
                if len(w) > 4 and w[1] == "ev" and w[3] == "cread":
                    if w[2] == "call":
                        reading = [w[4], False]
                    else:
                        dist["creads_overlapping_adds"] += 1 if reading and reading[1] else 0
                        reading = None
                elif reading and len(w) > 4 and w[1] == "ev" and w[3] == "add" and w[4] == reading[0]:
                    reading[1] = True
                if len(w) > 2 and w[1] == "ev":
                    k = w[2] if w[2] not in ("call", "ret") else w[2] + "-" + w[3]
                    dist["events"][k] = dist["events"].get(k, 0) + 1
                    if w[2] == "stats":
                        st = dict(zip(w[3::2], (int(x) for x in w[4::2])))
            for k, v in st.items():
                dist["totals"][k] = dist["totals"].get(k, 0) + v
            if ok and st.get("reuse_inst", 0) > 0 and st.get("reuse_tid", 0) > 0 and st.get("threads", 0) >= 3:
                distinct.add(sha("\n".join(l for l in r["lines"] if " ev stats" not in l)))
            if not samples and len(r["lines"]) > 80:
                samples.append(r["lines"][:80])
            if found > 8:
                break
    ctx.log("histories replayed: %d ok, %d diverged, %d oracle failures" % (dist["replay_ok"], dist["replay_diverge"], dist["oracle"]))
    ctx.cov["distribution"] = dist
    ctx.cov["distinct_nontrivial"] = len(distinct)
    ctx.cov["traces_validated_against_impl"] = dist["replay_ok"]
    ctx.cov["rule"] = ("one case = one seeded history in a fresh process: 3-6 generations of 1-6 real threads (30% live 2-3 generations; the main thread counts too), "
                       "counters of 6 kinds (adder, summer, maxer, miner, bare EnumerableThreadLocal, bare CompactEnumerableThreadLocal) created / destroyed (60% followed by an "
                       "immediate re-creation that recycles the id) / move-constructed / move-assigned / reset by the main thread between generations and, in half of the phases, "
                       "while the workers count; bursts of 10-40 compact instances cross the cache-line boundary, seeds = 0 mod 16 create 516 summers, = 0 mod 64 1030 adders (second storage of the family); "
                       "every live counter is read at every quiescent point; in half of the phases the workers hammer one hot counter (70% a summer) while the main thread reads it 4-11 times, each such read checked against the per-thread-prefix sets; schedules: seeded random with 5 stickiness "
                       "levels, or PCT.  Non-trivial = the history recycled an instance id and a thread id and had >= 3 threads, and replayed; distinct by event-trace hash")
    ctx.cov["samples"] = samples or [["<no sample>"]]


def replay(ctx, path):
    txt = Path(path).read_text()
    m = re.search(r"mode=(\S+) seed=(\d+)", txt)
    mode, seed = m.group(1), int(m.group(2))
    exe, log = build_vrt_exe("c19", SRCS, repo_cpp=REPO_CPP)
    drv = ctx.driver("drv_C19")
    env = {"VRT_STRATEGY": "pct"} if "env=pct" in txt else {}
    runs = ctx.econc(exe, drv if mode == "hist" else None, [mode], seed, 1, chunk=1, env=env)
    r = runs[0]
    print("\n".join(r["lines"]))
    print("verdict:", r["verdict"], "replay:", r["replay"], "oracle:", r["oracle"])
    return 1 if (r["oracle"] or r["verdict"] != "ok" or (r["replay"] and not r["replay"].startswith("ok"))) else 0


MANIFEST = {
    "technique": "Lean 4 proof (refinement of a history model of the thread-local storage — id allocators by specification, storage lines, per-thread cache — to reference counters, by invariants over all histories; a small-step model of single-writer cells for reads that overlap adds) + translator-pinned source text / constants + history replay of real executions (real threads under a deterministic scheduler)",
    "text": "Theorems in lean/Babylon/Properties/C19.lean hold for every history of thread start/exit, counter creation/destruction/move/reset and counting, with every admissible choice of recycled thread / instance ids; every event of the model is one call of the real API, and each run replays histories of the real counters event by event on the model, comparing every location local() returns and every value read",
    "note": "Trusted: Lean kernel + 3 standard axioms; gen/counter.py; vrt/; C14's allocator specification (assumed, stated in Model.lean); harness address mapping and reference arithmetic; Z arithmetic (no overflow); explicit hypothesis tidEnd <= 65408 (uint16_t narrowing in for_each, shown necessary)",
}
