"""C08 — Future / Promise / CountDownLatch: the value reaches every waiter and callback exactly once.

proof:          lean/Babylon/Properties/C08.lean over the atomic-granularity model Babylon/Future/Model.lean
                (one step = one atomic operation / futex call / clock read / harness-visible event)
translator:     gen/future.py (READY_MASK, SEALED_HEAD_VALUE, atomic skeletons with memory orders of set_value, seal,
                get, wait_for, on_finish, wait_slow, wait_for_slow, count_down; shapes of the deadline arithmetic)
correspondence: E-CONC L1 — harness/c08.cpp runs the real Promise/Future/CountDownLatch under VRT (deterministic
                schedules, virtual time, futex emulation, spurious weak-CAS failures); every trace is replayed in
                lock-step by lean/Drivers/C08.lean; the harness evaluates the property's oracle itself and VRT's
                happens-before monitor watches the value storage (vrt_payload).
"""
from vlib.core import *

SRCS = ["harness/c08.cpp"]
FEATURES = [(n, re.compile(rx, re.M)) for n, rx in [
    ("cas_lost_to_seal", r" casw head \S+ \S+ \d+ \d+ 0 18446744073709551615$"),
    ("cas_retry", r" casw head \S+ \S+ \d+ \d+ 0 (?!18446744073709551615)\d+$"),
    ("inline_after_seal", r" ld head acq 18446744073709551615$"),
    ("slept", r" fwait futex \d+ sleep"),
    ("eagain", r" fwait futex \d+ eagain"),
    ("eagain_ready", r" fwait futex \d+ eagain 21474836\d\d"),
    ("timeout_wake", r" fwoke futex timeout$"),
    ("wake_all", r" fwake futex 99 [1-9]"),
    ("wake_none_asleep", r" fwake futex 99 0$"),
    ("waitfor_false", r" ev ret waitfor 0$"),
    ("waitfor_true_slow", r"^(\d+) ev clock \d+\n(?:(?!\1 ev ret).*\n)*\1 ev ret waitfor 1$"),
    ("waitfor_max", r" ev call waitfor 9223372036854775807$"),
    ("mark_after_ready", r" rmw or futex acq 21474836\d\d 1$"),
    ("cb_by_setter", r"^(\d+) xchg futex .*\n(?:.*\n)*?\1 ev cb "),
    ("latch_fire", r" rmw sub count acqrel (\d+) \1$"),
]]
INTERFERENCE = ("cas_lost_to_seal", "cas_retry", "slept", "eagain", "timeout_wake", "mark_after_ready")


def warm():
    build_vrt_exe("c08", SRCS)


def _load_corpus():
    out = []
    d = VERIF / "corpus" / "C08"
    for f in sorted(d.glob("*.txt")):
        for line in f.read_text().splitlines():
            line = line.split("#")[0].strip()
            if not line:
                continue
            parts = line.split()
            env = dict(p.split("=", 1) for p in parts[3:])
            out.append((parts[0], int(parts[1]), int(parts[2]), env))
    return out


def _classify(ctx, what, env, runs, lockstep, dist, distinct, samples, base):
    tag = what.split(":")[1] if what.startswith("prog:") else what
    for r in runs:
        dist["verdicts"][r["verdict"]] = dist["verdicts"].get(r["verdict"], 0) + 1
        dist["max_trace"] = max(dist["max_trace"], len(r["lines"]))
        body = "\n".join(r["lines"])
        feats = [name for name, rx in FEATURES if rx.search(body)]
        for name in feats:
            dist["features"][name] = dist["features"].get(name, 0) + 1
        nthreads = sum(1 for l in r["lines"] if " spawn " in l)
        dist["threads"][nthreads] = dist["threads"].get(nthreads, 0) + 1
        if any(f in INTERFERENCE for f in feats):
            distinct.add(sha("\n".join(l for l in r["lines"] if " ev stats" not in l)))
        hdr = " ".join(r["header"])
        text = "what=%s seed=%d env=%s\n# %s\n%s" % (what, r["seed"], env, hdr, "\n".join(r["lines"][-400:]))
        if r["oracle"]:
            dist["oracle"] += 1
            kind = r["oracle"][0].split("ORACLE", 1)[1].split()[0]
            ctx.failing_input("oracle:%s:%s" % (tag, kind), text)
        elif r["races"]:
            dist["races"] += 1
            ctx.failing_input("race:%s:value-read-not-ordered-after-set_value" % tag, text)
        elif r["verdict"] != "ok":
            ctx.failing_input("verdict:%s:%s" % (tag, r["verdict"].split()[0]), text + "\n" + r.get("stderr", ""))
        elif lockstep:
            if r["replay"] and r["replay"].startswith("ok"):
                dist["replay_ok"] += 1
            else:
                dist["replay_diverge"] += 1
                if dist["replay_diverge"] <= 5:   # keep looking for a failing input, but do not repeat the same divergence
                    ctx.broke("correspondence", "E-CONC lock-step c08 what=%s seed=%d" % (what, r["seed"]), "%s\n%s" % (r["replay"], text))
        if len(samples) < 1 and "slept" in feats and "cas_lost_to_seal" in feats:
            samples.append(r["lines"][:80])
        if len(ctx.failing) > 8:
            return False
    return True


def run(ctx):
    ctx.cov["trusted_base"] += [
        "vrt/vrt.cpp (TSan-ABI interposition, deterministic scheduler, virtual clock, futex emulation, vector-clock race monitor) and the TSan-instrumented build (differs from production in the places listed in DESIGN 3.3)",
        "the protocol theorems (exactly-once, no lost wake-up, wait_for, latch) are over sequentially consistent interleavings at atomic-operation granularity; publication of the value is additionally proved over the release/acquire view model of Core/MemView.lean with stale reads (fut_publication_view, fut_publication_view_hb; negative controls with a relaxed publishing / observing operation), with the orders taken from the generated constants (gen_view_orders); dynamically: trace equality of orders, HB race monitor on the value storage, VRT view-mode oracle pass",
        "view model strengthenings S1-S3 of Core/MemView.lean (modification order = execution order, no load buffering, seq_cst RMW = SC fence); the value storage (a plain object) is modelled as a location written once and read with relaxed accesses: 'reader sees the value' = the reader's view contains the write, so no admissible read returns the unconstructed content",
        "kernel futex contract as modelled: FUTEX_WAIT sleeps only if the word equals the expected value, FUTEX_WAKE(INT32_MAX) wakes every sleeper, spurious wake-ups allowed; clock_gettime(CLOCK_MONOTONIC) succeeds, is monotone and stays below 2^63 ns",
        "`then` is checked compositionally: it is an on_finish of a wrapping callback plus a set_value on a second, separately modelled promise; the chained future is checked by the harness oracle only",
    ]
    ctx.assumptions += ["client contract: set_value at most once per promise; count_down arguments >= 1 summing to at most the initial count"]
    ctx.gen(["future"])
    ctx.log("gen done")
    ctx.lake_build(["Babylon.Properties.C08"])
    ctx.log("lake build done")
    ctx.audit("Babylon.Properties.C08")
    ctx.log("audit done")
    if not ctx.quick:
        ctx.leanchecker(["Babylon.Future.Model", "Babylon.Properties.C08"])
    drv = ctx.driver("drv_C08")
    exe, log = build_vrt_exe("c08", SRCS)
    if exe is None:
        ctx.broke("correspondence", "harness/c08.cpp does not build against /repo", log[-800:])
        return
    ctx.log("driver + harness built")
    n = 1000 if ctx.quick else 20000
    if ctx.broken:
        n *= 5
    seed0 = ctx.seed * 1000003
    dist = {"modes": {}, "verdicts": {}, "features": {}, "threads": {}, "replay_ok": 0, "replay_diverge": 0, "oracle": 0, "races": 0, "max_trace": 0}
    distinct = set()
    samples = []
    plan = [(w, s, c, e) for (w, s, c, e) in _load_corpus()]
    ncorpus = len(plan)
    plan += [("promise", seed0, n, {}), ("latch", seed0, n, {}),
             ("promise", seed0 + n, n // 2, {"VRT_STRATEGY": "pct"}), ("latch", seed0 + n, n // 2, {"VRT_STRATEGY": "pct"}),
             ("promise", seed0 + 2 * n, n // 2, {"VRT_CAS_WEAK_FAIL": "2", "VRT_STICK": "0"}),
             ("latch", seed0 + 2 * n, n // 3, {"VRT_STICK": "0"})]
    base = len(ctx.broken)
    for i, (what, s0, cnt, env) in enumerate(plan):
        runs = ctx.econc(exe, drv, [what], s0, cnt, env=env)
        key = ("corpus:" if i < ncorpus else "") + what.split(":")[0 if not what.startswith("prog:") else 1] + ("/" + ",".join("%s=%s" % kv for kv in sorted(env.items())) if env else "")
        dist["modes"][key] = dist["modes"].get(key, 0) + len(runs)
        if not _classify(ctx, what, env, runs, True, dist, distinct, samples, base):
            break
    ctx.log("SC lock-step pass done: %d runs" % ctx.cov["evaluations"])
    # weak-memory pass (oracle only: stale loads are not replayable against the SC model): VRT serves loads from the
    # release/acquire view model, so a weakened order in set_value / on_finish / wait_slow becomes a failing schedule
    nv = n // 2
    dist["view"] = {"runs": 0, "stale_reads": 0}
    for what, s0, cnt in [("promise", seed0 + 3 * n, nv), ("latch", seed0 + 3 * n, nv)] + [(w, s, c) for (w, s, c, e) in _load_corpus() if not e]:
        env = {"VRT_MEM": "view"}
        runs = ctx.econc(exe, None, [what], s0, cnt, env=env)
        dist["view"]["runs"] += len(runs)
        for r in runs:
            for l in r["lines"]:
                m = re.search(r" ev stats .* stale (\d+)", l)
                if m:
                    dist["view"]["stale_reads"] += int(m.group(1))
        if not _classify(ctx, what, env, runs, False, dist, distinct, samples, base):
            break
    ctx.log("view pass done")
    # regression for the fixed waiter-count carry (pre-fix code: ORACLE waitfor-true-unset / waiter-count-grows)
    wr = ctx.econc(exe, drv, ["wrap"], 1, 3)
    dist["modes"]["wrap"] = len(wr)
    _classify(ctx, "wrap", {}, wr, True, dist, distinct, samples, base)
    ctx.cov["distribution"] = dist
    ctx.cov["distinct_nontrivial"] = len(distinct)
    ctx.cov["traces_validated_against_impl"] = dist["replay_ok"]
    ctx.cov["rule"] = ("one case = one program (main thread: 0-2 on_finish/then + optional ready/wait_for before the threads start; 1 setter thread with "
                       "optional yield / 1 us / 2 s virtual delay (latch: count 0-4 split over 1-3 threads and 1-4 count_down calls); 0-3 waiter threads "
                       "x 1-4 get / wait_for / ready with timeouts {-5, 0, 1 ns, 1 us, 1 s, nanoseconds::max()}; 0-3 registrant threads x 1-2 "
                       "on_finish / then; main after join: 0-2 registrations, get, wait_for, ready) under one seeded schedule (random with 5 stickiness "
                       "levels, PCT, or stick=0 with weak-CAS spurious failure 1/2); non-trivial = threads really interfered on the two words: a "
                       "registration CAS failed (retry or lost to the sealing exchange), a waiter slept / got EAGAIN / timed out, or marked the "
                       "futex word after READY; distinct by trace hash")
    ctx.cov["samples"] = samples or [["<no sample>"]]


def replay(ctx, path):
    txt = Path(path).read_text()
    m = re.search(r"what=(\S+) seed=(\d+) env=(\{.*\})", txt)
    what, seed, env = m.group(1), int(m.group(2)), eval(m.group(3))
    exe, log = build_vrt_exe("c08", SRCS)
    drv = ctx.driver("drv_C08")
    r = ctx.econc(exe, drv, [what], seed, 1, env=env)[0]
    print("RUN " + " ".join(r["header"]))
    print("\n".join(r["lines"]))
    print("verdict:", r["verdict"], "replay:", r["replay"], "oracle:", r["oracle"], "races:", r["races"])
    return 1 if (r["oracle"] or r["races"] or r["verdict"] != "ok" or (r["replay"] and not r["replay"].startswith("ok"))) else 0


MANIFEST = {
    "technique": "Lean 4 proof (invariants over all interleavings of an atomic-granularity transition system with virtual clock and futex contract) + translator-generated skeleton/order/shape obligations + lock-step replay of real executions under a deterministic scheduler with virtual time + happens-before race monitor on the value storage",
    "text": "Theorems in lean/Babylon/Properties/C08.lean hold for every interleaving, thread count, timeout and call history of the model; each model step is one atomic operation / futex call / clock read of the real code, and every trace of the real Promise/Future/CountDownLatch produced under VRT is checked to be a path of the model (same operation, location, memory order, values, timeouts, callback order)",
    "note": "Trusted: Lean kernel + 3 standard axioms; gen/future.py; vrt/ (scheduler, virtual time, futex emulation, TSan-ABI build); SC interleavings only (orders tied statically + HB ghost + race monitor); futex/clock contracts as modelled",
}
