"""C13 — coroutines: each suspension resumed exactly once, on its executor, right result; coroutine futex
wake_one / wake_all / cancel / non-matching wait / no bookkeeping leak.

proof:          lean/Babylon/Properties/C13.lean over Babylon/Coro/{Futex,Cancel,Await}.lean
translator:     gen/coro.py (whole statement lists of wake_one / wake_all / add_awaiter / remove_awaiter /
                await_suspend / cancel / BasicCancellable / final_suspend / Task::await_suspend / future awaitable;
                the shape flags wakeAllNextFirst, wakeOneSavesNext, waitFailRecycles)
correspondence: E-CONC — harness/c13.cpp runs the real coroutine Futex, Cancellable<Task<int>> and task / future
                awaits on the inplace executor and on 1-2 ThreadPoolExecutors under VRT (deterministic
                schedules; plain accesses to Node::next are scheduling points and trace lines); every trace
                is replayed in lock-step by lean/Drivers/C13.lean (futex: L1 on mutex / slot version CAS /
                slot id pop-mint-push / out-of-lock next reads + L2 events; cancel / await: L2 events + the
                decisive take CAS); the harness evaluates the property's oracles itself.
"""
from vlib.core import *

SRCS = ["harness/c13.cpp"]
REPO_CPP = ["babylon/executor.cpp", "babylon/basic_executor.cpp", "babylon/coroutine/*.cpp", "babylon/concurrent/*.cpp"]
CORPUS = VERIF / "corpus" / "C13"
# a normal run needs < 3000 scheduling points; a corrupted waiter list makes wake_all spin under the lock
BASE_ENV = {"VRT_STEP_LIMIT": "60000"}


def warm():
    build_vrt_exe("c13", SRCS, repo_cpp=REPO_CPP)


def _corpus_cases():
    out = []
    for f in sorted(CORPUS.glob("*.txt")):
        for line in f.read_text().splitlines():
            line = line.strip()
            if not line or line.startswith("#"):
                continue
            kv = dict(w.split("=", 1) for w in line.split())
            args = [kv["mode"]] + (["corpus", kv["corpus"]] if "corpus" in kv else [])
            out.append((f.name, args, int(kv.get("seed", 1)), int(kv.get("n", 1))))
    return out


def _nontrivial(mode, lines):
    """a case counts when actors really interfered"""
    if mode == "futex":
        failed_take = any(l.split()[1] == "cas" and l.split()[-2] == "0" for l in lines if " cas ver" in l)
        cancel_won = any(" ev ret cancel 1" in l for l in lines)
        multi = any(" ev ret wake_all " in l and int(l.split()[-1]) >= 2 for l in lines)
        inline_nonmatch = sum(1 for l in lines if " ev token " in l) < sum(1 for l in lines if " ev wait " in l)
        return failed_take or cancel_won or multi or inline_nonmatch
    if mode == "cancel":
        return any(" cas cver" in l and l.split()[-2] == "0" for l in lines)
    if mode == "await":
        return any(" ev aresumed " in l for l in lines) and any(" ev call fset" in l for l in lines)
    return False


def _trace_oracle(lines):
    """Oracles evaluated on the trace of the implementation (exact, because VRT serialises the execution):
    a wait was parked (its `on_suspend` token exists) although the futex word differed from the expected value
    during the whole critical section of add_awaiter (from `lock` to `unlock`, no store in between)."""
    val = {}
    pend_by_tid = {}
    pend_by_h = {}
    out = []
    for l in lines:
        w = l.split()
        if len(w) < 2:
            continue
        tid, kind = w[0], w[1]
        if kind == "ev" and len(w) >= 6 and w[2] == "wait":
            p = {"h": w[3], "f": w[4], "v": int(w[5]), "state": 0, "changed": False, "at_lock": None}
            pend_by_tid[tid] = p
            pend_by_h[w[3]] = p
        elif kind == "st" and w[2].startswith("val"):
            f = w[2][3:]
            val[f] = int(w[4])
            for p in pend_by_h.values():
                if p["f"] == f and p["state"] == 1:
                    p["changed"] = True
        elif kind == "lock" and w[2].startswith("m"):
            p = pend_by_tid.get(tid)
            if p and p["state"] == 0 and p["f"] == w[2][1:]:
                p["state"] = 1
                p["at_lock"] = val.get(p["f"], 0)
        elif kind == "unlock" and w[2].startswith("m"):
            p = pend_by_tid.get(tid)
            if p and p["state"] == 1 and p["f"] == w[2][1:]:
                p["state"] = 2
                pend_by_tid.pop(tid, None)
        elif kind == "ev" and len(w) >= 4 and w[2] == "token":
            p = pend_by_h.get(w[3])
            if p and p["state"] == 2 and not p["changed"] and p["at_lock"] != p["v"]:
                out.append("ORACLE nonmatching-parked frame %s parked by wait(%d) on futex %s whose word was %d during the whole critical section" % (
                    p["h"], p["v"], p["f"], p["at_lock"]))
                p["state"] = 3
            elif p and p["state"] == 0 and val.get(p["f"], 0) != p["v"]:
                # the wait never took the mutex with a comparison inside: parked without any check under the lock
                pass
    return out


def _classify(ctx, mode, args, env, r, dist, distinct, lockstep=True):
    dist["verdicts"][r["verdict"]] = dist["verdicts"].get(r["verdict"], 0) + 1
    dist["max_trace"] = max(dist["max_trace"], len(r["lines"]))
    text = "args=%s seed=%d env=%s\n%s" % (" ".join(args), r["seed"], env, "\n".join(r["lines"][-500:]))
    if _nontrivial(mode, r["lines"]):
        distinct.add(sha("\n".join(l for l in r["lines"] if " ev stats" not in l)))
    tor = _trace_oracle(r["lines"]) if mode == "futex" else []
    if r["oracle"]:
        dist["oracle"] += 1
        kind = r["oracle"][0].split("ORACLE", 1)[1].split()[0]
        ctx.failing_input("oracle:%s:%s" % (mode, kind), text)
    elif tor:
        dist["oracle"] += 1
        ctx.failing_input("oracle:%s:%s" % (mode, tor[0].split()[1]), text + "\n" + "\n".join(tor))
    elif r["races"]:
        dist["oracle"] += 1
        ctx.failing_input("oracle:%s:race" % mode, text)
    elif r["verdict"] != "ok":
        ctx.failing_input("verdict:%s:%s" % (mode, r["verdict"].split()[0]), text + "\n" + r.get("stderr", ""))
    elif lockstep:
        if r["replay"] and r["replay"].startswith("ok"):
            dist["replay_ok"] += 1
        else:
            dist["replay_diverge"] += 1
            ctx.broke("correspondence", "E-CONC lock-step c13 %s seed=%d" % (" ".join(args), r["seed"]), "%s\n%s" % (r["replay"], text))


def run(ctx):
    ctx.cov["trusted_base"] += [
        "vrt/vrt.cpp (TSan-ABI interposition, deterministic scheduler, mutex / futex emulation, payload scheduling points and payload trace lines) and the TSan-instrumented build",
        "executions are sequentially consistent interleavings; the futex protocol is mutex-protected (plain accesses ordered by the lock are checked by the HB race monitor on Node::next), the take CAS is relaxed and single-location",
        "DepositBox specification (fresh version per emplace, single taker, stale ids never match: property C14) and Future on_finish specification (callback exactly once: C08) are assumed by the models, not imported",
        "C++ coroutine frame mechanics (suspension before await_suspend, symmetric transfer, frame destruction) are modelled, not verified; frame lifetime is outside the statement",
        "ThreadPoolExecutor / InplaceExecutor run every accepted closure exactly once under their RunnerScope (property C07)",
    ]
    ctx.gen(["coro"])
    ctx.lake_build(["Babylon.Properties.C13"])
    ctx.audit("Babylon.Properties.C13")
    if not ctx.quick:
        ctx.leanchecker(["Babylon.Coro.Futex", "Babylon.Coro.Cancel", "Babylon.Coro.Await", "Babylon.Properties.C13"])
    drv = ctx.driver("drv_C13")
    exe, log = build_vrt_exe("c13", SRCS, repo_cpp=REPO_CPP)
    if exe is None:
        ctx.broke("correspondence", "harness/c13.cpp does not build against /repo", log[-1200:])
        return
    dist = {"modes": {}, "verdicts": {}, "replay_ok": 0, "replay_diverge": 0, "oracle": 0, "max_trace": 0,
            "takes_failed": 0, "cancel_won": 0, "cancel_lost": 0, "wake_one_0": 0, "wake_one_1": 0, "wake_all_ge2": 0,
            "nonmatching_waits": 0, "slot_reuse_runs": 0, "pool_runs": 0}
    distinct = set()
    samples = []

    def account(mode, runs):
        for r in runs:
            for l in r["lines"]:
                if " cas ver" in l or " cas cver" in l:
                    if l.split()[-2] == "0":
                        dist["takes_failed"] += 1
                elif " ev ret cancel 1" in l or " ev ret ccancel 1" in l:
                    dist["cancel_won"] += 1
                elif " ev ret cancel 0" in l or " ev ret ccancel 0" in l:
                    dist["cancel_lost"] += 1
                elif " ev ret wake_one 0" in l:
                    dist["wake_one_0"] += 1
                elif " ev ret wake_one 1" in l:
                    dist["wake_one_1"] += 1
                elif " ev ret wake_all " in l and int(l.split()[-1]) >= 2:
                    dist["wake_all_ge2"] += 1
            if mode == "futex":
                nw = sum(1 for l in r["lines"] if " ev wait " in l)
                nt = sum(1 for l in r["lines"] if " ev token " in l)
                dist["nonmatching_waits"] += max(0, nw - nt)
                slots = [l.split()[2] for l in r["lines"] if " st ver" in l]
                if len(slots) != len(set(slots)):
                    dist["slot_reuse_runs"] += 1
            if r["header"] and any(h.startswith("pools=") and h != "pools=0" for h in r["header"]):
                dist["pool_runs"] += 1

    # corpus first
    for name, args, seed, n in _corpus_cases():
        runs = ctx.econc(exe, drv, args, seed, n, env=BASE_ENV)
        dist["modes"]["corpus:" + name] = len(runs)
        account(args[0], runs)
        for r in runs:
            _classify(ctx, args[0], args, {}, r, dist, distinct)
    n = 1200 if ctx.quick else 20000
    if ctx.broken:
        n *= 5
    seed0 = ctx.seed * 1000003
    plan = [("futex", n, {}), ("futex", n // 3, {"VRT_STRATEGY": "pct"}), ("cancel", n // 2, {}), ("await", n // 3, {})]
    for mode, cnt, env in plan:
        runs = ctx.econc(exe, drv, [mode], seed0, cnt, env=dict(BASE_ENV, **env))
        dist["modes"][mode + ("/pct" if env else "")] = len(runs)
        account(mode, runs)
        for r in runs:
            _classify(ctx, mode, [mode], env, r, dist, distinct)
            if len(samples) < 1 and mode == "futex" and 60 < len(r["lines"]) < 140:
                samples.append(r["lines"][:80])
            if len(ctx.failing) > 12:
                break
    ctx.cov["distribution"] = dist
    ctx.cov["distinct_nontrivial"] = len(distinct)
    ctx.cov["traces_validated_against_impl"] = dist["replay_ok"]
    ctx.cov["rule"] = ("one case = one seeded program under one seeded schedule (random with 5 stickiness levels, or PCT). futex: 1-2 futexes, 1-4 "
                       "coroutines x 1-3 waits (20% non-matching) on the inplace executor / 0-2 thread pools, 1-3 client threads x 2-7 ops of wake_one / "
                       "wake_all / cancel (fresh and stale tokens) / futex-word store / yield, DepositBox preset to 0, 2 or 16 minted slots, then a drain; "
                       "cancel: 1-3 Cancellable<Task<int>> awaits whose inner task is gated by a futex, 1-3 clients cancelling / completing; await: 1-4 "
                       "awaits of a task (same / other / inherited executor) or of a Future set by a client before, during or after registration. "
                       "non-trivial = actors interfered (a failed take, a winning cancel, a wake_all of >= 2 waiters, a non-suspending wait; cancel mode: a lost "
                       "take; await mode: a future set concurrently); distinct by trace hash")
    ctx.cov["samples"] = samples or [["<no sample>"]]


def replay(ctx, path):
    txt = Path(path).read_text()
    m = re.search(r"args=([^\n]*?) seed=(\d+) env=(\{.*\})", txt)
    args, seed, env = m.group(1).split(), int(m.group(2)), eval(m.group(3))
    exe, log = build_vrt_exe("c13", SRCS, repo_cpp=REPO_CPP)
    drv = ctx.driver("drv_C13")
    runs = ctx.econc(exe, drv, args, seed, 1, env=dict(BASE_ENV, **env))
    r = runs[0]
    print("\n".join(r["lines"]))
    tor = _trace_oracle(r["lines"]) if args[0] == "futex" else []
    print("verdict:", r["verdict"], "replay:", r["replay"], "oracle:", r["oracle"] + tor, "races:", r["races"])
    return 1 if (tor or r["oracle"] or r["races"] or r["verdict"] != "ok" or (r["replay"] and not r["replay"].startswith("ok"))) else 0


MANIFEST = {
    "technique": "Lean 4 proof (inductive invariants over all interleavings of transition systems whose steps are exactly the scheduling points of the real code) + translator-generated statement-list / shape obligations + lock-step replay of real executions under a deterministic scheduler",
    "text": "Theorems in lean/Babylon/Properties/C13.lean hold for every interleaving, number of coroutines / client threads / futexes and history of earlier waits (slot reuse) of the models; every trace of the real coroutine Futex, Cancellable and task/future awaits produced under VRT is checked to be a path of the models (same operation, slot, version, outcome, pointer read, executor), and the harness evaluates the resume-once / lost-wake-up / leak / executor oracles on the implementation",
    "note": "Trusted: Lean kernel + 3 standard axioms; gen/coro.py; vrt/; DepositBox (C14), Future (C08) and executor (C07) specifications assumed; coroutine frame lifetime outside the statement",
}
