"""C05 — anyflow: a run equals sequential evaluation; each vertex runs at most once; closure finishes; reset re-initialises.

proof:          lean/Babylon/Properties/C05.lean
                L1  Babylon/Anyflow/Dep.lean     one GraphDependency at atomic granularity, three actors; finite state
                                                 space -> certified closed set (decide +kernel), dep_protocol_exhaustive
                L2  Babylon/Anyflow/Graph.lean   arbitrary finite DAG, vertex / data / closure mechanisms, dependencies
                                                 replaced by their proven specification; invariants over all schedules
translator:     gen/anyflow.py (increments +1/+2, case labels, terminal values, counters' initial values, SEALED, atomic
                skeletons with memory orders of dependency / vertex / data / closure / graph / executor functions)
correspondence: E-CONC under VRT, harness/c05.cpp on the real GraphBuilder / Graph / executors:
                L1  mode dep: one-dependency graph, the three actors on up to three threads, atomic lock-step replay
                L2  modes gated / gatedpool: external threads feed a RUNNING graph (also requested targets, while Graph::run
                    still binds / activates), parked vertex closures keep the closure open; up to 7 dependencies per vertex
                L2  modes graph / pool: random DAGs, inplace and thread-pool executor, asynchronous processors, inputs
                    emitted by other threads, run / reset x 1-3; every trace line on a named atomic and every harness
                    event is translated into an event of the L2 model and must be enabled (lean/Drivers/C05.lean);
                    final values are compared with the model and, after a successful run, with evalSeq.
                The harness evaluates the property's oracle on the implementation by itself (reference sequential
                evaluation in C++).
"""
from vlib.core import *

SRCS = ["harness/c05.cpp"]
REPO_CPP = ["babylon/anyflow/*.cpp", "babylon/*.cpp", "babylon/concurrent/*.cpp", "babylon/reusable/memory_resource.cpp",
            "babylon/reusable/page_allocator.cpp", "babylon/logging/*.cpp"]

FEATURES = [(n, re.compile(rx, re.M)) for n, rx in [
    # L1: which terminal value the activation saw, who told the source, second decrement, target activated by ready()
    ("act_new_m1", r" rmw add (?:dep|e\d+_\d+)\.wn acqrel 18446744073709551613 2$"),
    ("act_new_0_cond", r" rmw add (?:dep|e\d+_\d+)\.wn acqrel 18446744073709551614 2$"),
    ("act_new_0_nocond", r" rmw add (?:dep|e\d+_\d+)\.wn acqrel 18446744073709551615 1$"),
    ("act_new_1_cond", r" rmw add (?:dep|e\d+_\d+)\.wn acqrel 18446744073709551615 2$"),
    ("act_new_1_nocond", r" rmw add (?:dep|e\d+_\d+)\.wn acqrel 0 1$"),
    ("act_new_2", r" rmw add (?:dep|e\d+_\d+)\.wn acqrel 0 2$"),
    ("ready_to_0", r" rmw sub (?:dep|e\d+_\d+)\.wn acqrel 1 1$"),
    ("ready_before_activate", r" rmw sub (?:dep|e\d+_\d+)\.wn acqrel (?:0|1844674407370955161[45]) 1$"),
    ("seal_spurious", r" casw \S+\.closure acqrel acq 0 18446744073709551615 0 0$"),
    ("batch_ge2", r" rmw sub v\d+\.wn acqrel \d+ (?:[2-9])$"),
    ("act_cas_lost", r" cas v\d+\.act rlx rlx 0 1 0 1$"),
    ("bind_sealed", r" cas d\d+\.closure acqrel acq 0 777 0 18446744073709551615$"),
    ("finish_error", r" ev result -1$"),
    ("essential_or_empty_flush", r"^(\d+) ld (d\d+)\.closure acq 0\n(?:\1 cas \S+\.acq.*\n)?\1 ld \2\.closure rlx 0$"),
]]


RESURRECT = re.compile(r" rmw add ctx\.wvn acqrel 0 1$", re.M)


def _build():
    return build_exe("c05", SRCS, "vrt", REPO_CPP, extra_link=["-labsl_time_zone"],
                     extra_srcs_flags=[("vrt/vrt.cpp", ["-O1", "-g"])])


def warm():
    _build()


def _load_corpus():
    out = []
    d = VERIF / "corpus" / "C05"
    for f in sorted(d.glob("*.txt")):
        for line in f.read_text().splitlines():
            line = line.split("#")[0].strip()
            if not line:
                continue
            parts = line.split()
            env = dict(p.split("=", 1) for p in parts[3:])
            out.append((parts[0], int(parts[1]), int(parts[2]), env))
    return out


def _classify(ctx, mode, env, runs, dist, distinct, samples):
    tag = mode + ("/" + ",".join("%s=%s" % kv for kv in sorted(env.items())) if env else "")
    dist["modes"][tag] = dist["modes"].get(tag, 0) + len(runs)
    for r in runs:
        dist["verdicts"][r["verdict"]] = dist["verdicts"].get(r["verdict"], 0) + 1
        dist["max_trace"] = max(dist["max_trace"], len(r["lines"]))
        body = "\n".join(r["lines"])
        feats = [name for name, rx in FEATURES if rx.search(body)]
        for name in feats:
            dist["features"][name] = dist["features"].get(name, 0) + 1
        ncyc = len(re.findall(r" ev cycle ", body))
        dist["cycles"] += ncyc
        # `race` lines: the plain flags _established / _ready are vrt_payload (scheduling points); two threads storing the
        # same value to _established without ordering is what DESIGN calls the benign race — counted, not judged
        dist["plain_flag_race_lines"] += len(r["races"])
        nthreads = len(set(l.split()[0] for l in r["lines"] if l[:1].isdigit()))
        dist["threads"][str(nthreads)] = dist["threads"].get(str(nthreads), 0) + 1
        if mode != "dep":
            nv = len(re.findall(r" ev graph vertex ", body)) // max(1, ncyc)
            dist["vertices"][str(nv)] = dist["vertices"].get(str(nv), 0) + 1
            dist["invokes"] += len(re.findall(r" ev invoke ", body))
        # non-trivial: more than one thread really took part, or a dependency saw an action before its activation
        if nthreads > 1 or "ready_before_activate" in feats:
            distinct.add(sha("\n".join(l for l in r["lines"] if " ev stats" not in l)))
        text = "mode=%s seed=%d env=%s\n%s" % (mode, r["seed"], env, "\n".join(r["lines"][-600:]))
        if r["oracle"]:
            dist["oracle"] += 1
            kind = r["oracle"][0].split("ORACLE", 1)[1].split()[0]
            # known finding oracle:inject:dup-flush = "a vertex closure is created on a closure whose vertex count has
            # already returned to 0" (signature: `rmw add ctx.wvn acqrel 0 1`).  Its consequences are a second flush, a
            # processor started by the late emitter that is still running when wait() returns, or one that starts after it;
            # whichever of these three the harness reports first, it is that finding — and only with the signature present.
            if mode == "inject" and kind in ("wait-early", "start-after-wait", "dup-flush"):
                cyc = []          # the run/reset cycle in which the oracle fired
                for l in r["lines"]:
                    if " ev cycle " in l:
                        cyc = []
                    cyc.append(l)
                    if l == r["oracle"][0]:
                        break
                if RESURRECT.search("\n".join(cyc)):
                    kind = "dup-flush"
            ctx.failing_input("oracle:%s:%s" % ({"pool": "graph", "gatedpool": "gated"}.get(mode, mode), kind), text)
        elif r["verdict"] != "ok":
            ctx.failing_input("verdict:%s:%s" % (mode, r["verdict"].split()[0]), text + "\n" + r.get("stderr", ""))
        elif r["replay"] and r["replay"].startswith("ok"):
            dist["replay_ok"] += 1
        else:
            dist["replay_diverge"] += 1
            ctx.broke("correspondence", "E-CONC c05 mode=%s seed=%d" % (mode, r["seed"]), "%s\n%s" % (r["replay"], text))
        if len(samples) < 2 and 40 < len(r["lines"]) < 160 and (mode == "dep") == (len(samples) == 0):
            samples.append(r["lines"][:80])


def run(ctx):
    ctx.cov["trusted_base"] += [
        "vrt/vrt.cpp (TSan-ABI interposition, deterministic scheduler, futex/mutex emulation) and the TSan-instrumented build (differs from production in the places listed in DESIGN 3.3)",
        "executions are sequentially consistent interleavings at atomic-operation granularity; memory orders are tied statically (generated skeleton obligations) and dynamically by trace equality in the L1 lock-step; weak-memory reorderings are not simulated for this property",
        "L2 replaces each GraphDependency by its specification (proved for one dependency in L1) and the executor by 'a runnable vertex is run later by some thread'; the translation of trace lines into L2 events in lean/Drivers/C05.lean is thin but trusted",
        "plain (non-atomic) accesses to _established / _ready / GraphData::_active are modelled as part of the preceding atomic step; mutable-dependency conflict detection, channels and trivial vertices are not covered",
    ]
    ctx.gen(["anyflow"])
    ctx.lake_build(["Babylon.Properties.C05"])
    ctx.audit("Babylon.Properties.C05")
    if not ctx.quick:
        ctx.leanchecker(["Babylon.Anyflow.Dep", "Babylon.Anyflow.DepLemmas", "Babylon.Anyflow.Graph", "Babylon.Anyflow.GraphSem",
                         "Babylon.Anyflow.GraphLemmas", "Babylon.Anyflow.GraphTerm", "Babylon.Anyflow.View", "Babylon.Properties.C05"])
    drv = ctx.driver("drv_C05")
    exe, log = _build()
    if exe is None:
        ctx.broke("correspondence", "harness/c05.cpp does not build against /repo", log[-1500:])
        return
    if drv is None:
        return
    dist = {"modes": {}, "verdicts": {}, "features": {}, "threads": {}, "vertices": {}, "cycles": 0, "invokes": 0, "plain_flag_race_lines": 0,
            "replay_ok": 0, "replay_diverge": 0, "oracle": 0, "max_trace": 0}
    distinct = set()
    samples = []
    for mode, seed, cnt, env in _load_corpus():
        runs = ctx.econc(exe, drv, [mode], seed, cnt, env=env)
        _classify(ctx, mode, env, runs, dist, distinct, samples)
    n = 1200 if ctx.quick else 20000
    known = set(k for k, _ in ctx._known())
    if ctx.broken or any(k not in known for k, _ in ctx.failing):
        n *= 5      # something new is wrong: look harder for a concrete failing input
    seed0 = ctx.seed * 1000003
    # samedata / inject exercise the two known findings (keys oracle:samedata:code, oracle:inject:dup-flush); any other
    # oracle kind, verdict or replay divergence in these modes is a violation like everywhere else
    plan = [("dep", 3 * n, {}), ("dep", n, {"VRT_STRATEGY": "pct"}), ("graph", n, {}), ("pool", n, {}),
            ("pool", n // 2, {"VRT_STRATEGY": "pct"}), ("gated", n, {}), ("gated", n // 2, {"VRT_STICK": "0"}),
            ("gatedpool", n // 2, {}), ("samedata", n // 3, {}), ("inject", n // 3, {})]
    for mode, cnt, env in plan:
        if len([k for k, _ in ctx.failing if k not in known]) >= 5:
            break       # five concrete failing inputs are enough for the report
        runs = ctx.econc(exe, drv, [mode], seed0, cnt, env=env)
        _classify(ctx, mode, env, runs, dist, distinct, samples)
        if len([k for k, _ in ctx.failing if k not in known]) + len(ctx.broken) > 8:
            break
    ctx.cov["distribution"] = dist
    ctx.cov["distinct_nontrivial"] = len(distinct)
    ctx.cov["traces_validated_against_impl"] = dist["replay_ok"]
    ctx.cov["rule"] = ("one case = one seeded graph + plan (dep: one dependency with/without condition, on/unless, condition true/false/empty, each of "
                       "C/T absent / before the run / concurrent; graph, pool: 3-12 vertices, 0-6 dependencies per vertex, 45% conditional, 25% essential, "
                       "20% asynchronous processors, 60% std::string payloads (kept across reset), presets from the main or another thread changing from "
                       "cycle to cycle, processors failing with positive / negative codes on 1/19 of their inputs, 1-3 targets, pool 1-4 workers; gated: 25% external "
                       "producers fed by injector threads before / during / after activation incl. requested targets, up to 7 dependencies) run for 1-4 run/reset cycles on one instance, plain flags _established/_ready as scheduling points, "
                       "under one seeded schedule (random with 5 stickiness levels, or PCT) with spurious weak-CAS failures 1/8; non-trivial = at least two "
                       "threads took part or a dependency was decremented before its activation; distinct by trace hash")
    ctx.cov["samples"] = samples or [["<no sample>"]]


def replay(ctx, path):
    txt = Path(path).read_text()
    m = re.search(r"mode=(\S+) seed=(\d+) env=(\{.*\})", txt)
    mode, seed, env = m.group(1), int(m.group(2)), eval(m.group(3))
    exe, log = _build()
    drv = ctx.driver("drv_C05")
    runs = ctx.econc(exe, drv, [mode], seed, 1, env=env)
    r = runs[0]
    print("\n".join(r["lines"]))
    print("verdict:", r["verdict"], "replay:", r["replay"], "oracle:", r["oracle"])
    return 1 if (r["oracle"] or r["verdict"] != "ok" or (r["replay"] and not r["replay"].startswith("ok"))) else 0


MANIFEST = {
    "technique": "Lean 4 proof: exhaustive kernel-checked closed set for the finite one-dependency protocol + invariants over all schedules of a transition system for arbitrary DAGs + translator-generated constant/skeleton obligations + lock-step / event-level replay of real executions under a deterministic scheduler",
    "text": "Theorems in lean/Babylon/Properties/C05.lean: dep_protocol_exhaustive (every interleaving of activate / condition-ready / target-ready of one dependency notifies its vertex exactly once, only when resolvable), vertex_invoke_once, data_publish_once, closure_finish_flush, graph_safety, graph_eq_sequential, reset_reinit for every DAG, input, target set and schedule of the L2 model; every VRT trace of the real Graph is checked to be a path of the models",
    "note": "Trusted: Lean kernel + 3 standard axioms; gen/anyflow.py; vrt/ (scheduler, TSan-ABI build); SC interleavings only; L2 abstracts dependencies by their L1 specification and the executor by eventual execution; trace-to-event translation in the driver",
}
