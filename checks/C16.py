"""C16 — execution queue: items consumed once, one consumer at a time, none stranded; refused launches recover.

proof:          lean/Babylon/Properties/C16.lean over the model Babylon/ExecQ/Model.lean (`_events` at atomic
                granularity, executor outcome as a fault input, the bounded queue abstracted by its stated
                specification Q1-Q3)
translator:     gen/execq.py (atomic skeletons + memory orders of execute / signal_push_event / start_consumer /
                consume_until_empty / join, protocol constants, template flags of the two queue calls, slot layout)
correspondence: E-CONC — harness/c16.cpp runs the real ConcurrentExecutionQueue under VRT with 1-3 producers,
                capacity 1-4, InplaceExecutor, ThreadPoolExecutor and a fault-injecting executor; every trace is
                replayed by lean/Drivers/C16.lean: L1 lock-step on `_events`, L2 on the harness events, the
                queue's own index / slot-version lines tie the abstract queue steps; the harness evaluates the
                property's oracle on the implementation (exactly once, per-producer order, no overlapping consume
                calls, one consumer, join soundness, nothing lost after recovered refusals, no deadlock verdict).
"""
from vlib.core import *

SRCS = ["harness/c16.cpp"]
REPO_CPP = ["babylon/concurrent/*.cpp", "babylon/executor.cpp", "babylon/basic_executor.cpp"]
MODES = ["inline", "pool", "fault-inline", "fault-pool"]
# a healthy run takes < 3 000 scheduling points; a livelock (consumer or join spinning forever) is reported
# as `VERDICT step-limit` after this many instead of VRT's default 3 000 000
LIMIT = {"VRT_STEP_LIMIT": "60000"}
# directed modes: one producer parked between index claim and publish for >= 1200 consumer polls (about 75 000
# scheduling points with the inline executor)
STALL_LIMIT = {"VRT_STEP_LIMIT": "600000"}


def _env(mode, env):
    return dict(STALL_LIMIT if mode.startswith("stall") else LIMIT, **env)


def warm():
    build_vrt_exe("c16", SRCS, repo_cpp=REPO_CPP)


def _classify(ctx, r, mode, env, lockstep, dist, distinct):
    lines = r["lines"]
    dist["verdicts"][r["verdict"]] = dist["verdicts"].get(r["verdict"], 0) + 1
    dist["max_trace"] = max(dist["max_trace"], len(lines))
    ncasfail = sum(1 for l in lines if " cas events " in l and l.split()[-2] == "0")
    nref = sum(1 for l in lines if l.endswith("ev launch refuse"))
    nempty_exit = sum(1 for l in lines if " cas events " in l and l.split()[-2] == "1")
    dist["cas_fail_lines"] += ncasfail
    dist["refusals_injected"] += nref
    dist["consumer_exits_and_rollbacks"] += nempty_exit
    dist["launch_accept"] += sum(1 for l in lines if " ev launch accept" in l)
    dist["batches"] += sum(1 for l in lines if " ev cb_begin" in l)
    dist["joins"] += sum(1 for l in lines if l.endswith("ev join_begin"))
    # empty poll while an index is handed out but unpublished (the window of repair 0c66556): the consumer re-polls
    lastpop = {}
    nrepoll = 0
    for l in lines:
        w = l.split()
        if len(w) == 5 and w[1] == "ld" and w[2] == "popidx":
            lastpop[w[0]] = w[4]
        elif len(w) == 5 and w[1] == "ld" and w[2] == "pushidx" and lastpop.get(w[0]) not in (None, w[4]):
            nrepoll += 1
    dist["repoll_behind_unpublished_index"] += nrepoll
    hdr = " ".join(r["header"])
    m = re.search(r"cap=(\d+)", hdr)
    if m:
        dist["capacity"][m.group(1)] = dist["capacity"].get(m.group(1), 0) + 1
    m = re.search(r"prods=(\d+)", hdr)
    if m:
        dist["producers"][m.group(1)] = dist["producers"].get(m.group(1), 0) + 1
    if mode.startswith("stall"):
        dist["stall_polls"] = dist.get("stall_polls", 0) + nrepoll
    if ncasfail > 0 or nref > 0 or nrepoll > 0 or mode.startswith("wrap"):
        distinct.add(sha("\n".join(l for l in lines if " ev stats" not in l)))
    text = "mode=%s seed=%d env=%s\n%s\n%s" % (mode, r["seed"], env, hdr, "\n".join(lines[-600:]))
    if r["oracle"]:
        dist["oracle"] += 1
        kind = r["oracle"][0].split("ORACLE", 1)[1].split()[0]
        if sum(1 for k, _ in ctx.failing if k == "oracle:%s" % kind) < 2:
            ctx.failing_input("oracle:%s" % kind, text)
    elif r["verdict"] != "ok":
        key = "verdict:%s" % r["verdict"].split()[0]
        if sum(1 for k, _ in ctx.failing if k == key) < 2:
            ctx.failing_input(key, text + "\n" + r.get("stderr", ""))
    elif lockstep:
        if r["replay"] and r["replay"].startswith("ok"):
            dist["replay_ok"] += 1
        else:
            dist["replay_diverge"] += 1
            if dist["replay_diverge"] <= 4:
                    ctx.broke("correspondence", "E-CONC lock-step c16 mode=%s seed=%d" % (mode, r["seed"]), "%s\n%s" % (r["replay"], text))


def _corpus():
    out = []
    d = VERIF / "corpus" / "C16"
    if d.exists():
        for f in sorted(d.glob("*.txt")):
            for line in f.read_text().splitlines():
                line = line.split("#")[0].strip()
                if line:
                    w = line.split()
                    env = dict(x.split("=", 1) for x in w[2:])
                    out.append((w[0], int(w[1]), env))
    return out


def run(ctx):
    ctx.cov["trusted_base"] += [
        "vrt/vrt.cpp (TSan-ABI interposition, deterministic scheduler, futex/mutex/condvar emulation, virtual time) and the TSan-instrumented build (differs from production in the places listed in DESIGN 3.3)",
        "executions are sequentially consistent interleavings at atomic-operation granularity; the memory orders of the `_events` protocol are tied statically (generated skeleton / order obligations) and dynamically (the order is part of every replayed trace line); weak-memory reorderings are not simulated for this property",
        "the bounded queue is replaced by its specification Q1-Q3 stated at the top of lean/Babylon/ExecQ/Model.lean (indices handed out once in order; publish after the index, blocked while index >= head + capacity; the non-blocking batch pop removes a non-empty published prefix or returns 0 only when the head index is unpublished; values delivered are the values published) — C01's planned theorems, here an assumption checked on every replayed trace through the queue's index / slot-version lines",
        "no overflow of `_events`: the theorems range over executions with fewer than 2^evBits signals during one consumer activation (evBits = 64 pinned by gen_events_width; necessary for a narrow counter, see eq_events_wrap_counterexample)",
        "executor contract: invoke() returning 0 means the function runs exactly once later (inline or on another thread), non-zero means it never runs; C07 covers the real executors",
    ]
    ctx.gen(["execq"])
    ctx.lake_build(["Babylon.Properties.C16"])
    ctx.audit("Babylon.Properties.C16")
    if not ctx.quick:
        ctx.leanchecker(["Babylon.ExecQ.Model", "Babylon.Properties.C16"])
    drv = ctx.driver("drv_C16")
    exe, log = build_vrt_exe("c16", SRCS, repo_cpp=REPO_CPP)
    if exe is None:
        ctx.broke("correspondence", "harness/c16.cpp does not build against /repo", log[-800:])
        return
    n = 240 if ctx.quick else 5000
    if ctx.broken:
        n *= 3      # an obligation no longer checks: search harder for a concrete failing schedule
    seed0 = ctx.seed * 1000003
    dist = {"modes": {}, "verdicts": {}, "replay_ok": 0, "replay_diverge": 0, "oracle": 0, "cas_fail_lines": 0,
            "refusals_injected": 0, "repoll_behind_unpublished_index": 0, "consumer_exits_and_rollbacks": 0, "launch_accept": 0, "batches": 0, "joins": 0,
            "capacity": {}, "producers": {}, "max_trace": 0}
    distinct = set()
    samples = []
    # fixed interesting cases first
    for mode, seed, env in _corpus():
        for r in ctx.econc(exe, drv, [mode], seed, 1, env=_env(mode, env)):
            dist["modes"]["corpus"] = dist["modes"].get("corpus", 0) + 1
            _classify(ctx, r, mode, env, True, dist, distinct)
    nst = 4 if ctx.quick else 40
    if ctx.broken:
        nst *= 3
    plan = [("stall-inline", nst, {}), ("stall-pool", nst, {}), ("wrap-inline", 2 * nst, {}), ("wrap-pool", 2 * nst, {})] + [(m, n, {}) for m in MODES] + [("inline", n // 2, {"VRT_STRATEGY": "pct"}), ("fault-pool", n // 2, {"VRT_STRATEGY": "pct"}),
                                          ("fault-inline", n // 2, {"VRT_STICK": "0"})]
    for mode, cnt, env in plan:
        runs = ctx.econc(exe, drv, [mode], seed0, cnt, env=_env(mode, env))
        dist["modes"][mode + ("/" + ",".join("%s=%s" % kv for kv in env.items()) if env else "")] = len(runs)
        for r in runs:
            _classify(ctx, r, mode, env, True, dist, distinct)
            if len(samples) < 1 and mode == "fault-inline" and len(r["lines"]) > 60 and any("launch refuse" in l for l in r["lines"]):
                samples.append([" ".join(r["header"])] + r["lines"][:70])
    ctx.cov["distribution"] = dist
    ctx.cov["distinct_nontrivial"] = len(distinct)
    ctx.cov["traces_validated_against_impl"] = dist["replay_ok"]
    ctx.cov["rule"] = ("one case = one seeded configuration (1-3 producers each running 1-4 calls drawn from execute 70% / bare signal_push_event 10% / join 20%, "
                       "capacity hint 1-4 (real capacity 1, 2 or 4), optional concurrent join by the main thread, final join; executor = InplaceExecutor | "
                       "ThreadPoolExecutor with 1-2 workers | either behind a fault injector whose invoke fails per a PRNG bit-string of 1-8 bits with density 1/4-3/4, "
                       "refused callers re-signal after 0-2 yields; plus the directed modes stall-inline / stall-pool: producer A parked between claiming its index and "
                       "publishing it (blocking copy assignment of the item) for 1200 virtual ms = at least 1200 consumer polls while producer B publishes and signals behind it and a "
                       "third thread joins after B's execute returned; and wrap-inline / wrap-pool: `_events` preset to 2^32 - k (k = 1-4) while the first consumer is held inside the consume "
                       "function, k signals and one more execute — a counter narrower than 64 bits overflows and launches a second consumer) under one seeded schedule (random with 5 stickiness levels, PCT, or stickiness 0); "
                       "non-trivial = the trace contains a failed CAS on _events (a producer's signal interfered with the consumer's exit decision or with a roll-back) "
                       "or at least one injected refusal, or the consumer polled empty while an index was handed out but unpublished (the re-poll branch of repair 0c66556); "
                       "distinct by trace hash")
    ctx.cov["samples"] = samples or [["<no sample>"]]


def replay(ctx, path):
    txt = Path(path).read_text()
    m = re.search(r"mode=(\S+) seed=(\d+) env=(\{.*\})", txt)
    mode, seed, env = m.group(1), int(m.group(2)), eval(m.group(3))
    exe, log = build_vrt_exe("c16", SRCS, repo_cpp=REPO_CPP)
    drv = ctx.driver("drv_C16")
    r = ctx.econc(exe, drv, [mode], seed, 1, env=_env(mode, env))[0]
    print("RUN " + " ".join(r["header"]))
    print("\n".join(r["lines"]))
    print("verdict:", r["verdict"], "replay:", r["replay"], "oracle:", r["oracle"])
    return 1 if (r["oracle"] or r["verdict"] != "ok" or (r["replay"] and not r["replay"].startswith("ok"))) else 0


MANIFEST = {
    "technique": "Lean 4 proof (inductive invariants over all interleavings, producer counts, capacities and accept/refuse sequences of a transition system whose `_events` counter is modelled at atomic granularity and whose bounded queue is replaced by its stated specification) + translator-generated skeleton/order/constant obligations + lock-step replay of real executions (inline, thread-pool and fault-injecting executors) under a deterministic scheduler",
    "text": "Theorems in lean/Babylon/Properties/C16.lean hold for every reachable state of the model: single consumer / events accounting, exactly-once and per-producer order, no stranded item while launches are accepted, recovery after refused launches, join soundness; every VRT trace of the real ConcurrentExecutionQueue is checked to be a path of the model (L1 on `_events`, L2 on events, queue steps tied through its index and slot-version lines)",
    "note": "Trusted: Lean kernel + 3 standard axioms; gen/execq.py; vrt/; queue specification Q1-Q3 (C01) and the executor contract are assumptions; SC interleavings only (orders tied statically and by trace equality)",
}
