"""C11 — serialization: round trip, exact size, protobuf wire compatibility, hostile-input safety.

proof:          lean/Babylon/Properties/C11.lean over the codec model Babylon/Wire/{Varint,Codec}.lean
translator:     gen/wire.py (varint_size expression, tag computation, wire types, Varint32/64 kinds, aggregate macro
                rules, loop guards, length-read check, consume_unknown_field cases) -> Babylon/Gen/Wire.lean
correspondence: E-SEQ, harness/c11.cpp (real Serialization on ~50 concrete C++ types, ASan+UBSan, forked watchdog,
                property oracle) vs lean/Drivers/C11.lean, NDEBUG and debug builds
"""
from vlib.core import *

# UBSan's `null` and `nonnull-attribute` checks are off: serializing an EMPTY std::vector<float|double|TRIVIAL aggregate>
# forms `value[0]` (reference to *nullptr, never read) in vector.h calculate_serialized_size and calls
# WriteRaw(nullptr, 0) -> memcpy(dst, nullptr, 0).  Both are formally undefined, touch no memory and are unrelated to
# the property (reported as an observation); every other UBSan check and all of ASan stay on.
SAN = ["-fno-sanitize=null,nonnull-attribute"]
REPO_CPP = ["babylon/serialization/*.cpp"]

# shapes recorded in known_findings.txt (keys fixed by the lead)
FINDING_TYPES = {
    "B1": "oracle:complex-base-uncached",
    "D1": "oracle:nonempty-default",
    "VPi32": "oracle:null-scalar-ptr-in-container",
    "RPi32": "oracle:null-scalar-ptr-in-container",
    "VPf32": "oracle:null-scalar-ptr-in-container",
    "RPf64": "oracle:null-scalar-ptr-in-container",
}
# fixed 0635990 (patches/C11-nullable-ptr-trivial-size.diff): unique_ptr / shared_ptr inherited TRIVIAL size complexity, so
# vector / T[N] / TRIVIAL aggregates took n * size(value[0]) although a null pointer has size 0.  The trigger (null and
# non-null elements mixed) is generated whenever the source has the repaired trait expression (Gen.ptrInheritsTrivial =
# false, pinned by gen_trait_exprs) or the key is recorded in known_findings.txt.
CANDIDATE_KEY = "oracle:nullable-ptr-trivial-size"
CANDIDATE_TYPES = ("VPf32", "VPA5", "VQA5", "VPT", "RPf64")


# structs made only of the kinds docs/serialization documents as protobuf-compatible: the harness checks them against
# protobuf's own writer and generic wire parser, the driver prints the Lean `pbEncode`
PB_TYPES = ("A1", "A5", "A6")


# ------------------------------------------------------------------------------------------------
# type expressions (as printed by the harness `types` op)
def parse_type(s):
    pos = [0]

    def ident():
        i = pos[0]
        while pos[0] < len(s) and s[pos[0]].isalnum():
            pos[0] += 1
        return s[i:pos[0]]

    def expect(c):
        if s[pos[0]] != c:
            raise ValueError("type expr: expected %r at %d in %s" % (c, pos[0], s))
        pos[0] += 1

    def nat():
        i = pos[0]
        while pos[0] < len(s) and s[pos[0]].isdigit():
            pos[0] += 1
        return int(s[i:pos[0]])

    def value_text():
        """default value: balanced text up to the next top-level ',' or ')'"""
        i, depth = pos[0], 0
        while True:
            c = s[pos[0]]
            if c in "([":
                depth += 1
            elif c in ")]":
                if depth == 0:
                    break
                depth -= 1
            elif c == "," and depth == 0:
                break
            pos[0] += 1
        return s[i:pos[0]]

    def ty():
        name = ident()
        if name == "bool":
            return ("bool",)
        if name in ("f32", "f64", "str"):
            return (name,)
        m = re.fullmatch(r"([iu])(\d+)", name)
        if m:
            return ("int", int(m.group(2)), m.group(1) == "i")
        m = re.fullmatch(r"e(\d+)([su])", name)
        if m:
            return ("enum", int(m.group(1)), m.group(2) == "s")
        expect("(")
        if name in ("vec", "list", "set", "uptr", "sptr"):
            t = ty()
            expect(")")
            return (name, t)
        if name == "arr":
            t = ty()
            expect(",")
            n = nat()
            expect(")")
            return ("arr", t, n)
        if name == "map":
            k = ty()
            expect(",")
            v = ty()
            expect(")")
            return ("map", k, v)
        if name in ("agg", "aggb"):
            fields = []
            while s[pos[0]] != ")":
                if fields:
                    expect(",")
                num = nat()
                expect(":")
                t = ty()
                expect("=")
                fields.append((num, t, value_text()))
            expect(")")
            return ("agg", name == "aggb", fields)
        raise ValueError("unknown type name %r in %s" % (name, s))

    t = ty()
    if pos[0] != len(s):
        raise ValueError("trailing text in type expr " + s)
    return t


def has_unordered(t):
    if t[0] in ("set", "map"):
        return True
    if t[0] in ("vec", "list", "uptr", "sptr", "arr"):
        return has_unordered(t[1])
    if t[0] == "agg":
        return any(has_unordered(f[1]) for f in t[2])
    return False


# ------------------------------------------------------------------------------------------------
# typed random values with extremes
F32_BITS = [0, 0x80000000, 0x3f800000, 0x7f800000, 0xff800000, 0x7fc00000, 0x7fa00001, 1, 0x7f7fffff, 0xffffffff]
F64_BITS = [0, 1 << 63, 0x3ff0000000000000, 0x7ff0000000000000, 0xfff0000000000000, 0x7ff8000000000000,
            0x7ff4000000000001, 1, 0x7fefffffffffffff, (1 << 64) - 1]


def gen_int(rng, bits, signed):
    lo, hi = (-(1 << (bits - 1)), (1 << (bits - 1)) - 1) if signed else (0, (1 << bits) - 1)
    r = rng.random()
    if r < 0.35:
        return max(lo, min(hi, rng.choice([0, 1, lo, hi, hi - 1, lo + 1, 127, 128, 255, 256, 16383, 16384, -1 if signed else hi, hi >> 1])))
    if r < 0.6:
        k = rng.randrange(1, bits + 1)   # around a varint length boundary
        v = (1 << k) + rng.choice([-1, 0, 1])
        if signed and rng.random() < 0.5:
            v = -v
        return max(lo, min(hi, v))
    if r < 0.8:
        return max(lo, min(hi, rng.randrange(-300, 300) if signed else rng.randrange(0, 300)))
    return rng.randrange(lo, hi + 1)


def gen_bytes(rng):
    r = rng.random()
    n = 0 if r < 0.2 else rng.randrange(1, 8) if r < 0.75 else rng.choice([20, 127, 128, 130, 300]) if r < 0.85 else rng.randrange(8, 40)
    mode = rng.random()
    if mode < 0.3:
        return bytes(rng.randrange(97, 123) for _ in range(n))
    if mode < 0.5:
        return bytes(rng.choice([0, 0x80, 0xff, 0x0a, 0x7f, 0x08]) for _ in range(n))
    return bytes(rng.randrange(256) for _ in range(n))


def gen_count(rng, depth):
    r = rng.random()
    if depth >= 2:
        return 0 if r < 0.3 else rng.randrange(1, 3)
    if r < 0.2:
        return 0
    if r < 0.85:
        return rng.randrange(1, 5)
    if r < 0.95:
        return rng.randrange(5, 20)
    return rng.choice([127, 128, 130])


def gen_value(rng, t, depth=0, canon=True):
    """canon=False: smart pointers are never null"""
    k = t[0]
    if k == "bool":
        return rng.randrange(2)
    if k in ("int", "enum"):
        return gen_int(rng, t[1], t[2])
    if k == "f32":
        return rng.choice(F32_BITS) if rng.random() < 0.6 else rng.randrange(1 << 32)
    if k == "f64":
        return rng.choice(F64_BITS) if rng.random() < 0.6 else rng.randrange(1 << 64)
    if k == "str":
        return gen_bytes(rng)
    if k in ("vec", "list"):
        n = gen_count(rng, depth)
        if t[1][0] not in ("bool", "int", "enum", "f32", "f64"):
            n = min(n, 6)
        return [gen_value(rng, t[1], depth + 1, canon) for _ in range(n)]
    if k == "arr":
        return [gen_value(rng, t[1], depth + 1, canon) for _ in range(t[2])]
    if k == "set":
        out, seen = [], set()
        for _ in range(min(gen_count(rng, depth), 8)):
            v = gen_value(rng, t[1], depth + 1, canon)
            key = show_value(t[1], v)
            if key not in seen:
                seen.add(key)
                out.append(v)
        return out
    if k == "map":
        out, seen = [], set()
        for _ in range(min(gen_count(rng, depth), 6)):
            kk = gen_value(rng, t[1], depth + 1, canon)
            key = show_value(t[1], kk)
            if key not in seen:
                seen.add(key)
                out.append((kk, gen_value(rng, t[2], depth + 1, canon)))
        return out
    if k in ("uptr", "sptr"):
        if canon and rng.random() < 0.3:
            return None
        return ("&", gen_value(rng, t[1], depth + 1, canon))
    if k == "agg":
        return tuple(gen_value(rng, f[1], depth + 1, canon) for f in t[2])
    raise ValueError(k)


def show_value(t, v):
    k = t[0]
    if k in ("bool", "int", "enum", "f32", "f64"):
        return str(v)
    if k == "str":
        return "x" + v.hex()
    if k in ("vec", "list", "arr", "set"):
        return "[" + ",".join(show_value(t[1], x) for x in v) + "]"
    if k == "map":
        return "[" + ",".join(show_value(t[1], a) + ":" + show_value(t[2], b) for a, b in v) + "]"
    if k in ("uptr", "sptr"):
        return "~" if v is None else "&" + show_value(t[1], v[1])
    if k == "agg":
        return "(" + ",".join(show_value(f[1], x) for f, x in zip(t[2], v)) + ")"
    raise ValueError(k)


# ------------------------------------------------------------------------------------------------
# wire helpers for mutations
def varint(n):
    out = bytearray()
    while True:
        b = n & 0x7f
        n >>= 7
        if n:
            out.append(b | 0x80)
        else:
            out.append(b)
            return bytes(out)


def read_varint(b, i):
    v, shift = 0, 0
    for k in range(10):
        if i + k >= len(b):
            return None
        c = b[i + k]
        v |= (c & 0x7f) << shift
        shift += 7
        if c < 0x80:
            return v, i + k + 1
    return None


def split_fields(b):
    """top-level fields of a well-formed message: [(number, wire type, raw bytes)] or None"""
    out, i = [], 0
    while i < len(b):
        r = read_varint(b, i)
        if not r:
            return None
        tag, j = r
        wt = tag & 7
        if wt == 0:
            r = read_varint(b, j)
            if not r:
                return None
            j = r[1]
        elif wt == 1:
            j += 8
        elif wt == 5:
            j += 4
        elif wt == 2:
            r = read_varint(b, j)
            if not r:
                return None
            j = r[1] + r[0]
        else:
            return None
        if j > len(b):
            return None
        out.append((tag >> 3, wt, b[i:j]))
        i = j
    return out


def unknown_field(rng, used):
    num = rng.choice([n for n in [6, 14, 22, 99, 1000, 5000, 100000, (1 << 29) - 1] if n not in used])
    wt = rng.choice([0, 1, 2, 5])
    tag = varint(num << 3 | wt)
    if wt == 0:
        return tag + varint(rng.choice([0, 1, 300, (1 << 64) - 1]))
    if wt == 1:
        return tag + bytes(rng.randrange(256) for _ in range(8))
    if wt == 5:
        return tag + bytes(rng.randrange(256) for _ in range(4))
    payload = bytes(rng.randrange(256) for _ in range(rng.choice([0, 1, 5, 130])))
    return tag + varint(len(payload)) + payload


HUGE = [bytes.fromhex("ffffffff07"), bytes.fromhex("ffffffff0f"), bytes.fromhex("8080808008"), bytes.fromhex("ffffffffffffffffff01"),
        bytes.fromhex("ffffffffffffffffffff01"), bytes.fromhex("80808080808080808080"), bytes.fromhex("ffffffffffffffffffffffff"),
        bytes.fromhex("feffffff07"), bytes.fromhex("8001"), bytes.fromhex("ff7f")]


def mutate(rng, b, t):
    """-> (kind, bytes)"""
    kinds = ["truncate", "flip", "huge", "wiretype", "append", "insert", "nest", "random", "overlong-len", "zero"]
    if t[0] == "agg":
        kinds += ["unknown", "unknown", "reorder", "reorder", "dup-field"]
    kind = rng.choice(kinds)
    b = bytearray(b)
    if kind == "truncate" and b:
        return kind, bytes(b[:rng.randrange(len(b))])
    if kind == "flip" and b:
        for _ in range(rng.choice([1, 1, 2, 4])):
            i = rng.randrange(len(b))
            b[i] = rng.choice([b[i] ^ (1 << rng.randrange(8)), 0x80, 0xff, 0x7f, 0, rng.randrange(256)])
        return kind, bytes(b)
    if kind == "huge":
        i = rng.randrange(len(b) + 1)
        h = rng.choice(HUGE)
        if b and rng.random() < 0.5:
            return kind, bytes(b[:i] + h + b[i + 1:])
        return kind, bytes(b[:i] + h + b[i:])
    if kind == "wiretype" and b:
        i = 0 if rng.random() < 0.5 else rng.randrange(len(b))
        b[i] = (b[i] & 0xf8) | rng.randrange(8)
        return kind, bytes(b)
    if kind == "append":
        return kind, bytes(b) + bytes(rng.randrange(256) for _ in range(rng.randrange(1, 6)))
    if kind == "insert":
        i = rng.randrange(len(b) + 1)
        return kind, bytes(b[:i]) + bytes(rng.randrange(256) for _ in range(rng.randrange(1, 4))) + bytes(b[i:])
    if kind == "nest":
        inner = bytes(b) if rng.random() < 0.5 else b""
        first = rng.choice([0x0a, 0x0a, 0x12, 0x1a, 0x3a, 0x4a])
        for _ in range(rng.choice([2, 5, 20, 100, 400])):
            inner = bytes([rng.choice([first, 0x0a])]) + varint(len(inner)) + inner
        return kind, inner
    if kind == "random":
        n = rng.choice([1, 2, 3, 5, 8, 12, 20, 40])
        pool = [0, 1, 2, 5, 8, 0x0a, 0x0d, 0x10, 0x12, 0x1a, 0x7f, 0x80, 0xff]
        return kind, bytes(rng.choice(pool) if rng.random() < 0.6 else rng.randrange(256) for _ in range(n))
    if kind == "overlong-len" and b:
        # make some length-like byte larger than what follows
        i = rng.randrange(len(b))
        b[i] = rng.choice([len(b), len(b) - i, 0x7f, 0x40, len(b) - i + 1]) & 0x7f
        return kind, bytes(b)
    if kind == "zero":
        return kind, bytes(rng.choice([0, 0x80]) for _ in range(rng.randrange(1, 12)))
    fs = split_fields(bytes(b))
    used = set(f[0] for f in t[2]) if t[0] == "agg" else set()
    if kind == "unknown":
        parts = [f[2] for f in fs] if fs is not None else [bytes(b)]
        for _ in range(rng.choice([1, 1, 2, 3])):
            parts.insert(rng.randrange(len(parts) + 1), unknown_field(rng, used))
        return kind, b"".join(parts)
    if kind == "reorder" and fs:
        parts = [f[2] for f in fs]
        rng.shuffle(parts)
        return kind, b"".join(parts)
    if kind == "dup-field" and fs:
        parts = [f[2] for f in fs]
        parts.insert(rng.randrange(len(parts) + 1), rng.choice(parts))
        return kind, b"".join(parts)
    return "identity", bytes(b)


def gen_pres(rng, n, full=False):
    """full: the presentation shows all n bytes (any outer limit is >= n)"""
    r = rng.random()
    if full:
        lim = lambda: rng.choice([n, n, n + 1, n + 5, n + 1000])
    else:
        lim = lambda: rng.choice([n, n, n, max(0, n - 1), n + 1, n + 5, 0, n // 2, rng.randrange(0, n + 8)])
    if r < 0.25:
        return "f"
    if r < 0.35:
        return "g"
    if r < 0.45:
        return "fL%d" % lim()
    c = rng.randrange(1, 8)
    if r < 0.75:
        return "s%d" % c
    return "s%dL%d" % (c, lim())


def pres_class(p):
    if p[0] in "fg":
        return "flat+limit" if "L" in p else "flat"
    return "stream+limit" if "L" in p else "stream"


# ------------------------------------------------------------------------------------------------
def build(flavor):
    return build_exe("c11", ["harness/c11.cpp"], flavor, repo_cpp=REPO_CPP, extra_flags=SAN)


def op_id(line):
    w = line.split()
    return w[1] if len(w) > 1 else ""


def classify(line, out, texpr=""):
    """stable failing-input key for an oracle failure"""
    w = line.split()
    tid = op_id(line)
    m = re.search(r"!ORACLE\((\S+)", out)
    kind = m.group(1).rstrip(")") if m else "crash"
    if tid in CANDIDATE_TYPES and w[0] in ("enc", "encu", "enc2", "enc2u") and kind in ("size", "cached-serialize-differs"):
        return CANDIDATE_KEY
    if tid in FINDING_TYPES:
        return FINDING_TYPES[tid]
    pres = w[-1] if w[0] in ("rt", "dec", "deci") else ""
    if kind == "nonterminating":
        return "oracle:nonterminating-unreadable-length"
    if "vec(" in texpr and pres.startswith("s") and kind in ("roundtrip", "crash", "fixpoint"):
        # a vector parsed from a stream-backed CodedInputStream (BytesUntilLimit() is -1 without a limit, and stays
        # positive at the end of the input under a limit that lies beyond it)
        return "oracle:vector-top-level-no-limit"
    if w[0] in ("enc2", "enc2u") and kind in ("size", "cached-serialize-differs", "roundtrip-after-reuse"):
        return "oracle:stale-field-cache"
    return "oracle:%s:%s" % (kind, tid)


def load_corpus():
    cases = []
    d = VERIF / "corpus" / "C11"
    if d.exists():
        for f in sorted(d.glob("*.txt")):
            lines = [l.strip() for l in f.read_text().splitlines() if l.strip() and not l.startswith("#")]
            if lines:
                cases.append((f.name, lines))
    return cases


def with_types(types, lines):
    ids = []
    for l in lines:
        i = op_id(l)
        if i in types and i not in ids and not l.startswith("type "):
            ids.append(i)
    return ["type %s %s" % (i, types[i][0]) for i in ids] + list(lines)


def run(ctx):
    ctx.cov["trusted_base"] += [
        "protobuf's CodedInputStream/CodedOutputStream are modelled (window up to min(limit, end of input), PushLimit that ignores "
        "negative / overflowing / not-nearer limits, varint slow path vs array path), not verified; the model of stream-backed "
        "input assumes chunks shorter than 10 bytes (the harness uses 1..7)",
        "memory safety of the real parser is decided by ASan+UBSan on the sampled inputs, not by theorem (UBSan null and "
        "nonnull-attribute checks off: empty vector<float|double|TRIVIAL aggregate> forms value[0] / memcpy(_, nullptr, 0) while serializing)",
        "harness/c11.cpp: value construction, canonical printing (sets and maps sorted) and the forked watchdog (20 s alarm, 256 MiB allocation budget)",
        "floating-point values are raw bit patterns; std::unordered_* iteration order is not modelled (set/map encodings are compared as byte multisets "
        "and by decoding the real bytes in the model)",
    ]
    ctx.assumptions += [
        "round trip is claimed for canonical values only: no non-empty default member initialiser on string/container/pointer members, no null smart "
        "pointer to a varint/fixed-width type as container or array element, distinct set/map keys, nested encodings below 2 GiB (the excluded shapes are "
        "run on the real code and reported as known findings)",
        "size caches: the model has none; serialization histories of one object (stale per-field cache, COMPLEX base class without whole-object cache) "
        "are covered by the harness oracle (enc / enc2), not by theorem",
        "protobuf compatibility: 'babylon reads protobuf' is a theorem about pbEncode (checked byte for byte against protobuf's WireFormatLite writer by the "
        "harness); 'protobuf reads babylon' is decided by protobuf's own generic parser (UnknownFieldSet) on the generated values of the documented struct only",
        "enums without a fixed underlying type, std::vector<bool> beyond its element semantics, allocators and custom string traits are not in the type table",
        "recursive C++ types do not compile with BABYLON_SERIALIZABLE, so nesting depth is bounded by the type; deeper hostile nesting lands in unknown-field skipping",
        "protobuf MessageLite members (message.h) delegate to protobuf itself and are outside the model",
    ]
    ctx.gen(["wire"])
    ctx.lake_build(["Babylon.Properties.C11"])
    ctx.audit("Babylon.Properties.C11")
    if not ctx.quick:
        ctx.leanchecker(["Babylon.Wire.Varint", "Babylon.Wire.Codec", "Babylon.Wire.Pb", "Babylon.Wire.LemmasVarint",
                         "Babylon.Wire.LemmasSize", "Babylon.Wire.LemmasStream", "Babylon.Wire.LemmasTotal",
                         "Babylon.Wire.LemmasRead", "Babylon.Wire.LemmasCanon", "Babylon.Wire.LemmasRoundtrip",
                         "Babylon.Wire.LemmasRoundtrip2", "Babylon.Wire.LemmasUnknown", "Babylon.Wire.LemmasFixpoint",
                         "Babylon.Wire.LemmasFixpoint2", "Babylon.Wire.LemmasPb", "Babylon.Wire.LemmasOrder",
                         "Babylon.Properties.C11"])
    ctx.log("proofs built and audited")
    drv = ctx.driver("drv_C11")
    exe, log = build("asan")
    if exe is None:
        ctx.broke("correspondence", "harness/c11.cpp does not build against /repo", log[-1500:])
        return
    dexe, dlog = build("debug")
    ctx.log("driver and harnesses built")
    if dexe is None:
        ctx.broke("correspondence", "harness/c11.cpp (debug build) does not build against /repo", dlog[-1500:])
    if drv is None:
        return
    out, rc, err = ctx.run_lines(exe, ["types"])
    if rc != 0 or not out:
        ctx.broke("correspondence", "harness types op", err[-500:])
        return
    types = {}
    for item in out[0].split():
        tid, expr = item.split("=", 1)
        types[tid] = (expr, parse_type(expr))
    rng = ctx.rng
    search = bool(ctx.broken)
    gen_txt = (LEAN / "Babylon" / "Gen" / "Wire.lean").read_text()
    ptr_repaired = "def ptrInheritsTrivial : Bool := false" in gen_txt
    trigger = ptr_repaired or any(k == CANDIDATE_KEY for k, _ in ctx._known())
    ctx.notes.append("candidate finding %s: trigger %s (%s)" % (CANDIDATE_KEY, "exercised" if trigger else "NOT exercised",
                     "source repaired" if ptr_repaired else "key recorded" if trigger else "key not in known_findings.txt, source unrepaired"))
    nvals = (7 if ctx.quick else 80) * (3 if search else 1)
    dist = {"ops": {}, "types": len(types), "presentations": {}, "mutations": {}, "results_ndebug": {}, "results_debug": {},
            "oracle_failures": {}, "divergences": 0, "value_bytes_max": 0}

    def bump(d, k, n=1):
        d[k] = d.get(k, 0) + n

    # ---- stage 1: values -> encodings from the real code (seeds for stage 2) ------------------------------
    plan = []            # (tid, value text)
    for tid, (expr, t) in types.items():
        n = nvals * (3 if tid in PB_TYPES else 1) if tid not in FINDING_TYPES else 3
        for _ in range(n):
            plan.append((tid, show_value(t, gen_value(rng, t, canon=(trigger or tid not in CANDIDATE_TYPES)))))
    s1 = ["enc %s %s" % p for p in plan]
    ctx.log("stage 1: %d values" % len(s1))
    o1, rc, err = ctx.run_lines(exe, s1)
    if rc != 0 or len(o1) != len(s1):
        ctx.broke("correspondence", "harness crashed while encoding generated values", "rc=%s answered %d of %d; %s" % (rc, len(o1), len(s1), err[-1200:]))
        return
    encs = {}
    for (tid, v), line in zip(plan, o1):
        w = line.split()
        if len(w) >= 3 and w[0] == "ok":
            encs.setdefault(tid, []).append((v, b"" if w[2] == "-" else bytes.fromhex(w[2])))
            dist["value_bytes_max"] = max(dist["value_bytes_max"], int(w[1]))
    # ---- cases -------------------------------------------------------------------------------------
    cases, meta = [], []

    def add(lines, **kw):
        cases.append(with_types(types, lines))
        meta.append(kw)

    for name, lines in load_corpus():
        if name.startswith("candidate_") and not trigger:
            continue
        add(lines, corpus=name)
    ncorp = len(cases)
    for tid, (expr, t) in types.items():
        unordered = has_unordered(t)
        for v, b in encs.get(tid, []):
            add([("encu" if unordered else "enc") + " %s %s" % (tid, v)])
            add(["rt %s %s %s" % (tid, v, gen_pres(rng, len(b), full=True))])
            add(["dec %s %s %s" % (tid, b.hex() or "-", gen_pres(rng, len(b)))], mut="valid")
            if tid in PB_TYPES:
                add(["pb %s %s" % (tid, v)])
            if tid in FINDING_TYPES:
                continue
            if rng.random() < 0.5:
                v2 = show_value(t, gen_value(rng, t, canon=(trigger or tid not in CANDIDATE_TYPES)))
                add([("enc2u" if unordered else "enc2") + " %s %s %s" % (tid, v, v2)])
            if rng.random() < 0.5:
                v0 = show_value(t, gen_value(rng, t, canon=(trigger or tid not in CANDIDATE_TYPES)))
                add(["deci %s %s %s %s" % (tid, v0, b.hex() or "-", gen_pres(rng, len(b)))], mut="valid-into-existing")
            for _ in range(3 if ctx.quick else 10):
                kind, mb = mutate(rng, b, t)
                if len(mb) > 6000:
                    mb = mb[:6000]
                add(["dec %s %s %s" % (tid, mb.hex() or "-", gen_pres(rng, len(mb)))], mut=kind)
    for c, m in zip(cases, meta):
        for l in c:
            w = l.split()
            bump(dist["ops"], w[0])
            if w[0] in ("rt", "dec", "deci"):
                bump(dist["presentations"], pres_class(w[-1]))
        if "mut" in m:
            bump(dist["mutations"], m["mut"])
    ctx.notes.append("corpus cases run first: %d" % ncorp)
    ctx.log("stage 2: %d cases" % len(cases))

    # ---- E-SEQ, both builds ------------------------------------------------------------------------
    seen_keys = set()

    def handle(diffs, flavor, hexe, margs):
        for (ci, li, op, a, b) in diffs:
            case = cases[ci]
            oracle = "!ORACLE" in a or "<no-output" in a
            if oracle:
                key = classify(op, a, types.get(op_id(op), ("", None))[0])
                bump(dist["oracle_failures"], key)
                if key in seen_keys or len(seen_keys) >= 12:
                    continue          # one replay per failing-input key is enough
                seen_keys.add(key)
            else:
                dist["divergences"] += 1
                if dist["divergences"] > 8:
                    continue
            io, rc, err = ctx.run_lines(hexe, ["reset"] + case)
            mo, _, _ = ctx.run_lines(drv, ["reset"] + case, margs)
            text = "build=%s\n%s\n# implementation output:\n%s\n# model output:\n%s\n%s" % (
                flavor, "\n".join(case), "\n".join("#   " + l for l in io), "\n".join("#   " + l for l in mo),
                ("# harness stderr:\n#   " + err[-1500:].replace("\n", "\n#   ")) if rc != 0 or "crash" in a else "")
            if oracle:
                ctx.failing_input(key, text)
            else:
                ctx.broke("correspondence", "E-SEQ c11 (%s build)" % flavor,
                          "op %r: impl %r, model %r\n%s" % (op, a[:300], b[:300], text[:3000]))

    def tally(hexe, margs, key):
        # result kinds of the hostile stream (error kinds hit), from the model side (cheap, no fork)
        lines = []
        for c in (cases[:4000] if ctx.quick else cases):
            lines += c
        mo, _, _ = ctx.run_lines(drv, lines, margs)
        for l, o in zip(lines, mo):
            if l.startswith(("dec ", "deci ")):
                bump(dist[key], o.split()[0] if o else "?")

    diffs = ctx.eseq(exe, drv, cases, model_args=["ndebug"], chunk=max(1, len(cases) // (2 * NPROC) + 1))
    ctx.log("E-SEQ ndebug done: %d differences" % len(diffs))
    handle(diffs, "asan-ndebug", exe, ["ndebug"])
    tally(exe, ["ndebug"], "results_ndebug")
    ctx.log("classified")
    if dexe is not None:
        sub = [i for i, m in enumerate(meta) if "mut" in m or "corpus" in m]
        if ctx.quick:
            sub = [i for i in sub if "corpus" in meta[i] or rng.random() < 0.3]
        dcases = [cases[i] for i in sub]
        ddiffs = ctx.eseq(dexe, drv, dcases, model_args=["debug"], chunk=max(1, len(dcases) // (2 * NPROC) + 1))
        ctx.log("E-SEQ debug done: %d differences" % len(ddiffs))
        handle([(sub[ci], li, op, a, b) for (ci, li, op, a, b) in ddiffs], "asan-debug", dexe, ["debug"])
        lines = []
        for c in dcases:
            lines += c
        mo, _, _ = ctx.run_lines(drv, lines, ["debug"])
        for l, o in zip(lines, mo):
            if l.startswith(("dec ", "deci ")):
                bump(dist["results_debug"], o.split()[0] if o else "?")
    nontrivial = set()
    for c, m in zip(cases, meta):
        op = c[-1]
        w = op.split()
        # non-trivial: composite type, or a hostile/mutated input of at least 2 bytes
        t = types.get(w[1], (None, ("?",)))[1]
        if t[0] in ("vec", "list", "arr", "set", "map", "uptr", "sptr", "agg") or (m.get("mut") not in (None, "valid") and len(w) > 2 and len(w[2]) >= 4):
            nontrivial.add(sha(op))
    ctx.cov["distribution"] = dist
    ctx.cov["distinct_nontrivial"] = len(nontrivial)
    ctx.cov["rule"] = ("per concrete C++ type of the harness table (%d types: every scalar kind, enums, float/double, string, vector/list/T[N]/set/map incl. "
                       "containers of containers, unique_ptr/shared_ptr, aggregates nested 6 deep, with base class, automatic numbering, whole-object size cache, "
                       "TRIVIAL members, the struct of the docs' protobuf-compatibility section, plus the known-finding shapes): typed random values with extremes "
                       "(integer min/max/varint-length boundaries, NaN/inf/denormal bit patterns, strings with NUL/0x80+/127/128/300 bytes, sequences of 0..130 elements, "
                       "null pointers) -> enc (size, bytes, cached-size path), rt (round trip through a random presentation), enc2 (same object re-serialized after mutation), "
                       "dec/deci of the real encoding and of mutations of it (truncate, flip, huge/negative/overlong lengths, wrong wire types, append, insert, 2..400-deep nesting, "
                       "random bytes, over-long length prefixes, zero/0x80 runs, well-formed unknown fields, field reorder, duplicated field) through "
                       "flat array / std::string / array-backed+PushLimit / stream-backed with chunk 1..7 with and without PushLimit; NDEBUG and debug builds. "
                       "Non-trivial = composite type or a mutated input of >= 2 bytes; distinct by content hash") % len(types)
    ctx.cov["samples"] = [cases[ncorp][-1][:200], cases[-1][-1][:200]] if len(cases) > ncorp else []
    ctx.cov["traces_validated_against_impl"] = ctx.cov["evaluations"]


def replay(ctx, path):
    lines = [l.strip() for l in Path(path).read_text().splitlines() if l.strip() and not l.startswith("#")]
    flavor, margs = "asan", ["ndebug"]
    if lines and lines[0].startswith("build="):
        if "debug" in lines[0] and "ndebug" not in lines[0]:
            flavor, margs = "debug", ["debug"]
        lines = lines[1:]
    exe, log = build(flavor)
    if exe is None:
        print(log[-3000:])
        return 1
    drv = ctx.driver("drv_C11")
    out, _, _ = ctx.run_lines(exe, ["types"])
    types = {}
    for item in out[0].split():
        tid, expr = item.split("=", 1)
        types[tid] = (expr, None)
    lines = with_types(types, lines)
    io, rc, err = ctx.run_lines(exe, ["reset"] + lines)
    mo, _, _ = ctx.run_lines(drv, ["reset"] + lines, margs)
    bad = rc != 0
    for op, a, b in zip(["reset"] + lines, io, mo):
        flag = "" if a == b and "!ORACLE" not in a else "   <<<<"
        bad |= bool(flag)
        print("%s\n    impl:  %s\n    model: %s%s" % (op[:300], a[:600], b[:600], flag))
    if rc != 0:
        print(err[-3000:])
    return 1 if bad else 0


MANIFEST = {
    "technique": "Lean 4 proof over an executable codec model (types, values, size/encode/decode over a CodedInputStream state with limits; "
                 "induction over the type universe and the input) + translator-generated constants and parser-shape flags + E-SEQ differential "
                 "correspondence on ~50 concrete C++ types with a round-trip / size / fixpoint / termination oracle under ASan+UBSan",
    "text": "Theorems in lean/Babylon/Properties/C11.lean (varint round trip and size formula, size = length, parser total / never spins / consumes only "
            "readable bytes, round trip under an explicit canonicity predicate, parse success => fixpoint, unknown fields skipped, absent fields keep "
            "defaults, field order irrelevant, babylon reads protobuf's encoding of the documented kinds) hold for every type of the model's universe, every "
            "value and every input byte string / presentation; the model is re-tied to /repo on each run by gen/wire.py and by running model and real "
            "Serialization (NDEBUG and debug builds) on the same generated values, encodings and hostile mutations",
    "note": "Trusted: Lean kernel + 3 standard axioms; gen/wire.py; harness/c11.cpp and its generators (sampling); protobuf's coded streams are modelled, "
            "stream chunks < 10 bytes; memory safety by sanitizers on samples; size caches and unordered iteration order not modelled; three shapes excluded "
            "from the round-trip theorem are known findings (complex base class without whole-object cache, non-empty default member initialisers, null "
            "scalar pointer as container element)",
}


def warm():
    build("asan")
    build("debug")
