"""C10 — garbage collector: reclaimers run exactly once, never early, before stop returns.

proof:          lean/Babylon/Properties/C10.lean over the event-level model Babylon/GC/Model.lean
                (collector = the exact loop of keep_reclaim; queue and epoch replaced by their C01 / C09
                specifications)
translator:     gen/gc.py (batch / back-off constants, marker value, loop and comparison shapes, queue
                call flags, epoch and queue call-site skeletons)
correspondence: E-CONC L2 — harness/c10.cpp runs the real GarbageCollector (real collector std::thread,
                virtual-time usleep) under VRT with counting reclaimers; every trace (harness events +
                atomic operations on the epoch version / slots and the queue indices / slot versions +
                sleeps) is replayed by lean/Drivers/C10.lean through the model's `step`; the harness
                evaluates the property's oracle on the implementation (exactly once, never while a region
                open at retirement is still open, all invoked when stop() returns, no deadlock).
"""
from vlib.core import *

SRCS = ["harness/c10.cpp"]
REPO_CPP = ["babylon/concurrent/*.cpp"]
MODES = ("tl", "acc", "big", "fix-open-stop", "rr-tl", "rr-acc", "wrap", "life")


def warm():
    build_vrt_exe("c10", SRCS, repo_cpp=REPO_CPP)


def load_corpus():
    """corpus/C10/*.txt: lines `mode seed0 count [ENV=VAL ...]`"""
    out = []
    d = VERIF / "corpus" / "C10"
    if d.exists():
        for f in sorted(d.glob("*.txt")):
            for l in f.read_text().splitlines():
                l = l.strip()
                if not l or l.startswith("#"):
                    continue
                w = l.split()
                env = dict(x.split("=", 1) for x in w[3:])
                out.append((f.name, w[0], int(w[1]), int(w[2]), env))
    return out


def features(lines, cap=0):
    """what happened in one trace (for the distribution and the non-triviality rule)"""
    f = {"stop_while_region_open": 0, "post_marker_wait": 0, "blocked_push": 0, "ring_wrap_pop": 0,
         "held_by_region": 0, "nosleep_pass": 0, "batch_retire": 0, "reclaims": 0, "retire_in_own_region": 0,
         "blocked_across_version_wrap": 0, "retire_without_collector": 0, "restart": 0, "noop_start_or_stop": 0}
    collector_on = False
    starts = 0
    start_spawned = {}
    open_regions = set()
    own_region = {}
    wrap_ticket = {}
    stopper = None
    marker_ticket = None
    marker_popped = False
    slept_after_marker = False
    pops_in_consume = 0
    in_consume = False
    in_publish = {}
    scan_low = None
    pending_after_scan = False
    last_gc_kind = None
    gc = "1"
    for l in lines:
        w = l.split()
        if len(w) < 2:
            continue
        t, k = w[0], w[1]
        if k == "ev":
            e = w[2]
            if e == "region_open":
                open_regions.add(w[3])
                own_region[t] = w[3]
            elif e == "region_close":
                open_regions.discard(w[3])
                own_region.pop(t, None)
            elif e in ("retire_begin", "retire_at_begin"):
                if t in own_region:
                    f["retire_in_own_region"] = 1
                if not collector_on:
                    f["retire_without_collector"] = 1
            elif e == "start":
                start_spawned[t] = False
            elif e == "start_end":
                if start_spawned.get(t) is False:
                    f["noop_start_or_stop"] = 1
                start_spawned.pop(t, None)
            elif e == "stop_begin":
                if not collector_on:
                    f["noop_start_or_stop"] = 1
                stopper = t
                if open_regions:
                    f["stop_while_region_open"] = 1
            elif e == "retire_at_begin":
                f["batch_retire"] = 1
            elif e == "reclaim":
                f["reclaims"] += 1
                if marker_popped and slept_after_marker:
                    f["post_marker_wait"] = 1
        elif k == "spawn" and t in start_spawned:
            start_spawned[t] = True
            gc = w[2]
            collector_on = True
            starts += 1
            if starts > 1:
                f["restart"] = 1
            marker_ticket, marker_popped, slept_after_marker, stopper = None, False, False, None
        elif k == "join" and w[2] == gc:
            collector_on = False
        elif k == "rmw" and w[3] == "q.push":
            if t == stopper and marker_ticket is None:
                marker_ticket = int(w[5])
            in_publish[t] = True
            wrap_ticket[t] = int(w[5])
        elif k == "st" and w[2].startswith("q.f") and t != gc:
            in_publish[t] = False
        elif k == "sleep":
            if t == gc:
                if marker_popped:
                    slept_after_marker = True
                if scan_low is not None:
                    f["held_by_region"] = 1
            elif in_publish.get(t):
                f["blocked_push"] = 1
                if cap and wrap_ticket.get(t, 0) // cap == 32768:
                    f["blocked_across_version_wrap"] = 1
        elif t == gc and k == "ld" and w[2] == "q.pop":
            in_consume, pops_in_consume = True, 0
            if last_gc_kind == "reclaim":
                f["nosleep_pass"] = 1
        elif t == gc and k == "st" and w[2] == "q.pop":
            pops_in_consume += 1
            if pops_in_consume == 2:
                f["ring_wrap_pop"] = 1
            if marker_ticket is not None and int(w[4]) > marker_ticket:
                marker_popped = True
        elif t == gc and k == "ld" and w[2] == "ep.idend":
            in_consume = False
            scan_low = None
        elif t == gc and k == "ld" and w[2].startswith("ep.s"):
            v = int(w[4])
            if v != 18446744073709551615:
                scan_low = v if scan_low is None else min(scan_low, v)
        if t == gc:
            last_gc_kind = "reclaim" if (k == "ev" and w[2] == "reclaim") else k
    return f


def classify(ctx, r, mode, env, lockstep, dist, distinct):
    dist["verdicts"][r["verdict"]] = dist["verdicts"].get(r["verdict"], 0) + 1
    dist["max_trace"] = max(dist["max_trace"], len(r["lines"]))
    text = "mode=%s seed=%d env=%s\n%s" % (mode, r["seed"], env, "\n".join(r["lines"][-600:]))
    if r["oracle"]:
        dist["oracle"] += 1
        kinds = [l.split("ORACLE", 1)[1].split()[0] for l in r["oracle"]]
        kind = next((k for k in ("lost", "early", "twice", "foreign", "destroyed") if k in kinds), kinds[0])
        ctx.failing_input("oracle:%s" % kind, text + "\nreplay: " + str(r.get("replay")))
        return
    if r["verdict"] != "ok":
        ctx.failing_input("verdict:%s" % r["verdict"].split()[0], text + "\n" + r.get("stderr", ""))
        return
    if r["races"]:
        dist["races"] += 1
        ctx.broke("correspondence", "payload race c10 mode=%s seed=%d" % (mode, r["seed"]), text)
        return
    if lockstep:
        if r["replay"] and r["replay"].startswith("ok"):
            dist["replay_ok"] += 1
        else:
            dist["replay_diverge"] += 1
            if dist["replay_diverge"] <= 6:     # record the first few, count the rest: divergences never end the search
                ctx.broke("correspondence", "E-CONC L2 c10 mode=%s seed=%d" % (mode, r["seed"]), "%s\n%s" % (r["replay"], text))
    cap = next((int(h[4:]) for h in r["header"] if h.startswith("cap=")), 0)
    ft = features(r["lines"], cap)
    nontrivial = False
    for k, v in ft.items():
        if k == "reclaims":
            dist["reclaims"] += v
        elif v:
            dist["features"][k] = dist["features"].get(k, 0) + 1
            if k != "batch_retire":
                nontrivial = True
    if nontrivial:
        distinct.add(sha("\n".join(l for l in r["lines"] if " ev stats" not in l)))


def run(ctx):
    ctx.cov["trusted_base"] += [
        "vrt/vrt.cpp (TSan-ABI interposition, deterministic scheduler, virtual time for usleep, thread create/join) and the TSan-instrumented build (differs from production in the places listed in DESIGN 3.3)",
        "executions are sequentially consistent interleavings; the weak-memory content of the property is delegated to the lower layers' specifications",
        "queue specification assumed by the model (ticket FIFO: fetch_add ticket, publish when the slot of the previous round was released, non-blocking batch pop of a published prefix): C01 bq_exactly_once / bq_fifo / bq_exclusive, C02 for blocking; validated here on every trace line touching the queue indices and slot versions",
        "epoch specification assumed by the model (tick returns the incremented version; a scan returns m with m <= epoch of every region pinned from before the scan's begin to after its end, and m >= the smallest epoch pinned at some moment of the scan): C09 epoch_safety_sc / epoch_safety_view / epoch_new_slot_safe / epoch_released_never_holds; validated here on every scan of every trace",
        "fewer than 2^64 - 1 ticks (the model's epochs are unbounded naturals; UINT64_MAX is the marker / idle value)",
    ]
    ctx.assumptions += [
        "client contract: reclaimer objects are distinct; retire(r, e) is given an e returned by an earlier tick(); no stop() while another stop() is in progress; whoever retires eventually start()s the collector (stop() / the destructor with no collector thread invoke nothing); at most `capacity` retirements while no collector runs (more would block for ever)",
        "termination of stop() (gc_stop_terminates, gc_stop_terminates_regions_close, gc_stop_returns_with_all_invoked) is proved under explicit hypotheses on the execution from some moment on: client contract (stop() called, no retire in flight or starting, no tick), weak fairness of the collector thread (always enabled until finished: gc_collector_always_enabled) and of the stopping thread, capacity >= 1, and every critical region entered before the last tick eventually stores its slot and closes (regions entered later are unconstrained); without the last one stop() legitimately waits forever",
        "a retire() that has not obtained its queue ticket before stop() obtains the marker's ticket is outside the property (the task is queued behind the marker: popped in the same callback it is skipped, otherwise it stays queued)",
    ]
    ctx.gen(["gc"])
    ctx.lake_build(["Babylon.Properties.C10"])
    ctx.audit("Babylon.Properties.C10")
    if not ctx.quick:
        ctx.leanchecker(["Babylon.GC.Model", "Babylon.GC.LemmasAll", "Babylon.GC.LiveMain", "Babylon.GC.LiveRegions",
                         "Babylon.GC.LiveEnabled", "Babylon.GC.View", "Babylon.Properties.C10"])
    drv = ctx.driver("drv_C10")
    exe, log = build_vrt_exe("c10", SRCS, repo_cpp=REPO_CPP)
    if exe is None:
        ctx.broke("correspondence", "harness/c10.cpp does not build against /repo", log[-800:])
        return
    if drv is None:
        return
    n = 300 if ctx.quick else 12000
    seed0 = ctx.seed * 1000003
    dist = {"modes": {}, "verdicts": {}, "replay_ok": 0, "replay_diverge": 0, "oracle": 0, "races": 0, "max_trace": 0,
            "features": {}, "reclaims": 0, "corpus": 0}
    distinct = set()
    samples = []
    # corpus first
    for fname, mode, s0, cnt, env in load_corpus():
        env = dict(env, VRT_STEP_LIMIT="400000")
        runs = ctx.econc(exe, drv, [mode], s0, cnt, env=env)
        dist["corpus"] += len(runs)
        for r in runs:
            classify(ctx, r, mode, env, True, dist, distinct)
    plan = [("tl", n, {}), ("acc", n, {}), ("rr-tl", n, {}), ("rr-acc", n, {}),
            ("tl", n // 2, {"VRT_STRATEGY": "pct"}), ("acc", n // 2, {"VRT_STRATEGY": "pct"}),
            ("rr-tl", n // 2, {"VRT_STRATEGY": "pct"}), ("rr-acc", n // 2, {"VRT_STRATEGY": "pct"}),
            ("life", n, {}), ("life", n // 2, {"VRT_STRATEGY": "pct"}),
            ("fix-open-stop", n // 4, {}), ("wrap", n // 8, {}), ("big", max(20, n // 20), {})]

    def enough():
        # only concrete failing inputs end the search early; a broken proof obligation / translator or a
        # diverging correspondence never does — they multiply the case count instead
        return len(ctx.failing) > 8

    for mode, cnt, env in plan:
        if enough():
            break
        # a run that never finishes (e.g. a collector polling for ever) ends with `VERDICT step-limit` after a
        # bounded trace instead of the 3M-step default (largest healthy run: ~60k steps in mode big)
        env = dict(env, VRT_STEP_LIMIT="400000")
        if ctx.broken:
            cnt *= 5   # search mode: a proof obligation / the translator / the correspondence broke, look harder
        runs = ctx.econc(exe, drv, [mode], seed0, cnt, env=env)
        dist["modes"][mode + ("/pct" if "VRT_STRATEGY" in env else "")] = len(runs)
        for r in runs:
            classify(ctx, r, mode, env, True, dist, distinct)
            if len(samples) < 1 and mode == "tl" and 80 < len(r["lines"]) < 200 and r["verdict"] == "ok":
                samples.append(r["lines"][:80])
            if enough():
                break
    ctx.cov["distribution"] = dist
    ctx.cov["distinct_nontrivial"] = len(distinct)
    ctx.cov["traces_validated_against_impl"] = dist["replay_ok"]
    ctx.cov["rule"] = ("one case = one seeded program (queue capacity 1-8 [big: 128/256], 1-3 retiring threads x 1-6 operations among retire(r), "
                       "[rr-*: 1-2 reader-retirer threads that retire inside their own region and then take nested locks of depth 2-3 after that retirement / a tick; "
                       "wrap: capacity 1-2 with the ring preset two rounds before the 16-bit slot version wraps, a held batch + a full ring + a retire that must block across the wrap; "
                       "life: 1-3 cycles of [0-3 retirements with no collector thread, start(), 0-2 retiring threads + 0-1 region thread, stop()] on one collector, default "
                       "capacity of one slot in a third of the cases, redundant start() / stop()] "
                       "tick + retire(r,e), batch retirement [big: 60-180 each], 0-2 region threads x 1-3 regions held 0-42 ms of virtual time, thread-local "
                       "or Accessor style (opened by one thread, closed by another), stop() after the retiring threads returned plus a 0-25 ms delay, "
                       "so often while regions are open) under one seeded schedule (random with 5 stickiness levels, or PCT); non-trivial = the trace shows at "
                       "least one of: stop() called while a region is open, tasks reclaimed only after the collector slept with the marker already consumed, "
                       "a retire blocked on a full queue, a try_pop_n split by the ring end, a pass held back by a pinned slot, a pass without sleep, a retirement inside the retiring thread's own region, "
                       "a retire blocked across the slot-version wrap, a retirement while no collector thread exists, a second start() after a stop(); "
                       "distinct by trace hash")
    ctx.cov["samples"] = samples or [["<no sample>"]]


def replay(ctx, path):
    txt = Path(path).read_text()
    m = re.search(r"mode=(\S+) seed=(\d+) env=(\{.*\})", txt)
    mode, seed, env = m.group(1), int(m.group(2)), eval(m.group(3))
    exe, log = build_vrt_exe("c10", SRCS, repo_cpp=REPO_CPP)
    drv = ctx.driver("drv_C10")
    runs = ctx.econc(exe, drv, [mode], seed, 1, env=env)
    r = runs[0]
    print("\n".join(r["lines"]))
    print("verdict:", r["verdict"], "replay:", r["replay"], "oracle:", r["oracle"])
    return 1 if (r["oracle"] or r["verdict"] != "ok" or (r["replay"] and not r["replay"].startswith("ok"))) else 0


MANIFEST = {
    "technique": "Lean 4 proof (inductive invariants over all interleavings of an event-level transition system whose collector is the exact keep_reclaim loop; queue and epoch replaced by their specifications) + translator-generated shape/constant obligations + replay of real executions under a deterministic scheduler with virtual time",
    "text": "Theorems in lean/Babylon/Properties/C10.lean hold for every interleaving of retire / tick / region enter-leave / stop and collector steps, every queue capacity, batch boundary, number of clients and slots; every trace of the real GarbageCollector produced under VRT (collector thread, blocking pushes, back-off sleeps in virtual time) is checked line by line to be a path of the model, and the harness evaluates exactly-once / never-early / all-before-stop on the implementation itself",
    "note": "Trusted: Lean kernel + 3 standard axioms; gen/gc.py; vrt/; the queue (C01/C02) and epoch (C09) specifications the model assumes, each re-validated on every replayed trace; SC interleavings only; safety theorems (exactly once, never early, conservation, all invoked when stop() has returned) need no assumption beyond the client contract built into the model; termination of stop() is proved under explicit contract / fairness / regions-eventually-close hypotheses",
}
