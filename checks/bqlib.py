"""Shared part of the C01 / C02 checks (ConcurrentBoundedQueue): one model (lean/Babylon/BQ), one translator
(gen/bq.py), one VRT harness (harness/bq.cpp), one lock-step replay driver (lean/Babylon/BQ/Replay.lean)."""
from vlib.core import *

SRCS = ["harness/bq.cpp"]


def build():
    return build_vrt_exe("bq", SRCS)


def plan(ctx, quick_n, thorough_n):
    n = quick_n if ctx.quick else thorough_n
    if ctx.broken:                     # a proof / generated obligation no longer checks: search 4x harder for a failing input
        n *= 4
    pct = {"VRT_STRATEGY": "pct"}
    fine = {"VRT_STICK": "0"}
    # no PCT for comp: the compensation loop of deal_n_continuously busy-polls without yielding while the
    # opposite ticket is in flight, and PCT never preempts a thread that does not yield (starvation is an
    # artefact of that strategy, not a deadlock of the queue)
    eintr = {"VRT_FUTEX_EINTR": "4"}   # one in four sleeping futex waits returns -1/EINTR (spurious return, no word change)
    return [("mix", n, {}), ("mix", n // 2, pct), ("mix", n // 3, fine), ("mix", n // 3, eintr), ("comp", n // 2, {}),
            ("comp", n // 4, fine), ("timed", n // 2, {}), ("timed", n // 4, pct), ("timed", n // 3, eintr)]


def corpus_cases(prop):
    """corpus/<prop>/*.txt: lines `mode seed env-dict` — fixed interesting cases, run first"""
    out = []
    d = VERIF / "corpus" / prop
    for f in sorted(d.glob("*.txt")):
        for line in f.read_text().splitlines():
            line = line.split("#")[0].strip()
            if not line:
                continue
            mode, seed, env = line.split(None, 2) if len(line.split(None, 2)) == 3 else (line.split() + ["{}"])[:3]
            out.append((mode, int(seed), eval(env)))
    return out


def trace_features(lines):
    """cheap classification of one trace"""
    f = {"sleep": 0, "eagain": 0, "woken": 0, "wake_calls": 0, "timeout": 0, "casfail": 0, "tryfail": 0, "window": 0,
         "spinwait": 0, "wrap": 0, "comp": 0}
    last_store = {}      # slot -> tid of the last 16-bit (batch) version store not yet followed by that thread's re-load
    for l in lines:
        w = l.split()
        if len(w) < 3:
            continue
        k = w[1]
        if k == "fwait":
            f["sleep" if w[4] == "sleep" else "eagain"] += 1
        elif k == "fwoke":
            if len(w) > 3:
                f["timeout"] += 1
        elif k == "fwake":
            f["wake_calls"] += 1
            f["woken"] += int(w[-1])
        elif k in ("cas", "casw"):
            if w[-2] == "0":
                f["casfail"] += 1
            # waiter registers between the batch waker's relaxed store and its re-load of the word
            elif w[2].startswith("slot") and int(w[6]) >= 65536 and w[2] in last_store and last_store[w[2]] != w[0]:
                f["window"] += 1
        elif k == "st" and w[2].startswith("slot") and w[3] == "rlx":
            last_store[w[2]] = w[0]
        elif k == "ld" and w[2].startswith("slot") and last_store.get(w[2]) == w[0]:
            del last_store[w[2]]
        elif k == "ev" and w[0] != "0" and w[2] == "ret" and len(w) > 4 and w[3].startswith("try") and w[4] == "0":
            f["tryfail"] += 1
        elif k == "ev" and w[2] == "call" and w[3] in ("cpush_n", "cpop_n"):
            f["comp"] += 1
    return f


def run_all(ctx, prop, quick_n, thorough_n):
    """gen -> build harness -> corpus + seeded runs -> lock-step replay; returns (runs, dist)"""
    drv = ctx.driver("drv_" + prop)
    exe, log = build()
    if exe is None:
        ctx.broke("correspondence", "harness/bq.cpp does not build against /repo", log[-800:])
        return [], {}
    seed0 = ctx.seed * 1000003
    dist = {"modes": {}, "verdicts": {}, "replay_ok": 0, "replay_diverge": 0, "oracle": 0, "races": 0, "max_trace": 0,
            "features": {}}
    allruns = []
    jobs = [(m, s, 1, e, True) for (m, s, e) in corpus_cases(prop)] + [(m, seed0, n, e, False) for (m, n, e) in plan(ctx, quick_n, thorough_n)]
    for mode, s0, cnt, env, fixed in jobs:
        runs = ctx.econc(exe, drv, [mode], s0, cnt, env=dict(env, VRT_STEP_LIMIT="150000"))
        key = mode + ("/" + ",".join("%s=%s" % kv for kv in sorted(env.items())) if env else "") + ("/corpus" if fixed else "")
        dist["modes"][key] = dist["modes"].get(key, 0) + len(runs)
        for r in runs:
            r["mode"], r["env"] = mode, env
            r["text"] = "mode=%s seed=%d env=%s\n%s" % (mode, r["seed"], env, "\n".join(r["lines"][-600:]))
            r["feat"] = trace_features(r["lines"])
            for k, v in r["feat"].items():
                dist["features"][k] = dist["features"].get(k, 0) + (1 if v else 0)
            dist["verdicts"][r["verdict"]] = dist["verdicts"].get(r["verdict"], 0) + 1
            dist["max_trace"] = max(dist["max_trace"], len(r["lines"]))
            dist["races"] += len(r["races"])
        allruns += runs
        if len(ctx.failing) > 60:      # enough concrete failing inputs; broken obligations never shorten the search
            break
    return allruns, dist


def view_pass(ctx, prop, quick_n, thorough_n):
    """oracle-only pass in VRT's weak-memory (release/acquire view) mode: loads may return stale values the
    C++ model allows; no lock-step replay (stale loads are not paths of the SC model).  A weakened order or a
    dropped fence in the source shows up here as an oracle failure, a payload race or a deadlock verdict."""
    exe, log = build()
    if exe is None:
        return [], {}
    n = quick_n if ctx.quick else thorough_n
    if ctx.broken:
        n *= 3
    seed0 = ctx.seed * 1000003 + 500000
    dist = {"modes": {}, "verdicts": {}, "oracle": 0, "races": 0, "stale_reads": 0, "runs_with_stale": 0}
    out = []
    for mode, cnt, env in [("mix", n, {}), ("mix", n // 2, {"VRT_STALE": "70"}), ("comp", n // 3, {}), ("timed", n // 3, {})]:
        e = dict(env, VRT_MEM="view", VRT_STEP_LIMIT="150000")
        runs = ctx.econc(exe, None, [mode], seed0, cnt, env=e)
        key = mode + "/view" + ("/stale70" if env else "")
        dist["modes"][key] = len(runs)
        for r in runs:
            r["mode"], r["env"] = mode, e
            r["text"] = "mode=%s seed=%d env=%s\n%s" % (mode, r["seed"], e, "\n".join(r["lines"][-600:]))
            dist["verdicts"][r["verdict"]] = dist["verdicts"].get(r["verdict"], 0) + 1
            dist["races"] += len(r["races"])
            for l in r["lines"]:
                if " ev stats " in l and " stale " in l:
                    k = int(l.split(" stale ")[1].split()[0])
                    dist["stale_reads"] += k
                    dist["runs_with_stale"] += 1 if k else 0
        out += runs
    return out, dist


def oracle_kind(r):
    return r["oracle"][0].split("ORACLE", 1)[1].split()[0]


def replay_case(ctx, prop, path):
    txt = Path(path).read_text()
    m = re.search(r"mode=(\S+) seed=(\d+) env=(\{.*\})", txt)
    mode, seed, env = m.group(1), int(m.group(2)), eval(m.group(3))
    exe, log = build()
    drv = ctx.driver("drv_" + prop)
    r = ctx.econc(exe, drv, [mode], seed, 1, env=dict(env, VRT_STEP_LIMIT="150000"))[0]
    print("\n".join(r["lines"]))
    print("verdict:", r["verdict"], "replay:", r["replay"], "oracle:", r["oracle"], "races:", r["races"])
    return 1 if (r["oracle"] or r["races"] or r["verdict"] != "ok" or (r["replay"] and not r["replay"].startswith("ok"))) else 0
