"""C17 — page allocators / object pool: resources conserved, never shared, never lost.

proof:          lean/Babylon/Properties/C17.lean over the token model Babylon/Pages/Model.lean (tokens in
                places, every step a move; the queue slot protocol enters as the assumed bounded-queue
                specification of C01/C02, see the header of Model.lean)
translator:     gen/pages.py (layout constants, memory orders and skeletons of the compensating / try_ /
                single queue paths, call skeletons and constants of the allocators and the pool)
correspondence: E-CONC under VRT — harness/c17.cpp runs the real CachedPageAllocator / PageHeap /
                CountingPageAllocator / BatchPageAllocator over a recording upstream, and ObjectPool in
                strict and auto-create mode; every atomic operation on the ticket counters and slot words,
                every fence and every event is replayed in lock-step by lean/Drivers/C17.lean; the harness
                evaluates the ownership / conservation / destructor / strict-bound / recycler oracle on the
                real code.  E-SEQ: the same harness built without VRT under ASan+UBSan, single-threaded
                histories, events only (the model runs its atomic steps itself).
fixed cases:    corpus/C17/fixed.txt (run first) + two regression witnesses of repaired defects, oracle / sanitizer
                verdict only: `handles` (move assignment / vector erase of pooled handles: Deleter::operator= had no
                return statement, key verdict:handles:crash) and `batchdefault` (BatchPageAllocator with its default
                batch size wrote through a null buffer, key verdict:batchdefault:crash); gen_repaired_shapes pins
                the repaired source shapes.
"""
from vlib.core import *

SRCS = ["harness/c17.cpp"]
REPO_CPP = ["babylon/concurrent/*.cpp", "babylon/reusable/page_allocator.cpp", "babylon/new.cpp"]
MODES = ["cached", "heap", "counting", "batch", "batchheap", "fullrace", "strict", "auto"]
CORPUS = VERIF / "corpus" / "C17"


def _build():
    exe, log = build_vrt_exe("c17", SRCS, repo_cpp=REPO_CPP)
    if exe is None:
        return None, None, log
    seq, log2 = build_exe("c17seq", SRCS, "asan", REPO_CPP, extra_flags=["-DC17_NOVRT"])
    return exe, seq, log2


def warm():
    _build()


def _features(lines):
    """what a trace exercised (for the distinct / non-trivial count and the distribution)"""
    f = {"comp_push": 0, "comp_pop": 0, "comp_cas_fail": 0, "comp_try_notready": 0, "rem_alloc": 0, "blocked_pop": 0,
         "overflow_destroy": 0, "spurious_cas": 0, "two_segments": 0, "switch_inside": 0, "dtor_pages": 0}
    inside = {}          # tid -> current call
    last_tid = None
    in_cc = {}           # tid -> inside the compensating try (after cas ok)
    pend = {}
    for l in lines:
        w = l.split()
        if len(w) < 2 or not w[0].isdigit():
            continue
        t = w[0]
        if last_tid is not None and t != last_tid and (inside.get(t) or inside.get(last_tid)):
            f["switch_inside"] += 1
        last_tid = t
        if w[1] == "ev":
            if w[2] == "call":
                inside[t] = w[3]
                pend[t] = 0
            elif w[2] == "ret":
                inside[t] = None
            elif w[2] == "up_alloc" and inside.get(t) in ("alloc", "pop"):
                if in_cc.get(t):
                    f["comp_push"] += 1
                else:
                    f["rem_alloc"] += 1
            elif w[2] == "up_free":
                if inside.get(t) == "dealloc" and in_cc.get(t):
                    f["comp_pop"] += 1
                elif inside.get(t) == "push":
                    f["comp_pop" if in_cc.get(t) else "overflow_destroy"] += 1
                elif inside.get(t) == "dtor":
                    f["dtor_pages"] += 1
        elif w[1] == "cas" and w[2] in ("pushi", "popi"):
            if w[7] == "1":
                in_cc[t] = True
            else:
                f["comp_cas_fail"] += 1
        elif w[1] == "casw" and w[2] == "popi" and w[7] == "0" and w[5] == w[8]:
            f["spurious_cas"] += 1
        elif w[1] == "st" and w[2].startswith("slot"):
            in_cc[t] = False
        elif w[1] == "fwait" and w[-1] == "sleep":
            f["blocked_pop"] += 1
    return f


def _classify(ctx, r, tag, env, dist, distinct, samples, lockstep=True):
    dist["verdicts"][r["verdict"]] = dist["verdicts"].get(r["verdict"], 0) + 1
    dist["max_trace"] = max(dist["max_trace"], len(r["lines"]))
    hdr = " ".join(r["header"])
    marks = [l for l in r["lines"] if " ev ORACLE" in l or l.startswith("VERDICT") or re.match(r"\d+ race ", l)][:12]
    text = "mode=%s seed=%d env=%s\n# %s\n# oracle / verdict lines of this run (replay with ./check C17 --replay <this file>):\n%s\n# last 500 trace lines:\n%s" % (
        tag, r["seed"], env, hdr, "\n".join("#   " + l for l in marks), "\n".join(r["lines"][-500:]))
    f = _features(r["lines"])
    for k, v in f.items():
        dist["features"][k] = dist["features"].get(k, 0) + (1 if v else 0)
    for h in r["header"]:
        if h.startswith(("cap=", "batch=", "threads=", "pool=", "base=")):
            dist["config"][h] = dist["config"].get(h, 0) + 1
    nontrivial = (f["comp_push"] + f["comp_pop"] + f["blocked_pop"] + f["overflow_destroy"] + f["comp_cas_fail"] > 0) and \
                 (f["switch_inside"] > 0 or tag.startswith("seq"))
    if nontrivial:
        distinct.add(sha("\n".join(l for l in r["lines"] if " ev stats" not in l)))
    if r["oracle"]:
        dist["oracle"] += 1
        kind = r["oracle"][0].split("ORACLE", 1)[1].split()[0].rstrip(":")
        ctx.failing_input("oracle:%s:%s" % (tag.split("/")[0], kind), text)
    elif r["races"]:
        dist["races"] += 1
        ctx.failing_input("race:%s" % tag.split("/")[0], text)
    elif r["verdict"] != "ok":
        ctx.failing_input("verdict:%s:%s" % (tag.split("/")[0], r["verdict"].split()[0]), text + "\n" + r.get("stderr", ""))
    elif lockstep:
        if r["replay"] and r["replay"].startswith("ok"):
            dist["replay_ok"] += 1
        else:
            dist["replay_diverge"] += 1
            if dist["replay_diverge"] <= 6:
                ctx.broke("correspondence", "E-CONC lock-step c17 mode=%s seed=%d" % (tag, r["seed"]), "%s\n%s" % (r["replay"], text))
    if len(samples) < 1 and tag == "cached" and f["comp_push"] and f["switch_inside"] and len(r["lines"]) > 80:
        samples.append(r["lines"][:80])


def run(ctx):
    ctx.cov["trusted_base"] += [
        "vrt/vrt.cpp (TSan-ABI interposition, deterministic scheduler, futex emulation) and the TSan-instrumented build (differs from production in the places listed in DESIGN 3.3)",
        "executions are sequentially consistent interleavings at atomic-operation granularity; memory orders are tied statically (generated constants / skeleton obligations), dynamically by trace equality and by the happens-before race monitor on the slot payloads",
        "ASSUMED bounded-queue specification (C01 bq_inv / bq_exclusive / bq_value / bq_ver16_faithful, C02 bq_sleep_sound), stated in Babylon/Pages/Model.lean: it enters the model as guards (slot ownership) and as the hypothesis QShape of the destructor theorem; both are checked on every replayed trace (a forbidden step or a wrong quiescent shape is a divergence)",
        "upstream contract: the upstream allocator / creator hands out a token that is not currently live (operator new)",
        "ConcurrentAdder / ConcurrentSummer are modelled as exact counters (their per-thread cells are C19's)",
    ]
    ctx.gen(["pages"])
    ctx.lake_build(["Babylon.Properties.C17"])
    ctx.audit("Babylon.Properties.C17")
    if not ctx.quick:
        ctx.leanchecker(["Babylon.Pages.Model", "Babylon.Pages.View", "Babylon.Properties.C17"])
    drv = ctx.driver("drv_C17")
    exe, seq, log = _build()
    if exe is None or seq is None:
        ctx.broke("correspondence", "harness/c17.cpp does not build against /repo", (log or "")[-1500:])
        return
    # without a driver (its build is broken) the search goes on with the implementation-side oracle alone
    n = 100 if ctx.quick else 2500
    if ctx.broken:
        # a proof obligation / generated obligation no longer checks: ENLARGE the search for a concrete failing
        # input (only concrete failing inputs end the search early, never a broken obligation)
        n *= 4
        ctx.log("obligations broken before the correspondence: enlarging the search x4")
    seed0 = ctx.seed * 1000003
    dist = {"modes": {}, "verdicts": {}, "replay_ok": 0, "replay_diverge": 0, "oracle": 0, "races": 0, "max_trace": 0, "features": {}, "config": {}}
    distinct = set()
    samples = []
    # corpus first: "mode seed key=value…" lines
    plan = []
    if CORPUS.exists():
        for fpath in sorted(CORPUS.glob("*.txt")):
            for line in fpath.read_text().splitlines():
                w = line.split("#")[0].split()
                if len(w) >= 2:
                    env = dict(kv.split("=", 1) for kv in w[2:])
                    plan.append((w[0], int(w[1]), 1, env, w[0] + "/corpus"))
    for m in MODES:
        plan.append((m, seed0, n, {}, m))
    # PCT (strict priorities) only where every wait sleeps or yields: the compensating loop busy-waits
    # without a yield after a failed compensation, which a strict-priority scheduler never leaves
    plan.append(("strict", seed0 + 500000, n // 2, {"VRT_STRATEGY": "pct"}, "strict/pct"))
    for m in ("cached", "batch", "fullrace", "auto"):
        plan.append((m, seed0 + 700000, n // 2, {"VRT_STICK": "0"}, m + "/fine"))
    plan.append(("seq", seed0, n, {}, "seq/vrt"))
    for mode, s0, cnt, env, tag in plan:
        runs = ctx.econc(exe, drv, [mode], s0, cnt, env=dict(env, VRT_STEP_LIMIT="400000"))
        dist["modes"][tag] = dist["modes"].get(tag, 0) + len(runs)
        for r in runs:
            _classify(ctx, r, tag if "/corpus" not in tag else mode, env, dist, distinct, samples, lockstep=drv is not None)
            if len(ctx.failing) > 8:
                break
        if len(ctx.failing) > 8:
            break
    # E-SEQ: single-threaded histories on the ASan+UBSan build, events only
    if len(ctx.failing) <= 8:
        runs = ctx.econc(seq, drv, ["seq"], seed0 + 900000, 2 * n)
        dist["modes"]["seq/asan"] = len(runs)
        for r in runs:
            _classify(ctx, r, "seq/asan", {}, dist, distinct, samples, lockstep=drv is not None)
    # fixed cases outside the token model (oracle / sanitizer verdict only): pooled-handle move assignment,
    # BatchPageAllocator with its default batch size
    if len(ctx.failing) <= 8:
        for mode in ("handles", "batchdefault"):
            runs = ctx.econc(seq, None, [mode], 1, 1)
            dist["modes"][mode] = len(runs)
            for r in runs:
                _classify(ctx, r, mode, {}, dist, distinct, samples, lockstep=False)
    ctx.cov["distribution"] = dist
    ctx.cov["distinct_nontrivial"] = len(distinct)
    ctx.cov["traces_validated_against_impl"] = dist["replay_ok"]
    ctx.cov["rule"] = ("one case = one seeded configuration (queue capacity 1-8 rounded up to a power of two, batch size 1-6 or >= capacity, "
                       "counting layer, pool capacity 1-4) + sequential prefix leaving the cache exactly empty / exactly full / anywhere + 2-4 threads x 2-6 "
                       "calls (allocate n below / equal / above the capacity, deallocate 1-6; pop / try_pop / push) under one seeded schedule "
                       "(random with 5 stickiness levels, PCT, or switch-at-every-step), final drain and destructors; non-trivial = a compensating "
                       "reverse callback ran, a compensating CAS lost a race, a pop blocked on the futex or an overflow object was destroyed, AND "
                       "another thread was scheduled inside a call (or it is a sequential history); distinct by trace hash")
    ctx.cov["samples"] = samples or [["<no sample>"]]


def replay(ctx, path):
    txt = Path(path).read_text()
    m = re.search(r"mode=(\S+) seed=(\d+) env=(\{.*\})", txt)
    tag, seed, env = m.group(1), int(m.group(2)), eval(m.group(3))
    exe, seq, log = _build()
    drv = ctx.driver("drv_C17")
    mode = tag.split("/")[0]
    binary = seq if tag in ("seq/asan", "handles", "batchdefault") else exe
    runs = ctx.econc(binary, None if tag in ("handles", "batchdefault") else drv, [mode], seed, 1, env=env)
    r = runs[0]
    print("\n".join(r["lines"]))
    print("verdict:", r["verdict"], "replay:", r["replay"], "oracle:", r["oracle"], "races:", r["races"])
    return 1 if (r["oracle"] or r["races"] or r["verdict"] != "ok" or (r["replay"] and not r["replay"].startswith("ok"))) else 0


MANIFEST = {
    "technique": "Lean 4 proof (invariants over all interleavings of a token-level transition system whose steps are the atomic operations and callbacks of the real code) + translator-generated constants / skeleton obligations + lock-step replay of real executions under a deterministic scheduler, with the property's oracle evaluated on the real code",
    "text": "Theorems in lean/Babylon/Properties/C17.lean hold for every interleaving, thread count, capacity, batch size and call history of the model; every trace of the real allocators / pools produced under VRT is checked to be a path of the model (same operation, location, memory order, values, events)",
    "note": "Trusted: Lean kernel + 3 standard axioms; gen/pages.py; vrt/; SC interleavings (orders tied statically and by the race monitor); the bounded-queue slot protocol is ASSUMED (C01/C02 specification, stated in Model.lean, checked dynamically on every trace)",
}
