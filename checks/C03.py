"""C03 — concurrent hash set/map: linearizable insert-if-absent, one winner per key.

proof:          lean/Babylon/Properties/C03.lean over the atomic-granularity transition system
                Babylon/Swiss/Conc.lean (reuses the table representation and the probing lemmas of the
                sequential model Babylon/Swiss/Seq*.lean proved for C18)
translator:     gen/swissconc.py (memory orders, atomic skeletons of do_emplace / find / Group::Group under
                the TSan-ABI build / Set::emplace / Set::find, CAS operands, failed-CAS branches, growth
                factor) + gen/swiss.py (control constants, group size, tag bits)
correspondence: E-CONC L1 — harness/c03.cpp runs the real ConcurrentFixedSwissTable and
                ConcurrentTransientHashSet under VRT (deterministic schedules; bad hash families; bases at
                the end of the ring so the mirrored bytes are read; placeholder heads; growth through 1-3
                chained tables); every atomic-level trace (16 relaxed byte loads per group, fences, slot
                CAS, release stores, sched_yield, next-pointer loads / CAS) is replayed in lock-step by
                lean/Drivers/C03.lean; the value cells AND the headers of chained TableNodes (table pointers,
                bucket mask) are vrt_payload ranges (HB race monitor = "fully constructed before visible",
                "a new table is published to the loser of the growth race"); the harness evaluates the
                property's oracle itself.  An
                additional oracle-only pass runs the same programs under VRT_MEM=view (release/acquire
                view model: loads of control bytes / next pointers may be stale), where the
                find-after-insert oracle binds only calls that happen-after the returned insertion.
"""
from vlib.core import *

SRCS = ["harness/c03.cpp"]
REPO_CPP = ["babylon/concurrent/*.cpp"]


def warm():
    build_vrt_exe("c03", SRCS, repo_cpp=REPO_CPP)


def _features(lines):
    """what made a run non-trivial"""
    f = set()
    for l in lines:
        w = l.split()
        if len(w) < 3:
            continue
        k = w[1]
        if k == "cas":
            if w[2].startswith("next"):
                f.add("grow-cas-won" if w[-2] == "1" else "grow-cas-lost")
            elif w[-2] == "0":
                obs = int(w[-1])
                f.add("slot-cas-lost-busy" if obs == 129 else ("slot-cas-dummy" if obs == 130 else "slot-cas-lost-published"))
        elif k == "ld" and w[2].startswith("ctl") or k == "ld" and w[2] == "dummy":
            if w[-1] == "129":
                f.add("load-saw-busy")
        elif k == "ev":
            if w[2] == "yield":
                f.add("yield")
            elif w[2] == "ret" and w[-1] == "end" and w[3] in ("templace",):
                f.add("fixed-full")
            elif w[2] == "ret" and w[3] in ("emplace", "templace") and w[-1] == "0":
                f.add("duplicate")
    return f


def _mirror_spin(lines):
    """tail of a step-limit trace: one thread keeps losing the slot CAS to an already published tag
    (observed value >= 0) — it reads the slot through the mirrored byte that is still EMPTY"""
    tail = [l.split() for l in lines[-400:] if " cas ctl" in l]
    return len(tail) >= 5 and all(w[-2] == "0" and int(w[-1]) < 128 for w in tail) and len(set((w[0], w[2]) for w in tail)) == 1


def run(ctx):
    ctx.cov["trusted_base"] += [
        "vrt/vrt.cpp (TSan-ABI interposition, deterministic scheduler, HB race monitor) and the TSan-instrumented build: the group load is 16 relaxed byte loads there, one SIMD load in production (DESIGN 3.3)",
        "executions are sequentially consistent interleavings at atomic-operation granularity; memory orders are tied statically (generated order constants + skeleton obligations) and dynamically (trace equality, HB race monitor on the value cells); weak-memory reorderings are not simulated",
        "element constructors / key comparison are opaque (modelled as a plain write / read of the value cell); the hash function is a parameter of every theorem, the correspondence uses an identity hasher",
        "harness/c03.cpp replaces global operator new/delete to name chained tables at creation and canonicalises node addresses to allocation-order ids",
    ]
    ctx.gen(["swiss", "swissconc"])
    ctx.lake_build(["Babylon.Properties.C03"])
    ctx.audit("Babylon.Properties.C03")
    if not ctx.quick:
        ctx.leanchecker(["Babylon.Swiss.Conc", "Babylon.Properties.C03"])
    drv = ctx.driver("drv_C03")
    exe, log = build_vrt_exe("c03", SRCS, repo_cpp=REPO_CPP)
    if exe is None:
        ctx.broke("correspondence", "harness/c03.cpp does not build against /repo", log[-800:])
        return
    if drv is None:
        return
    n = 120 if ctx.quick else 3000
    if ctx.broken:
        n *= 4
    seed0 = ctx.seed * 1000003
    dist = {"modes": {}, "verdicts": {}, "replay_ok": 0, "replay_diverge": 0, "oracle": 0, "races": 0, "features": {},
            "n0": {}, "threads": {}, "tables": {}, "max_trace": 0, "trace_lines": 0}
    distinct = set()
    samples = []
    plan = []
    # corpus first: fixed seeds that once showed something interesting (format: "<mode> <seed> [ENV=val ...]")
    cdir = VERIF / "corpus" / "C03"
    if cdir.exists():
        for f in sorted(cdir.glob("*.txt")):
            for line in f.read_text().splitlines():
                w = line.split()
                if len(w) >= 2 and not line.startswith("#"):
                    plan.append((w[0], int(w[1]), 1, dict(x.split("=", 1) for x in w[2:])))
    m = max(1, n * 5 // 14)
    plan += [("fixed", seed0, n, {}), ("set", seed0, n, {}),
             ("fixed", seed0 + n, m, {"VRT_STRATEGY": "pct"}), ("set", seed0 + n, m, {"VRT_STRATEGY": "pct"}),
             ("fixed", seed0 + 2 * n, m, {"VRT_STICK": "0"}), ("set", seed0 + 2 * n, m, {"VRT_STICK": "0"}),
             # weak-memory pass (oracle + HB race monitor only: stale loads are not SC-replayable)
             ("fixed", seed0 + 3 * n, m, {"VRT_MEM": "view"}), ("set", seed0 + 3 * n, m, {"VRT_MEM": "view"})]
    base_bad = len(ctx.failing) + len(ctx.broken)   # proof / translator breakage found before the runs
    # batches of <= 64 runs so that a broken tree stops early instead of grinding through step limits
    batches = []
    for mode, s0, cnt, env in plan:
        k = 0
        while k < cnt:
            batches.append((mode, s0 + k, min(64, cnt - k), env))
            k += 64
    for mode, s0, cnt, env in batches:
        lockstep = env.get("VRT_MEM") != "view"
        runs = ctx.econc(exe, drv if lockstep else None, [mode], s0, cnt, env=dict(env, VRT_STEP_LIMIT="250000"))
        tag = mode + ("/" + ",".join("%s=%s" % kv for kv in sorted(env.items())) if env else "")
        dist["modes"][tag] = dist["modes"].get(tag, 0) + len(runs)
        for r in runs:
            dist["verdicts"][r["verdict"]] = dist["verdicts"].get(r["verdict"], 0) + 1
            dist["max_trace"] = max(dist["max_trace"], len(r["lines"]))
            dist["trace_lines"] += len(r["lines"])
            hdr = dict(h.split("=", 1) for h in r["header"] if "=" in h)
            dist["n0"][hdr.get("n0", "?")] = dist["n0"].get(hdr.get("n0", "?"), 0) + 1
            dist["threads"][hdr.get("threads", "?")] = dist["threads"].get(hdr.get("threads", "?"), 0) + 1
            for l in r["lines"][-3:]:
                m = re.search(r"ev stats .* tables (\d+)", l)
                if m:
                    dist["tables"][m.group(1)] = dist["tables"].get(m.group(1), 0) + 1
            feats = _features(r["lines"])
            for f in feats:
                dist["features"][f] = dist["features"].get(f, 0) + 1
            if feats - {"duplicate", "slot-cas-dummy", "grow-cas-won"}:
                distinct.add(sha("\n".join(l for l in r["lines"] if " ev stats" not in l)))
            text = "%s %d %s\n%s" % (mode, r["seed"], " ".join("%s=%s" % kv for kv in sorted(env.items())), "\n".join(r["lines"][-300:]))
            if r["oracle"]:
                dist["oracle"] += 1
                kind = r["oracle"][0].split("ORACLE", 1)[1].split()[0]
                ctx.failing_input("oracle:%s:%s" % (mode, kind), text)
            elif r["races"]:
                dist["races"] += 1
                what = r["races"][0].split()
                name = what[3] if len(what) > 3 else "?"
                kind = "table-node-not-published" if name.startswith("node") else "value-cell-not-published"
                ctx.failing_input("race:%s:%s" % (mode, kind), text)
            elif r["verdict"] == "step-limit" and env.get("VRT_STRATEGY") == "pct" and _mirror_spin(r["lines"]):
                # liveness artefact of the strict-priority (PCT) scheduler, not a C03 (safety) violation:
                # a prober that reads a slot through its *mirrored* byte while the inserter is between its
                # two release stores retries (`continue`) WITHOUT sched_yield; if it outranks the inserter
                # forever it spins forever.  Any fair scheduler ends the spin.  Reported in the evidence.
                dist["pct_mirror_spin"] = dist.get("pct_mirror_spin", 0) + 1
            elif r["verdict"] != "ok":
                ctx.failing_input("verdict:%s:%s" % (mode, r["verdict"].split()[0]), text + "\n" + r.get("stderr", ""))
            elif not lockstep:
                dist["view_ok"] = dist.get("view_ok", 0) + 1
                for l in r["lines"][-3:]:
                    mm = re.search(r"ev stats .* stale (\d+)", l)
                    if mm:
                        dist["view_stale_reads"] = dist.get("view_stale_reads", 0) + int(mm.group(1))
            elif r["replay"] and r["replay"].startswith("ok"):
                dist["replay_ok"] += 1
            else:
                dist["replay_diverge"] += 1
                ctx.broke("correspondence", "E-CONC lock-step c03 %s seed=%d" % (tag, r["seed"]), "%s\n%s" % (r["replay"], text))
            if len(samples) < 1 and mode == "fixed" and "slot-cas-lost-busy" in feats:
                samples.append([l for l in r["lines"] if " ld " not in l][:60])
            if len(ctx.failing) + len(ctx.broken) - base_bad > 8:
                break
        if len(ctx.failing) + len(ctx.broken) - base_bad > 8:
            break
    ctx.cov["distribution"] = dist
    ctx.cov["distinct_nontrivial"] = len(distinct)
    ctx.cov["traces_validated_against_impl"] = dist["replay_ok"]
    ctx.cov["rule"] = ("one case = one seeded program (head = placeholder / 16 / 32 / 64 buckets; <= 4 distinct hashes, mostly equal 7-bit tags, probe bases "
                       "within 16 of the end of the ring; a sequential prefix filling the table(s) to around capacity, then 2-4 threads x 3-12 emplace / insert / "
                       "find calls drawing from a small key pool) under one seeded schedule (random with 5 stickiness levels, stickiness 0, or PCT); "
                       "non-trivial = the trace shows real interference: a slot CAS lost to a BUSY or just-published slot, a byte load that saw BUSY, a "
                       "sched_yield, a lost growth CAS, or a full fixed table refusing; distinct by trace hash")
    ctx.cov["samples"] = samples or [["<no sample>"]]


def replay(ctx, path):
    txt = Path(path).read_text()
    m = re.search(r"^(fixed|set) (\d+) ?(.*)$", txt, re.M)
    mode, seed = m.group(1), int(m.group(2))
    env = dict(x.split("=", 1) for x in m.group(3).split())
    exe, log = build_vrt_exe("c03", SRCS, repo_cpp=REPO_CPP)
    drv = ctx.driver("drv_C03")
    runs = ctx.econc(exe, None if env.get("VRT_MEM") == "view" else drv, [mode], seed, 1, env=dict(env, VRT_STEP_LIMIT="250000"))
    r = runs[0]
    print("\n".join(l for l in r["lines"] if " ld ctl" not in l))
    print("verdict:", r["verdict"], "replay:", r["replay"], "oracle:", r["oracle"], "races:", r["races"])
    return 1 if (r["oracle"] or r["races"] or r["verdict"] != "ok" or (r["replay"] and not r["replay"].startswith("ok"))) else 0


MANIFEST = {
    "technique": "Lean 4 proof (inductive invariants over all interleavings of an atomic-granularity transition system; probing lemmas shared with the sequential C18 model) + translator-generated order/skeleton obligations + lock-step replay of real executions under a deterministic scheduler with an HB race monitor on the value cells",
    "text": "Theorems in lean/Babylon/Properties/C03.lean hold for every interleaving, thread count, hash function, key multiset, initial bucket count (incl. the placeholder) and number of growth steps of the model; each model step is one action of the real code (one relaxed byte load of the 16-byte group, the acquire fence + key compare, the slot CAS, construct, the two release stores, the size add, sched_yield, next load / CAS), and every trace of the real table / set produced under VRT is checked to be a path of the model",
    "note": "Trusted: Lean kernel + 3 standard axioms; gen/swiss.py, gen/swissconc.py; vrt/ (scheduler, TSan-ABI build: byte-wise group load instead of SIMD); SC interleavings only (orders tied statically and by the HB monitor); element constructor / comparison opaque",
}
