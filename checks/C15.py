"""C15 — transient topic: each subscriber sees every item once, in order, then the end.

proof:          lean/Babylon/Properties/C15.lean over the atomic-granularity model Babylon/Topic/Model.lean
translator:     gen/topic.py (status constants, block size, waiter-bit arithmetic, memory orders, atomic
                skeletons and control-flow shapes of publish_n / close / clear / consume / SlotFutex::*,
                and of the ConcurrentVector operations the model replaces by their specification)
correspondence: E-CONC — harness/c15.cpp runs the real ConcurrentTransientTopic under VRT (deterministic
                schedules, spurious weak-CAS failures, futex emulation with deadlock verdict, happens-before
                race monitor on the item storage); every atomic-level trace of mode `lock` is replayed in
                lock-step by lean/Drivers/C15.lean; the harness evaluates the property oracle itself
                (items once / in index order / end marker exactly after all items / no shared slot /
                clear = new / no torn item), mode `grow` runs the same programs while the vector grows.
"""
from vlib.core import *

SRCS = ["harness/c15.cpp"]
REPO_CPP = []


def warm():
    build_vrt_exe("c15", SRCS, repo_cpp=REPO_CPP)


def _corpus():
    out = []
    d = VERIF / "corpus" / "C15"
    if d.exists():
        for f in sorted(d.glob("*.txt")):
            for line in f.read_text().splitlines():
                line = line.split("#")[0].strip()
                if not line:
                    continue
                w = line.split()
                env = dict(kv.split("=", 1) for kv in w[2:])
                out.append((w[0], int(w[1]), env))
    return out


def _classify(ctx, dist, distinct, samples, mode, env, runs, lockstep):
    for r in runs:
        dist["verdicts"][r["verdict"]] = dist["verdicts"].get(r["verdict"], 0) + 1
        lines = r["lines"]
        dist["max_trace"] = max(dist["max_trace"], len(lines))
        nsleep = sum(1 for l in lines if " fwait " in l and l.endswith("sleep"))
        nwake = sum(1 for l in lines if " fwake " in l and not l.endswith(" 0"))
        ncasfail = sum(1 for l in lines if " casw " in l and l.split()[-2] == "0")
        # a publish_n batch split at the 128-slot block boundary: the same thread's callback ends at 128 and resumes at 128
        ends = set(l.split()[0] for l in lines if " ev fill " in l and int(l.split()[3]) < 128 and int(l.split()[3]) + int(l.split()[4]) == 128 and int(l.split()[4]) <= 5)
        straddle = any(" ev fill 128 " in l and l.split()[0] in ends for l in lines)
        dist["sleeps_beyond_block0"] += sum(1 for l in lines if " fwait w" in l and l.endswith("sleep") and int(l.split()[2][1:]) >= 128)
        closed = set()
        for l in lines:
            w = l.split()
            if len(w) == 5 and w[1] == "st" and w[2].startswith("w") and w[4] == "2":
                closed.add(w[2])
            if len(w) == 5 and w[1] == "fwake" and w[2] in closed and w[4] != "0":
                dist["close_wakes_sleeper"] += 1
        dist["sleeps"] += nsleep
        dist["wakes_with_sleepers"] += nwake
        dist["cas_fail_lines"] += ncasfail
        dist["eagain"] += sum(1 for l in lines if " eagain " in l)
        dist["batch_split_at_block_boundary"] += 1 if straddle else 0
        dist["clears"] += sum(1 for l in lines if l.endswith("ev call clear"))
        for l in lines:
            if " ev stats " in l and " stale " in l:
                dist["stale_reads_view_mode"] += int(l.split()[-1])
        if nsleep > 0 or ncasfail > 0:
            distinct.add(sha("\n".join(l for l in lines if " ev stats" not in l)))
        text = "mode=%s seed=%d env=%s\n%s" % (mode, r["seed"], env, "\n".join(lines[-400:]))
        if r["oracle"]:
            dist["oracle"] += 1
            kind = r["oracle"][0].split("ORACLE", 1)[1].split()[0]
            ctx.failing_input("oracle:%s" % kind, text)
        elif r["races"]:
            dist["oracle"] += 1
            ctx.failing_input("oracle:race", text)
        elif r["verdict"] != "ok":
            ctx.failing_input("verdict:%s" % r["verdict"].split()[0], text + "\n" + r.get("stderr", ""))
        elif lockstep:
            if r["replay"] and r["replay"].startswith("ok"):
                dist["replay_ok"] += 1
            else:
                dist["replay_diverge"] += 1
                ctx.broke("correspondence", "E-CONC lock-step c15 mode=%s seed=%d" % (mode, r["seed"]), "%s\n%s" % (r["replay"], text))
        if len(samples) < 1 and mode == "lock" and 60 < len(lines) < 400 and nsleep > 0:
            samples.append(lines[:80])


def run(ctx):
    ctx.cov["trusted_base"] += [
        "vrt/vrt.cpp (TSan-ABI interposition, deterministic scheduler, futex emulation, happens-before race monitor) and the TSan-instrumented build (differs from production in the places listed in DESIGN 3.3)",
        "executions are sequentially consistent interleavings at atomic-operation granularity; memory orders are tied statically (generated order constants used by the model's happens-before ghost, skeleton obligations), dynamically by trace equality and by the race monitor; the whole protocol is proved for SC interleavings; item publication and the store-buffering handshake (status store / seq_cst fence / waiter-half load vs. waiter RMW / futex barrier / status load) are additionally proved over the release/acquire view model of Core/MemView (topic_publication_view, topic_wake_view*, with negative controls), the two halves of the mixed-size futex word taken as two locations (adds behaviours) and futex_wait's full barrier taken from the kernel contract; VRT's view mode (whole-cell histories) explores the real code oracle-only",
        "ConcurrentVector replaced by its specification (slot i exists when asked for; for_each splits at block boundaries; reserved_snapshot / ensure / size arithmetic tied by gen/topic.py shape checks)",
        "kernel futex contract: wait compares and sleeps atomically, wake-all wakes every sleeper, spurious returns allowed",
        "client contract (header comments): close only after every publish returned and no publish until clear; clear runs alone and invalidates consumers; one thread per consumer; CONCURRENT=false variant of publish_n not modelled",
    ]
    ctx.gen(["topic"])
    ctx.lake_build(["Babylon.Properties.C15"])
    ctx.audit("Babylon.Properties.C15")
    if not ctx.quick:
        ctx.leanchecker(["Babylon.Topic.Model", "Babylon.Properties.C15"])
    drv = ctx.driver("drv_C15")
    exe, log = build_vrt_exe("c15", SRCS, repo_cpp=REPO_CPP)
    if exe is None:
        ctx.broke("correspondence", "harness/c15.cpp does not build against /repo", log[-800:])
        return
    n = 240 if ctx.quick else 5000
    if ctx.broken:
        n *= 4
    seed0 = ctx.seed * 1000003
    dist = {"modes": {}, "verdicts": {}, "replay_ok": 0, "replay_diverge": 0, "oracle": 0, "cas_fail_lines": 0, "max_trace": 0,
            "sleeps": 0, "wakes_with_sleepers": 0, "eagain": 0, "batch_split_at_block_boundary": 0, "clears": 0, "corpus": 0, "stale_reads_view_mode": 0,
            "sleeps_beyond_block0": 0, "close_wakes_sleeper": 0}
    distinct = set()
    samples = []
    for mode, seed, env in _corpus():
        lockstep = mode == "lock" and "VRT_MEM" not in env
        runs = ctx.econc(exe, drv if lockstep else None, [mode], seed, 1, env=env)
        dist["corpus"] += len(runs)
        _classify(ctx, dist, distinct, samples, mode, env, runs, lockstep)
    # SC lock-step passes, SC oracle-only passes while the vector grows, and oracle-only passes in VRT's
    # weak-memory (view) mode: stale loads allowed by the release/acquire view model, so that a missing
    # seq_cst fence (lost wake-up -> deadlock verdict) or a weakened release/acquire (stale item -> race /
    # oracle) shows up as a concrete schedule
    view = {"VRT_MEM": "view"}
    plan = [("lock", n, {}), ("lock", n // 2, {"VRT_STRATEGY": "pct"}), ("lock", n // 3, {"VRT_CAS_WEAK_FAIL": "2"}),
            ("grow", n // 2, {}), ("grow", n // 4, {"VRT_STRATEGY": "pct"}),
            ("lock", n, view), ("lock", n // 2, dict(view, VRT_STALE="70")), ("grow", n // 2, view),
            ("lock", n // 3, dict(view, VRT_STRATEGY="pct"))]
    for mode, cnt, env in plan:
        key = mode + ("/" + ",".join("%s=%s" % kv for kv in sorted(env.items())) if env else "")
        lockstep = mode == "lock" and "VRT_MEM" not in env
        done = 0
        ncorr0 = len([b for b in ctx.broken if b[0] == "correspondence"])
        if lockstep and ncorr0 >= 5:
            continue   # the lock-step replay already diverges: go on to the oracle-only passes, which can produce a failing schedule
        while done < cnt and len(ctx.failing) < 5 and len([b for b in ctx.broken if b[0] == "correspondence"]) - ncorr0 < 5:
            k = min(100, cnt - done)   # batches, so that a broken implementation (every run deadlocks) stops the search early
            runs = ctx.econc(exe, drv if lockstep else None, [mode], seed0 + done, k, env=env)
            done += k
            dist["modes"][key] = dist["modes"].get(key, 0) + len(runs)
            _classify(ctx, dist, distinct, samples, mode, env, runs, lockstep)
    ctx.cov["distribution"] = dist
    ctx.cov["distinct_nontrivial"] = len(distinct)
    ctx.cov["traces_validated_against_impl"] = dist["replay_ok"]
    ctx.cov["rule"] = ("one case = one seeded program (1-3 publish/close/clear cycles; per cycle an optional sequential prefix of 120-127 or 1-5 items so that "
                       "concurrent ranges straddle the 128-slot block boundary, 1-3 publishers x 1-3 calls of publish / publish_n(0..5), 1-3 consumers using "
                       "consume() / consume(1..5) with optional re-subscribe, close by main or by the last publisher, optional late subscriber, clear) under one "
                       "seeded schedule (random with 5 stickiness levels, or PCT) with spurious weak-CAS failures (1/8 or 1/2); non-trivial = some consumer "
                       "really slept in futex_wait or a CAS on a futex word failed (threads interfered on a slot); distinct by trace hash")
    ctx.cov["samples"] = samples or [["<no sample>"]]


def replay(ctx, path):
    txt = Path(path).read_text()
    m = re.search(r"mode=(\S+) seed=(\d+) env=(\{.*\})", txt)
    mode, seed, env = m.group(1), int(m.group(2)), eval(m.group(3))
    exe, log = build_vrt_exe("c15", SRCS, repo_cpp=REPO_CPP)
    drv = ctx.driver("drv_C15")
    runs = ctx.econc(exe, drv if (mode == "lock" and "VRT_MEM" not in env) else None, [mode], seed, 1, env=env)
    r = runs[0]
    print("\n".join(r["lines"]))
    print("verdict:", r["verdict"], "replay:", r["replay"], "oracle:", r["oracle"], "races:", r["races"][:3])
    return 1 if (r["oracle"] or r["races"] or r["verdict"] != "ok" or (r["replay"] and not r["replay"].startswith("ok"))) else 0


MANIFEST = {
    "technique": "Lean 4 proof (invariants over all interleavings of an atomic-granularity transition system with a happens-before ghost) + translator-generated constant/order/skeleton obligations + lock-step replay of real executions under a deterministic scheduler with futex emulation and a race monitor",
    "text": "Theorems in lean/Babylon/Properties/C15.lean hold for every interleaving, thread count, batch size, block size and publish/close/clear history of the model; each model step is one atomic operation, fence or futex call of the real code, and every trace of the real ConcurrentTransientTopic produced under VRT is checked to be a path of the model (same operation, location, memory order, values, wake counts)",
    "note": "Trusted: Lean kernel + 3 standard axioms; gen/topic.py; vrt/ (scheduler, futex emulation, TSan-ABI build); full protocol over SC interleavings, publication and the wake-up handshake also over the view model of Core/MemView (word halves as two locations, futex_wait barrier from the kernel contract); ConcurrentVector by specification; client contract for close / clear",
}
