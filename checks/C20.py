"""C20 — logging: each committed entry written once, intact, in order; pages returned.

proof:          lean/Babylon/Properties/C20.lean
                 part A (LogStreamBuffer/LogEntry layout) over Babylon/Log/Entry.lean: all op sequences, all page sizes
                 part B (AsyncFileAppender) over the abstract event model Babylon/Log/Appender.lean
translator:     gen/log.py (INLINE_PAGE_CAPACITY, sizeof(PageTable), IOV_MAX/UIO_MAXIOV, call skeletons, loop/if shapes)
correspondence: part A: E-SEQ, harness/c20.cpp `entry` (real LogStreamBuffer/LogEntry/discard on an exact-size recording
                 allocator, ASan+UBSan, byte/page oracle) vs lean/Drivers/C20.lean
                part B: harness/c20.cpp `appender` (real AsyncFileAppender, 1-4 logging threads, memfd-backed recording
                 FileObjects with rotation, oracle on the files read back) + the recorded event trace replayed through the
                 model's step function by the driver (sampling of schedules: whatever the OS produces)
"""
from vlib.core import *

REPO_CPP = ["babylon/logging/log_entry.cpp", "babylon/logging/async_file_appender.cpp", "babylon/logging/file_object.cpp",
            "babylon/reusable/page_allocator.cpp", "babylon/concurrent/*.cpp"]
HARNESS = ["harness/c20.cpp"]


def build():
    return build_exe("c20", HARNESS, "asan", repo_cpp=REPO_CPP)


def build_vrt():
    return build_vrt_exe("c20v", ["harness/c20_vrt.cpp"], repo_cpp=REPO_CPP)


def vrt_driver(drv):
    """ctx.econc runs the driver without arguments: a wrapper that selects the trace-replay mode"""
    w = BUILD / "bin" / "drv_C20_vrt.sh"
    txt = "#!/bin/sh\nexec %s vrt\n" % drv
    if not w.exists() or w.read_text() != txt:
        tmp = w.with_suffix(".tmp%d" % os.getpid())
        tmp.write_text(txt)
        os.chmod(tmp, 0o755)
        os.replace(tmp, w)
    return w


def consts():
    """K and table capacity as the translator sees them (generator boundaries follow the source)."""
    txt = (LEAN / "Babylon" / "Gen" / "Log.lean").read_text()
    g = lambda n: int(re.search(r"def %s : Nat := (\d+)" % n, txt).group(1))
    return g("inlinePageCapacity"), g("sizeofPageTable"), g("sizeofPtr")


def cap(ps, hdr, ptr):
    return (ps - hdr) // ptr


def boundaries(ps, K, E, jmax):
    b = {0, 1, ps - 1, ps, ps + 1, 2 * ps, K * ps, (K - 1) * ps, (K + 1) * ps}
    for j in range(1, jmax + 1):
        b |= {(K - 1 + j * E) * ps, (K + j * E) * ps, (K - 1 + j * E) * ps + ps // 2}
    out = set()
    for x in b:
        out |= {x - 1, x, x + 1}
    return sorted(x for x in out if x >= 0)


def chunking(rng, total, ps, style=None):
    """op lines streaming exactly `total` bytes"""
    ops = []
    left = total
    style = style or rng.choice(["one", "pages", "mixed", "mixed", "small", "odd"])
    if style == "one":
        return ["put %d" % total]
    nputc = 0
    while left > 0:
        r = rng.random()
        if style == "pages":
            n = rng.choice([ps, ps, 2 * ps, ps - 1, ps + 1, 3 * ps])
        elif style == "small":
            n = rng.choice([1, 2, 3, 7, ps // 2, ps - 1]) if left < 40 * ps else rng.choice([ps * 8 + 1, ps * 20 - 1, left // 2])
        elif style == "odd":
            n = rng.choice([ps - 1, ps + 1, 2 * ps - 1, 2 * ps + 1, 1])
            if left > 200 * ps:
                n = rng.choice([left // 3 + 1, ps * 100 + 1])
        else:
            n = rng.choice([1, 5, ps - 1, ps, ps + 1, rng.randrange(1, 4 * ps), rng.randrange(1, max(2, left + 1)), left])
        n = max(1, min(n, left))
        if n == 1 and nputc < 300 and rng.random() < 0.7:
            ops.append("putc")
            nputc += 1
        else:
            ops.append("put %d" % n)
        left -= n
        if r < 0.12:
            ops.append("sync")
        if r > 0.97:
            ops.append("put 0")
    return ops


def entry(ops):
    return ["begin"] + ops + ["end", "discard"]


def gen_cases(ctx, K, hdr, ptr):
    rng = ctx.rng
    cases = []
    meta = []   # per case: (ps, [totals])
    small = [24, 32]
    sizes = [64, 128, 4096]
    extra = [40, 48, 56, 72, 256, 512, 1024]

    def add(ps, totals, styles=None):
        lines = ["ps %d" % ps]
        for i, t in enumerate(totals):
            lines += entry(chunking(rng, t, ps, styles[i] if styles else None))
        cases.append(lines)
        meta.append((ps, list(totals)))

    # 1. exhaustive over every total length 0..(K+2E+2)*ps for the two small page sizes, single sputn
    #    (quick and thorough), plus random chunkings of every length (thorough: 3 per length, quick: every 3rd length)
    for ps in small:
        E = cap(ps, hdr, ptr)
        top = (K + 2 * E + 2) * ps
        for lo in range(0, top + 1, 40):
            ts = list(range(lo, min(top, lo + 39) + 1))
            add(ps, ts, ["one"] * len(ts))
        reps = 1 if ctx.quick else 3
        stride = 3 if ctx.quick else 1
        for _ in range(reps):
            off = rng.randrange(stride)
            ts = list(range(off, top + 1, stride))
            for lo in range(0, len(ts), 25):
                add(ps, ts[lo:lo + 25])
    # 2. boundary lengths for the other page sizes, random chunkings
    for ps in sizes + ([rng.choice(extra)] if ctx.quick else extra):
        E = cap(ps, hdr, ptr)
        jmax = 3 if ps <= 128 else (1 if ctx.quick else 2)
        bs = boundaries(ps, K, E, jmax)
        if ps >= 1024 and ctx.quick:
            big = [b for b in bs if b > (K + 2) * ps]
            bs = [b for b in bs if b <= (K + 2) * ps] + rng.sample(big, min(4, len(big)))
        reps = 1 if (ctx.quick or ps >= 1024) else 3
        for _ in range(reps):
            for lo in range(0, len(bs), 6):
                add(ps, bs[lo:lo + 6])
    # 3. random totals, several entries through the same stream buffer (stale state from the previous entry)
    n_rand = 40 if ctx.quick else 600
    for _ in range(n_rand):
        ps = rng.choice(small + small + [64, 128, 40, 48, 256])
        E = cap(ps, hdr, ptr)
        ts = []
        for _ in range(rng.choice([1, 2, 4, 8])):
            kind = rng.random()
            if kind < 0.4:
                ts.append(rng.choice(boundaries(ps, K, E, 3)))
            elif kind < 0.7:
                ts.append(rng.randrange(0, (K + 3 * E + 2) * ps))
            else:
                ts.append(rng.randrange(0, (K + 1) * ps))
        add(ps, ts)
    return cases, meta


def well_formed(lines):
    """ps N (begin (put|putc|sync)* end discard?)*  - the shrinker must not invent uses of the stream
    buffer outside begin()..end() (the object is uninitialised before the first begin())."""
    if not lines or not lines[0].startswith("ps "):
        return False
    state = "idle"
    for l in lines[1:]:
        w = l.split()[0]
        if w == "ps":
            if state == "open":
                return False
            state = "idle"
        elif w == "begin":
            if state == "open":
                return False
            state = "open"
        elif w in ("put", "putc", "sync"):
            if state != "open":
                return False
        elif w == "end":
            if state != "open":
                return False
            state = "ended"
        elif w == "discard":
            if state != "ended":
                return False
            state = "idle"
        else:
            return False
    return True


def load_corpus():
    out = []
    d = VERIF / "corpus" / "C20"
    if d.exists():
        for f in sorted(d.glob("*.txt")):
            lines = [l.strip() for l in f.read_text().splitlines() if l.strip() and not l.startswith("#")]
            if lines and lines[0].startswith("mode="):
                if lines[0][5:] != "entry":
                    continue
                lines = lines[1:]
            out.append(lines)
    return out


def excluded_point(ctx, exe, drv, K):
    """One run of the real code at the page size the theorems exclude (16: a table page holds one
    pointer, the inline->table transition needs two).  Informational unless the model claims the
    point is fine while the code crashes."""
    lines = ["reset", "ps 16", "begin", "put %d" % (K * 16 + 1), "end"]
    io, rc, err = ctx.run_lines(exe, lines, ["entry"])
    mo, _, _ = ctx.run_lines(drv, lines)
    impl = "asan:" + (re.search(r"AddressSanitizer: (\S+)", err).group(1) if "AddressSanitizer" in err else "rc=%d" % rc) if rc != 0 else (io[-1][:80] if io else "?")
    model = mo[3] if len(mo) > 3 else "?"
    ctx.cov["excluded_point"] = {"page_size": 16, "total": K * 16 + 1, "implementation": impl, "model": model}
    model_faults = model.startswith("fault")
    if rc != 0 and not model_faults:
        ctx.broke("correspondence", "excluded point ps=16", "implementation aborts (%s) but the model reports %r" % (impl, model))
    elif rc == 0 and model_faults:
        ctx.notes.append("excluded point ps=16: the code no longer faults where the model does (%s) - the model is now stricter than the code; re-model" % model)


def run_entry(ctx, exe, drv):
    K, hdr, ptr = consts()
    cases = load_corpus()
    ncorp = len(cases)
    gen, meta = gen_cases(ctx, K, hdr, ptr)
    meta = [(0, [])] * ncorp + meta
    cases += gen
    dist = {"page_sizes": {}, "entries": 0, "entries_with_table": 0, "entries_with_2plus_tables": 0, "max_total": 0,
            "ops": {}, "oracle_failures": 0, "divergences": 0, "boundary_hits": 0}
    nontrivial = set()
    for c, (ps, totals) in zip(cases, meta):
        for o in c:
            k = o.split()[0]
            dist["ops"][k] = dist["ops"].get(k, 0) + 1
        if not ps:
            continue
        E = cap(ps, hdr, ptr)
        dist["page_sizes"][ps] = dist["page_sizes"].get(ps, 0) + len(totals)
        dist["entries"] += len(totals)
        bset = set(boundaries(ps, K, E, 3))
        for t in totals:
            dist["max_total"] = max(dist["max_total"], t)
            if t > K * ps:
                dist["entries_with_table"] += 1
            if t > (K - 1 + E) * ps:
                dist["entries_with_2plus_tables"] += 1
            if t in bset:
                dist["boundary_hits"] += 1
        # distinct non-trivial: one entry = (page size, total, chunking); non-trivial when it needs a page table
        i = 1
        for t in totals:
            j = c.index("discard", i)
            if t > K * ps:
                nontrivial.add(sha("%d|%s" % (ps, "\n".join(c[i:j]))))
            i = j + 1
    diffs = ctx.eseq(exe, drv, cases, impl_args=["entry"], chunk=max(1, len(cases) // (NPROC * 2) + 1))
    for (ci, li, op, a, b) in diffs:
        case = cases[ci]
        oracle = "!ORACLE" in a or "<no-output" in a
        start = case[:li + 1]
        if not oracle:
            # the first difference is only a model/code disagreement: run the WHOLE case on the
            # implementation - the property oracle may fire later (e.g. at `end`)
            fio, frc, _ = ctx.run_lines(exe, ["reset"] + case, ["entry"])
            if frc != 0 or any("!ORACLE" in l for l in fio):
                oracle, start = True, list(case)

        def still(cand, want_oracle=oracle):
            if not well_formed(cand):
                return False
            io, rc, err = ctx.run_lines(exe, ["reset"] + cand, ["entry"])
            if want_oracle:
                return rc != 0 or any("!ORACLE" in l for l in io)
            mo, _, _ = ctx.run_lines(drv, ["reset"] + cand)
            return io != mo
        small = ctx.shrink(start, still)
        io, rc, err = ctx.run_lines(exe, ["reset"] + small, ["entry"])
        mo, _, _ = ctx.run_lines(drv, ["reset"] + small)
        cut = lambda l: l if len(l) < 600 else l[:300] + " ... " + l[-250:]
        text = "mode=entry\n%s\n# implementation output:\n%s\n# model output:\n%s\n%s" % (
            "\n".join(small), "\n".join("#   " + cut(l) for l in io), "\n".join("#   " + cut(l) for l in mo),
            ("# harness stderr:\n#   " + err[-1500:].replace("\n", "\n#   ")) if rc != 0 else "")
        if oracle:
            dist["oracle_failures"] += 1
            m = re.search(r"!ORACLE\((\w+)", " ".join(io))
            kind = m.group(1) if m else "crash"
            psl = [l for l in small if l.startswith("ps ")]
            ctx.failing_input("oracle:%s:ps%s" % (kind, psl[-1][3:] if psl else "?"), text)
        else:
            dist["divergences"] += 1
            ctx.broke("correspondence", "E-SEQ c20 entry", "first difference at op %r: impl %r, model %r; minimised case:\n%s" % (op, cut(a), cut(b), text))
        if dist["oracle_failures"] + dist["divergences"] >= 6:
            break
    if ncorp:
        ctx.notes.append("corpus cases run first (entry mode): %d" % ncorp)
    ctx.cov["distribution"]["entry"] = dist
    ctx.cov["distinct_nontrivial"] += len(nontrivial)
    ctx.cov["samples"].append(cases[-1][:20])
    excluded_point(ctx, exe, drv, K)


# ---------------------------------------------------------------------------------------------
# part B: the real AsyncFileAppender under threads; oracle + replay of the recorded rounds
def appender_configs(ctx):
    rng = ctx.rng
    cfgs = []
    fixed = [
        dict(threads=1, ps=64, cap=64, files=1, rot=0, n=20),
        dict(threads=2, ps=32, cap=4, files=2, rot=3, n=30),
        dict(threads=4, ps=24, cap=2, files=3, rot=2, n=40, drain=0),
        dict(threads=4, ps=24, cap=1024, files=1, rot=0, n=400, slow=500),    # backlog: batches > IOV_MAX iovecs
        dict(threads=2, ps=32, cap=1024, files=2, rot=1, n=600, slow=300, drain=0),    # rotation every round + backlog
        dict(threads=2, ps=4096, cap=16, files=1, rot=4, n=12),
        dict(threads=1, ps=128, cap=1, files=2, rot=0, n=25),
        # several logging threads inside discard() at the same time (scratch vectors must be per thread)
        dict(threads=4, ps=24, cap=64, files=1, rot=0, n=700, discard=100, nosleep=1),
        dict(threads=4, ps=32, cap=64, files=2, rot=3, n=500, discard=60, nosleep=1),
        dict(threads=3, ps=64, cap=16, files=1, rot=0, n=400, discard=30),
        # initialize / close repeated on the same appender and file objects
        dict(threads=3, ps=32, cap=64, files=2, rot=3, n=40, sessions=3),
        dict(threads=2, ps=24, cap=4, files=3, rot=0, n=25, sessions=2, drain=0, discard=20),
        # file objects without a descriptor (fd < 0) for a while: the entries are lost, their pages are not
        dict(threads=2, ps=32, cap=16, files=2, rot=0, n=90, outage=1, sessions=2),
        dict(threads=4, ps=24, cap=256, files=1, rot=2, n=120, outage=1),
    ]
    for c in fixed:
        c["seed"] = rng.randrange(1, 1 << 30)
        cfgs.append(c)
    n_rand = 9 if ctx.quick else 140
    for _ in range(n_rand):
        c = dict(threads=rng.choice([1, 2, 3, 4]), ps=rng.choice([24, 32, 32, 64, 128, 40, 256]),
                 cap=rng.choice([1, 2, 4, 16, 64, 256, 1024]), files=rng.choice([1, 1, 2, 3]),
                 rot=rng.choice([0, 0, 1, 2, 3, 7]), n=rng.choice([5, 20, 60, 150]), seed=rng.randrange(1, 1 << 30))
        if rng.random() < 0.3:
            c["slow"] = rng.choice([10, 30, 60])
        if rng.random() < 0.5:
            c["drain"] = 0          # close() with entries still queued (possibly a full queue)
        if rng.random() < 0.35:
            c["discard"] = rng.choice([10, 50, 90])
            c["nosleep"] = rng.choice([0, 1])
        if rng.random() < 0.3:
            c["sessions"] = rng.choice([2, 3])
        if rng.random() < 0.25 and c["n"] >= 20:
            c["outage"] = 1
        cfgs.append(c)
    return ["run " + " ".join("%s=%d" % kv for kv in c.items()) for c in cfgs]


def contention_configs(ctx):
    """all threads call write() back to back from a spin barrier (pre-built tiny entries): the queue
    index must be claimed atomically.  Own process + short timeout: a lost ticket wedges the writer."""
    rng = ctx.rng
    cfgs = [dict(threads=8, ps=64, cap=1024, files=1, rot=0, n=1200, burst=1, tiny=1),
            dict(threads=8, ps=64, cap=64, files=2, rot=0, n=800, burst=1, tiny=1, drain=0)]
    if not ctx.quick:
        cfgs += [dict(threads=rng.choice([4, 6, 8]), ps=64, cap=rng.choice([16, 256, 1024]), files=rng.choice([1, 2]), rot=0,
                      n=1000, burst=1, tiny=1, sessions=rng.choice([1, 2])) for _ in range(6)]
    for c in cfgs:
        c["seed"] = rng.randrange(1, 1 << 30)
    return ["run " + " ".join("%s=%d" % kv for kv in c.items()) for c in cfgs]


def parse_blocks(text):
    blocks, cur = [], None
    for line in text.splitlines():
        if line.startswith("RUN "):
            cur = {"cfg": line[4:], "T": [], "O": [], "stats": "", "oracle": None}
        elif cur is None:
            continue
        elif line.startswith("T "):
            cur["T"].append(line[2:])
        elif line.startswith("O "):
            cur["O"].append(line[2:])
        elif line.startswith("STATS "):
            cur["stats"] = line[6:]
        elif line.startswith("ORACLE"):
            cur["oracle"] = line[6:].strip()
        elif line == "END":
            blocks.append(cur)
            cur = None
    return blocks, cur


def load_appender_corpus():
    out = []
    d = VERIF / "corpus" / "C20"
    if d.exists():
        for f in sorted(d.glob("*.txt")):
            lines = [l.strip() for l in f.read_text().splitlines() if l.strip() and not l.startswith("#")]
            if lines and lines[0] == "mode=appender":
                out += [l for l in lines[1:] if l.startswith("run ")]
    return out


def run_appender(ctx, exe, drv):
    close_ok = close_full_probe(ctx, exe)
    cfgs = load_appender_corpus()
    if cfgs:
        ctx.notes.append("corpus runs first (appender mode): %d" % len(cfgs))
    cfgs += appender_configs(ctx)
    if not close_ok:
        # close() with a backlog wedges on this tree: keep the remaining runs meaningful by draining first
        cfgs = [c.replace(" drain=0", "") for c in cfgs]
    dist = {"runs": 0, "threads": {}, "entries": 0, "concurrent_discards": 0, "runs_with_discard": 0, "multi_session_runs": 0,
            "outage_flushes": 0, "entries_lost_in_outage": 0, "burst_contention_runs": 0, "rounds": 0, "rotations": 0, "entries_spanning_two_writev": 0,
            "max_batch": 0, "max_writev_elems": 0, "trace_lines_replayed": 0, "oracle_failures": 0, "divergences": 0,
            "capacities": {}}
    nproc = max(1, min(NPROC, len(cfgs)))
    groups = [cfgs[i::nproc] for i in range(nproc)]
    burst = contention_configs(ctx)
    if not close_ok:
        burst = [c.replace(" drain=0", "") for c in burst]
    groups += [[c] for c in burst]
    cfgs = cfgs + burst

    def one(group):
        try:
            r = subprocess.run([str(exe), "appender"], input="\n".join(group) + "\n", capture_output=True, text=True,
                               timeout=90 if "burst=1" in group[0] else 280)
            return group, r.stdout, r.returncode, r.stderr
        except subprocess.TimeoutExpired as e:
            return group, (e.stdout or b"").decode() if isinstance(e.stdout, bytes) else (e.stdout or ""), -999, "timeout"

    nontrivial = set()
    with concurrent.futures.ThreadPoolExecutor(max_workers=len(groups)) as ex:
        results = list(ex.map(one, groups))
    for group, out, rc, err in results:
        blocks, partial = parse_blocks(out)
        if rc != 0 or len(blocks) != len(group):
            bad = group[len(blocks)] if len(blocks) < len(group) else group[-1]
            head = [l for l in err.splitlines() if "ERROR: AddressSanitizer" in l or l.startswith("SUMMARY:") or "runtime error" in l][:3]
            text = "mode=appender\n%s\n# harness rc=%s%s\n# %s\n# ...\n# %s" % (
                bad, rc, " (no result within the time limit: the appender is wedged)" if rc == -999 else "",
                "\n# ".join(head), err[-1800:].replace("\n", "\n# "))
            dist["oracle_failures"] += 1
            ctx.failing_input("crash:appender:" + ("hang" if rc == -999 else "abort"), text)
        for b in blocks:
            dist["runs"] += 1
            st = dict(kv.split("=") for kv in b["stats"].split())
            cfg = dict(kv.split("=") for kv in b["cfg"].split()[1:])
            dist["threads"][cfg["threads"]] = dist["threads"].get(cfg["threads"], 0) + 1
            dist["capacities"][st.get("capacity", "?")] = dist["capacities"].get(st.get("capacity", "?"), 0) + 1
            dist["entries"] += int(st.get("entries", 0))
            dist["concurrent_discards"] += int(st.get("discards", 0))
            dist["runs_with_discard"] += 1 if int(st.get("discards", 0)) and int(cfg["threads"]) >= 2 else 0
            dist["multi_session_runs"] += 1 if int(st.get("sessions", 1)) > 1 else 0
            dist["outage_flushes"] += int(st.get("outage_flushes", 0))
            dist["entries_lost_in_outage"] += int(st.get("lost_in_outage", 0))
            dist["burst_contention_runs"] += 1 if cfg.get("burst") == "1" else 0
            dist["rounds"] += int(st.get("rounds", 0))
            dist["rotations"] += int(st.get("rotations", 0))
            dist["entries_spanning_two_writev"] += int(st.get("spans", 0))
            dist["max_batch"] = max(dist["max_batch"], int(st.get("maxbatch", 0)))
            dist["max_writev_elems"] = max(dist["max_writev_elems"], int(st.get("maxcall", 0)))
            if int(cfg["threads"]) >= 2 and int(st.get("entries", 0)) >= 20:
                nontrivial.add(sha(b["cfg"]))
            if b["oracle"] != "ok":
                dist["oracle_failures"] += 1
                m = re.search(r"!ORACLE\((\w+)", b["oracle"] or "")
                ctx.failing_input("oracle:appender:%s" % (m.group(1) if m else "unknown"),
                                  "mode=appender\n%s\n# %s\n# %s" % (b["cfg"], b["oracle"], b["stats"]))
                continue
            # replay the recorded rounds through the model's step function
            mo, mrc, merr = ctx.run_lines(drv, ["reset"] + b["T"])
            mo = mo[1:]
            dist["trace_lines_replayed"] += len(b["T"])
            for i, (t, o) in enumerate(zip(b["T"], b["O"])):
                got = mo[i] if i < len(mo) else "<no-output>"
                if got != o:
                    dist["divergences"] += 1
                    cut = lambda l: l if len(l) < 400 else l[:200] + " ... " + l[-150:]
                    ctx.broke("correspondence", "appender trace replay",
                              "run %r: event %d %r: implementation %r, model %r" % (b["cfg"], i, cut(t), cut(o), cut(got)))
                    break
    ctx.cov["evaluations"] += dist["runs"]
    ctx.cov["distribution"]["appender"] = dist
    ctx.cov["distinct_nontrivial"] += len(nontrivial)
    ctx.cov["samples"].append(cfgs[:3])


def close_full_probe(ctx, exe):
    """close() while the queue is FULL.  Before the repair 67478f3 close() pushed the stop marker with
    futex wait although nothing ever wakes that queue (keep_writing pops without wake): close() slept
    forever.  The schedule: queue capacity 2, the writer is held in its first descriptor check for
    400 ms while 2 more entries fill the queue, then close().  Must return, with the oracle satisfied."""
    line = "run threads=1 ps=64 cap=2 files=1 rot=0 n=3 seed=1 drain=0 slow=400"
    ok = False
    try:
        r = subprocess.run([str(exe), "appender"], input=line + "\n", capture_output=True, text=True, timeout=20)
        blocks, _ = parse_blocks(r.stdout)
        res = "returned; oracle %s" % (blocks[0]["oracle"] if blocks else "rc=%d" % r.returncode)
        if not blocks or blocks[0]["oracle"] != "ok":
            ctx.failing_input("oracle:appender:close-full", "mode=appender\n%s\n# %s\n# %s" % (
                line, blocks[0]["oracle"] if blocks else "harness rc=%d" % r.returncode, r.stderr[-1500:].replace("\n", "\n# ")))
        else:
            ok = True
    except subprocess.TimeoutExpired:
        res = "HANG: close() did not return within 20 s (lost wake-up: stop marker pushed with futex wait, consumer pops without wake)"
        ctx.failing_input("hang:close-with-full-queue",
                          "mode=appender\n%s\n# close() called while the queue is full never returns (no result within 20 s)" % line)
    ctx.cov["close_full_queue"] = {"input": line, "result": res}
    ctx.cov["evaluations"] += 1
    return ok


# ---------------------------------------------------------------------------------------------
# part B under VRT: explored interleavings, lock-step replay through App.step
VRT_MODES = ["mix", "full", "race", "sessions"]


def vrt_features(lines):
    f = {}
    ticket, closed, marker, pops, wr = {}, False, False, 0, None

    def hit(k):
        f[k] = f.get(k, 0) + 1
    for l in lines:
        w = l.split()
        if len(w) < 2:
            continue
        t = w[0]
        if w[1] == "ev" and w[2] == "init":
            wr, closed, marker = None, False, False
        elif w[1] == "spawn" and wr is None:
            wr = w[2]
        elif w[1] == "rmw" and len(w) > 3 and w[3] == "q.push":
            ticket[t] = 0
            if t == "0":
                marker = True
            else:
                if closed:
                    hit("write_ticket_after_close_began")
                if marker:
                    hit("write_ticket_behind_stop_marker")
        elif w[1] == "ld" and w[2].startswith("q.f") and t in ticket and t != wr:
            ticket[t] += 1
            if ticket[t] == 2:
                hit("producer_waits_on_full_ring")
        elif w[1] == "st" and w[2].startswith("q.f") and t in ticket and t != wr:
            del ticket[t]
        elif w[1] == "ev" and w[2] == "cbegin":
            closed = True
        elif t == wr and w[1] == "ld" and w[2] == "q.pop":
            pops = 0
        elif t == wr and w[1] == "st" and w[2] == "q.pop":
            pops += 1
            if pops == 2:
                hit("pop_split_by_ring_end")
        elif w[1] == "ev" and w[2] == "writev":
            hit("writev")
            if len(w) > 4 and w[4] == "999999":
                hit("flush_without_descriptor")
    return f


def run_vrt(ctx, drv):
    exe, log = build_vrt()
    if exe is None:
        ctx.broke("correspondence", "harness/c20_vrt.cpp does not build against /repo", log[-800:])
        return
    wdrv = vrt_driver(drv)
    n = 30 if ctx.quick else 1500
    if ctx.broken:
        n *= 3
    seed0 = ctx.seed * 1000003
    dist = {"plan": {}, "verdicts": {}, "replay_ok": 0, "replay_diverge": 0, "oracle": 0, "races": 0, "features": {},
            "stale_reads_served_view_mode": 0, "max_trace": 0}
    distinct = set()
    plan = []
    for m in VRT_MODES:
        plan += [(m, n, {}), (m, n // 2, {"VRT_STRATEGY": "pct"}), (m, n // 2, {"VRT_MEM": "view"})]
    for mode, cnt, env in plan:
        if len(ctx.failing) > 8:
            break
        env = dict(env, VRT_STEP_LIMIT="400000")
        runs = ctx.econc(exe, wdrv, [mode], seed0, cnt, env=env)
        tag = mode + "".join("/" + v for k, v in sorted(env.items()) if k != "VRT_STEP_LIMIT")
        dist["plan"][tag] = len(runs)
        for r in runs:
            dist["verdicts"][r["verdict"]] = dist["verdicts"].get(r["verdict"], 0) + 1
            dist["max_trace"] = max(dist["max_trace"], len(r["lines"]))
            envs = " ".join("%s=%s" % kv for kv in sorted(env.items()))
            text = "mode=vrt\nvrt %s %d %s\n# %s\n%s" % (mode, r["seed"], envs, " ".join(r["header"]),
                                                       "\n".join("# " + l for l in r["lines"][-400:]))
            if r["oracle"]:
                dist["oracle"] += 1
                kind = r["oracle"][0].split("ORACLE", 1)[1].split()[0]
                ctx.failing_input("oracle:vrt:%s" % kind, text + "\n# replay: " + str(r.get("replay")))
                continue
            if r["verdict"] != "ok":
                ctx.failing_input("verdict:vrt:%s" % r["verdict"].split()[0], text + "\n# " + r.get("stderr", "")[-1200:].replace("\n", "\n# "))
                continue
            if r["races"]:
                dist["races"] += 1
                if dist["races"] <= 3:
                    ctx.broke("correspondence", "payload race on a queue cell, c20 vrt mode=%s seed=%d" % (mode, r["seed"]), text)
                continue
            if r["replay"] and r["replay"].startswith("ok"):
                dist["replay_ok"] += 1
            else:
                dist["replay_diverge"] += 1
                if dist["replay_diverge"] <= 6:
                    ctx.broke("correspondence", "E-CONC appender lock-step mode=%s seed=%d" % (mode, r["seed"]), "%s\n%s" % (r["replay"], text))
            ft = vrt_features(r["lines"])
            for k in ft:
                dist["features"][k] = dist["features"].get(k, 0) + 1
            for l in r["lines"]:
                if " ev stats " in l:
                    m = re.search(r"stale (\d+)", l)
                    dist["stale_reads_served_view_mode"] += int(m.group(1)) if m else 0
            if any(k != "writev" for k in ft):
                distinct.add(sha("\n".join(l for l in r["lines"] if " ev stats" not in l)))
    ctx.cov["distribution"]["appender_vrt"] = dist
    ctx.cov["distinct_nontrivial"] += len(distinct)
    ctx.cov["traces_validated_lockstep"] = dist["replay_ok"]


def run(ctx):
    ctx.cov["trusted_base"] += [
        "vrt/vrt.cpp (TSan-ABI interposition, deterministic scheduler, virtual time, view-mode memory) and the TSan-instrumented build of the appender and its queue (DESIGN 3.3)",
        "libstdc++ basic_streambuf::xsputn/sputc are transcribed by hand (Stream.sputnLoop / Buf.putc); LogStreamBuffer overrides only overflow and sync",
        "page allocator: pages are fresh, disjoint, 8-aligned blocks of exactly page_size bytes (C17); a page is identified with the allocate() call that returned it",
        "writev is assumed to write every iovec completely and in order (short writes / I/O errors are not modelled; the code ignores writev's result)",
        "part B: the theorem is about the abstract event model (FIFO multi-producer queue with per-producer order = C01's specification); the real appender is tied to it by sampling only (OS-chosen schedules), not by proof",
    ]
    ctx.assumptions += [
        "page size: 8 | pageSize and pageSize >= 24 for entries longer than INLINE_PAGE_CAPACITY pages (pageSize > 0 otherwise). pageSize 16 is excluded by hypothesis: the REAL code overruns the 16-byte table page there too (ASan heap-buffer-overflow in LogStreamBuffer::overflow, log_entry.cpp `*_pages++ = page`; run once per check, see coverage.excluded_point); it is reachable only through NewDeletePageAllocator::set_page_size(16) / a custom PageAllocator, outside the documented use (system page size)",
        "part B proves safety (exactly once, unmixed, order, pages) of an abstract model; liveness of close() is not a theorem - it is covered by the generated obligation gen_queue_pairing (no futex-wait push against a no-wake pop) and by running the close-on-a-full-queue schedule on the real code each time",
        "a zero-size entry handed to AsyncFileAppender::write acts as the stop marker and is outside the stated domain",
    ]
    ctx.gen(["log"])
    ctx.log("translator done")
    ctx.lake_build(["Babylon.Properties.C20"])
    ctx.log("lake build done")
    ctx.audit("Babylon.Properties.C20")
    ctx.log("audit done")
    if not ctx.quick:
        ctx.leanchecker(["Babylon.Log.Entry", "Babylon.Properties.C20"])
    drv = ctx.driver("drv_C20")
    exe, log = build()
    if exe is None:
        ctx.broke("correspondence", "harness/c20.cpp does not build against /repo", log[-800:])
        return
    if drv is None:
        return
    ctx.cov["distribution"] = {}
    ctx.cov["samples"] = []
    ctx.log("harness + driver built")
    run_entry(ctx, exe, drv)
    ctx.log("part A correspondence done")
    run_appender(ctx, exe, drv)
    ctx.log("part B native runs done")
    run_vrt(ctx, drv)
    ctx.log("part B VRT lock-step done")
    ctx.cov["rule"] = (
        "part A (E-SEQ): cases = one recording allocator of page size ps + a sequence of entries streamed through ONE LogStreamBuffer "
        "(begin; chunked sputn / sputc / pubsync; end; discard). Total lengths: every length 0..(K+2E+2)*ps for ps in {24,32} as a single "
        "sputn and under random chunkings; boundary lengths {0,1,ps,2ps,(K-1)ps,K*ps,(K+1)ps,(K-1+jE)ps,(K+jE)ps,(K-1+jE)ps+ps/2} each +-1 for "
        "ps in {64,128,4096} and a sample of {40,48,56,72,256,512,1024}; random totals. Chunk styles: single sputn, page-sized, "
        "page-size+-1, tiny, mixed with sputc and pubsync, zero-length sputn. A case is counted non-trivial when the entry needs a "
        "page table (total > K*ps); distinct by (ps, op lines). "
        "part B (sampling of OS schedules, not proof): runs of the real AsyncFileAppender with 1-4 logging threads x n entries "
        "(lengths around ps, K*ps+-1, (K-1+E)*ps+-1, random up to (K+2E+2)*ps, header-only), queue capacity 1..1024, 1-3 memfd-backed "
        "recording FileObjects, rotation every 0/1/2/3/5/7 descriptor checks, optional slow first round to build a backlog (batches "
        "of more than IOV_MAX iovecs, entries spanning two writev calls), close() after the writers joined, with the queue drained or "
        "still loaded; in a third of the runs the logging threads also discard() 10-100 % of their entries concurrently (3 fixed runs: "
        "4 threads x 400-700 back-to-back discards) - NATIVE threads and repetition, not a deterministic scheduler (no VRT), so a race "
        "is found with high probability, not certainty; multi-session runs (initialize/close 2-3 times on the same appender and file "
        "objects); outage runs (the file objects return fd < 0 for the middle third of thread 0's entries: those entries are expected "
        "to be absent, their pages must be returned); burst runs (8 threads call write() back to back from a spin barrier with "
        "pre-built one-page entries, own process, 90 s timeout: a ticket claimed twice loses an entry and wedges the writer); "
        "oracle: every entry exactly once, intact, within one descriptor, per-thread order (per file and across rounds), all pages "
        "returned, no bad free, writev <= IOV_MAX; then the recorded rounds (writev/deallocate/descriptor-check calls) are replayed "
        "event by event through App.step and must equal the model's flushes. Non-trivial run: >= 2 threads and >= 20 entries. "
        "part B under VRT (explored interleavings, E-CONC): harness/c20_vrt.cpp runs the real appender with 1-4 logging threads + the "
        "writer thread + close() under the deterministic scheduler (every atomic operation of the queue is a scheduling point; random "
        "with stickiness, PCT, and VRT_MEM=view with stale reads), modes mix / full (capacity 1-2: producers hold a ticket while the "
        "ring is full) / race (close() while the threads are still writing, tickets behind the stop marker) / sessions (two "
        "initialize-close cycles), with rotation, descriptor outages and discards; the trace (ticket fetch_add, slot publication, "
        "pop-index stores, descriptor checks, writev calls with page ids, page returns, close begin/end) is replayed in lock-step "
        "through App.step: every reserve/publish/close/round must be enabled in the model (batch bound, only published tickets "
        "popped, one descriptor per destination) and each round's flushes and page returns must equal the model's; the property "
        "oracle (each entry once, intact, per-thread order, written-before-close present, no page returned twice / lost) runs on the "
        "same executions, view mode included. Non-trivial VRT run: shows back-pressure, a split pop, a ticket after close began / "
        "behind the marker, or a flush without descriptor; distinct by trace hash.")
    ctx.cov["traces_validated_against_impl"] = ctx.cov["evaluations"]
    ctx.cov["proof_vs_sampling"] = {
        "proof (Lean, all inputs)": [
            "part A: entry_bytes_exact, entry_pages_once, entry_layout_size_only(+_same_length), entry_discard_returns_all, "
            "entry_nonempty_scatter - for every list of sputn/sputc/sync operations, every byte content, every allocator position and "
            "every page size with Fits; entry_excluded_page_sizes - the model overruns at ps = 16, 8, 20",
            "part B: appender_each_once_ordered, appender_no_write_after_close, appender_hist_is_ticket_order - for every event history "
            "(any threads, any batching n1/n2 <= batch of published prefixes, any descriptors per round) of the ABSTRACT model",
            "gen_* obligations: constants, statement order, test shapes, queue flag pairing re-extracted from /repo on every run",
        ],
        "sampling (real code, this run)": [
            "part A model<->code: E-SEQ on the op lines generated this run (exhaustive over total lengths for ps 24/32 as single sputn)",
            "part B model<->code: OS-scheduled multi-threaded runs; per run the oracle on the files read back and the replay of the "
            "recorded rounds through App.step; the order of write() tickets is reconstructed from the output (per-thread order is "
            "checked independently by the oracle), so the replay validates batching/chunking/flush/page-return, not queue fairness",
            "part B model<->code under VRT: seeded explored interleavings (random, PCT, view-mode stale reads), lock-step through App.step; "
            "still sampling of schedules, but at the granularity of single atomic operations and reproducible from (mode, seed)",
            "close() on a full queue: one fixed schedule per run",
            "write() contention: native threads from a spin barrier (about 16 thousand back-to-back pushes per quick check), pinned in "
            "addition by gen_queue_pairing (writePushConcurrent/closePushConcurrent = true)",
            "concurrent discard(): native threads + repetition (thousands of overlapping discards per check); thread-locality of its "
            "scratch vectors is additionally pinned by gen_appender_shapes (discardScratchPerThread)",
        ],
    }


def replay(ctx, path):
    lines = [l.strip() for l in Path(path).read_text().splitlines() if l.strip() and not l.startswith("#")]
    mode = "entry"
    if lines and lines[0].startswith("mode="):
        mode, lines = lines[0][5:], lines[1:]
    ctx.gen(["log"])
    exe, log = build()
    drv = ctx.driver("drv_C20")
    if exe is None or drv is None:
        print(log[-2000:])
        return 1
    if mode == "vrt":
        vexe, vlog = build_vrt()
        if vexe is None:
            print(vlog[-2000:])
            return 1
        bad = False
        for line in lines:
            w = line.split()
            if len(w) < 3 or w[0] != "vrt":
                continue
            env = dict(kv.split("=", 1) for kv in w[3:] if "=" in kv)
            runs = ctx.econc(vexe, vrt_driver(drv), [w[1]], int(w[2]), 1, env=env)
            for r in runs:
                print("\n".join(r["lines"][-120:]))
                print("verdict %s  replay %s  oracle %s" % (r["verdict"], r["replay"], r["oracle"]))
                bad |= r["verdict"] != "ok" or bool(r["oracle"]) or not (r["replay"] or "").startswith("ok")
        return 1 if bad else 0
    if mode == "appender":
        bad = False
        for line in lines:
            try:
                r = subprocess.run([str(exe), "appender"], input=line + "\n", capture_output=True, text=True, timeout=120)
            except subprocess.TimeoutExpired:
                print("%s\n   HANG (no result within 120 s)" % line)
                bad = True
                continue
            blocks, _ = parse_blocks(r.stdout)
            if r.returncode != 0 or not blocks:
                print("%s\n   harness rc=%d\n%s" % (line, r.returncode, r.stderr[-3000:]))
                bad = True
                continue
            b = blocks[0]
            print("%s\n   %s\n   oracle: %s" % (line, b["stats"], b["oracle"]))
            bad |= b["oracle"] != "ok"
            mo, _, _ = ctx.run_lines(drv, ["reset"] + b["T"])
            for i, (t, o) in enumerate(zip(b["T"], b["O"])):
                got = mo[i + 1] if i + 1 < len(mo) else "<no-output>"
                if got != o:
                    print("   trace event %d %s\n      impl : %s\n      model: %s   <<<<" % (i, t[:200], o[:300], got[:300]))
                    bad = True
                    break
            else:
                print("   %d trace events accepted by the model" % len(b["T"]))
        return 1 if bad else 0
    io, rc, err = ctx.run_lines(exe, ["reset"] + lines, [mode])
    mo, _, _ = ctx.run_lines(drv, ["reset"] + lines)
    bad = rc != 0
    ops = ["reset"] + lines
    for i, op in enumerate(ops):
        a = io[i] if i < len(io) else "<no-output rc=%d>" % rc
        b = mo[i] if i < len(mo) else "<no-output>"
        flag = "" if a == b and "!ORACLE" not in a else "   <<<<"
        bad |= bool(flag)
        cut = lambda l: l if len(l) < 300 else l[:150] + " ... " + l[-120:]
        print("%-14s impl: %s\n%-14s model: %s%s" % (op, cut(a), "", cut(b), flag))
    if rc != 0:
        print(err[-3000:])
    return 1 if bad else 0


MANIFEST = {
    "technique": "Lean 4 proof (invariant over all stream-buffer op sequences and page sizes for the LogEntry layout; invariant over all event histories of an abstract appender) + translator-generated constants/skeletons + E-SEQ differential correspondence with a byte/page oracle + multi-threaded native oracle runs of the real appender with model replay of the recorded rounds + E-CONC: the real appender under VRT (deterministic scheduler, SC / PCT / view-mode stale reads) with lock-step replay of every ticket, publication, pop, writev and page return through the abstract model's step function",
    "text": "Part A theorems (entry_bytes_exact, entry_pages_once, entry_discard_returns_all) hold for every sequence of sputn/sputc/sync and every page size with 8 | ps, ps >= 24 (ps > 0 for entries that fit the inline pages) of a statement-level model of LogStreamBuffer/LogEntry; part B (appender_each_once_ordered) holds for every event history of an abstract model of AsyncFileAppender; both are re-tied to /repo on each run by gen/log.py and by running model and real code on the same generated inputs",
    "note": "Trusted: Lean kernel + 3 standard axioms; gen/log.py; harness/c20.cpp and its generator (sampling); libstdc++ xsputn transcription; writev complete; part B is a theorem about the abstract model, tied to the real appender by sampled schedules (native OS schedules and VRT-explored interleavings replayed in lock-step), not by a refinement proof; page size 16 (and sizes not divisible by 8) are excluded by hypothesis - the real code overruns the heap there",
}


def warm():
    build()
    build_vrt()
