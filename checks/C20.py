"""C20 — logging: each committed entry written once, intact, in order; pages returned.

proof:          lean/Babylon/Properties/C20.lean
                 part A (LogStreamBuffer/LogEntry layout) over Babylon/Log/Entry.lean: all op sequences, all page sizes
                 part B (AsyncFileAppender) over the abstract event model Babylon/Log/Appender.lean
translator:     gen/log.py (INLINE_PAGE_CAPACITY, sizeof(PageTable), IOV_MAX/UIO_MAXIOV, call skeletons, loop/if shapes)
correspondence: part A: E-SEQ, harness/c20.cpp `entry` (real LogStreamBuffer/LogEntry/discard on an exact-size recording
                 allocator, ASan+UBSan, byte/page oracle) vs lean/Drivers/C20.lean
                part B: harness/c20.cpp `appender` (real AsyncFileAppender, 1-4 logging threads, memfd-backed recording
                 FileObjects with rotation, oracle on the files read back) + the recorded event trace replayed through the
                 model's step function by the driver (sampling of schedules: whatever the OS produces)
"""
from vlib.core import *

REPO_CPP = ["babylon/logging/log_entry.cpp", "babylon/logging/async_file_appender.cpp", "babylon/logging/file_object.cpp",
            "babylon/reusable/page_allocator.cpp", "babylon/concurrent/*.cpp"]
HARNESS = ["harness/c20.cpp"]


def build():
    return build_exe("c20", HARNESS, "asan", repo_cpp=REPO_CPP)


def consts():
    """K and table capacity as the translator sees them (generator boundaries follow the source)."""
    txt = (LEAN / "Babylon" / "Gen" / "Log.lean").read_text()
    g = lambda n: int(re.search(r"def %s : Nat := (\d+)" % n, txt).group(1))
    return g("inlinePageCapacity"), g("sizeofPageTable"), g("sizeofPtr")


def cap(ps, hdr, ptr):
    return (ps - hdr) // ptr


def boundaries(ps, K, E, jmax):
    b = {0, 1, ps - 1, ps, ps + 1, 2 * ps, K * ps, (K - 1) * ps, (K + 1) * ps}
    for j in range(1, jmax + 1):
        b |= {(K - 1 + j * E) * ps, (K + j * E) * ps, (K - 1 + j * E) * ps + ps // 2}
    out = set()
    for x in b:
        out |= {x - 1, x, x + 1}
    return sorted(x for x in out if x >= 0)


def chunking(rng, total, ps, style=None):
    """op lines streaming exactly `total` bytes"""
    ops = []
    left = total
    style = style or rng.choice(["one", "pages", "mixed", "mixed", "small", "odd"])
    if style == "one":
        return ["put %d" % total]
    nputc = 0
    while left > 0:
        r = rng.random()
        if style == "pages":
            n = rng.choice([ps, ps, 2 * ps, ps - 1, ps + 1, 3 * ps])
        elif style == "small":
            n = rng.choice([1, 2, 3, 7, ps // 2, ps - 1]) if left < 40 * ps else rng.choice([ps * 8 + 1, ps * 20 - 1, left // 2])
        elif style == "odd":
            n = rng.choice([ps - 1, ps + 1, 2 * ps - 1, 2 * ps + 1, 1])
            if left > 200 * ps:
                n = rng.choice([left // 3 + 1, ps * 100 + 1])
        else:
            n = rng.choice([1, 5, ps - 1, ps, ps + 1, rng.randrange(1, 4 * ps), rng.randrange(1, max(2, left + 1)), left])
        n = max(1, min(n, left))
        if n == 1 and nputc < 300 and rng.random() < 0.7:
            ops.append("putc")
            nputc += 1
        else:
            ops.append("put %d" % n)
        left -= n
        if r < 0.12:
            ops.append("sync")
        if r > 0.97:
            ops.append("put 0")
    return ops


def entry(ops):
    return ["begin"] + ops + ["end", "discard"]


def gen_cases(ctx, K, hdr, ptr):
    rng = ctx.rng
    cases = []
    meta = []   # per case: (ps, [totals])
    small = [24, 32]
    sizes = [64, 128, 4096]
    extra = [40, 48, 56, 72, 256, 512, 1024]

    def add(ps, totals, styles=None):
        lines = ["ps %d" % ps]
        for i, t in enumerate(totals):
            lines += entry(chunking(rng, t, ps, styles[i] if styles else None))
        cases.append(lines)
        meta.append((ps, list(totals)))

    # 1. exhaustive over every total length 0..(K+2E+2)*ps for the two small page sizes, single sputn
    #    (quick and thorough), plus random chunkings of every length (thorough: 3 per length, quick: every 3rd length)
    for ps in small:
        E = cap(ps, hdr, ptr)
        top = (K + 2 * E + 2) * ps
        for lo in range(0, top + 1, 40):
            ts = list(range(lo, min(top, lo + 39) + 1))
            add(ps, ts, ["one"] * len(ts))
        reps = 1 if ctx.quick else 3
        stride = 3 if ctx.quick else 1
        for _ in range(reps):
            off = rng.randrange(stride)
            ts = list(range(off, top + 1, stride))
            for lo in range(0, len(ts), 25):
                add(ps, ts[lo:lo + 25])
    # 2. boundary lengths for the other page sizes, random chunkings
    for ps in sizes + ([rng.choice(extra)] if ctx.quick else extra):
        E = cap(ps, hdr, ptr)
        jmax = 3 if ps <= 128 else (1 if ctx.quick else 2)
        bs = boundaries(ps, K, E, jmax)
        if ps >= 1024 and ctx.quick:
            big = [b for b in bs if b > (K + 2) * ps]
            bs = [b for b in bs if b <= (K + 2) * ps] + rng.sample(big, min(4, len(big)))
        reps = 1 if (ctx.quick or ps >= 1024) else 3
        for _ in range(reps):
            for lo in range(0, len(bs), 6):
                add(ps, bs[lo:lo + 6])
    # 3. random totals, several entries through the same stream buffer (stale state from the previous entry)
    n_rand = 40 if ctx.quick else 600
    for _ in range(n_rand):
        ps = rng.choice(small + small + [64, 128, 40, 48, 256])
        E = cap(ps, hdr, ptr)
        ts = []
        for _ in range(rng.choice([1, 2, 4, 8])):
            kind = rng.random()
            if kind < 0.4:
                ts.append(rng.choice(boundaries(ps, K, E, 3)))
            elif kind < 0.7:
                ts.append(rng.randrange(0, (K + 3 * E + 2) * ps))
            else:
                ts.append(rng.randrange(0, (K + 1) * ps))
        add(ps, ts)
    return cases, meta


def load_corpus():
    out = []
    d = VERIF / "corpus" / "C20"
    if d.exists():
        for f in sorted(d.glob("*.txt")):
            lines = [l.strip() for l in f.read_text().splitlines() if l.strip() and not l.startswith("#")]
            if lines and lines[0].startswith("mode="):
                if lines[0][5:] != "entry":
                    continue
                lines = lines[1:]
            out.append(lines)
    return out


def excluded_point(ctx, exe, drv, K):
    """One run of the real code at the page size the theorems exclude (16: a table page holds one
    pointer, the inline->table transition needs two).  Informational unless the model claims the
    point is fine while the code crashes."""
    lines = ["reset", "ps 16", "begin", "put %d" % (K * 16 + 1), "end"]
    io, rc, err = ctx.run_lines(exe, lines, ["entry"])
    mo, _, _ = ctx.run_lines(drv, lines)
    impl = "asan:" + (re.search(r"AddressSanitizer: (\S+)", err).group(1) if "AddressSanitizer" in err else "rc=%d" % rc) if rc != 0 else (io[-1][:80] if io else "?")
    model = mo[3] if len(mo) > 3 else "?"
    ctx.cov["excluded_point"] = {"page_size": 16, "total": K * 16 + 1, "implementation": impl, "model": model}
    model_faults = model.startswith("fault")
    if rc != 0 and not model_faults:
        ctx.broke("correspondence", "excluded point ps=16", "implementation aborts (%s) but the model reports %r" % (impl, model))
    elif rc == 0 and model_faults:
        ctx.notes.append("excluded point ps=16: the code no longer faults where the model does (%s) - the model is now stricter than the code; re-model" % model)


def run_entry(ctx, exe, drv):
    K, hdr, ptr = consts()
    cases = load_corpus()
    ncorp = len(cases)
    gen, meta = gen_cases(ctx, K, hdr, ptr)
    meta = [(0, [])] * ncorp + meta
    cases += gen
    dist = {"page_sizes": {}, "entries": 0, "entries_with_table": 0, "entries_with_2plus_tables": 0, "max_total": 0,
            "ops": {}, "oracle_failures": 0, "divergences": 0, "boundary_hits": 0}
    nontrivial = set()
    for c, (ps, totals) in zip(cases, meta):
        for o in c:
            k = o.split()[0]
            dist["ops"][k] = dist["ops"].get(k, 0) + 1
        if not ps:
            continue
        E = cap(ps, hdr, ptr)
        dist["page_sizes"][ps] = dist["page_sizes"].get(ps, 0) + len(totals)
        dist["entries"] += len(totals)
        bset = set(boundaries(ps, K, E, 3))
        for t in totals:
            dist["max_total"] = max(dist["max_total"], t)
            if t > K * ps:
                dist["entries_with_table"] += 1
            if t > (K - 1 + E) * ps:
                dist["entries_with_2plus_tables"] += 1
            if t in bset:
                dist["boundary_hits"] += 1
        # distinct non-trivial: one entry = (page size, total, chunking); non-trivial when it needs a page table
        i = 1
        for t in totals:
            j = c.index("discard", i)
            if t > K * ps:
                nontrivial.add(sha("%d|%s" % (ps, "\n".join(c[i:j]))))
            i = j + 1
    diffs = ctx.eseq(exe, drv, cases, impl_args=["entry"], chunk=max(1, len(cases) // (NPROC * 2) + 1))
    for (ci, li, op, a, b) in diffs:
        case = cases[ci]
        oracle = "!ORACLE" in a or "<no-output" in a

        def still(cand, want_oracle=oracle):
            if not cand or not cand[0].startswith("ps "):
                return False
            io, rc, err = ctx.run_lines(exe, ["reset"] + cand, ["entry"])
            if want_oracle:
                return rc != 0 or any("!ORACLE" in l for l in io)
            mo, _, _ = ctx.run_lines(drv, ["reset"] + cand)
            return io != mo
        small = ctx.shrink(case[:li + 1], still)
        io, rc, err = ctx.run_lines(exe, ["reset"] + small, ["entry"])
        mo, _, _ = ctx.run_lines(drv, ["reset"] + small)
        cut = lambda l: l if len(l) < 600 else l[:300] + " ... " + l[-250:]
        text = "mode=entry\n%s\n# implementation output:\n%s\n# model output:\n%s\n%s" % (
            "\n".join(small), "\n".join("#   " + cut(l) for l in io), "\n".join("#   " + cut(l) for l in mo),
            ("# harness stderr:\n#   " + err[-1500:].replace("\n", "\n#   ")) if rc != 0 else "")
        if oracle:
            dist["oracle_failures"] += 1
            m = re.search(r"!ORACLE\((\w+)", " ".join(io))
            kind = m.group(1) if m else "crash"
            psl = [l for l in small if l.startswith("ps ")]
            ctx.failing_input("oracle:%s:ps%s" % (kind, psl[-1][3:] if psl else "?"), text)
        else:
            dist["divergences"] += 1
            ctx.broke("correspondence", "E-SEQ c20 entry", "first difference at op %r: impl %r, model %r; minimised case:\n%s" % (op, cut(a), cut(b), text))
        if dist["oracle_failures"] + dist["divergences"] >= 6:
            break
    if ncorp:
        ctx.notes.append("corpus cases run first (entry mode): %d" % ncorp)
    ctx.cov["distribution"]["entry"] = dist
    ctx.cov["distinct_nontrivial"] += len(nontrivial)
    ctx.cov["samples"].append(cases[-1][:20])
    excluded_point(ctx, exe, drv, K)


def run(ctx):
    ctx.cov["trusted_base"] += [
        "libstdc++ basic_streambuf::xsputn/sputc are transcribed by hand (Stream.sputnLoop / Buf.putc); LogStreamBuffer overrides only overflow and sync",
        "page allocator: pages are fresh, disjoint, 8-aligned blocks of exactly page_size bytes (C17); a page is identified with the allocate() call that returned it",
        "writev is assumed to write every iovec completely and in order (short writes / I/O errors are not modelled; the code ignores writev's result)",
        "part B: the theorem is about the abstract event model (FIFO multi-producer queue with per-producer order = C01's specification); the real appender is tied to it by sampling only (OS-chosen schedules), not by proof",
    ]
    ctx.assumptions += [
        "page size: 8 | pageSize and pageSize >= 24 for entries longer than INLINE_PAGE_CAPACITY pages (pageSize > 0 otherwise); pageSize 16 is excluded - the real code overruns the table page there (run once per check, see coverage.excluded_point)",
        "a zero-size entry handed to AsyncFileAppender::write acts as the stop marker and is outside the stated domain",
    ]
    ctx.gen(["log"])
    ctx.lake_build(["Babylon.Properties.C20"])
    ctx.audit("Babylon.Properties.C20")
    if not ctx.quick:
        ctx.leanchecker(["Babylon.Log.Entry", "Babylon.Properties.C20"])
    drv = ctx.driver("drv_C20")
    exe, log = build()
    if exe is None:
        ctx.broke("correspondence", "harness/c20.cpp does not build against /repo", log[-800:])
        return
    if drv is None:
        return
    ctx.cov["distribution"] = {}
    ctx.cov["samples"] = []
    run_entry(ctx, exe, drv)
    ctx.cov["rule"] = (
        "part A (E-SEQ): cases = one recording allocator of page size ps + a sequence of entries streamed through ONE LogStreamBuffer "
        "(begin; chunked sputn / sputc / pubsync; end; discard). Total lengths: every length 0..(K+2E+2)*ps for ps in {24,32} as a single "
        "sputn and under random chunkings; boundary lengths {0,1,ps,2ps,(K-1)ps,K*ps,(K+1)ps,(K-1+jE)ps,(K+jE)ps,(K-1+jE)ps+ps/2} each +-1 for "
        "ps in {64,128,4096} and a sample of {40,48,56,72,256,512,1024}; random totals. Chunk styles: single sputn, page-sized, "
        "page-size+-1, tiny, mixed with sputc and pubsync, zero-length sputn. A case is counted non-trivial when the entry needs a "
        "page table (total > K*ps); distinct by (ps, op lines).")
    ctx.cov["traces_validated_against_impl"] = ctx.cov["evaluations"]


def replay(ctx, path):
    lines = [l.strip() for l in Path(path).read_text().splitlines() if l.strip() and not l.startswith("#")]
    mode = "entry"
    if lines and lines[0].startswith("mode="):
        mode, lines = lines[0][5:], lines[1:]
    ctx.gen(["log"])
    exe, log = build()
    drv = ctx.driver("drv_C20")
    if exe is None or drv is None:
        print(log[-2000:])
        return 1
    io, rc, err = ctx.run_lines(exe, ["reset"] + lines, [mode])
    mo, _, _ = ctx.run_lines(drv, ["reset"] + lines)
    bad = rc != 0
    ops = ["reset"] + lines
    for i, op in enumerate(ops):
        a = io[i] if i < len(io) else "<no-output rc=%d>" % rc
        b = mo[i] if i < len(mo) else "<no-output>"
        flag = "" if a == b and "!ORACLE" not in a else "   <<<<"
        bad |= bool(flag)
        cut = lambda l: l if len(l) < 300 else l[:150] + " ... " + l[-120:]
        print("%-14s impl: %s\n%-14s model: %s%s" % (op, cut(a), "", cut(b), flag))
    if rc != 0:
        print(err[-3000:])
    return 1 if bad else 0


MANIFEST = {
    "technique": "Lean 4 proof (invariant over all stream-buffer op sequences and page sizes for the LogEntry layout; invariant over all event histories of an abstract appender) + translator-generated constants/skeletons + E-SEQ differential correspondence with a byte/page oracle + multi-threaded oracle runs of the real appender with model replay of the recorded trace",
    "text": "Part A theorems (entry_bytes_exact, entry_pages_once, entry_discard_returns_all) hold for every sequence of sputn/sputc/sync and every page size with 8 | ps, ps >= 24 (ps > 0 for entries that fit the inline pages) of a statement-level model of LogStreamBuffer/LogEntry; part B (appender_each_once_ordered) holds for every event history of an abstract model of AsyncFileAppender; both are re-tied to /repo on each run by gen/log.py and by running model and real code on the same generated inputs",
    "note": "Trusted: Lean kernel + 3 standard axioms; gen/log.py; harness/c20.cpp and its generator (sampling); libstdc++ xsputn transcription; writev complete; part B is a theorem about the abstract model, tied to the real appender by sampled OS schedules only; page size 16 (and sizes not divisible by 8) are excluded by hypothesis - the real code overruns the heap there",
}


def warm():
    build()
