"""C18 — hash set/map: contents, size, iteration match a reference set after any history.

proof:          lean/Babylon/Properties/C18.lean over the sequential model Babylon/Swiss/Seq.lean
translator:     gen/swiss.py (constants, skeletons, how total_size seeds its sum)
correspondence: E-SEQ, harness/c18.cpp (real containers + std::map oracle) vs lean/Drivers/C18.lean
"""
from vlib.core import *

MODES = ["set", "map", "strset", "moveonly"]
# iterator -> const_iterator conversion of an end iterator forms `*nullptr` as a reference
# (transient_hash_table.hpp:377) without ever reading through it: UBSan's null check would abort on
# every failed const find()/contains().  Benign and unrelated to C18, so only that one check is off.
NO_NULL = ["-fno-sanitize=null"]


def gen_key(rng, st):
    """adversarial keys for an identity hash: few tags, few probe bases (some near the table end so
    the mirrored control bytes are used), uniqueness bits above bit 20"""
    if st["keys"] and rng.random() < 0.25:
        return rng.choice(st["keys"])
    tag = rng.choice(st["tags"])
    base = rng.choice(st["bases"])
    uniq = rng.randrange(0, st["uniq"])
    k = tag | (base << 7) | (uniq << 20)
    st["keys"].append(k)
    return k


def gen_case(rng, mode, length):
    st = {"keys": [], "tags": [rng.randrange(128) for _ in range(rng.choice([1, 2, 4]))],
          "bases": [rng.choice([0, 1, 5, 14, 15, 16, 17, 30, 31, 47, 63, 64, 100, 127, 255, rng.randrange(1024)])
                    for _ in range(rng.choice([1, 2, 3, 6]))],
          "uniq": rng.choice([4, 64, 4096])}
    ops = []
    init = rng.choice(["default", "default", "1", "16", "17", "64", str(rng.randrange(0, 200))])
    ops.append("new A " + init)
    if rng.random() < 0.5:
        ops.append("new B " + rng.choice(["default", "16", "33"]))
    copy_ok = mode != "moveonly"
    burst = 0
    while len(ops) < length:
        r = rng.random()
        reg = "A" if rng.random() < 0.8 else "B"
        if burst > 0 or r < 0.50:
            if burst == 0 and rng.random() < 0.15:
                burst = rng.choice([10, 20, 40, 70])   # grow through several chained tables
            burst = max(0, burst - 1)
            v = rng.randrange(1000) if mode == "map" else 0
            ops.append("%s emplace %d %d" % (reg, gen_key(rng, st), v))
        elif r < 0.62:
            ops.append("%s find %d" % (reg, gen_key(rng, st)))
        elif r < 0.70:
            ops.append(reg + " size")
        elif r < 0.78:
            ops.append(reg + " iter")
        elif r < 0.81:
            ops.append(reg + " clear")
        elif r < 0.85:
            ops.append("%s reserve %d" % (reg, rng.choice([0, 1, 16, 17, 40, 100, 300])))
        elif r < 0.89:
            ops.append("%s rehash %d" % (reg, rng.choice([0, 1, 16, 17, 40, 100, 300])))
        elif r < 0.91:
            ops.append(reg + " bc")
        elif r < 0.94 and copy_ok:
            ops.append(rng.choice(["copyctor", "assign"]) + rng.choice([" A B", " B A"]))
        elif r < 0.97:
            ops.append(rng.choice(["move", "swap"]) + rng.choice([" A B", " B A"]))
        else:
            ops.append("new %s %s" % (reg, rng.choice(["default", "16", "100"])))
    for reg in ["A", "B"]:
        ops += [reg + " size", reg + " iter"]
    return ops


def gen_deep_case(rng, mode):
    """many keys sharing ONE probe base in a large table: drives probing through 8 and more groups
    (a table of >= 256 buckets refuses only when every bucket is occupied)"""
    n = rng.choice([256, 300, 512, 1024])
    base = rng.choice([0, 3, 15, 17, 100, 255, 511, rng.randrange(1024)])
    count = rng.choice([130, 150, 200, 260])
    keys = set()
    while len(keys) < count:
        keys.add(rng.randrange(128) | (base << 7) | (rng.randrange(1 << 20) << 20))
    keys = list(keys)
    ops = ["new A %d" % n]
    for k in keys:
        ops.append("A emplace %d %d" % (k, rng.randrange(1000) if mode == "map" else 0))
    ops += ["A size", "A bc"]
    for k in rng.sample(keys, 12):
        ops.append("A find %d" % k)
    if mode != "moveonly":
        ops += ["copyctor A B", "B size", "B iter"]
    ops += ["A rehash %d" % rng.choice([16, 200, 300]), "A size", "A iter", "A clear", "A size"]
    return ops


def features(case):
    """(for the distribution / non-triviality rule)"""
    n_emplace = sum(1 for o in case if " emplace " in o)
    kinds = set(o.split()[1] if o.split()[0] in ("A", "B") else o.split()[0] for o in case)
    return n_emplace, kinds


def load_corpus(mode):
    out = []
    d = VERIF / "corpus" / "C18"
    if d.exists():
        for f in sorted(d.glob("*.txt")):
            lines = [l.strip() for l in f.read_text().splitlines() if l.strip() and not l.startswith("#")]
            if lines and lines[0].startswith("mode="):
                if lines[0][5:] != mode:
                    continue
                lines = lines[1:]
            if mode == "moveonly" and any(l.startswith(("copyctor", "assign")) for l in lines):
                continue
            out.append(lines)
    return out


def run(ctx):
    ctx.cov["trusted_base"] += [
        "harness/c18.cpp: identity/number-parsing hashers stand for arbitrary hash functions (theorems quantify over the hash; the code path does not depend on the hasher)",
        "element constructors / destructors are opaque value copies in the model; memory safety of the real container is decided by ASan+UBSan on the sampled histories only",
    ]
    ctx.assumptions += ["quiescent (single-threaded) histories only: concurrent behaviour of the same tables is C03",
                        "std::map with first-insertion-wins is the reference semantics of the property"]
    ctx.gen(["swiss"])
    ok = ctx.lake_build(["Babylon.Properties.C18"])
    ctx.audit("Babylon.Properties.C18")
    if not ctx.quick:
        ctx.leanchecker(["Babylon.Swiss.Seq", "Babylon.Properties.C18"])
    drv = ctx.driver("drv_C18")
    exe, log = build_exe("c18", ["harness/c18.cpp"], "asan", repo_cpp=["babylon/concurrent/*.cpp"], extra_flags=NO_NULL)
    if exe is None:
        ctx.broke("correspondence", "harness/c18.cpp does not build against /repo", log[-800:])
        return
    if drv is None:
        return
    ncases = 120 if ctx.quick else 1500
    if ctx.broken:
        ncases *= 10   # search mode: a proof obligation broke, look harder for a failing input
    dist = {"ops": {}, "modes": {}, "max_emplace": 0, "oracle_failures": 0, "divergences": 0}
    nontrivial = set()
    for mode in MODES:
        cases = load_corpus(mode)
        ncorp = len(cases)
        for _ in range(ncases // len(MODES)):
            if ctx.rng.random() < 0.12:
                cases.append(gen_deep_case(ctx.rng, mode))
            else:
                cases.append(gen_case(ctx.rng, mode, ctx.rng.choice([12, 40, 120, 300])))
        for c in cases:
            ne, kinds = features(c)
            dist["max_emplace"] = max(dist["max_emplace"], ne)
            for o in c:
                w = o.split()
                k = w[1] if w[0] in ("A", "B") else w[0]
                dist["ops"][k] = dist["ops"].get(k, 0) + 1
            if ne >= 17 and len(kinds) >= 4:
                nontrivial.add(sha("\n".join(c)))
        dist["modes"][mode] = len(cases)
        diffs = ctx.eseq(exe, drv, cases, impl_args=[mode])
        for (ci, li, op, a, b) in diffs:
            case = cases[ci]
            oracle = "!ORACLE" in a or "<no-output" in a

            def still(cand, want_oracle=oracle):
                io, rc, err = ctx.run_lines(exe, ["reset"] + cand, [mode])
                if want_oracle:
                    return rc != 0 or any("!ORACLE" in l for l in io)
                mo, _, _ = ctx.run_lines(drv, ["reset"] + cand)
                return io != mo
            small = ctx.shrink(case[:li + 1], still)
            io, rc, err = ctx.run_lines(exe, ["reset"] + small, [mode])
            mo, _, _ = ctx.run_lines(drv, ["reset"] + small)
            text = "mode=%s\n%s\n# implementation output:\n%s\n# model output:\n%s\n%s" % (
                mode, "\n".join(small), "\n".join("#   " + l for l in io), "\n".join("#   " + l for l in mo),
                ("# harness stderr:\n#   " + err[-1500:].replace("\n", "\n#   ")) if rc != 0 else "")
            if oracle:
                dist["oracle_failures"] += 1
                m = re.search(r"!ORACLE\((\w+)", " ".join(io))
                kind = m.group(1) if m else "crash"
                head = "default" if any(l == "new A default" or l == "new B default" for l in small) or not any(l.startswith("new") for l in small) else "sized"
                ctx.failing_input("oracle:%s:%s" % (kind, head), text)
            else:
                dist["divergences"] += 1
                ctx.broke("correspondence", "E-SEQ c18 mode=%s" % mode, "first difference at op %r: impl %r, model %r; minimised case:\n%s" % (op, a, b, text))
            if dist["oracle_failures"] + dist["divergences"] >= 6:
                break
        if ncorp:
            ctx.notes.append("corpus cases run first for mode %s: %d" % (mode, ncorp))
    ctx.cov["distribution"] = dist
    ctx.cov["distinct_nontrivial"] = len(nontrivial)
    ctx.cov["rule"] = ("random op histories over two registers (construct default|n, emplace with adversarial identity-hash keys: "
                       "few tags / few probe bases / bases near the table end, find, size, iter, clear, reserve, rehash, bucket_count, "
                       "copy-ctor, copy-assign, move-assign, swap) on set<uint64>, map<uint64,uint64>, set<string>, set<move-only>; "
                       "a case is non-trivial when it has >= 17 emplace ops (forces growth past one 16-bucket table) and >= 4 op kinds; distinct by content hash")
    ctx.cov["samples"] = [cases[0][:25]] if cases else []
    ctx.cov["traces_validated_against_impl"] = ctx.cov["evaluations"]


def replay(ctx, path):
    lines = [l.strip() for l in Path(path).read_text().splitlines() if l.strip() and not l.startswith("#")]
    mode = "set"
    if lines and lines[0].startswith("mode="):
        mode, lines = lines[0][5:], lines[1:]
    exe, log = build_exe("c18", ["harness/c18.cpp"], "asan", repo_cpp=["babylon/concurrent/*.cpp"], extra_flags=NO_NULL)
    drv = ctx.driver("drv_C18")
    io, rc, err = ctx.run_lines(exe, ["reset"] + lines, [mode])
    mo, _, _ = ctx.run_lines(drv, ["reset"] + lines)
    bad = rc != 0
    for op, a, b in zip(["reset"] + lines, io, mo):
        flag = "" if a == b and "!ORACLE" not in a else "   <<<<"
        bad |= bool(flag)
        print("%-28s impl: %-40s model: %s%s" % (op, a, b, flag))
    if rc != 0:
        print(err[-3000:])
    return 1 if bad else 0


MANIFEST = {
    "technique": "Lean 4 proof (refinement of a sequential swiss-table model to a finite map, by invariants over all op histories) + translator-generated constants/skeletons + E-SEQ differential correspondence with a std::map oracle",
    "text": "Theorems in lean/Babylon/Properties/C18.lean hold for every operation history, key sequence and hash function of the model; the model is re-tied to /repo on each run by gen/swiss.py and by running model and real containers (4 element types, ASan+UBSan) on the same generated histories",
    "note": "Trusted: Lean kernel + 3 standard axioms; gen/swiss.py; harness/c18.cpp and its generator (sampling, not exhaustive); element ctors/dtors modelled as value copies; single-threaded histories only (concurrency is C03)",
}


def warm():
    build_exe("c18", ["harness/c18.cpp"], "asan", repo_cpp=["babylon/concurrent/*.cpp"], extra_flags=NO_NULL)
