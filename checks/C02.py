"""C02 — bounded queue: a blocked push/pop is always woken (no lost wake-up, no deadlock); timed pop returns by its deadline.

proof:          lean/Babylon/Properties/C02.lean over the same model as C01 (lean/Babylon/BQ/Model.lean): futex
                semantics (value re-check in the kernel, wake_all, spurious wake-ups, timeouts as clock events)
translator:     gen/bq.py (waiter-bit constants, skeletons of block_until…/spin_until…/wakeup_waiters/
                set_version_and_wakeup_waiters, the seq_cst fence of the batch waker, template flags of the compensation
                and timed call sites)
correspondence: the same VRT runs of harness/bq.cpp as C01 (balanced programs, USE_FUTEX_WAIT sides paired with
                USE_FUTEX_WAKE counterparts), looked at for: deadlock / step-limit verdicts of the scheduler (every live
                thread blocked with virtual time exhausted), sleeps and wake-ups actually exercised, the waiter's CAS landing
                between the batch waker's store and its re-load, timed pops returning by the deadline in virtual time;
                lock-step replay checks that the implementation performs every wake-up the model performs.
"""
from checks.bqlib import *


def warm():
    build()


def run(ctx):
    ctx.cov["trusted_base"] += [
        "vrt/vrt.cpp futex emulation (FUTEX_WAIT re-checks the word under the scheduler lock, FUTEX_WAKE(INT_MAX) wakes every sleeper on the address), virtual clock, deadlock verdict = all live threads blocked and no timed sleeper",
        "the kernel futex contract and real scheduling delay after a deadline are modelled, not verified; fairness of the scheduler is assumed (bq_no_stuck is the safety form of liveness: some thread inside an operation is always Runnable, or a needed ticket has not been requested by the client yet; bq_guard_stable keeps that step useful)",
        "executions are sequentially consistent interleavings; the store-buffer window of the batch waker is covered by the generated obligation that the seq_cst fence is present (gen_skel_deal_n / gen_ords_*), not by simulation",
        "Ver16Faithful and the client pairing contract as in C01",
    ]
    ctx.gen(["bq"])
    ctx.lake_build(["Babylon.Properties.C02"])
    ctx.audit("Babylon.Properties.C02")
    if not ctx.quick:
        ctx.leanchecker(["Babylon.BQ.Model", "Babylon.Properties.C02"])
    runs, dist = run_all(ctx, "C02", 700, 8000)
    distinct = set()
    samples = []
    dist["timed_calls"] = 0
    for r in runs:
        f = r["feat"]
        if f["sleep"] or f["window"] or f["timeout"] or f["eagain"]:
            distinct.add(sha("\n".join(l for l in r["lines"] if " ev stats" not in l)))
        dist["timed_calls"] += sum(1 for l in r["lines"] if " ev call timed_pop_n" in l)
        liveness_oracle = [o for o in r["oracle"] if "timed-late" in o or "not empty" in o or "lost" in o]
        if r["verdict"] != "ok":
            ctx.failing_input("verdict:%s:%s" % (r["mode"], r["verdict"].split()[0]), r["text"] + "\n" + r.get("stderr", ""))
        elif liveness_oracle:
            dist["oracle"] += 1
            ctx.failing_input("oracle:%s:%s" % (r["mode"], liveness_oracle[0].split("ORACLE", 1)[1].split()[0]), r["text"])
        elif r["oracle"]:
            dist["oracle"] += 1            # safety oracle: C01 reports it; here it still invalidates the run
            ctx.failing_input("oracle:%s:%s" % (r["mode"], oracle_kind(r)), r["text"])
        elif r["replay"] and r["replay"].startswith("ok"):
            dist["replay_ok"] += 1
        else:
            dist["replay_diverge"] += 1
            if dist["replay_diverge"] <= 6:
              ctx.broke("correspondence", "E-CONC lock-step bq mode=%s seed=%d env=%s" % (r["mode"], r["seed"], r["env"]), "%s\n%s" % (r["replay"], r["text"]))
        if not samples and f["sleep"] and f["woken"] and 40 < len(r["lines"]) < 160:
            samples.append(r["lines"][:80])
    vruns, vdist = view_pass(ctx, "C02", 300, 3000)
    for r in vruns:
        if r["verdict"] != "ok":
            ctx.failing_input("view-verdict:%s:%s" % (r["mode"], r["verdict"].split()[0]), r["text"] + "\n" + r.get("stderr", ""))
        elif r["oracle"]:
            vdist["oracle"] += 1
            ctx.failing_input("view-oracle:%s:%s" % (r["mode"], oracle_kind(r)), r["text"])
        elif r["races"]:
            ctx.failing_input("view-race:%s" % r["mode"], r["text"])
    dist["view_mode"] = vdist
    ctx.cov["distribution"] = dist
    ctx.cov["distinct_nontrivial"] = len(distinct)
    ctx.cov["traces_validated_against_impl"] = dist.get("replay_ok", 0)
    ctx.cov["rule"] = ("same seeded programs and schedules as C01 (balanced pushes = pops so the no-deadlock claim applies; USE_FUTEX_WAIT only against "
                       "USE_FUTEX_WAKE counterparts); non-trivial = some thread really slept in futex_wait, got EAGAIN from the kernel re-check, timed out, or "
                       "registered as waiter between a batch waker's version store and its re-load of the word; distinct by trace hash.  features = number of "
                       "runs showing each phenomenon (window = waiter CAS inside the batch waker's store/load window)")
    ctx.cov["samples"] = samples or [["<no sample>"]]


def replay(ctx, path):
    return replay_case(ctx, "C02", path)


MANIFEST = {
    "technique": "Lean 4 proof (inductive invariants on sleepers, waiter bits, committed and conditional wake-up obligations and the USE_FUTEX_WAIT/USE_FUTEX_WAKE pairing, plus a minimal-version no-cyclic-wait argument, over all interleavings, capacities and thread counts) + translator-generated obligations on the wake-up code + lock-step replay of real executions under a deterministic scheduler with futex emulation, virtual time and a deadlock verdict (SC and weak-memory view mode)",
    "text": "Theorems in lean/Babylon/Properties/C02.lean: while a thread sleeps on a slot the waiter bit is still set or a thread is committed to wake_all (bq_sleep_sound); a sleeper whose awaited version is present is owed a wake-up by the exchanging waker or by the batch waker between its store and its CAS-clear (bq_wake_pending, under the pairing invariant bq_pairing); an awaited version, once present, stays until its waiter acts (bq_guard_stable); whenever a thread is inside an operation some thread is Runnable or a needed ticket has not been requested by the client (bq_no_stuck); the timed wait never waits longer than the call's timeout and ends at expiry (bq_timed_bound / bq_timed_expiry).  Every VRT trace of the real queue is a path of the model, so the implementation performs every wake-up the model performs; balanced programs never end in the scheduler's deadlock verdict",
    "note": "Trusted: Lean kernel + 3 standard axioms; gen/bq.py; vrt/ futex and clock emulation; fairness assumed; SC interleavings (the seq_cst fence of the batch waker is tied by a generated obligation); Ver16Faithful; pairing contract",
}
