"""C04 — concurrent vector: stable addresses, one element per index, built/destroyed once, 64 s cooling period.

proof:          lean/Babylon/Properties/C04.lean over the transition system Babylon/CVec/Model.lean
                (table-pointer CAS protocol, block creation / loser deletion, RetireList head word with its
                16-bit stamp, virtual clock) and the pure index arithmetic in the same file
translator:     gen/cvec.py (constants `>> 6`, `> 1`, shift 48, cache line, sizeof; atomic skeletons with
                memory orders of retire / gc / unsafe_gc / get_qualified_block_table(_slow) / snapshot /
                destructors; whether the retire retry loop re-reads the clock)
correspondence: E-CONC L1 — harness/c04.cpp runs the real ConcurrentVector<Elem> (dynamic block sizes 1, 2, 4, 8
                and static 4) under VRT with a virtual clock, interposed aligned operator new/delete and an
                element type with ctor/dtor bookkeeping; every trace is replayed in lock-step by
                lean/Drivers/C04.lean; the harness evaluates the address / ctor-dtor / early-free /
                use-after-free / leak oracles itself.
                E-SEQ — harness/c04seq.cpp (ASan+UBSan) vs `drv_C04 seq` for set_block_size, block_index,
                block_offset, the block counts of ensure / reserve and the for_each segment walk.
"""
from vlib.core import *

SRCS = ["harness/c04.cpp"]
SEQ = ["harness/c04seq.cpp"]


def warm():
    build_vrt_exe("c04", SRCS)
    build_exe("c04seq", SEQ, "asan")


def gen_seq_cases(rng, n):
    cases = []
    edge = [0, 1, 2, 3, 4, 5, 7, 8, 9, 15, 16, 17, 31, 32, 33, 63, 64, 65, 127, 128, 1023, 1024, 1025]
    for _ in range(n):
        ops = []
        for _ in range(rng.choice([4, 8, 16])):
            r = rng.random()
            bits = rng.choice([0, 0, 1, 1, 2, 3, 3, 4, 5, 10])
            bs = 1 << bits
            if r < 0.15:
                h = rng.choice(edge + [rng.randrange(0, 5000), (1 << rng.randrange(0, 31)) + rng.choice([-1, 0, 1]), 1 << 31])
                ops.append("meta %d" % max(0, h))
            elif r < 0.40:
                i = rng.choice([rng.randrange(0, 40 * bs), bs * rng.randrange(0, 40) + rng.choice([-1, 0, 1]) % bs,
                                ((1 << 32) << bits) - 1 - rng.randrange(0, 3), ((1 << 32) << bits) + rng.randrange(0, 3 * bs + 1),
                                rng.randrange(0, 1 << 62)])
                ops.append("idx %d %d" % (bits, max(0, i)))
            elif r < 0.60:
                lim = 24 * bs
                k = rng.choice(["ensure", "reserve"])
                v = rng.choice([0, 1, bs - 1, bs, bs + 1, 2 * bs - 1, 2 * bs, rng.randrange(0, lim)])
                ops.append("grow %d %s %d" % (bits, k, max(0, v)))
            else:
                lim = 12 * bs
                b = rng.choice([0, bs - 1, bs, bs + 1, rng.randrange(0, lim), bs * rng.randrange(0, 8)])
                ln = rng.choice([0, 0, 1, bs - 1, bs, bs + 1, 2 * bs, rng.randrange(0, 4 * bs + 1), bs * rng.randrange(0, 4)])
                if rng.random() < 0.3:
                    ln = max(0, ((b + ln) // bs) * bs - b)     # end exactly on a block boundary
                ops.append("segs %d %d %d" % (bits, max(0, b), max(0, b) + max(0, ln)))
        cases.append(ops)
    return cases


def classify(ctx, dist, distinct, runs, what, lockstep=True):
    for r in runs:
        dist["verdicts"][r["verdict"]] = dist["verdicts"].get(r["verdict"], 0) + 1
        lines = r["lines"]
        dist["max_trace"] = max(dist["max_trace"], len(lines))
        f = {"tbl_cas_fail": 0, "head_cas_strong_ok": 0, "head_cas_strong_fail": 0, "head_casw_fail": 0, "stalls": 0,
             "frees_by_retire_or_gc": 0, "usefreed": 0, "use": 0}
        destroying = False
        for l in lines:
            w = l.split()
            if len(w) < 3:
                continue
            if w[1] == "cas" and w[2] == "tbl" and w[7] == "0":
                f["tbl_cas_fail"] += 1
            elif w[1] == "cas" and w[2] == "head":
                f["head_cas_strong_ok" if w[7] == "1" else "head_cas_strong_fail"] += 1
            elif w[1] == "casw" and w[2] == "head" and w[7] == "0":
                f["head_casw_fail"] += 1
            elif w[1] == "ev" and w[2] == "stall":
                f["stalls"] += 1
            elif w[1] == "ev" and w[2:4] == ["call", "destroy"]:
                destroying = True
            elif w[1] == "ev" and w[2] == "del" and not destroying and len(w) > 4 and w[3] != "0":
                f["frees_by_retire_or_gc"] += 1
            elif w[1] == "ev" and w[2] in ("use", "usefreed"):
                f[w[2]] += 1
        for k, v in f.items():
            dist["features"][k] = dist["features"].get(k, 0) + v
        hdr = dict(h.split("=", 1) for h in r.get("header", []) if "=" in h)
        key = "bits=%s%s" % (hdr.get("bits", "?"), "/static" if hdr.get("hint") == "0" else "")
        dist["block_sizes"][key] = dist["block_sizes"].get(key, 0) + 1
        try:
            st = int(hdr.get("start", "0"))
            era = "wrap16" if st > 64000 * 60000 else ("late" if st > 128000 else "early")
            dist["start_clock"][era] = dist["start_clock"].get(era, 0) + 1
        except ValueError:
            pass
        if f["tbl_cas_fail"] or f["head_cas_strong_fail"] or f["head_casw_fail"] or f["frees_by_retire_or_gc"]:
            distinct.add(sha("\n".join(l for l in lines if " ev stats" not in l)))
        text = "what=%s seed=%d\n%s" % (what, r["seed"], "\n".join(lines[-500:]))
        if r["oracle"]:
            dist["oracle"] += 1
            kind = r["oracle"][0].split("ORACLE", 1)[1].split()[0]
            ctx.failing_input("oracle:%s" % kind, text)
        elif r["races"]:
            dist["oracle"] += 1
            ctx.failing_input("race:element-published-without-happens-before", text)
        elif r["verdict"] != "ok":
            ctx.failing_input("verdict:%s" % r["verdict"].split()[0], text + "\n" + r.get("stderr", ""))
        if lockstep and r["verdict"] == "ok":
            if r["replay"] and r["replay"].startswith("ok"):
                dist["replay_ok"] += 1
            else:
                dist["replay_diverge"] += 1
                # keep scanning: a run further on may carry the concrete failing input (oracle) that explains the divergence
                if dist["replay_diverge"] <= 4:
                    ctx.broke("correspondence", "E-CONC lock-step c04 %s seed=%d" % (what, r["seed"]), "%s\n%s" % (r["replay"], text))
        if len(ctx.failing) > 8:
            break


def run(ctx):
    ctx.cov["trusted_base"] += [
        "vrt/vrt.cpp (TSan-ABI interposition, deterministic scheduler, virtual clock, clock hook used to stall a thread right after a clock read) and the TSan-instrumented build",
        "protocol theorems are over sequentially consistent interleavings; the publication clause (element constructed before the table CAS is visible, incl. the loser's failure order and later tables of the release sequence) is additionally proved over the release/acquire view model of Core/MemView.lean with the extracted orders (Babylon/CVec/View.lean: cvec_publication_view*, negative controls by decide); one model step = one atomic operation / clock read plus the thread-local allocator and constructor work that follows it; memory orders are tied statically (skeleton obligations), by trace equality and by the HB race monitor on element payload",
        "harness/c04.cpp replaces the global aligned operator new/delete with a never-reusing arena and numbers allocations; retire-list node addresses are never reused inside a run or in the model (ABA on a reused node address needs one retire/gc call stalled for 2^16 stamp units = 48.5 days)",
        "CLOCK_MONOTONIC_RAW is monotone; '64 s' is virtual time",
        "index arithmetic theorems assume index / block_size < 2^32 (block_index returns uint32_t) and block_size_hint <= 2^31",
    ]
    ctx.assumptions += ["the destructor runs only when no other call is in progress (client contract)",
                        "operator[] / snapshot indexing only for indices covered by an earlier ensure / reserve (client contract)"]
    ctx.gen(["cvec"])
    ctx.lake_build(["Babylon.Properties.C04"])
    ctx.audit("Babylon.Properties.C04")
    if not ctx.quick:
        ctx.leanchecker(["Babylon.CVec.Model", "Babylon.Properties.C04"])
    ctx.log("proofs built and audited")
    drv = ctx.driver("drv_C04")
    exe, log = build_vrt_exe("c04", SRCS)
    if exe is None:
        ctx.broke("correspondence", "harness/c04.cpp does not build against /repo", log[-800:])
        return
    seq, log = build_exe("c04seq", SEQ, "asan")
    if seq is None:
        ctx.broke("correspondence", "harness/c04seq.cpp does not build against /repo", log[-800:])
        return
    if drv is None:
        return
    ctx.log("driver and harnesses built")
    dist = {"verdicts": {}, "features": {}, "block_sizes": {}, "start_clock": {}, "replay_ok": 0, "replay_diverge": 0, "oracle": 0,
            "max_trace": 0, "seq_ops": {}, "seq_oracle": 0, "seq_divergences": 0, "corpus": 0}
    distinct = set()

    # ---- E-SEQ: index arithmetic
    nseq = 150 if ctx.quick else 2000
    if ctx.broken:
        nseq *= 5
    cases = gen_seq_cases(ctx.rng, nseq)
    for c in cases:
        for o in c:
            dist["seq_ops"][o.split()[0]] = dist["seq_ops"].get(o.split()[0], 0) + 1
    diffs = ctx.eseq(seq, drv, cases, model_args=["seq"])
    seq_distinct = set(o for c in cases for o in c)
    for (ci, li, op, a, b) in diffs[:6]:
        text = "seq\n%s\n# implementation: %s\n# model: %s" % (op, a, b)
        if "!ORACLE" in a or "<no-output" in a:
            dist["seq_oracle"] += 1
            m = re.search(r"!ORACLE\((\w+)", a)
            ctx.failing_input("oracle:index:%s" % (m.group(1) if m else "crash"), text)
        else:
            dist["seq_divergences"] += 1
            ctx.broke("correspondence", "E-SEQ c04 index arithmetic", "op %r: impl %r, model %r" % (op, a, b))

    ctx.log("E-SEQ done: %d cases, %d differences" % (len(cases), len(diffs)))
    # ---- E-CONC: corpus first, then seeded programs
    for f in sorted((VERIF / "corpus" / "C04").glob("*.txt")):
        runs = ctx.econc(exe, drv, ["script", str(f)], ctx.seed, 1)
        dist["corpus"] += len(runs)
        classify(ctx, dist, distinct, runs, "script:" + f.name)
    n = 1500 if ctx.quick else 20000
    if ctx.broken:
        n *= 5
    seed0 = ctx.seed * 1000003
    samples = []
    for what, cnt, env in [("rand", n, {}), ("rand/pct", n // 3, {"VRT_STRATEGY": "pct"}), ("rand/view", n // 3, {"VRT_MEM": "view"})]:
        view = "VRT_MEM" in env
        # view mode (release/acquire view memory: acquire loads of the table pointer / retire head may be stale) is an
        # oracle-only pass: its traces are not SC interleavings, so they are not replayed against the SC model
        runs = ctx.econc(exe, None if view else drv, ["rand"], seed0 + (0 if not env else (7 if not view else 13) * n), cnt, env=env)
        classify(ctx, dist, distinct, runs, what, lockstep=not view)
        if view:
            dist["view_stale_reads"] = sum(int(l.split()[-1]) for r in runs for l in r["lines"] if " ev stats " in l and " stale " in l)
        ctx.log("E-CONC %s: %d runs" % (what, len(runs)))
        if not samples and runs:
            samples.append(runs[0]["lines"][:60])
    ctx.cov["distribution"] = dist
    ctx.cov["distinct_nontrivial"] = len(distinct) + len(seq_distinct)
    ctx.cov["traces_validated_against_impl"] = dist["replay_ok"]
    ctx.cov["rule"] = ("E-CONC: one case = one seeded program (block size hint in {1,2,3,4,5,8,static 4}; start clock early / after a few units / "
                       "just below the 16-bit stamp wrap / after it; 0-2 ensure by the main thread; 2-4 threads x 2-7 ops among ensure, reserve, "
                       "snapshot, snapshot use, operator[], gc, for_each, sleep 1 ms-200 s; 25% of ensure/reserve/gc calls stall 1 ms-200 s right "
                       "after a clock read; main thread suffix of gc / sleep / ensure / for_each / copy_n; destructor) under one seeded schedule "
                       "(random with 5 stickiness levels, or PCT) with spurious weak-CAS failures 1/8; non-trivial = the trace contains a failed "
                       "CAS on the table pointer or on the retire-list head, or a table freed by retire/gc before the destructor; distinct by "
                       "trace hash.  E-SEQ: distinct op lines (meta / idx / grow / segs with boundary-biased arguments, incl. uint32 truncation of block_index)")
    ctx.cov["samples"] = samples or [["<no sample>"]]


def replay(ctx, path):
    txt = Path(path).read_text()
    exe, log = build_vrt_exe("c04", SRCS)
    drv = ctx.driver("drv_C04")
    m = re.search(r"what=(\S+) seed=(\d+)", txt)
    if m is None and "\nseq\n" in txt:
        seq, log = build_exe("c04seq", SEQ, "asan")
        op = [l for l in txt.splitlines() if l and not l.startswith("#") and l != "seq"][0]
        io, rc, err = ctx.run_lines(seq, ["reset", op])
        mo, _, _ = ctx.run_lines(drv, ["reset", op], ["seq"])
        print(op, "impl:", io[-1:], "model:", mo[-1:], err[-2000:])
        return 1 if (io != mo or "!ORACLE" in " ".join(io) or rc != 0) else 0
    what, seed = m.group(1), int(m.group(2))
    view = what.endswith("/view")
    if what.startswith("script:"):
        args = ["script", str(VERIF / "corpus" / "C04" / what[7:])]
        env = {}
    else:
        args = ["rand"]
        env = {"VRT_STRATEGY": "pct"} if what.endswith("/pct") else ({"VRT_MEM": "view"} if view else {})
    r = ctx.econc(exe, None if view else drv, args, seed, 1, env=env)[0]
    print("\n".join(r["lines"]))
    print("verdict:", r["verdict"], "replay:", r["replay"], "oracle:", r["oracle"], "races:", r["races"])
    return 1 if (r["oracle"] or r["races"] or r["verdict"] != "ok" or (r["replay"] and not r["replay"].startswith("ok"))) else 0


MANIFEST = {
    "technique": "Lean 4 proof (invariants over all interleavings of a transition system whose steps are the atomic operations / clock reads of the real code; pure index arithmetic) + translator-generated constants and skeleton obligations + lock-step replay of real executions under a deterministic scheduler with a virtual clock + E-SEQ differential test of the index arithmetic",
    "text": "Theorems in lean/Babylon/Properties/C04.lean hold for every interleaving, thread count, index sequence, block size and monotone clock history (including 16-bit stamp wrap) of the model; every trace of the real ConcurrentVector produced under VRT is checked to be a path of the model (same operation, location, memory order, values, allocation and construction events), and the harness evaluates the property's oracles on the implementation itself",
    "note": "Trusted: Lean kernel + 3 standard axioms; gen/cvec.py; vrt/ (scheduler, virtual clock, TSan-ABI build); SC interleavings only; retire-list node addresses never reused (ABA needs a 48.5-day stall); virtual time stands for CLOCK_MONOTONIC_RAW",
}
