"""C07 — executors: an accepted task runs exactly once, inside the executor; stop()/destructor drain.

proof:          lean/Babylon/Properties/C07.lean over the ticket-level transition system
                Babylon/Exec/Model.lean (all interleavings of submitters, workers, stealing, the balance
                thread and stop(); all worker counts, capacities, task programs) and the two small
                machines of Babylon/Exec/Simple.lean (inplace / new-thread executor, failing front end)
translator:     gen/exec.py (queue sizing factors, queue call-site flags, statement skeletons of
                start / stop / keep_execute / keep_balance / enqueue_task, dispatch of the task types,
                the front end's failure branch, index-level skeletons of the queue operations)
correspondence: E-CONC — harness/c07.cpp runs the real ThreadPoolExecutor / InplaceExecutor /
                AlwaysUseNewThreadExecutor under VRT; every atomic operation on a queue ticket or on
                `_running`, every harness event and every thread exit/join is replayed through the
                model's `step` by lean/Drivers/C07.lean (hidden publish / receive / release steps are
                inferred as late as possible); the harness evaluates the property's oracle itself.
                A run VRT ends as stalled is classified with the model: "every live worker is itself
                blocked pushing a child into the full global queue" is the documented blocking submit,
                anything else is reported.
"""
from vlib.core import *

SRCS = ["harness/c07.cpp"]
REPO_CPP = ["babylon/executor.cpp", "babylon/basic_executor.cpp", "babylon/concurrent/*.cpp", "babylon/new.cpp",
            "babylon/coroutine/*.cpp"]
ENV = {"VRT_TICK_NS": "200", "VRT_STEP_LIMIT": "80000"}


def warm():
    build_vrt_exe("c07", SRCS, repo_cpp=REPO_CPP)


def _hdr(run, key, dflt="?"):
    for h in run["header"]:
        if h.startswith(key + "="):
            return h[len(key) + 1:]
    return dflt


def _classify(ctx, mode, env, r, dist):
    """returns True when the run counts as validated"""
    shown = [l for l in r["lines"] if not (l.startswith("0 st l") or l.startswith("0 ld lpop"))]   # drop queue construction noise
    text = "mode=%s seed=%d env=%s\nRUN %s\n%s" % (mode, r["seed"], env, " ".join(r["header"]), "\n".join(shown[-600:]))
    rep = r["replay"] or ""
    if r["oracle"]:
        dist["oracle"] += 1
        kind = r["oracle"][0].split("ORACLE", 1)[1].split()[0]
        ctx.failing_input("oracle:%s:%s" % (mode if mode != "hold" else "pool", kind), text)
        return False
    v = r["verdict"]
    if v in ("deadlock", "step-limit"):
        # oracle on the real execution, independent of the model: the run hung; that is the documented
        # blocking submit iff every worker that has not exited is inside a submission of a child and
        # the last queue ticket it took is a push ticket of the global queue
        bad = _stall_not_by_design(r)
        if bad is None:
            dist["stall_by_design"] += 1
            if rep.startswith("ok"):
                return True
            dist["replay_diverge"] += 1
            ctx.broke("correspondence", "E-CONC replay c07 mode=%s seed=%d (stalled run)" % (mode, r["seed"]), "%s\n%s" % (rep, text))
            return False
        if "rLPub" in rep or bad[1] == "local-push":
            dist["stall_balancer_hold"] += 1
            ctx.failing_input("stall:balancer-holds-local-slot", text + "\n# worker %s: %s\n# %s" % (bad[0], bad[1], rep))
        else:
            ctx.failing_input("stall:%s:%s" % (mode if mode != "hold" else "pool", bad[1]), text + "\n# worker %s: %s\n# %s" % (bad[0], bad[1], rep))
        return False
    if v != "ok":
        ctx.failing_input("verdict:%s:%s" % (mode, v.split()[0]), text + "\n" + r.get("stderr", ""))
        return False
    if rep.startswith("ok"):
        dist["replay_ok"] += 1
        return True
    dist["replay_diverge"] += 1
    ctx.broke("correspondence", "E-CONC replay c07 mode=%s seed=%d" % (mode, r["seed"]), "%s\n%s" % (rep, text))
    return False


def _stall_not_by_design(r):
    """None if the stalled run is the documented blocking submit, else (worker tid, reason)."""
    if _hdr(r, "mode") != "pool":
        return ("-", "stall")
    w = int(_hdr(r, "W", "0") or 0)
    last_ev, last_tk, exited = {}, {}, set()
    for l in r["lines"]:
        ws = l.split()
        if len(ws) < 2 or not ws[0].isdigit():
            continue
        t = int(ws[0])
        if ws[1] == "exit":
            exited.add(t)
        elif ws[1] == "ev" and len(ws) > 2 and ws[2] in ("submit", "accept", "run", "done"):
            last_ev[t] = ws[2]
            if ws[2] == "submit":
                last_tk[t] = None
        elif ws[1] == "rmw" and "gpush" in l:
            last_tk[t] = "gpush"
        elif ws[1] == "rmw" and "gpop" in l:
            last_tk[t] = "gpop"
        elif ws[1] == "st" and " lpush." in l:
            last_tk[t] = "lpush"
    live = [t for t in range(1, w + 1) if t not in exited]
    if not live:
        return ("-", "no-live-worker")
    for t in live:
        if last_ev.get(t) != "submit":
            return (t, "worker-not-submitting" if last_tk.get(t) != "gpop" else "worker-waits-on-global-pop")
        if last_tk.get(t) == "lpush":
            return (t, "local-push")
        if last_tk.get(t) != "gpush":
            return (t, "worker-not-in-global-push")
    return None


def _corpus():
    out = []
    d = VERIF / "corpus" / "C07"
    if d.exists():
        for p in sorted(d.glob("*.txt")):
            m = re.search(r"mode=(\S+) seed=(\d+)(?: env=(\{.*\}))?", p.read_text())
            if m:
                out.append((m.group(1), int(m.group(2)), eval(m.group(3)) if m.group(3) else dict(ENV)))
    return out


def run(ctx):
    ctx.cov["trusted_base"] += [
        "vrt/vrt.cpp (TSan-ABI interposition, deterministic scheduler, futex / sleep emulation, virtual time with VRT_TICK_NS) and the TSan-instrumented build (DESIGN 3.3)",
        "the bounded queue below the tickets: assumptions Q1-Q5 stated at the top of lean/Babylon/Exec/Model.lean (ticket order, value of ticket i, blocking conditions, try_pop justification, size) are properties C01/C02, cited not re-proved; every replayed trace checks them at the tickets",
        "thread-local slots: live threads have distinct ThreadId values (C14); the slot of an exited worker may be inherited by a later-starting worker",
        "executions are sequentially consistent interleavings at the granularity of the atomic operations on the queue indices; the memory orders of those operations are checked on every trace line",
        "fresh task ids (client contract of the harness)",
    ]
    ctx.gen(["exec"])
    ctx.lake_build(["Babylon.Properties.C07"])
    ctx.audit("Babylon.Properties.C07")
    if not ctx.quick:
        ctx.leanchecker(["Babylon.Exec.Model", "Babylon.Exec.View", "Babylon.Properties.C07"])
    drv = ctx.driver("drv_C07")
    exe, log = build_vrt_exe("c07", SRCS, repo_cpp=REPO_CPP)
    if exe is None:
        ctx.broke("correspondence", "harness/c07.cpp does not build against /repo", log[-800:])
        return
    if drv is None:
        return
    n = 400 if ctx.quick else 6000
    if ctx.broken:
        n *= 4
    seed0 = ctx.seed * 1000003
    dist = {"modes": {}, "verdicts": {}, "replay_ok": 0, "replay_diverge": 0, "oracle": 0, "stall_by_design": 0,
            "stall_balancer_hold": 0, "W": {}, "L": {}, "G": {}, "steal": {}, "bal_us": {}, "klass": {}, "dtor": {}, "wait": {}, "linger": {},
            "local_pushes": 0, "local_claims": 0, "balancer_forwards": 0, "global_tickets": 0, "rejects": 0,
            "scope_submits": 0, "wakeups": 0, "tasks_run": 0, "max_trace": 0}
    distinct = set()
    samples = []
    # corpus first: fixed interesting cases (one run each)
    for mode, seed, cenv in _corpus():
        for r in ctx.econc(exe, drv, [mode], seed, 1, env=cenv):
            dist["modes"]["corpus/" + mode] = dist["modes"].get("corpus/" + mode, 0) + 1
            _classify(ctx, mode, cenv, r, dist)
    plan = [("pool", n, {}), ("pool", n // 2, {"VRT_STRATEGY": "pct"}), ("hold", n // 8, {}),
            ("wide", n // 8, {"VRT_STEP_LIMIT": "600000"}),
            ("inplace", n // 4, {}), ("newthread", n // 4, {})]
    for mode, cnt, extra in plan:
        env = dict(ENV)
        env.update(extra)
        runs = ctx.econc(exe, drv, [mode], seed0, cnt, env=env)
        ctx.log("mode %s%s: %d runs" % (mode, "/pct" if "VRT_STRATEGY" in extra else "", len(runs)))
        dist["modes"][mode + ("/pct" if "VRT_STRATEGY" in extra else "")] = len(runs)
        for r in runs:
            dist["verdicts"][r["verdict"].split()[0]] = dist["verdicts"].get(r["verdict"].split()[0], 0) + 1
            dist["max_trace"] = max(dist["max_trace"], len(r["lines"]))
            ok = _classify(ctx, mode, env, r, dist)
            lines = r["lines"]
            if mode in ("pool", "hold", "wide"):
                for k in ("W", "L", "G", "steal", "klass", "dtor", "wait", "linger"):
                    v = _hdr(r, k)
                    dist[k][v] = dist[k].get(v, 0) + 1
                v = _hdr(r, "balus")
                dist["bal_us"][v] = dist["bal_us"].get(v, 0) + 1
                w = int(_hdr(r, "W", "0") or 0)
                nl = sum(1 for l in lines if " st lpush." in l and not l.startswith("0 "))
                nc = sum(1 for l in lines if " casw lpop." in l and l.split()[-2] == "1")
                nb = sum(1 for l in lines if " casw lpop." in l and l.split()[-2] == "1" and l.split()[0] == str(w + 1) and _hdr(r, "bal") == "1")
                dist["local_pushes"] += nl
                dist["local_claims"] += nc
                dist["balancer_forwards"] += nb
                dist["global_tickets"] += sum(1 for l in lines if " rmw add gpush " in l)
                dist["scope_submits"] += sum(1 for l in lines if l.endswith(" ev scope_enter"))
                dist["wakeups"] += sum(1 for l in lines if l.endswith(" ev wakeup"))
                nontrivial = nc > 0 or r["verdict"] != "ok" or sum(1 for l in lines if " ev run " in l) >= 3
            else:
                nontrivial = sum(1 for l in lines if " ev run " in l) >= 2
            dist["rejects"] += sum(1 for l in lines if " ev reject " in l)
            dist["tasks_run"] += sum(1 for l in lines if " ev run " in l)
            if ok and nontrivial:
                distinct.add(sha("\n".join(l for l in lines if " ev stats" not in l)))
            if len(samples) < 1 and mode == "pool" and ok and 80 < len(lines) < 400:
                samples.append([l for l in lines if not (l.startswith("0 st l") or l.startswith("0 ld lpop"))][:80])
            if len(ctx.failing) > 24:
                break
    ctx.cov["distribution"] = dist
    ctx.cov["distinct_nontrivial"] = len(distinct)
    ctx.cov["traces_validated_against_impl"] = dist["replay_ok"] + dist["stall_by_design"]
    ctx.cov["rule"] = ("one case = one seeded configuration (pool: 1-4 workers, global capacity 1-4, local capacity 0/1/2, stealing on/off, balance "
                       "interval unset / 2 us / 1 ms, stop() or destructor, stop at once / after the roots' futures) + one seeded task forest (1-6 roots over 1-3 "
                       "external submitters, 0-2 children per task, depth <= 3, execute or submit, 20% of children submitted from inside a foreign InplaceExecutor "
                       "scope, failing submissions through the base Executor, wakeup_one_worker) under one seeded schedule (random with 5 stickiness levels, or PCT); "
                       "`hold`: one worker, small local queue, global capacity 1, permanently sweeping balance thread; `wide`: stealing on, 2-3 workers whose thread-local "
                       "slots are 126, 127, 128 of 160 (124 parked threads hold the smaller ids), so the stealing scan crosses the 128-entry block boundary of the storage; "
                       "failing submissions go through the base Executor (-1) and a user-defined executor whose invoke() returns -1, 1, 16, -2, 11, INT_MIN, INT_MAX in turn; inplace / newthread: nested submissions, join(). "
                       "non-trivial = validated and (a local ticket was claimed, or the run stalled by design, or >= 3 tasks ran; simple executors: >= 2 tasks); "
                       "distinct by trace hash")
    ctx.cov["samples"] = samples or [["<no sample>"]]


def replay(ctx, path):
    txt = Path(path).read_text()
    m = re.search(r"mode=(\S+) seed=(\d+)(?: env=(\{.*\}))?", txt)
    mode, seed = m.group(1), int(m.group(2))
    env = eval(m.group(3)) if m.group(3) else dict(ENV)
    exe, log = build_vrt_exe("c07", SRCS, repo_cpp=REPO_CPP)
    drv = ctx.driver("drv_C07")
    r = ctx.econc(exe, drv, [mode], seed, 1, env=env)[0]
    print("\n".join(l for l in r["lines"] if not (l.startswith("0 st l") or l.startswith("0 ld lpop"))))
    print("verdict:", r["verdict"], "replay:", r["replay"], "oracle:", r["oracle"])
    bad = r["oracle"] or (r["replay"] and not r["replay"].startswith("ok")) or (r["verdict"] not in ("ok", "deadlock", "step-limit"))
    return 1 if bad else 0


MANIFEST = {
    "technique": "Lean 4 proof (invariants over all interleavings of a ticket-level transition system of the thread pool; two small machines for the inplace / new-thread executors) + translator-generated obligations + replay of real executions under a deterministic scheduler through the model",
    "text": "Theorems in lean/Babylon/Properties/C07.lean hold for every interleaving of submitters, workers, stealing, the balance thread and stop(), every worker count, capacity and task program of the model; each model step is one atomic operation on a queue ticket / `_running`, one API event or one hidden queue completion, and every trace of the real executors produced under VRT is checked to be a path of the model",
    "note": "Trusted: Lean kernel + 3 standard axioms; gen/exec.py; vrt/; the bounded queue below the tickets (C01/C02, assumptions Q1-Q5 stated in the model); unique live thread ids (C14); SC interleavings",
}
