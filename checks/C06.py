"""C06 — monotonic resources: blocks disjoint, aligned, stable; release frees all once.

proof:          lean/Babylon/Properties/C06.lean over the model Babylon/Arena/Model.lean
                (invariant + lemmas in Babylon/Arena/Lemmas.lean)
translator:     gen/arena.py (capacities, struct sizes/alignments/offsets, move-assignment swap list,
                statement skeletons of every modelled function)
correspondence: E-SEQ, harness/c06.cpp (real ExclusiveMonotonicBufferResource on recording page
                allocators / upstream resources with real memory, canaries, property oracle)
                vs lean/Drivers/C06.lean
supporting:     (no model; evidence only, both tiers)
                * 2-4 real threads on SharedMonotonicBufferResource / SwissMemoryResource with the same
                  oracle; every thread also registers destructors that check blocks allocated through
                  OTHER threads' sub-resources, the page allocator scribbles over returned pages
                  (oracle dtor_after_page_free: release() = all destructors, then all pages)
                * several Exclusive / Swiss resources on one real PageHeap (CachedPageAllocator with a
                  small ring) or directly on NewDeletePageAllocator, page sizes 128 .. 65536, alignments up to
                  (and beyond) the page size, through many allocate / release cycles; a forwarding spy checks
                  the library allocators' side of the contract (oracle misaligned / not_owned / overlap_block /
                  page_twice / page_misaligned / leak_page)
"""
from vlib.core import *

# The default member initialisers `_last_page_pointer {_last_page_array->pages}` (memory_resource.h)
# form the address of a member of a null PageArray* without reading through it; UBSan's null check
# aborts on that in every constructor.  Benign (the value is only compared with the same expression)
# and unrelated to C06, so only that one check is off.  The model reproduces the resulting values
# (`offsetof(pages)`), see Arena.lastPagePointer.
NO_NULL = ["-fno-sanitize=null"]
REPO_CPP = ["babylon/reusable/memory_resource.cpp", "babylon/reusable/page_allocator.cpp", "babylon/concurrent/*.cpp",
            "babylon/new.cpp"]
PAGE_SIZES = [128, 128, 256, 256, 512, 1024, 4096]


def build():
    return build_exe("c06", ["harness/c06.cpp"], "asan", repo_cpp=REPO_CPP, extra_flags=NO_NULL)


def pow2s(limit):
    out, a = [], 1
    while a <= limit:
        out.append(a)
        a *= 2
    return out


def gen_bytes(rng, ps):
    r = rng.random()
    if r < 0.08:
        return 0
    if r < 0.38:
        return rng.randrange(1, 65)
    if r < 0.50:
        return rng.choice([120, 127, 128, 129, 136, 247, 248, 249, 256])
    if r < 0.72:
        return max(0, ps - rng.randrange(0, 137))          # the three page-array placements live here
    if r < 0.80:
        return ps + rng.randrange(1, 9)
    if r < 0.90:
        return rng.randrange(ps + 1, 5 * ps)
    return rng.randrange(1, ps)


def gen_align(rng, ps):
    r = rng.random()
    if r < 0.45:
        return rng.choice([1, 1, 2, 4, 8, 8, 16])
    if r < 0.75:
        return rng.choice([32, 64, 128, 256])
    if r < 0.9:
        return rng.choice([ps // 2, ps, ps])
    return rng.choice([2 * ps, 4 * ps])


def gen_case(rng, length):
    ops = []
    ps = [rng.choice(PAGE_SIZES), rng.choice(PAGE_SIZES)]
    for i in range(2):
        ops.append("pa %d %d %d %d" % (i, ps[i], rng.choice([0, 0, 1, 2]), rng.choice([0, 1, 1])))
        ops.append("up %d %d" % (i, rng.choice([0, 1])))
    # which allocators each register uses (sharing one allocator between both registers is allowed)
    conf = {"A": (rng.choice([0, 0, 1]), rng.choice([0, 0, 1])), "B": (rng.choice([0, 1, 1]), rng.choice([0, 1, 1]))}
    for r in "AB":
        ops.append("new %s %d %d" % (r, conf[r][0], conf[r][1]))
    cur = dict(conf)
    main = rng.choice("AB")
    burst, burst_kind = 0, None
    ntag = 0
    while len(ops) < length:
        reg = main if rng.random() < 0.8 else ("B" if main == "A" else "A")
        pg = ps[cur[reg][0]]
        if burst > 0:
            burst -= 1
            if burst_kind == "page":       # one page per request: overflows the 15-entry page arrays
                ops.append("%s alloc %d %d" % (reg, max(0, pg - rng.randrange(0, 137)), rng.choice([1, 8, 16, 64])))
            elif burst_kind == "page2":    # pages left with >= 128 free bytes: next array goes into the old free range
                ops.append("%s alloc %d %d" % (reg, max(1, pg - rng.randrange(128, 400)) if pg >= 512 else pg // 2 + 1, rng.choice([1, 8, 16])))
            elif burst_kind == "over":     # overflows the 15-entry oversize arrays
                ops.append("%s alloc %d %d" % (reg, pg + rng.randrange(1, 300), rng.choice([1, 8, 64, 2 * pg])))
            elif burst_kind == "reg":      # overflows the 15-entry destroy-task arrays
                ntag += 1
                ops.append("%s reg %d" % (reg, ntag))
            else:                          # small blocks filling pages
                ops.append("%s alloc %d %d" % (reg, rng.randrange(0, 48), rng.choice([1, 2, 4, 8, 16])))
            continue
        r = rng.random()
        if r < 0.10:
            burst = rng.choice([8, 17, 20, 35])
            burst_kind = rng.choice(["page", "page", "page2", "over", "reg", "small"])
        elif r < 0.60:
            ops.append("%s alloc %d %d" % (reg, gen_bytes(rng, pg), gen_align(rng, pg)))
        elif r < 0.72:
            ntag += 1
            ops.append("%s reg %d" % (reg, ntag))
        elif r < 0.84:
            k = rng.random()
            if k < 0.45:
                ops.append("%s contains b %d %d" % (reg, rng.randrange(0, 50), rng.choice([0, 0, 1, 7, 63, 127, 200, 4095, -1])))
            elif k < 0.6:
                ops.append("%s contains o %d %d" % (reg, rng.randrange(0, 50), rng.choice([0, 1, 5])))
            elif k < 0.8:
                ops.append("%s contains %s 0 %d" % (reg, rng.choice(["fb", "fe"]), rng.choice([-9, -1, 0, 1, 8, 100])))
            else:
                ops.append("%s contains abs %d 0" % (reg, rng.choice([0, 8, 1 << 26, (1 << 26) + 5, 3 << 26, rng.randrange(1 << 26, 5 << 26)])))
        elif r < 0.90:
            ops.append("%s release" % reg)
        elif r < 0.95:
            s, d = rng.choice([("A", "B"), ("B", "A"), ("A", "B"), ("B", "A"), ("A", "A")])
            ops.append("move %s %s" % (s, d))
            cur[s], cur[d] = cur[d], cur[s]
        elif r < 0.97:
            c = (rng.choice([0, 1]), rng.choice([0, 1]))
            ops.append("new %s %d %d" % (reg, c[0], c[1]))
            cur[reg] = c
        else:
            main = "B" if main == "A" else "A"
    ops.append("A release" if rng.random() < 0.5 else "B contains b 0 0")
    ops.append("end")
    return ops


def load_corpus():
    out = []
    d = VERIF / "corpus" / "C06"
    if d.exists():
        for f in sorted(d.glob("*.txt")):
            lines = [l.strip() for l in f.read_text().splitlines() if l.strip() and not l.startswith("#")]
            if lines:
                out.append(lines)
    return out


def classify(text_lines):
    m = re.search(r"!ORACLE\((\w+)", " ".join(text_lines))
    return m.group(1) if m else "crash"


def threads_part(ctx, exe_plain, dist, ns=(2, 3, 4), rounds=6):
    """supporting evidence (no model): real threads on the shared variants, same oracle"""
    runs = dist.setdefault("threads_runs", [])
    for kind in ["shared", "swiss"]:
        for n in ns:
            seed = ctx.rng.randrange(1, 10 ** 6)
            r = sh([str(exe_plain), "threads", kind, str(n), str(seed), str(rounds)], timeout=600)
            last = r.stdout.strip().splitlines()[-1] if r.stdout.strip() else "<no output>"
            runs.append(last)
            if r.returncode != 0 or "!ORACLE" in r.stdout:
                kindf = classify(r.stdout.splitlines())
                ctx.failing_input("threads:%s:%s" % (kind, kindf),
                                  "# concurrent run on the real %s resource (no model)\nthreads %s %d %d %d\n# output:\n%s" % (
                                      kind, kind, n, seed, rounds, "\n".join("#   " + l for l in r.stdout.splitlines()[-30:])))


def pageheap_part(ctx, exe, dist, cycles=400):
    """the resource on the library's own allocator stack (real PageHeap with a small page cache):
    several resources share it through many allocate / release cycles; same oracle (no model)"""
    runs = dist.setdefault("pageheap_runs", [])
    # cap 0 = directly on NewDeletePageAllocator; page sizes above the system page size included: the
    # resource relies on page_size-aligned pages for every request with alignment <= page size
    for ps, cap in [(256, 8), (4096, 8), (128, 4), (512, 16), (8192, 8), (16384, 0), (65536, 4), (8192, 0)]:
        seed = ctx.rng.randrange(1, 10 ** 6)
        if ps > 4096:
            cycles = min(cycles, 1500)
        r = sh([str(exe), "pageheap", str(seed), str(ps), str(cap), str(cycles if ps <= 4096 else max(150, cycles // 2))], timeout=900)
        last = r.stdout.strip().splitlines()[-1] if r.stdout.strip() else "<no output>"
        runs.append(last)
        if r.returncode != 0 or "!ORACLE" in r.stdout:
            ctx.failing_input("pageheap:%s" % classify(r.stdout.splitlines()),
                              "# resources on one real PageHeap (no model)\npageheap %d %d %d %d\n# output:\n%s" % (
                                  seed, ps, cap, cycles, "\n".join("#   " + l for l in r.stdout.splitlines()[-30:])))


def run(ctx):
    ctx.cov["trusted_base"] += [
        "harness/c06.cpp: recording page allocators / upstream resources with deterministic placement stand for arbitrary allocators (theorems quantify over every placement satisfying the stated assumptions)",
        "the three intrusive linked lists are Lean lists in the model (each node keeps its address; the shape facts the code relies on -- non-head arrays full, arrays filled from the top -- are part of the proved invariant); `(x + a - 1) & -a` is modelled as arithmetic round-up, proved equal for power-of-two a (align_mask_is_round_up) when no 64-bit address overflow occurs; overflow itself is ignored",
        "block contents are not modelled: stability is stated as 'no bookkeeping write and no returned region touches a live block'; on the real code it is sampled with canary bytes under ASan",
        "UBSan null check disabled for this harness only (default member initialisers form `&nullptr->pages`)",
    ]
    ctx.assumptions += [
        "page size is a power of two and >= sizeof(PageArray) (NewDeletePageAllocator::set_page_size applies bit_ceil; a custom PageAllocator with another size is outside the theorems)",
        "requested alignments are powers of two (std::pmr contract)",
        "ASSUMPTION on the page allocator (not documented by the PageAllocator interface): it returns page_size-aligned pages disjoint from every region currently held (for the library's own allocators: pinned by gen_page_allocator_alignment and checked at run time by the harness's spy for page sizes 128..65536); the upstream returns blocks aligned as requested and disjoint from every region currently held",
        "destructors registered with the resource do not call back into it",
        "shared/swiss variants: one exclusive resource per thread (C19 slot privacy); covered by supporting concurrent runs in the thorough tier, not by a theorem here",
    ]
    ctx.gen(["arena"])
    ctx.log("translator done")
    ctx.lake_build(["Babylon.Properties.C06"])
    ctx.log("lake build done")
    ctx.audit("Babylon.Properties.C06")
    ctx.log("audit done")
    if not ctx.quick:
        ctx.leanchecker(["Babylon.Arena.Model", "Babylon.Arena.Lemmas", "Babylon.Properties.C06"])
    drv = ctx.driver("drv_C06")
    exe, log = build()
    if exe is None:
        ctx.broke("correspondence", "harness/c06.cpp does not build against /repo", log[-800:])
        return
    if drv is None:
        return
    ctx.log("driver + harness built")
    ncases = 160 if ctx.quick else 2000
    if ctx.broken:
        ncases *= 10   # search mode: a proof obligation broke, look harder for a failing input
    dist = {"ops": {}, "paths": {}, "page_sizes": {}, "oracle_failures": 0, "divergences": 0}
    cases = load_corpus()
    ncorp = len(cases)
    for _ in range(ncases):
        cases.append(gen_case(ctx.rng, ctx.rng.choice([20, 60, 150, 150, 400])))
    for c in cases:
        for o in c:
            w = o.split()
            k = w[1] if w[0] in ("A", "B") else w[0]
            dist["ops"][k] = dist["ops"].get(k, 0) + 1
            if w[0] == "pa":
                dist["page_sizes"][w[2]] = dist["page_sizes"].get(w[2], 0) + 1
    # path coverage and non-triviality are read off the model's own trace of the same cases
    nontrivial = set()
    allin = []
    for c in cases:
        allin += ["reset"] + c
    mo, _, _ = ctx.run_lines(drv, allin, ["paths"])
    pos = 0
    for c in cases:
        seen = set()
        for l in mo[pos:pos + len(c) + 1]:
            m = re.search(r"path=(\S+)", l)
            if m:
                p = m.group(1).replace("Babylon.Arena.Path.", "")
                seen.add(p)
                dist["paths"][p] = dist["paths"].get(p, 0) + 1
        pos += len(c) + 1
        kinds = set((o.split()[1] if o.split()[0] in ("A", "B") else o.split()[0]) for o in c)
        if len(seen) >= 4 and len(kinds) >= 5 and any(o.endswith("release") for o in c):
            nontrivial.add(sha("\n".join(c)))
    ctx.log("cases generated, model paths traced")
    diffs = ctx.eseq(exe, drv, cases)
    ctx.log("E-SEQ done: %d cases, %d differences" % (len(cases), len(diffs)))
    # cases in which the implementation itself reported an oracle failure first, then crashes, then plain divergences
    diffs.sort(key=lambda d: (0 if "!ORACLE" in d[3] else 1 if "<no-output" in d[3] else 2, d[0]))
    for (ci, li, op, a, b) in diffs:
        if dist["oracle_failures"] >= 4 or dist["divergences"] >= 3:
            break
        case = cases[ci]
        # Re-run the case on its own: a sanitizer abort in an earlier case of the same batch makes
        # every later case of that batch look different (no output at all).
        io, rc, err = ctx.run_lines(exe, ["reset"] + case)
        mo2, _, _ = ctx.run_lines(drv, ["reset"] + case)
        first = next((k for k in range(len(mo2)) if k >= len(io) or io[k] != mo2[k]), None)
        if first is None and rc == 0:
            continue
        if first is None:
            first = len(io)
        li = first - 1
        a = io[first] if first < len(io) else "<no-output: rc=%s>" % rc
        b = mo2[first] if first < len(mo2) else "<none>"
        op = (["reset"] + case)[first] if first <= len(case) else "<end>"
        # an oracle failure anywhere in the case makes it a failing input for the real code, even
        # when model and implementation part ways earlier
        oracle = rc != 0 or any("!ORACLE" in l for l in io)

        def still(cand, want_oracle=oracle):
            io, rc, err = ctx.run_lines(exe, ["reset"] + cand)
            if want_oracle:
                return rc != 0 or any("!ORACLE" in l for l in io)
            mo2, _, _ = ctx.run_lines(drv, ["reset"] + cand)
            return io != mo2
        small = ctx.shrink(case if oracle else case[:li + 1], still)
        io, rc, err = ctx.run_lines(exe, ["reset"] + small)
        mo2, _, _ = ctx.run_lines(drv, ["reset"] + small)
        text = "%s\n# implementation output:\n%s\n# model output:\n%s\n%s" % (
            "\n".join(small), "\n".join("#   " + l for l in io), "\n".join("#   " + l for l in mo2),
            ("# harness stderr:\n#   " + err[-1500:].replace("\n", "\n#   ")) if rc != 0 else "")
        if oracle:
            dist["oracle_failures"] += 1
            kind = classify(io)
            ctx.failing_input("oracle:%s:%s" % (kind, "move" if any(l.startswith("move") for l in small) else "plain"), text)
        else:
            dist["divergences"] += 1
            ctx.broke("correspondence", "E-SEQ c06", "first difference at op %r: impl %r, model %r; minimised case:\n%s" % (op, a, b, text))
    if ncorp:
        ctx.notes.append("corpus cases run first: %d" % ncorp)
    excluded_point(ctx, exe, drv)
    # supporting evidence for the shared / swiss variants (real threads, same oracle, ASan+UBSan)
    threads_part(ctx, exe, dist, ns=(2, 4), rounds=3)
    pageheap_part(ctx, exe, dist, cycles=400 if ctx.quick else 4000)
    ctx.log("concurrent + PageHeap supporting runs done")
    if not ctx.quick:
        exe_plain, log = build_exe("c06p", ["harness/c06.cpp"], "plain", repo_cpp=REPO_CPP)
        if exe_plain is None:
            ctx.broke("correspondence", "harness/c06.cpp (plain) does not build", log[-800:])
        else:
            threads_part(ctx, exe_plain, dist, rounds=20)
            threads_part(ctx, exe, dist, ns=(3,), rounds=10)
    ctx.cov["distribution"] = dist
    ctx.cov["distinct_nontrivial"] = len(nontrivial)
    ctx.cov["rule"] = ("random op histories over two resources sharing / not sharing 2 page allocators (page size 128..4096, ascending / descending / "
                       "gapped placement, LIFO page reuse) and 2 upstream resources (tight / minimally aligned placement): allocate(bytes, alignment) with "
                       "bytes in {0, small, around sizeof of the arrays, pageSize-{0..136}, pageSize+{1..8}, up to 5 pages}, alignment 1..4*pageSize, bursts "
                       "that overflow the 15-entry page / oversize / destroy-task arrays, register_destructor, contains (inside/outside live blocks, other "
                       "resource's blocks, around free_begin/free_end, absolute), release, move-assignment (incl. self-move), destroy+reconstruct; "
                       "a case is non-trivial when the model's trace of it takes >= 4 distinct allocation paths, uses >= 5 op kinds and releases at least once; "
                       "distinct by content hash")
    ctx.cov["samples"] = [cases[ncorp][:25]] if len(cases) > ncorp else []
    ctx.cov["traces_validated_against_impl"] = ctx.cov["evaluations"]


def excluded_point(ctx, exe, drv):
    """DESIGN section 6 C06 / section 7 #10: page sizes outside the theorems' hypotheses are run once on
    the real code and the outcome is recorded (informational; not a violation of the property as the
    library's own allocators only produce power-of-two page sizes)."""
    out = {}
    for name, ps, ops in [("pageSize=136 (8 | ps, not a power of two)", 136, ["A alloc 8 8", "A alloc 100 64", "A alloc 100 64", "end"]),
                          ("pageSize=132 (not a multiple of 8)", 132, ["A alloc 1 1", "A alloc 3 1", "A alloc 100 1", "end"])]:
        lines = ["reset", "pa 0 %d 0 0" % ps, "new A 0 0"] + ops
        io, rc, err = ctx.run_lines(exe, lines)
        mo, _, _ = ctx.run_lines(drv, lines)
        kinds = sorted(set(re.findall(r"!ORACLE\((\w+)", " ".join(io))))
        crash = ""
        if rc != 0:
            m = re.search(r"(runtime error: [^\n]*|AddressSanitizer: [^\n]*)", err)
            crash = m.group(1)[:160] if m else "rc=%d" % rc
        out[name] = {"oracle_failures": kinds, "sanitizer": crash,
                     "model_agrees_on_answered_lines": all(a.split(" !ORACLE")[0] == b for a, b in zip(io, mo))}
    ctx.cov["excluded_points"] = out


def replay(ctx, path):
    lines = [l.strip() for l in Path(path).read_text().splitlines() if l.strip() and not l.startswith("#")]
    exe, log = build()
    if lines and lines[0].startswith(("threads", "pageheap")):
        w = lines[0].split()
        r = sh([str(exe)] + w, timeout=600)
        print(r.stdout[-3000:])
        return 1 if (r.returncode != 0 or "!ORACLE" in r.stdout) else 0
    drv = ctx.driver("drv_C06")
    io, rc, err = ctx.run_lines(exe, ["reset"] + lines)
    mo, _, _ = ctx.run_lines(drv, ["reset"] + lines)
    bad = rc != 0
    for op, a, b in zip(["reset"] + lines, io + ["<no output>"] * len(lines), mo):
        flag = "" if a == b and "!ORACLE" not in a else "   <<<<"
        bad |= bool(flag)
        print("%-28s impl:  %s\n%-28s model: %s%s" % (op, a, "", b, flag))
    if rc != 0:
        print(err[-3000:])
    return 1 if bad else 0


MANIFEST = {
    "technique": "Lean 4 proof (inductive invariant of a field-by-field model of ExclusiveMonotonicBufferResource over all operation lists, page sizes and allocator placements; release trace theorems) + translator-generated constants / statement skeletons + E-SEQ differential correspondence on real memory with a property oracle and canaries",
    "text": "Theorems in lean/Babylon/Properties/C06.lean hold for every list of allocate / register_destructor / contains / release / move / reconstruct operations on two resources, every power-of-two page size >= sizeof(PageArray) and every allocator behaviour that returns aligned regions disjoint from the regions currently held; the model is re-tied to /repo on each run by gen/arena.py (constants, swap list of the move assignment, statement text of every modelled function) and by running model and real resource (ASan+UBSan, recording allocators, canaries) on the same generated histories",
    "note": "Trusted: Lean kernel + 3 standard axioms; gen/arena.py; harness/c06.cpp and its generator (sampling, not exhaustive); linked lists modelled as Lean lists, mask rounding as arithmetic round-up, no 64-bit overflow; block contents sampled by canaries only; shared/swiss variants covered by concurrent supporting runs (thorough tier), their per-thread privacy is C19",
}


def warm():
    build()
