-- Root of the library: imports every model, lemma and property module.
-- `lake build` (the setup command) therefore re-checks every theorem.
import Babylon.Core.Reach
import Babylon.Core.Proto
