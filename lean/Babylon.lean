-- Root of the library: imports every property module (and through them every model and
-- lemma file).  `lake build` (run by setup.sh) therefore re-checks every theorem.
import Babylon.Core.Reach
import Babylon.Core.Proto
import Babylon.Core.Skel
import Babylon.Properties.C01
import Babylon.Properties.C02
import Babylon.Properties.C03
import Babylon.Properties.C04
import Babylon.Properties.C05
import Babylon.Properties.C06
import Babylon.Properties.C07
import Babylon.Properties.C08
import Babylon.Properties.C09
import Babylon.Properties.C10
import Babylon.Properties.C11
import Babylon.Properties.C12
import Babylon.Properties.C13
import Babylon.Properties.C14
import Babylon.Properties.C15
import Babylon.Properties.C16
import Babylon.Properties.C17
import Babylon.Properties.C18
import Babylon.Properties.C19
import Babylon.Properties.C20
