import Babylon.Core.Trace
import Babylon.IdAlloc.Model
import Babylon.IdAlloc.Box
/-! Lock-step replay driver for property C14 (IdAllocator / DepositBox).
stdin: runs `RUN <seed> W=<bits> mode=<mode> …` / VRT trace lines / `END`; stdout: `ok <n>` | `diverge <why>`.
`mode=box` replays against the deposit-box model (`Babylon.IdAlloc.bstep`, Box.lean), every other mode
against the allocator model (`Babylon.IdAlloc.stepThread`, Model.lean). -/
open Babylon.Core Babylon.IdAlloc

/-- replay state of the allocator modes -/
structure AState where
  c : Cfg
  s : State

/-- replay state: allocator model or deposit-box model, selected by the RUN header -/
inductive RState
  | alloc (a : AState)
  | box (c : Cfg) (b : BState)

def initR (hdr : List String) : RState :=
  let w := (hdr.filterMap (fun h => if h.startsWith "W=" then (h.drop 2).toNat? else none)).head?.getD 32
  if hdr.contains "mode=box" then .box { W := w } (BState.init { W := w })
  else .alloc { c := { W := w }, s := State.init { W := w } }

def showPc : Pc → String
  | p => reprStr p

def stepAllocObs (r : AState) (o : Obs) : Except String AState :=
  let t := o.tid
  match Act.ofObs o with
  | none => .error "unknown trace line"
  | some (.ev ["call", "alloc"]) =>
    if r.s.pc t = .idle then .ok { r with s := callAlloc r.s t } else .error s!"call while not idle (pc {showPc (r.s.pc t)})"
  | some (.ev ["call", "dealloc", v]) =>
    match v.toNat? with
    | none => .error "bad value"
    | some v =>
      if r.s.pc t ≠ .idle then .error "call while not idle"
      else if r.s.owner v ≠ some t then .error s!"client contract: thread {t} deallocates id {v} it does not own in the model"
      else .ok { r with s := callDealloc r.s t v }
  | some (.ev ["ret", "alloc", v, ver]) =>
    if r.s.pc t ≠ .idle then .error s!"implementation returned from allocate but the model thread is at {showPc (r.s.pc t)}"
    else if r.s.result t = (do pure ((← v.toNat?), (← ver.toNat?))) then .ok r
    else .error s!"allocate returned {v}@{ver}, model says {reprStr (r.s.result t)}"
  | some (.ev ["ret", "dealloc"]) =>
    if r.s.pc t = .idle then .ok r else .error s!"implementation returned from deallocate but the model thread is at {showPc (r.s.pc t)}"
  | some (.ev ["call", "end"]) =>
    if r.s.pc t = .idle then .ok { r with s := callEnd r.s t } else .error "call while not idle"
  | some (.ev ["ret", "end", n]) =>
    if r.s.pc t = .idle && some (r.s.bound t) == n.toNat? then .ok r else .error s!"end() returned {n}, model says {r.s.bound t}"
  | some (.ev ["call", "foreach"]) =>
    if r.s.pc t = .idle then .ok { r with s := callForEach r.s t } else .error "call while not idle"
  | some (.ev ("ret" :: "foreach" :: ids)) =>
    let want := forEachIds r.c r.s (min 128 (r.s.bound t))
    if r.s.pc t = .idle && ids.mapM String.toNat? == some want then .ok r
    else .error s!"for_each reported {ids}, model says {want}"
  | some (.ev _) => .ok r            -- other harness events (oracle verdicts, notes)
  | some (.spawn _) | some (.join _) | some .exit => .ok r
  | some a =>
    let spurious := match a with
      | .cas _ _ _ _ _ e _ ok obs => !ok && e == obs
      | _ => false
    match stepThread r.c r.s t spurious with
    | none => .error s!"implementation performs {reprStr a} but the model thread is idle"
    | some (s', l) =>
      if l = a then .ok { r with s := s' }
      else .error s!"model expects {reprStr l}, implementation did {reprStr a}"

def showBPc : BPc → String
  | p => reprStr p

/-- one trace line of a `mode=box` run against `bstep` / `callEmplace` / `callTake` / `callFinish` -/
def stepBoxObs (c : Cfg) (b : BState) (o : Obs) : Except String BState :=
  let t := o.tid
  match Act.ofObs o with
  | none => .error "unknown trace line"
  | some (.ev ["call", "emplace", x]) =>
    match x.toNat? with
    | none => .error "bad value"
    | some x =>
      if b.bpc t = .idle then .ok (callEmplace b t x)
      else .error s!"call while not idle (pc {showBPc (b.bpc t)})"
  | some (.ev ["ret", "emplace", v, r]) =>
    match v.toNat?, r.toNat?, b.bpc t with
    | some v, some r, .emCons v' r' _ =>
      if v' = v ∧ r' = r then
        -- the construction of the object (plain writes) is the model step that ends `emplace`
        match bstep c b t false with
        | some (b', .ev ["constructed"]) =>
          if b'.bpc t = .idle ∧ b'.eres t = some (v, r) then .ok b'
          else .error s!"emplace returned {v}@{r}, model says {reprStr (b'.eres t)}"
        | _ => .error "model has no construction step at emCons"
      else .error s!"emplace returned {v}@{r} but the model thread is at {showBPc (b.bpc t)}"
    | none, _, _ | _, none, _ => .error "bad value"
    | _, _, p => .error s!"implementation returned from emplace but the model thread is at {showBPc p}"
  | some (.ev ["call", "take", v, r]) =>
    match v.toNat?, r.toNat? with
    | some v, some r =>
      if b.bpc t ≠ .idle then .error s!"call while not idle (pc {showBPc (b.bpc t)})"
      else if b.issued.any (fun i => i.1 == v && i.2.1 == r) then .ok (callTake b t v r)
      else .error s!"client contract: take of id {v}@{r}, which no emplace has returned in the model"
    | _, _ => .error "bad value"
  | some (.ev ["ret", "take", "1", x]) =>
    match x.toNat? with
    | none => .error "bad value"
    | some x =>
      if b.bpc t ≠ .idle then .error s!"implementation returned from take but the model thread is at {showBPc (b.bpc t)}"
      else if b.tres t = some (some x) then .ok b
      else .error s!"take returned item {x}, model says {reprStr (b.tres t)}"
  | some (.ev ["ret", "take", "0"]) =>
    if b.bpc t ≠ .idle then .error s!"implementation returned from take but the model thread is at {showBPc (b.bpc t)}"
    else if b.tres t = some none then .ok b
    else .error s!"take returned nothing, model says {reprStr (b.tres t)}"
  | some (.ev ["call", "finish", v]) =>
    match v.toNat? with
    | none => .error "bad value"
    | some v =>
      if b.bpc t ≠ .idle then .error s!"call while not idle (pc {showBPc (b.bpc t)})"
      else match b.ph v with
        | .held t' _ =>
          if t' = t then .ok (callFinish b t v)
          else .error s!"client contract: thread {t} finishes slot {v}, which is held by thread {t'} in the model"
        | p => .error s!"client contract: thread {t} finishes slot {v}, whose model phase is {reprStr p}"
  | some (.ev ["ret", "finish"]) =>
    if b.bpc t = .idle then .ok b
    else .error s!"implementation returned from finish but the model thread is at {showBPc (b.bpc t)}"
  | some (.ev _) => .ok b            -- other harness events (oracle verdicts, stats)
  | some (.spawn _) | some (.join _) | some .exit => .ok b
  | some a =>
    let spurious := match a with
      | .cas _ _ true _ _ e _ ok obs => !ok && e == obs
      | _ => false
    match bstep c b t spurious with
    | none => .error s!"implementation performs {reprStr a} but the model thread has no action (pc {showBPc (b.bpc t)})"
    | some (b', l) =>
      if l = a then .ok b'
      else .error s!"model expects {reprStr l}, implementation did {reprStr a}"

def stepObs : RState → Obs → Except String RState
  | .alloc a, o => RState.alloc <$> stepAllocObs a o
  | .box c b, o => RState.box c <$> stepBoxObs c b o

def finalR : RState → Except String Unit
  | .alloc r => if r.s.dup then .error "model reached a state where an id has two owners" else .ok ()
  | .box _ b => if b.al.dup then .error "model reached a state where a slot id has two owners" else .ok ()

def main : IO Unit := do
  replayLoop (← IO.getStdin) initR stepObs finalR
