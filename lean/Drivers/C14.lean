import Babylon.Core.Trace
import Babylon.IdAlloc.Model
/-! Lock-step replay driver for property C14 (IdAllocator / DepositBox).
stdin: runs `RUN <seed> W=<bits> …` / VRT trace lines / `END`; stdout: `ok <n>` | `diverge <why>`. -/
open Babylon.Core Babylon.IdAlloc

structure RState where
  c : Cfg
  s : State

def initR (hdr : List String) : RState :=
  let w := (hdr.filterMap (fun h => if h.startsWith "W=" then (h.drop 2).toNat? else none)).head?.getD 32
  { c := { W := w }, s := State.init { W := w } }

def showPc : Pc → String
  | p => reprStr p

def stepObs (r : RState) (o : Obs) : Except String RState :=
  let t := o.tid
  match Act.ofObs o with
  | none => .error "unknown trace line"
  | some (.ev ["call", "alloc"]) =>
    if r.s.pc t = .idle then .ok { r with s := callAlloc r.s t } else .error s!"call while not idle (pc {showPc (r.s.pc t)})"
  | some (.ev ["call", "dealloc", v]) =>
    match v.toNat? with
    | none => .error "bad value"
    | some v =>
      if r.s.pc t ≠ .idle then .error "call while not idle"
      else if r.s.owner v ≠ some t then .error s!"client contract: thread {t} deallocates id {v} it does not own in the model"
      else .ok { r with s := callDealloc r.s t v }
  | some (.ev ["ret", "alloc", v, ver]) =>
    if r.s.pc t ≠ .idle then .error s!"implementation returned from allocate but the model thread is at {showPc (r.s.pc t)}"
    else if r.s.result t = (do pure ((← v.toNat?), (← ver.toNat?))) then .ok r
    else .error s!"allocate returned {v}@{ver}, model says {reprStr (r.s.result t)}"
  | some (.ev ["ret", "dealloc"]) =>
    if r.s.pc t = .idle then .ok r else .error s!"implementation returned from deallocate but the model thread is at {showPc (r.s.pc t)}"
  | some (.ev ["call", "end"]) =>
    if r.s.pc t = .idle then .ok { r with s := callEnd r.s t } else .error "call while not idle"
  | some (.ev ["ret", "end", n]) =>
    if r.s.pc t = .idle && some (r.s.bound t) == n.toNat? then .ok r else .error s!"end() returned {n}, model says {r.s.bound t}"
  | some (.ev ["call", "foreach"]) =>
    if r.s.pc t = .idle then .ok { r with s := callForEach r.s t } else .error "call while not idle"
  | some (.ev ("ret" :: "foreach" :: ids)) =>
    let want := forEachIds r.c r.s (min 128 (r.s.bound t))
    if r.s.pc t = .idle && ids.mapM String.toNat? == some want then .ok r
    else .error s!"for_each reported {ids}, model says {want}"
  | some (.ev _) => .ok r            -- other harness events (oracle verdicts, notes)
  | some (.spawn _) | some (.join _) | some .exit => .ok r
  | some a =>
    let spurious := match a with
      | .cas _ _ _ _ _ e _ ok obs => !ok && e == obs
      | _ => false
    match stepThread r.c r.s t spurious with
    | none => .error s!"implementation performs {reprStr a} but the model thread is idle"
    | some (s', l) =>
      if l = a then .ok { r with s := s' }
      else .error s!"model expects {reprStr l}, implementation did {reprStr a}"

def finalR (r : RState) : Except String Unit :=
  if r.s.dup then .error "model reached a state where an id has two owners" else .ok ()

def main : IO Unit := do
  replayLoop (← IO.getStdin) initR stepObs finalR
