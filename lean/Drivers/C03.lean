import Babylon.Core.Trace
import Babylon.Swiss.Conc
/-! Lock-step replay driver for property C03 (concurrent swiss table / transient hash set).
stdin: runs `RUN <seed> n0=<head buckets, 0 = default-constructed placeholder> …` / VRT trace lines /
`END`; stdout per run: `ok <n>` | `diverge <why>`.  The hash is the identity (the harness uses an
identity hasher; bad hash families are produced by the choice of keys). -/
open Babylon.Core Babylon.Swiss Babylon.Swiss.Conc

def hashId : Nat → Nat := fun k => k

structure RState where
  s : State

def initR (hdr : List String) : RState :=
  let n0 := (hdr.filterMap (fun h => if h.startsWith "n0=" then (h.drop 3).toNat? else none)).head?.getD 16
  { s := State.init (if n0 = 0 then Table.placeholder else Table.mk' n0) }

def isTau : Act → Bool
  | .ev ("tau" :: _) => true
  | _ => false

/-- run the unobserved (`tau`) steps thread `t` performs before its next scheduling point -/
def runTau (s : State) (t : Nat) : Nat → State
  | 0 => s
  | fuel + 1 =>
    match s.pc t with
    | .construct _ _ | .sz _ _ =>
      match stepThread hashId s t with
      | some (s', _) => runTau s' t fuel
      | none => s
    | _ => s

/-- results are reported with the table's position in the chain -/
def showRes (s : State) : Res → String
  | .none => "end"
  | .slot tb i ins => s!"{s.posOf tb} {i} {if ins then 1 else 0}"

def kindOf : String → Option Kind
  | "templace" => some .tEmplace | "tfind" => some .tFind
  | "emplace" => some .sEmplace | "find" => some .sFind
  | _ => none

def stepObs (r : RState) (o : Obs) : Except String RState :=
  let t := o.tid
  let s := r.s
  match Act.ofObs o with
  | none => .error "unknown trace line"
  | some (.ev ["call", k, key, v]) =>
    match kindOf k, key.toNat?, v.toNat? with
    | some k, some key, some v =>
      if s.pc t = .idle then .ok { r with s := doCall hashId s t k (key, v) }
      else .error s!"call while the model thread is at {reprStr (s.pc t)}"
    | _, _, _ => .error "bad call event"
  | some (.ev ("ret" :: k :: res)) =>
    match s.pc t, kindOf k with
    | .ret f rr, some k =>
      let want := if f.kind.isFind then (match rr with | .slot tb i _ => s!"{s.posOf tb} {i}" | .none => "end") else showRes s rr
      if f.kind ≠ k then .error "return from another kind of call"
      else if " ".intercalate res = want then .ok { r with s := doRet s t f rr }
      else .error s!"implementation returned `{" ".intercalate res}`, model says `{want}`"
    | p, _ => .error s!"implementation returned but the model thread is at {reprStr p}"
  | some (.ev ("ORACLE" :: _)) | some (.ev ("stats" :: _)) | some (.ev ("note" :: _)) => .ok r
  | some (.spawn _) | some (.join _) | some .exit => .ok r
  | some (.race ws) => .error s!"HB race monitor: {" ".intercalate ws}"
  | some a =>
    match stepThread hashId s t with
    | none => .error s!"implementation performs {reprStr a} but the model thread is at {reprStr (s.pc t)}"
    | some (s', l) =>
      if l = a then .ok { r with s := runTau s' t 4 }
      else .error s!"model expects {reprStr l}, implementation did {reprStr a}"

def finalR (r : RState) : Except String Unit := .ok ()

def main : IO Unit := do
  replayLoop (← IO.getStdin) initR stepObs finalR
