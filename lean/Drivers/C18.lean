import Babylon.Core.Proto
import Babylon.Swiss.Seq
/-! Line-protocol driver for the sequential hash set/map model (property C18).
Two registers `A`, `B`; hash = identity (the harness uses an identity hasher, keys chosen
adversarially by the generator). -/
open Babylon.Core Babylon.Swiss

structure St where
  a : HSet := HSet.default
  b : HSet := HSet.default

def St.get (s : St) (r : String) : HSet := if r == "A" then s.a else s.b
def St.set (s : St) (r : String) (h : HSet) : St := if r == "A" then { s with a := h } else { s with b := h }

def hashId (k : Nat) : Nat := k % 2 ^ 64

def showElems (es : List Elem) : String :=
  toString es.length ++ " |" ++ String.join (es.map (fun e => " " ++ toString e.1 ++ ":" ++ toString e.2))

def step (s : St) (line : String) : St × String :=
  match words line with
  | ["reset"] => ({}, "ok")
  | ["new", r, "default"] => (s.set r HSet.default, "ok")
  | ["new", r, n] =>
    match n.toNat? with
    | some n => (s.set r (HSet.withBuckets n), "ok")
    | none => (s, "bad-op")
  | [r, "emplace", k, v] =>
    match k.toNat?, v.toNat? with
    | some k, some v =>
      let (h', res) := (s.get r).emplace hashId (k, v)
      match res with
      | .done ti i ins =>
        let stored := match h'.at ti i with | some e => toString e.2 | none => "?"
        (s.set r h', s!"ins {if ins then 1 else 0} val {stored}")
      | .stuck => (s.set r h', "stuck")
    | _, _ => (s, "bad-op")
  | [r, "find", k] =>
    match k.toNat? with
    | some k => (s, match (s.get r).find hashId k with | some e => s!"some {e.2}" | none => "none")
    | none => (s, "bad-op")
  | [r, "size"] => (s, toString (s.get r).size)
  | [r, "bc"] => (s, toString (s.get r).bucketCount)
  | [r, "iter"] => (s, showElems (s.get r).iter)
  | [r, "clear"] => (s.set r (s.get r).clear, "ok")
  | [r, "reserve", n] =>
    match n.toNat? with
    | some n => (s.set r ((s.get r).reserve hashId n), "ok")
    | none => (s, "bad-op")
  | [r, "rehash", n] =>
    match n.toNat? with
    | some n => (s.set r ((s.get r).rehash hashId n), "ok")
    | none => (s, "bad-op")
  | ["copyctor", r, t] => (s.set t ((s.get r).copy hashId), "ok")
  | ["assign", r, t] => (s.set t ((s.get r).copy hashId), "ok")
  | ["move", r, t] => if r == t then (s, "ok") else ((s.set t (s.get r)).set r (s.get t), "ok")
  | ["swap", r, t] => if r == t then (s, "ok") else ((s.set t (s.get r)).set r (s.get t), "ok")
  | _ => (s, "bad-op")

def main : IO Unit := runLines step ({} : St)
