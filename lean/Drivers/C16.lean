import Babylon.Core.Trace
import Babylon.ExecQ.Model
/-! Lock-step replay driver for property C16 (ConcurrentExecutionQueue).
stdin: runs `RUN <seed> cap=<n> …` / VRT trace lines / `END`; stdout: `ok <n>` | `diverge <why>`.

* L1: every trace line on `events` must be exactly the next action of that thread in the model (kind,
  memory order, operands, value read = model memory).
* L2: harness events (`push`, `signal`, `launch …`, `consumer_begin/end`, `cb_begin`, `consume`, `cb_end`,
  `join_begin/end`, `ret …`) must be the model thread's next step / agree with the model's return code.
* queue tie (the queue is abstracted by its specification): `rmw add pushidx` = take an index, the
  producer's `st slot rel` = publish, the consumer's `st popidx` = batch pop of that many items (which
  the model only allows for a published prefix), the consumer's first `ld slot` showing an unpublished
  head = empty poll (which the model only allows if the head index is unpublished).  Other queue-internal
  lines (wait loops, scan loads of published slots, slot release stores, fences) carry no model step. -/
open Babylon.Core Babylon.ExecQ Babylon.Gen.ExecQ

structure RState where
  c : Cfg
  s : State

def initR (hdr : List String) : RState :=
  let cap := (hdr.filterMap (fun h => if h.startsWith "cap=" then (h.drop 4).toNat? else none)).head?.getD 1
  { c := { cap := cap, sizeCheck := exitChecksSize, evBits := 8 * eventsBytes }, s := State.init }

def showPc (p : Pc) : String := reprStr p

/-- perform the model step of thread `t` under `inp` and require its label to be the observed action -/
def lock (r : RState) (t : Nat) (inp : Inp) (a : Act) : Except String RState :=
  match stepThread r.c r.s t inp with
  | none => .error s!"implementation performs {reprStr a} but the model thread (pc {showPc (r.s.pc t)}) has no such step enabled"
  | some (s', l) =>
    if l = a then .ok { r with s := s' }
    else .error s!"model (pc {showPc (r.s.pc t)}) expects {reprStr l}, implementation did {reprStr a}"

def rcOf (w : String) : Option Nat := if w == "0" then some 0 else if w == "-1" then some 1 else none

def stepObs (r : RState) (o : Obs) : Except String RState :=
  let t := o.tid
  let pc := r.s.pc t
  match Act.ofObs o with
  | none => .error "unknown trace line"
  | some (.ev ["push", v]) =>
    match v.toNat? with
    | none => .error "bad value"
    | some v => if pc = .idle then .ok { r with s := callExecute r.s t v } else .error s!"execute called while the model thread is at {showPc pc}"
  | some (.ev ["preset_events", v]) =>
    -- harness mode `wrap`: the counter is overwritten (plain store, nobody else running) to bring an
    -- overflow of a narrowed counter within reach; the model's memory follows
    match v.toNat? with
    | none => .error "bad value"
    | some v => .ok { r with s := { r.s with events := v % 2 ^ r.c.evBits } }
  | some (.ev ["signal"]) =>
    if pc = .idle then .ok { r with s := callSignal r.s t } else .error s!"signal_push_event called while the model thread is at {showPc pc}"
  | some (.ev ["join_begin"]) =>
    if pc = .idle then .ok { r with s := callJoin r.s t } else .error s!"join called while the model thread is at {showPc pc}"
  | some (.ev ["join_end"]) =>
    if pc = .idle then .ok r else .error s!"join returned but the model thread is at {showPc pc}"
  | some (.ev ["ret", _, rc]) =>
    if pc ≠ .idle then .error s!"call returned but the model thread is at {showPc pc}"
    else if rcOf rc = some (r.s.result t) then .ok r
    else .error s!"call returned {rc}, model return code is {r.s.result t} (1 = -1)"
  | some (.ev ["launch", "refuse"]) => lock r t (.launch .refuse) (.ev ["launch", "refuse"])
  | some (.ev ["launch", "accept", "inline"]) => lock r t (.launch .inl) (.ev ["launch", "accept", "inline"])
  | some (.ev ["launch", "accept", "async"]) => lock r t (.launch .async) (.ev ["launch", "accept", "async"])
  | some (.ev ["consumer_begin"]) =>
    match pc with
    | .c0 (.inl _) => .ok r
    | .idle =>
      if 0 < r.s.launched then .ok { r with s := startWorker r.s t }
      else .error "a consumer starts on an idle thread but the model has no accepted launch pending"
    | _ => .error s!"consumer_begin while the model thread is at {showPc pc}"
  | some (.ev ["consumer_end"]) =>
    if pc = .idle then .ok r else .error s!"consume_until_empty returned but the model consumer is at {showPc pc}"
  | some (.ev ("cb_begin" :: ws)) => lock r t .none (.ev ("cb_begin" :: ws))
  | some (.ev ("consume" :: ws)) => lock r t .none (.ev ("consume" :: ws))
  | some (.ev ["cb_end"]) => lock r t .none (.ev ["cb_end"])
  | some (.ev _) => .ok r            -- oracle verdicts, statistics
  | some (.spawn _) | some (.join _) | some .exit | some (.fence _) => .ok r
  | some (.rmw op "pushidx" off mo old v) => lock r t .none (.rmw op "pushidx" off mo old v)
  | some (.ld "popidx" _ _ v) =>
    match pc with
    | .cPop _ _ _ | .cSize _ _ => if v = r.s.head then .ok r else .error s!"pop index read {v}, model head is {r.s.head}"
    | _ => .error s!"pop index read while the model thread is at {showPc pc}"
  | some (.st "popidx" off mo v) =>
    match pc with
    | .cPop _ _ _ =>
      if r.s.head < v then lock r t (.pop (v - r.s.head)) (.st "popidx" off mo v)
      else .error s!"pop index stored {v}, model head is {r.s.head}"
    | _ => .error s!"pop index stored while the model thread is at {showPc pc}"
  | some (.ld "slot" off mo v) =>
    match pc with
    | .pPublish _ _ => .ok r                      -- producer waiting for its slot
    | .cPop _ _ true => .ok r                     -- scan after a delivered batch: no model step
    | .cPop _ _ false =>
      -- the scan starts at the head slot; an unpublished head ends the poll with 0
      if off = slotOff r.c r.s.head ∧ v % 65536 ≠ (pushVersion r.c r.s.head + 1) % 65536 then
        lock r t (.pop 0) (.ld "slot" off mo v)
      else .ok r
    | _ => .error s!"slot version read while the model thread is at {showPc pc}"
  | some (.st "slot" off mo v) =>
    match pc with
    | .pPublish _ _ => lock r t .none (.st "slot" off mo v)
    | .cPop _ _ true => .ok r                     -- consumer hands the slots of the delivered batch back
    | _ => .error s!"slot version stored while the model thread is at {showPc pc}"
  | some (.ld "events" off mo v) =>
    match pc with
    | .cPop _ _ true => lock r t .reload (.ld "events" off mo v)
    | _ => lock r t .none (.ld "events" off mo v)
  | some a => lock r t .none a

def finalR (r : RState) : Except String Unit :=
  if r.s.events ≠ 0 then .error s!"trace ended with model events = {r.s.events}"
  else if r.s.launched ≠ 0 then .error "trace ended with an accepted launch that never started"
  else if r.s.head ≠ r.s.tail ∨ r.s.ncons ≠ r.s.tail then
    .error s!"trace ended with unconsumed items in the model (tail {r.s.tail}, head {r.s.head}, consumed {r.s.ncons})"
  else .ok ()

def main : IO Unit := do
  replayLoop (← IO.getStdin) initR stepObs finalR
