import Babylon.Core.Proto
import Babylon.Log.Entry
import Babylon.Log.Appender
/-! Line-protocol driver for the logging model (property C20), part A: `LogStreamBuffer` /
`LogEntry` (same protocol as harness/c20.cpp, mode `entry`).

  ps N      new recording allocator with page size N (page numbers restart at 0)
  begin     LogStreamBuffer::begin()
  put N     sputn of the next N pattern bytes          -> `sz <_log.size> np <pages allocated>`
  putc      sputc of the next pattern byte             -> same
  sync      pubsync()                                  -> same
  end       end(); append_to_iovec                     -> `size S n I iov p:len … hash H`
  discard   AsyncFileAppender::discard(entry)          -> `freed p p …`

Part B: replay of a recorded run of the real `AsyncFileAppender` through the abstract model's step
function (`Babylon.Log.App.step`); harness/c20.cpp `appender` prints the same lines from what it
observed (writev calls, deallocate calls, check_and_get_file_descriptor calls).

  app init C                     queue capacity C                         -> ok
  app w TID FILE SIZE p:len …    write(): reserve + publish               -> ok
  app close                      close(): reserve + publish of the marker -> ok
  app round N1 N2 fd …           one keep_writing iteration               -> `exited=b flushes=k | f=F fd=D calls=a,b iov=p:len,… freed=p,… | …`
  app end                                                                 -> `exited=b queue=n processed=n freed=n`
  app reopen                     initialize() again after close()         -> ok   (state `App.session`: destinations kept)
A step the model does not enable prints `REJECT`.
-/
open Babylon.Core Babylon.Log

structure St where
  app : Option App.State := none
  s : Stream Nat := Stream.begin 0 0
  ps : Nat := 0
  entryNo : Nat := 0      -- entries begun since `ps`
  k : Nat := 0            -- bytes streamed into the current entry
  ended : Bool := false

/-- byte `k` of entry number `e` (same formula in the harness) -/
def pat (e k : Nat) : Nat := (k * 131 + (k / 256) * 7 + e * 13 + 1) % 251

def fnv (bs : List Nat) : UInt64 :=
  bs.foldl (fun h b => (h ^^^ (UInt64.ofNat b)) * 1099511628211) 14695981039346656037

def status (s : Stream Nat) : String :=
  match s.buf.fault with
  | some msg => "fault " ++ msg
  | none => s!"sz {s.buf.size} np {s.buf.allocs.length}"

def showIov (iov : Iov) : String :=
  String.join (iov.map (fun e => s!" {e.1}:{e.2}"))

def parsePair (w : String) : Option (Nat × Nat) :=
  match w.splitOn ":" with
  | [a, b] => do pure (← a.toNat?, ← b.toNat?)
  | _ => none

def commaNats (l : List Nat) : String := ",".intercalate (l.map toString)

def showFlush (x : App.Flush) : String :=
  s!"f={x.file} fd={x.fd} calls={commaNats (x.calls.map List.length)} iov=" ++
    ",".intercalate (x.calls.flatten.map (fun e => s!"{e.1}:{e.2}")) ++
    " freed=" ++ commaNats (x.calls.flatten.map Prod.fst)

def appStep (st : St) (ws : List String) : St × String :=
  match ws with
  | ["init", c] =>
    match c.toNat? with
    | some c => ({ st with app := some (App.init c) }, "ok")
    | none => (st, "bad-op")
  | _ =>
  match st.app with
  | none => (st, "bad-op")
  | some a =>
    match ws with
    | "w" :: tid :: file :: size :: iov =>
      match tid.toNat?, file.toNat?, size.toNat?, iov.mapM parsePair with
      | some tid, some file, some size, some iov =>
        match App.step a (.reserve tid file size iov) with
        | some a1 =>
          match App.step a1 (.publish (a1.queue.length - 1)) with
          | some a2 => ({ st with app := some a2 }, "ok")
          | none => (st, "REJECT")
        | none => (st, "REJECT")
      | _, _, _, _ => (st, "bad-op")
    | ["close"] =>
      match App.step a .close with
      | some a1 =>
        match App.step a1 (.publish (a1.queue.length - 1)) with
        | some a2 => ({ st with app := some a2 }, "ok")
        | none => (st, "REJECT")
      | none => (st, "REJECT")
    | "round" :: n1 :: n2 :: fds =>
      match n1.toNat?, n2.toNat?, fds.mapM String.toNat? with
      | some n1, some n2, some fds =>
        match App.step a (.round n1 n2 fds) with
        | some a1 =>
          let fl := a1.out.drop a.out.length
          ({ st with app := some a1 },
            s!"exited={if a1.exited then 1 else 0} flushes={fl.length}" ++
              String.join (fl.map (fun x => " | " ++ showFlush x)))
        | none => (st, "REJECT")
      | _, _, _ => (st, "bad-op")
    | ["reopen"] =>
      -- the next initialize() of the same appender: `_destinations` survive close()
      ({ st with app := some (App.session (a.batch) (a.dests.map (·.file))) |>.map (fun n => { n with batch := a.batch }) }, "ok")
    | ["end"] =>
      (st, s!"exited={if a.exited then 1 else 0} queue={a.queue.length} processed={a.processed.length} freed={a.freed.length}")
    | _ => (st, "bad-op")

def step (st : St) (line : String) : St × String :=
  match words line with
  | "app" :: ws => appStep st ws
  | ["reset"] => ({}, "ok")
  | ["ps", n] =>
    match n.toNat? with
    | some n => ({ s := Stream.begin n 0, ps := n, entryNo := 0, k := 0 }, "ok")
    | none => (st, "bad-op")
  | ["begin"] =>
    let s' : Stream Nat := Stream.begin st.ps st.s.buf.nextId
    ({ st with s := s', entryNo := st.entryNo + 1, k := 0, ended := false }, "ok")
  | ["put", n] =>
    match n.toNat? with
    | some n =>
      let bs := (List.range' st.k n).map (pat st.entryNo)
      let s' := st.s.sputn bs
      ({ st with s := s', k := st.k + n }, status s')
    | none => (st, "bad-op")
  | ["putc"] =>
    let s' := st.s.putc (pat st.entryNo st.k)
    ({ st with s := s', k := st.k + 1 }, status s')
  | ["sync"] =>
    let s' := st.s.step .sync
    ({ st with s := s' }, status s')
  | ["end"] =>
    let s' := st.s.end_
    match s'.buf.fault with
    | some msg => ({ st with s := s' }, "fault " ++ msg)
    | none =>
      match appendToIovec s'.buf.entry st.ps with
      | some iov =>
        ({ st with s := s', ended := true },
          s!"size {s'.buf.size} n {iov.length} iov{showIov iov} hash {fnv (iovBytes s'.dmem iov)}")
      | none => ({ st with s := s' }, "fault append_to_iovec reads unwritten memory")
  | ["discard"] =>
    if !st.ended then (st, "bad-op") else
    match discardPages st.s.buf.entry st.ps with
    | some ps => ({ st with ended := false }, "freed" ++ String.join (ps.map (fun p => s!" {p}")))
    | none => (st, "fault append_to_iovec reads unwritten memory")
  | _ => (st, "bad-op")

def main : IO Unit := runLines step ({} : St)
