import Babylon.Core.Proto
import Babylon.Log.Entry
/-! Line-protocol driver for the logging model (property C20), part A: `LogStreamBuffer` /
`LogEntry` (same protocol as harness/c20.cpp, mode `entry`).

  ps N      new recording allocator with page size N (page numbers restart at 0)
  begin     LogStreamBuffer::begin()
  put N     sputn of the next N pattern bytes          -> `sz <_log.size> np <pages allocated>`
  putc      sputc of the next pattern byte             -> same
  sync      pubsync()                                  -> same
  end       end(); append_to_iovec                     -> `size S n I iov p:len … hash H`
  discard   AsyncFileAppender::discard(entry)          -> `freed p p …`
-/
open Babylon.Core Babylon.Log

structure St where
  s : Stream Nat := Stream.begin 0 0
  ps : Nat := 0
  entryNo : Nat := 0      -- entries begun since `ps`
  k : Nat := 0            -- bytes streamed into the current entry
  ended : Bool := false

/-- byte `k` of entry number `e` (same formula in the harness) -/
def pat (e k : Nat) : Nat := (k * 131 + (k / 256) * 7 + e * 13 + 1) % 251

def fnv (bs : List Nat) : UInt64 :=
  bs.foldl (fun h b => (h ^^^ (UInt64.ofNat b)) * 1099511628211) 14695981039346656037

def status (s : Stream Nat) : String :=
  match s.buf.fault with
  | some msg => "fault " ++ msg
  | none => s!"sz {s.buf.size} np {s.buf.allocs.length}"

def showIov (iov : Iov) : String :=
  String.join (iov.map (fun e => s!" {e.1}:{e.2}"))

def step (st : St) (line : String) : St × String :=
  match words line with
  | ["reset"] => ({}, "ok")
  | ["ps", n] =>
    match n.toNat? with
    | some n => ({ s := Stream.begin n 0, ps := n, entryNo := 0, k := 0 }, "ok")
    | none => (st, "bad-op")
  | ["begin"] =>
    let s' : Stream Nat := Stream.begin st.ps st.s.buf.nextId
    ({ st with s := s', entryNo := st.entryNo + 1, k := 0, ended := false }, "ok")
  | ["put", n] =>
    match n.toNat? with
    | some n =>
      let bs := (List.range' st.k n).map (pat st.entryNo)
      let s' := st.s.sputn bs
      ({ st with s := s', k := st.k + n }, status s')
    | none => (st, "bad-op")
  | ["putc"] =>
    let s' := st.s.putc (pat st.entryNo st.k)
    ({ st with s := s', k := st.k + 1 }, status s')
  | ["sync"] =>
    let s' := st.s.step .sync
    ({ st with s := s' }, status s')
  | ["end"] =>
    let s' := st.s.end_
    match s'.buf.fault with
    | some msg => ({ st with s := s' }, "fault " ++ msg)
    | none =>
      match appendToIovec s'.buf.entry st.ps with
      | some iov =>
        ({ st with s := s', ended := true },
          s!"size {s'.buf.size} n {iov.length} iov{showIov iov} hash {fnv (iovBytes s'.dmem iov)}")
      | none => ({ st with s := s' }, "fault append_to_iovec reads unwritten memory")
  | ["discard"] =>
    if !st.ended then (st, "bad-op") else
    match discardPages st.s.buf.entry st.ps with
    | some ps => ({ st with ended := false }, "freed" ++ String.join (ps.map (fun p => s!" {p}")))
    | none => (st, "fault append_to_iovec reads unwritten memory")
  | _ => (st, "bad-op")

def main : IO Unit := runLines step ({} : St)
