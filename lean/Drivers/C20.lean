import Babylon.Core.Proto
import Babylon.Core.Trace
import Babylon.Log.Entry
import Babylon.Log.Appender
/-! Line-protocol driver for the logging model (property C20), part A: `LogStreamBuffer` /
`LogEntry` (same protocol as harness/c20.cpp, mode `entry`).

  ps N      new recording allocator with page size N (page numbers restart at 0)
  begin     LogStreamBuffer::begin()
  put N     sputn of the next N pattern bytes          -> `sz <_log.size> np <pages allocated>`
  putc      sputc of the next pattern byte             -> same
  sync      pubsync()                                  -> same
  end       end(); append_to_iovec                     -> `size S n I iov p:len … hash H`
  discard   AsyncFileAppender::discard(entry)          -> `freed p p …`

Part B: replay of a recorded run of the real `AsyncFileAppender` through the abstract model's step
function (`Babylon.Log.App.step`); harness/c20.cpp `appender` prints the same lines from what it
observed (writev calls, deallocate calls, check_and_get_file_descriptor calls).

  app init C                     queue capacity C                         -> ok
  app w TID FILE SIZE p:len …    write(): reserve + publish               -> ok
  app close                      close(): reserve + publish of the marker -> ok
  app round N1 N2 fd …           one keep_writing iteration               -> `exited=b flushes=k | f=F fd=D calls=a,b iov=p:len,… freed=p,… | …`
  app end                                                                 -> `exited=b queue=n processed=n freed=n`
  app reopen                     initialize() again after close()         -> ok   (state `App.session`: destinations kept)
A step the model does not enable prints `REJECT`.
-/
open Babylon.Core Babylon.Log

structure St where
  app : Option App.State := none
  s : Stream Nat := Stream.begin 0 0
  ps : Nat := 0
  entryNo : Nat := 0      -- entries begun since `ps`
  k : Nat := 0            -- bytes streamed into the current entry
  ended : Bool := false

/-- byte `k` of entry number `e` (same formula in the harness) -/
def pat (e k : Nat) : Nat := (k * 131 + (k / 256) * 7 + e * 13 + 1) % 251

def fnv (bs : List Nat) : UInt64 :=
  bs.foldl (fun h b => (h ^^^ (UInt64.ofNat b)) * 1099511628211) 14695981039346656037

def status (s : Stream Nat) : String :=
  match s.buf.fault with
  | some msg => "fault " ++ msg
  | none => s!"sz {s.buf.size} np {s.buf.allocs.length}"

def showIov (iov : Iov) : String :=
  String.join (iov.map (fun e => s!" {e.1}:{e.2}"))

def parsePair (w : String) : Option (Nat × Nat) :=
  match w.splitOn ":" with
  | [a, b] => do pure (← a.toNat?, ← b.toNat?)
  | _ => none

def commaNats (l : List Nat) : String := ",".intercalate (l.map toString)

def showFlush (x : App.Flush) : String :=
  s!"f={x.file} fd={x.fd} calls={commaNats (x.calls.map List.length)} iov=" ++
    ",".intercalate (x.calls.flatten.map (fun e => s!"{e.1}:{e.2}")) ++
    " freed=" ++ commaNats (x.calls.flatten.map Prod.fst)

def appStep (st : St) (ws : List String) : St × String :=
  match ws with
  | ["init", c] =>
    match c.toNat? with
    | some c => ({ st with app := some (App.init c) }, "ok")
    | none => (st, "bad-op")
  | _ =>
  match st.app with
  | none => (st, "bad-op")
  | some a =>
    match ws with
    | "w" :: tid :: file :: size :: iov =>
      match tid.toNat?, file.toNat?, size.toNat?, iov.mapM parsePair with
      | some tid, some file, some size, some iov =>
        match App.step a (.reserve tid file size iov) with
        | some a1 =>
          match App.step a1 (.publish (a1.queue.length - 1)) with
          | some a2 => ({ st with app := some a2 }, "ok")
          | none => (st, "REJECT")
        | none => (st, "REJECT")
      | _, _, _, _ => (st, "bad-op")
    | ["close"] =>
      match App.step a .close with
      | some a1 =>
        match App.step a1 (.publish (a1.queue.length - 1)) with
        | some a2 => ({ st with app := some a2 }, "ok")
        | none => (st, "REJECT")
      | none => (st, "REJECT")
    | "round" :: n1 :: n2 :: fds =>
      match n1.toNat?, n2.toNat?, fds.mapM String.toNat? with
      | some n1, some n2, some fds =>
        match App.step a (.round n1 n2 fds) with
        | some a1 =>
          let fl := a1.out.drop a.out.length
          ({ st with app := some a1 },
            s!"exited={if a1.exited then 1 else 0} flushes={fl.length}" ++
              String.join (fl.map (fun x => " | " ++ showFlush x)))
        | none => (st, "REJECT")
      | _, _, _ => (st, "bad-op")
    | ["reopen"] =>
      -- the next initialize() of the same appender: `_destinations` survive close()
      ({ st with app := some (App.session (a.batch) (a.dests.map (·.file))) |>.map (fun n => { n with batch := a.batch }) }, "ok")
    | ["end"] =>
      (st, s!"exited={if a.exited then 1 else 0} queue={a.queue.length} processed={a.processed.length} freed={a.freed.length}")
    | _ => (st, "bad-op")

def step (st : St) (line : String) : St × String :=
  match words line with
  | "app" :: ws => appStep st ws
  | ["reset"] => ({}, "ok")
  | ["ps", n] =>
    match n.toNat? with
    | some n => ({ s := Stream.begin n 0, ps := n, entryNo := 0, k := 0 }, "ok")
    | none => (st, "bad-op")
  | ["begin"] =>
    let s' : Stream Nat := Stream.begin st.ps st.s.buf.nextId
    ({ st with s := s', entryNo := st.entryNo + 1, k := 0, ended := false }, "ok")
  | ["put", n] =>
    match n.toNat? with
    | some n =>
      let bs := (List.range' st.k n).map (pat st.entryNo)
      let s' := st.s.sputn bs
      ({ st with s := s', k := st.k + n }, status s')
    | none => (st, "bad-op")
  | ["putc"] =>
    let s' := st.s.putc (pat st.entryNo st.k)
    ({ st with s := s', k := st.k + 1 }, status s')
  | ["sync"] =>
    let s' := st.s.step .sync
    ({ st with s := s' }, status s')
  | ["end"] =>
    let s' := st.s.end_
    match s'.buf.fault with
    | some msg => ({ st with s := s' }, "fault " ++ msg)
    | none =>
      match appendToIovec s'.buf.entry st.ps with
      | some iov =>
        ({ st with s := s', ended := true },
          s!"size {s'.buf.size} n {iov.length} iov{showIov iov} hash {fnv (iovBytes s'.dmem iov)}")
      | none => ({ st with s := s' }, "fault append_to_iovec reads unwritten memory")
  | ["discard"] =>
    if !st.ended then (st, "bad-op") else
    match discardPages st.s.buf.entry st.ps with
    | some ps => ({ st with ended := false }, "freed" ++ String.join (ps.map (fun p => s!" {p}")))
    | none => (st, "fault append_to_iovec reads unwritten memory")
  | _ => (st, "bad-op")

/-! ## Part B, E-CONC: lock-step replay of a VRT trace of the real appender (harness/c20_vrt.cpp)

`drv_C20 vrt` reads `RUN … END` blocks and prints `ok <n>` / `diverge …` per run.  Every line that
touches the queue indices / slot versions or is a harness event is mapped to an event of
`Babylon.Log.App` and must be enabled in the model (`App.step ≠ none`) with the same visible effect:
  * `t ev wbegin …` then `t rmw add q.push rlx old 1`  →  `reserve` (ticket `old` = tickets so far)
  * `0 ev cbegin` then `0 rmw add q.push …`            →  `close`
  * the next store of that thread to a slot version     →  `publish` of its ticket
  * writer `st q.pop rlx new`                           →  a segment of `new - old` popped items
  * writer `ev check f fd`, `ev writev …`, `ev dealloc …` are collected; at the writer's next
    `ld q.pop` (start of the next `try_pop_n`) or at its `exit` the round is closed:
    `App.step (.round n1 n2 fds)` must be enabled (≤ batch, only published tickets, one descriptor
    per destination) and the flushes it produces must equal the observed `writev` calls and page
    returns, destination by destination.
  * `0 ev cend`: the model has exited;  `0 ev init` after a close: `App.session`. -/
namespace VrtReplay
open Babylon.Core Babylon.Log

inductive Pend
  | write (file size : Nat) (iov : Iov)
  | close

structure ObsFlush where
  file : Nat
  fd : Nat
  calls : List Iov
  freed : Option (List Nat)

structure TR where
  a : App.State
  inited : Bool := false
  expectWriter : Bool := false
  writer : Nat := 0
  pend : List (Nat × Pend) := []
  outstanding : List (Nat × Nat) := []     -- thread ↦ its reserved, unpublished ticket
  base : Nat := 0                           -- ticket of the first item of this session
  roundStarted : Bool := false
  segs : Nat := 0
  n1 : Nat := 0
  n2 : Nat := 0
  popIdx : Nat := 0
  fds : List Nat := []
  lastCheck : Nat := 0
  obs : List ObsFlush := []
  rounds : Nat := 0

def initT (hdr : List String) : TR :=
  let cap := (hdr.filterMap (fun w => if w.startsWith "cap=" then (w.drop 4).toNat? else none)).headD 1
  { a := App.init cap }

def lookup (l : List (Nat × α)) (k : Nat) : Option α := (l.find? (·.1 == k)).map (·.2)
def erase (l : List (Nat × α)) (k : Nat) : List (Nat × α) := l.filter (·.1 != k)

def parseIov (ws : List String) : Except String Iov :=
  match ws.mapM parsePair with
  | some l => .ok l
  | none => .error "bad page:len list"

def closeRound (r : TR) : Except String TR := do
  match App.step r.a (.round r.n1 r.n2 r.fds) with
  | none =>
    throw s!"the model does not enable round {r.n1} {r.n2} fds={r.fds} (batch {r.a.batch}, queue {r.a.queue.length}, ready prefix {(r.a.queue.takeWhile (·.ready)).length}, destinations {r.a.dests.length}, exited {r.a.exited})"
  | some a1 =>
    let fl := a1.out.drop r.a.out.length
    let obs := r.obs.reverse
    if fl.length ≠ obs.length then
      throw s!"round {r.rounds}: the model flushes {fl.length} destinations, the implementation {obs.length}"
    for (m, o) in fl.zip obs do
      if m.file ≠ o.file ∨ m.fd ≠ o.fd then
        throw s!"round {r.rounds}: model flush f={m.file} fd={m.fd}, implementation f={o.file} fd={o.fd}"
      if m.calls ≠ o.calls.reverse then
        throw s!"round {r.rounds} file {m.file}: writev calls differ: model {m.calls.map List.length} elements, implementation {o.calls.reverse.map List.length}"
      match o.freed with
      | none => throw s!"round {r.rounds} file {m.file}: pages written but not returned to the allocator"
      | some fr =>
        if fr ≠ m.calls.flatten.map Prod.fst then
          throw s!"round {r.rounds} file {m.file}: pages returned {fr} ≠ pages written {m.calls.flatten.map Prod.fst}"
    pure { r with a := a1, roundStarted := false, segs := 0, n1 := 0, n2 := 0, fds := [], obs := [], rounds := r.rounds + 1 }

def stepObs (r : TR) (o : Obs) : Except String TR := do
  let t := o.tid
  match o.kind, o.args with
  | "ev", ["init"] =>
    if r.inited then
      if !r.a.exited then throw "initialize() while the previous session has not exited in the model"
      if !r.a.queue.isEmpty then throw "initialize() with items left in the queue (not modelled)"
      let a' := App.session r.a.batch (r.a.dests.map (·.file))
      pure { r with a := { a' with batch := r.a.batch }, base := r.base + r.a.hist.length, expectWriter := true,
                    pend := [], outstanding := [], roundStarted := false }
    else pure { r with inited := true, expectWriter := true }
  | "spawn", [c] =>
    if r.expectWriter then
      match c.toNat? with
      | some c => pure { r with writer := c, expectWriter := false }
      | none => throw "bad spawn"
    else pure r
  | "ev", "wbegin" :: _seq :: file :: size :: iov =>
    match file.toNat?, size.toNat? with
    | some file, some size => do
      let iov ← parseIov iov
      pure { r with pend := (t, Pend.write file size iov) :: erase r.pend t }
    | _, _ => throw "bad wbegin"
  | "ev", "wbegin+" :: iov => do
    let more ← parseIov iov
    match lookup r.pend t with
    | some (.write file size i0) => pure { r with pend := (t, Pend.write file size (i0 ++ more)) :: erase r.pend t }
    | _ => throw "wbegin+ without wbegin"
  | "ev", "writev+" :: iov => do
    let more ← parseIov iov
    match r.obs with
    | last :: rest =>
      match last.calls with
      | c :: cs => pure { r with obs := { last with calls := (c ++ more) :: cs } :: rest }
      | [] => throw "writev+ without writev"
    | [] => throw "writev+ without writev"
  | "ev", "dealloc+" :: pages =>
    match pages.mapM String.toNat?, r.obs with
    | some ps, last :: rest =>
      match last.freed with
      | some f0 => pure { r with obs := { last with freed := some (f0 ++ ps) } :: rest }
      | none => throw "dealloc+ without dealloc"
    | _, _ => throw "dealloc+ without dealloc"
  | "ev", ["cbegin"] => pure { r with pend := (t, Pend.close) :: erase r.pend t }
  | "ev", ["cend"] =>
    if r.roundStarted then throw "close() returned while the writer's round is still open"
    if !r.a.exited then throw "close() returned but keep_writing has not exited in the model"
    pure r
  | "rmw", ["add", "q.push", _, old, "1"] =>
    match old.toNat?, lookup r.pend t with
    | some old, some p =>
      if old ≠ r.base + r.a.hist.length then
        throw s!"ticket {old} taken but the model has handed out {r.base + r.a.hist.length} tickets"
      let ev := match p with
        | .write file size iov => App.Ev.reserve t file size iov
        | .close => App.Ev.close
      match App.step r.a ev with
      | some a1 => pure { r with a := a1, pend := erase r.pend t, outstanding := (t, old) :: erase r.outstanding t }
      | none => throw "the model does not enable this reserve / close"
    | _, _ => throw "a ticket is taken by a thread that is neither in write() nor in close()"
  | "st", [loc, _, _] =>
    if loc.startsWith "q.f" ∧ t ≠ r.writer then
      match lookup r.outstanding t with
      | some ticket =>
        let idx := ticket - r.base - r.a.consumed.length
        if ticket < r.base + r.a.consumed.length then throw s!"ticket {ticket} published after it was popped"
        match App.step r.a (.publish idx) with
        | some a1 => pure { r with a := a1, outstanding := erase r.outstanding t }
        | none => throw s!"the model does not enable publish of queue position {idx}"
      | none => throw s!"thread {t} stores a slot version without holding a ticket"
    else if loc == "q.pop" ∧ t = r.writer then
      match (o.args.getD 2 "").toNat? with
      | some new =>
        let cnt := new - r.popIdx
        if r.segs = 0 then pure { r with n1 := cnt, segs := 1, popIdx := new }
        else if r.segs = 1 then pure { r with n2 := cnt, segs := 2, popIdx := new }
        else throw "more than two ring segments popped in one round"
      | none => throw "bad q.pop store"
    else pure r
  | "ld", "q.pop" :: _ =>
    if t = r.writer ∧ r.inited then
      let r ← if r.roundStarted then closeRound r else pure r
      pure { r with roundStarted := true }
    else pure r
  | "exit", [] =>
    if t = r.writer ∧ r.inited then
      let r ← if r.roundStarted then closeRound r else pure r
      if !r.a.exited then throw "the writer thread exits but the model has not consumed the stop marker"
      pure r
    else pure r
  | "ev", ["check", f, fd] =>
    match f.toNat?, fd.toNat? with
    | some f, some fd => pure { r with fds := r.fds ++ [fd], lastCheck := f }
    | _, _ => throw "bad check"
  | "ev", "writev" :: f :: fd :: iov => do
    let iov ← parseIov iov
    let some fd := fd.toNat? | throw "bad writev fd"
    let f := (f.toNat?).getD r.lastCheck          -- `-1`: no descriptor, the destination is the one just checked
    match r.obs with
    | last :: rest =>
      if last.file = f ∧ last.freed.isNone then
        if last.fd ≠ fd then throw s!"file {f} written through two descriptors in one round"
        pure { r with obs := { last with calls := iov :: last.calls } :: rest }
      else pure { r with obs := ⟨f, fd, [iov], none⟩ :: r.obs }
    | [] => pure { r with obs := [⟨f, fd, [iov], none⟩] }
  | "ev", "dealloc" :: pages =>
    match pages.mapM String.toNat?, r.obs with
    | some ps, last :: rest =>
      if last.freed.isSome then throw "two page returns for one destination in one round"
      pure { r with obs := { last with freed := some ps } :: rest }
    | _, _ => throw "page return by the writer without a preceding writev"
  | "VERDICT", _ => throw s!"VRT verdict {o.args}"
  | _, _ => pure r

def finalT (r : TR) : Except String Unit := do
  if r.roundStarted then throw "trace ends inside a round"
  if !r.pend.isEmpty then throw "trace ends inside write() / close()"
  if !r.a.exited then throw "trace ends before keep_writing exited in the model"
  -- the conclusions of `appender_each_once_ordered`, evaluated on the model state this trace drove
  let pre := r.a.hist.takeWhile (·.size != 0)
  for d in r.a.dests do
    let w := App.written r.a d.file
    let want := (pre.filter (·.file == d.file)).flatMap (·.iov)
    if w.take want.length ≠ want then
      throw s!"model self-check: file {d.file} does not start with its entries ticketed before the stop marker"
  pure ()

end VrtReplay

def main (args : List String) : IO Unit := do
  if args == ["vrt"] then
    Babylon.Core.replayLoop (← IO.getStdin) VrtReplay.initT VrtReplay.stepObs VrtReplay.finalT
  else runLines step ({} : St)
