import Babylon.Core.Proto
import Babylon.RVec.Model
import Babylon.RVec.Str
/-! Line-protocol driver for the reusable-container model (property C12).

usage: `drv_C12 <mode>`; the mode only selects the element-type behaviour the container cannot
see (`Cfg`): what a moved-from element holds and which `call_reconstruct` overload applies.

Three scenes share the stream (all reset by `reset`):
* two vector registers `A`, `B` on resources `0`/`1` (`World`),
* a `ReusableManager` with vector units (`Mgr`), lines starting with `m`,
* a reusable string (`RStr`), lines starting with `s`. -/
open Babylon.Core Babylon.RVec

def movedMark : Val := 777777

def cfgOf (mode : String) : Cfg :=
  if mode == "elem" then
    { mvC := fun _ => movedMark, mvA := fun _ _ => movedMark, mvSelf := id, mvX := fun _ => movedMark,
      rebuild := false, rebuildMove := false }
  else if mode == "elemrb" then
    { mvC := fun _ => movedMark, mvA := fun _ _ => movedMark, mvSelf := id, mvX := fun _ => movedMark,
      rebuild := true, rebuildMove := false }
  else if mode == "int" || mode == "swissint" then
    { mvC := id, mvA := fun x _ => x, mvSelf := id, mvX := id, rebuild := true, rebuildMove := true }
  else if mode == "stdstr" then
    -- plain `std::string` elements: moves steal and leave "", a self-move empties the string
    -- (libstdc++ `operator=(basic_string&&)` ends with `__str.clear()`, also when `&__str == this`)
    { mvC := fun _ => dflt, mvA := fun _ _ => dflt, mvSelf := fun _ => dflt,
      mvX := fun _ => dflt, rebuild := false, rebuildMove := false }
  else -- str / nest / swissstr: move-construct on the same allocator steals, move-assign swaps, cross-allocator copies
    { mvC := fun _ => dflt, mvA := fun _ old => old, mvSelf := id, mvX := id, rebuild := false, rebuildMove := false }

structure St where
  w : World := {}
  metaA : Nat := 0
  metaB : Nat := 0
  m : Mgr := {}
  str : RStr := RStr.fresh
  strMeta : Nat := 0

def showVec (tag : String) (s : RVec) : String :=
  s!"{tag} {s.size} {s.cons} {s.cap} {s.g.allocs} {s.g.allocElems} [" ++
    " ".intercalate (s.abs.map (fun | some v => toString v | none => "?")) ++ "]"

def showLife (g : Ghost) : String := s!"L {g.ctor} {g.asg} {g.dtor} {g.bad} {g.leaked}"

def showW (w : World) : String :=
  showVec "A" w.a ++ " " ++ showVec "B" w.b ++ " " ++ showLife w.total

def mgrTotal (m : Mgr) : Ghost := m.units.foldl (fun g u => g.add u.inst.g) m.retired

def showM (m : Mgr) : String :=
  s!"M {m.clearTimes} {m.releases}" ++
    String.join (m.units.map (fun u =>
      s!" U {u.gen} {u.inst.size} {u.inst.cons} {u.inst.cap} [" ++
        " ".intercalate (u.inst.abs.map (fun | some v => toString v | none => "?")) ++ "]")) ++
    " " ++ showLife (mgrTotal m) ++ s!" T {(mgrTotal m).allocs} {(mgrTotal m).allocElems}"

def parseReg : String → Option Reg
  | "A" => some .A
  | "B" => some .B
  | _ => none

def parseOp : List String → Option Op
  | "push" :: [v] => v.toNat?.map .pushBack
  | ["pop"] => some .popBack
  | "insr" :: i :: vs => do some (.insertRange (← i.toNat?) (← parseNats vs))
  | ["insn", i, n, v] => do some (.insertN (← i.toNat?) (← n.toNat?) (← v.toNat?))
  | ["emp", i, v] => do some (.emplace (← i.toNat?) (← v.toNat?))
  | ["erase", i, j] => do some (.erase (← i.toNat?) (← j.toNat?))
  | ["resize", n] => do some (.resize (← n.toNat?) dflt)
  | ["resizev", n, v] => do some (.resize (← n.toNat?) (← v.toNat?))
  | "assignl" :: vs => do some (.assignRange (← parseNats vs))
  | ["assignn", n, v] => do some (.assignN (← n.toNat?) (← v.toNat?))
  | ["assignc", n] => do some (.assignCount (← n.toNat?))
  | ["reserve", n] => do some (.reserve (← n.toNat?))
  | ["clear"] => some .clear
  | ["set", i, v] => do some (.setAt (← i.toNat?) (← v.toNat?))
  | _ => none

def parseAOp : List String → Option AOp
  | ["pushself", j] => do some (.pushBackSelf (← j.toNat?))
  | ["insnself", i, n, j] => do some (.insertNSelf (← i.toNat?) (← n.toNat?) (← j.toNat?))
  | ["empself", i, j] => do some (.emplaceSelf (← i.toNat?) (← j.toNat?))
  | _ => none

def doW (c : Cfg) (s : St) (o : World.WOp) : St × String :=
  if o.pre s.w then
    let w := s.w.apply c o
    ({ s with w := w }, showW w)
  else (s, "bad-op")

def stepVec (c : Cfg) (s : St) (ws : List String) : Option (St × String) :=
  match ws with
  | ["new", r, k] => do some (doW c s (.new (← parseReg r) (← k.toNat?)))
  | ["newn", r, k, n, v] => do some (doW c s (.newList (← parseReg r) (← k.toNat?) (List.replicate (← n.toNat?) (← v.toNat?))))
  | ["newc", r, k, n] => do some (doW c s (.newList (← parseReg r) (← k.toNat?) (List.replicate (← n.toNat?) dflt)))
  | "newl" :: r :: k :: vs => do some (doW c s (.newList (← parseReg r) (← k.toNat?) (← parseNats vs)))
  | ["swap"] => some (doW c s .swap)
  | ["copyassign", r] => do some (doW c s (.copyAssign (← parseReg r)))
  | ["moveassign", r] => do some (doW c s (.moveAssign (← parseReg r)))
  | ["copyctor", r, k] => do some (doW c s (.copyCtor (← parseReg r) (← k.toNat?)))
  | ["movector", r, k] => do some (doW c s (.moveCtor (← parseReg r) (← k.toNat?)))
  | ["meta", r] => do
    let r ← parseReg r
    match r with
    | .A => let m := s.w.a.updateMeta s.metaA; some ({ s with metaA := m }, s!"meta {m}")
    | .B => let m := s.w.b.updateMeta s.metaB; some ({ s with metaB := m }, s!"meta {m}")
  | ["remeta", r, k] => do
    let r ← parseReg r
    let k ← k.toNat?
    let m := match r with | .A => s.metaA | .B => s.metaB
    let w := s.w.renew r k (RVec.ofMeta m)
    some ({ s with w := w }, showW w)
  | r :: rest => do
    let r ← parseReg r
    match parseOp rest with
    | some o => some (doW c s (.on r o))
    | none =>
      let o ← parseAOp rest
      if o.pre (s.w.get r).size then
        let w := s.w.set r ((s.w.get r).applyAlias c o)
        some ({ s with w := w }, showW w)
      else some (s, "bad-op")
  | _ => none

def stepMgr (c : Cfg) (s : St) (ws : List String) : Option (St × String) :=
  match ws with
  | ["mnew", n] => do
    let n ← n.toNat?
    let m : Mgr := if n == 0 then {} else { interval := n }
    some ({ s with m := m }, showM m)
  | ["mcreate"] =>
    let (m, acc) := s.m.create RVec.fresh
    some ({ s with m := m }, s!"acc {acc} " ++ showM m)
  | ["mclear"] => let m := s.m.clear; some ({ s with m := m }, showM m)
  | ["minterval", n] => do
    let m := { s.m with interval := (← n.toNat?) }
    some ({ s with m := m }, showM m)
  | "m" :: acc :: rest => do
    let acc ← acc.toNat?
    let o ← parseOp rest
    match s.m.get? acc with
    | none => some (s, "bad-op")
    | some inst =>
      if o.pre inst.size then
        let m := s.m.on c acc o
        some ({ s with m := m }, showM m)
      else some (s, "bad-op")
  | _ => none

def showS (x : RStr) : String := s!"S {x.len} {x.cap} [" ++ " ".intercalate (x.chars.map toString) ++ "]"

def stepStr (s : St) (ws : List String) : Option (St × String) :=
  match ws with
  | ["snew"] => some ({ s with str := RStr.fresh, strMeta := 0 }, showS RStr.fresh)
  | "sassign" :: vs => do let x := s.str.assign (← parseNats vs); some ({ s with str := x }, showS x)
  | "smove" :: vs => do let x := s.str.moveFrom (← parseNats vs); some ({ s with str := x }, showS x)
  | "sappend" :: vs => do let x := s.str.append (← parseNats vs); some ({ s with str := x }, showS x)
  | ["sclear"] => let x := s.str.clear; some ({ s with str := x }, showS x)
  | ["sreserve", n] => do let x := s.str.stableReserve (← n.toNat?); some ({ s with str := x }, showS x)
  | ["sresizeu", n] => do let x := s.str.resizeUninit (← n.toNat?) 117; some ({ s with str := x }, s!"S {x.len} {x.cap}")
  | ["smeta"] => let m := s.str.updateMeta s.strMeta; some ({ s with strMeta := m }, s!"meta {m}")
  | ["sremeta"] => let x := RStr.ofMeta s.strMeta; some ({ s with str := x }, showS x)
  | _ => none

def step (c : Cfg) (s : St) (line : String) : St × String :=
  let ws := words line
  match ws with
  | ["reset"] => ({}, "ok")
  | ["snap"] => (s, "ok")             -- harness-side oracle bookkeeping (resource usage snapshot)
  | ["noalloc"] => (s, "ok")
  | ["noalloc-total"] => (s, "ok")
  | _ =>
    match stepVec c s ws with
    | some r => r
    | none =>
      match stepMgr c s ws with
      | some r => r
      | none =>
        match stepStr s ws with
        | some r => r
        | none => (s, "bad-op")

def main (args : List String) : IO Unit :=
  runLines (step (cfgOf (args.headD "int"))) ({} : St)
