import Babylon.Core.Trace
import Babylon.GC.Model
/-! Lock-step replay driver for property C10 (GarbageCollector, event-level model).
stdin: runs `RUN <seed> cap=<n> gc=<tid> …` / VRT trace lines / `END`; stdout: `ok <n>` | `diverge <why>`.

Every trace line that is an action of the model (harness events, the atomic operations on the
epoch version / epoch slots / queue indices / queue slot versions, the collector's sleeps, thread
exit / join) is mapped to a label and must be enabled in the model (`GC.step`), with the values the
implementation read or wrote equal to the model's.  Lines that belong to the lower layers' internals
(version polling loads, fences, slot releases, the slot loads of the epoch scan — which are folded
into the low water mark the scan returns) are consumed without a model step. -/
open Babylon.Core Babylon.GC

structure RState where
  c : Cfg
  s : State
  gc : Nat                          -- tid of the collector thread
  tcall : List (Nat × Nat) := []    -- thread → reclaimer id of its running retire call
  ttick : List Nat := []            -- threads between `ev tick` and the rmw
  tenter : List (Nat × Nat) := []   -- thread → slot it is entering
  tleave : List (Nat × Nat) := []   -- thread → slot it is leaving
  stopper : Option Nat := none
  scanMin : Lwm := none
  sleeps : Nat := 0
  starting : Option Nat := none     -- thread inside `start()` that has not created a thread (yet)
  noopStop : List Nat := []         -- threads inside a `stop()` that found no joinable thread

def hdrNat (hdr : List String) (key : String) (dflt : Nat) : Nat :=
  (hdr.filterMap (fun h => if h.startsWith (key ++ "=") then (h.drop (key.length + 1)).toNat? else none)).head?.getD dflt

/-- `base`: the harness may start the ring at a later ticket (indices and slot versions preset), so that
the 16-bit slot version wraps during the run -/
def initR (hdr : List String) : RState :=
  let base := hdrNat hdr "base" 0
  { c := { cap := hdrNat hdr "cap" 1 }, s := { State.init with pushIdx := base, popIdx := base }, gc := 1000000000 }   -- no collector thread yet: set when `start()` spawns one

def lookup (l : List (Nat × Nat)) (t : Nat) : Option Nat := (l.find? (·.1 = t)).map (·.2)
def erase (l : List (Nat × Nat)) (t : Nat) : List (Nat × Nat) := l.filter (·.1 ≠ t)

def showCall : Call → String
  | c => reprStr c

def lwmOfVal (v : Nat) : Lwm := if v = Babylon.Gen.GC.slotIdle then none else some v
def showLwm : Lwm → String
  | none => "MAX"
  | some v => toString v

/-- apply a label, or explain why the model refuses it -/
def app (r : RState) (l : Lbl) (why : String) : Except String RState :=
  match step r.c r.s l with
  | some s' => .ok { r with s := s' }
  | none => .error s!"{why}: action {reprStr l} is not enabled in the model (collector at {reprStr r.s.cpc}, index {r.s.index} of {r.s.tasks.length} tasks, running {r.s.running}, queue [{r.s.popIdx},{r.s.pushIdx}), stop {reprStr r.s.stop})"

/-- bring the collector forward over its unobservable steps so that it can take `want`:
an empty `try_deal_n_continuously` (no index store), the end of the epoch scan, the end of a pass that
does not sleep -/
def syncTo (r : RState) (want : String) : Except String RState := do
  let mut r := r
  -- empty pops
  if want = "scanBegin" then
    match r.s.cpc with
    | .pop1 => r ← app r (.pop 0) "sync"
    | .pop2 _ => r ← app r (.pop 0) "sync"
    | _ => pure ()
  -- end of scan
  if want = "reclaim" ∨ want = "passEnd" ∨ want = "exit" ∨ want = "consumeBegin" ∨ want = "scanBegin" then
    if r.s.cpc = .scan then
      r ← app r (.scanEnd r.scanMin) s!"low water mark {showLwm r.scanMin} returned by the scan"
  -- pass end without sleep
  if want = "exit" ∨ want = "consumeBegin" ∨ want = "scanBegin" then
    match r.s.cpc with
    | .reclaim _ _ =>
      if (passSleep r.c r.s).isSome then
        throw s!"the model's pass ends with usleep({(passSleep r.c r.s).getD 0}) but the implementation went on without sleeping"
      r ← app r .passEnd "sync"
    | _ => pure ()
  return r

def slotOfLoc (pre : String) (loc : String) : Option Nat :=
  if loc.startsWith pre then (loc.drop pre.length).toNat? else none

def stepObs (r : RState) (o : Obs) : Except String RState := do
  let t := o.tid
  let isGc := t = r.gc
  match o.kind, o.args with
  -- ------------------------------------------------------------ harness events
  | "ev", ["retire_begin", id] =>
    let some id := id.toNat? | throw "bad id"
    let r ← app r (.callRetire id) "retire_begin"
    return { r with tcall := (t, id) :: erase r.tcall t }
  | "ev", ["retire_at_begin", id, e] =>
    let some id := id.toNat? | throw "bad id"
    let some e := e.toNat? | throw "bad epoch"
    let r ← app r (.callRetireAt id e) "retire_at_begin"
    return { r with tcall := (t, id) :: erase r.tcall t }
  | "ev", ["retire_end", id] =>
    let some id := id.toNat? | throw "bad id"
    match r.s.calls id with
    | .done _ _ => return { r with tcall := erase r.tcall t }
    | c => throw s!"retire({id}) returned but the model call is at {showCall c}"
  | "ev", ["tick"] => return { r with ttick := t :: r.ttick }
  | "ev", ["region_enter", sl] =>
    let some sl := sl.toNat? | throw "bad slot"
    let mut r := r
    for _ in [0:(sl + 1 - r.s.nslots)] do
      r ← app r .newSlot "new slot"
    return { r with tenter := (t, sl) :: erase r.tenter t }
  | "ev", ["region_open", sl] =>
    let some sl := sl.toNat? | throw "bad slot"
    match r.s.slots sl with
    | .pinned _ _ => return { r with tenter := erase r.tenter t }
    | _ => throw s!"lock() returned but slot {sl} is not pinned in the model"
  | "ev", ["region_close", sl] =>
    let some sl := sl.toNat? | throw "bad slot"
    match r.s.slots sl with
    | .pinned _ _ => return { r with tleave := (t, sl) :: erase r.tleave t }
    | _ => throw s!"unlock() of slot {sl} which is not pinned in the model"
  | "ev", ["start"] => return { r with starting := some t }
  | "ev", ["start_end"] =>
    if r.starting = some t then
      -- no thread was created: the model must have a joinable collector too
      if r.s.cpc = .off then throw "start() returned without creating a thread but the model has no collector thread"
      let r ← app r .start "start (no-op)"
      return { r with starting := none }
    else return r
  | "ev", ["stop_begin"] =>
    if r.s.cpc = .off then
      let r ← app r .stopNoop "stop_begin without a collector thread"
      return { r with noopStop := t :: r.noopStop }
    else
      let r ← app r .callStop "stop_begin"
      return { r with stopper := some t }
  | "ev", ["stop_end"] =>
    if r.noopStop.contains t then return { r with noopStop := r.noopStop.filter (· ≠ t) }
    else if r.s.stop = .returned then return r
    else throw s!"stop() returned but the model's stop is at {reprStr r.s.stop}"
  | "ev", ["reclaim", id] =>
    let some id := id.toNat? | throw "bad id"
    if ¬ isGc then throw s!"reclaimer {id} invoked by thread {t}, not by the collector thread"
    let r ← syncTo r "reclaim"
    app r (.reclaim id) s!"reclaimer {id} invoked"
  | "ev", _ => return r                      -- oracle verdicts, statistics
  -- ------------------------------------------------------------ epoch version
  | "rmw", ["add", "ep.ver", "sc", old, "1"] =>
    let some old := old.toNat? | throw "bad value"
    if old ≠ r.s.gver then throw s!"tick read global version {old}, model has {r.s.gver}"
    match lookup r.tcall t with
    | some id =>
      if r.s.calls id = .tick then app r (.tick id) "tick" else throw s!"tick inside retire({id}) which is at {showCall (r.s.calls id)}"
    | none =>
      if r.ttick.contains t then
        let r ← app r .clientTick "tick"
        return { r with ttick := r.ttick.filter (· ≠ t) }
      else throw "unexpected tick"
  | "ld", ["ep.ver", "rlx", v] =>
    let some v := v.toNat? | throw "bad value"
    match lookup r.tenter t with
    | some sl =>
      if v ≠ r.s.gver then throw s!"lock read global version {v}, model has {r.s.gver}"
      app r (.enterRead sl) "lock"
    | none => throw "global version read outside lock()"
  | "st", [loc, ord, v] =>
    let some v := v.toNat? | throw "bad value"
    match slotOfLoc "ep.s" loc, slotOfLoc "q.f" loc with
    | some sl, _ =>
      if v = Babylon.Gen.GC.slotIdle then
        if lookup r.tleave t ≠ some sl then throw s!"slot {sl} released by a thread that is not closing it"
        if ord ≠ "rel" then throw s!"unlock stores with order {ord}"
        let r ← app r (.leave sl) "unlock"
        return { r with tleave := erase r.tleave t }
      else
        if lookup r.tenter t ≠ some sl then throw s!"slot {sl} written by a thread that is not entering it"
        match r.s.slots sl with
        | .entering g =>
          if g ≠ v then throw s!"slot {sl} := {v}, model read {g}"
          app r (.enterPin sl) "lock"
        | _ => throw s!"slot {sl} written but the model slot is not entering"
    | none, some i =>
      if isGc then return r                    -- consumer releases the slot (after the model's pop)
      else
        -- a producer publishes: ticket k lives in slot k % cap with version 2 * (k / cap) + 1
        let chk (k : Nat) : Except String Unit :=
          if i ≠ k % r.c.cap then throw s!"ticket {k} published in slot {i}, expected {k % r.c.cap}"
          else if v ≠ (2 * (k / r.c.cap) + 1) % 65536 then throw s!"ticket {k} published with version {v}"
          else if ord ≠ "rel" then throw s!"publish with order {ord}"
          else pure ()
        let stopK : Option Nat := match r.s.stop with | .publish k => some k | _ => none
        if r.stopper = some t ∧ stopK.isSome then
          let k := stopK.getD 0
          chk k
          app r .stopPublish "stop marker published"
        else
          match lookup r.tcall t with
          | some id =>
            match r.s.calls id with
            | .publish _ k => do chk k; app r (.publish id) s!"retire({id}) published"
            | c => throw s!"queue slot published by retire({id}) which is at {showCall c}"
          | none => throw "queue slot published outside retire / stop"
    | none, none =>
      if loc = "q.pop" then
        if ¬ isGc then throw "pop index written by a non-collector thread"
        if v < r.s.popIdx then throw s!"pop index moved backwards to {v}"
        app r (.pop (v - r.s.popIdx)) s!"pop index := {v}"
      else throw s!"store to unknown location {loc}"
  | "rmw", ["add", "q.push", "rlx", old, "1"] =>
    let some old := old.toNat? | throw "bad value"
    if old ≠ r.s.pushIdx then throw s!"push ticket {old}, model has {r.s.pushIdx}"
    if r.stopper = some t ∧ r.s.stop = .reserve then app r .stopReserve "stop marker ticket"
    else
      match lookup r.tcall t with
      | some id => app r (.reserve id) s!"retire({id}) ticket"
      | none => throw "push ticket taken outside retire / stop"
  | "ld", [loc, _, v] =>
    let some v := v.toNat? | throw "bad value"
    if loc = "q.pop" then
      if ¬ isGc then throw "pop index read by a non-collector thread"
      if v ≠ r.s.popIdx then throw s!"pop index read {v}, model has {r.s.popIdx}"
      let r ← syncTo r "consumeBegin"
      app r .consumeBegin "try_pop_n"
    else if loc = "ep.idend" then
      if ¬ isGc then return r
      let r ← syncTo r "scanBegin"
      let r ← app r .scanBegin "low_water_mark"
      return { r with scanMin := none }
    else
      match slotOfLoc "ep.s" loc with
      | some _ =>
        if isGc then
          return { r with scanMin := match lwmOfVal v with | none => r.scanMin | some p => minLwm r.scanMin p }
        else return r
      | none => return r                     -- version polling on queue slots
  | "sleep", [ns] =>
    let some ns := ns.toNat? | throw "bad value"
    if isGc then
      let r ← syncTo r "passEnd"
      match passSleep r.c r.s with
      | some us =>
        if us * 1000 ≠ ns then throw s!"collector sleeps {ns} ns, model back-off is {us} us"
        app r .passEnd "usleep"
      | none => throw s!"collector sleeps {ns} ns where the model's pass does not sleep (at {reprStr r.s.cpc})"
    else return { r with sleeps := r.sleeps + 1 }
  | "exit", [] =>
    if isGc then
      let r ← syncTo r "exit"
      app r .exit "collector thread exits"
    else return r
  | "join", [ch] =>
    if ch.toNat? = some r.gc then app r .stopJoin "join" else return r
  | "fence", _ => return r
  | "spawn", [ch] =>
    if r.starting = some t then
      let some ch := ch.toNat? | throw "bad tid"
      if r.s.cpc ≠ .off then throw "start() created a thread but the model already has a joinable collector"
      let r ← app r .start "start"
      return { r with starting := none, gc := ch }
    else return r
  | "spawn", _ => return r
  | "race", _ => throw "payload race reported by the monitor"
  | "VERDICT", _ => return r
  | k, _ => throw s!"unknown trace line kind {k}"

/-- run-time sanity of the replayed path (the theorems prove these for every path) -/
def finalR (r : RState) : Except String Unit :=
  let ids := r.s.log.map (·.id)
  if ¬ ids.Nodup then .error "a reclaimer was invoked twice in the model path"
  else .ok ()

def main : IO Unit := do
  replayLoop (← IO.getStdin) initR stepObs finalR
