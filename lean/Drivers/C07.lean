import Babylon.Core.Trace
import Babylon.Exec.Model
import Babylon.Exec.Simple
/-! Replay driver for property C07 (executors).
stdin: runs `RUN <seed> mode=pool W=… L=… G=… steal=… bal=…` / VRT trace lines / `END`;
stdout per run: `ok <n>` | `diverge <why>`.

Every trace line of a named location (`gpush`, `gpop`, `lpush.k`, `lpop.k`, `running`), every harness
event and every `exit` / `join` must be the next step of that thread in `Babylon.Exec.step`.  The
two hidden steps (publish / receive) are inserted as late as possible: immediately
before the next visible action of the thread that owes them, or when another thread's visible action
needs them (a claim of a ticket whose push is still pending in the model, a publish into a slot whose
previous pop is still pending …). -/
open Babylon.Core Babylon.Exec

structure RState where
  mode : String
  c : Cfg
  s : State
  started : Bool
  maxTid : Nat
  simple : Simple.State
  hiddenSteps : Nat := 0
  stalled : Option String := none      -- VRT ended the run with `VERDICT deadlock|step-limit`

def hdrNat (hdr : List String) (key : String) (dflt : Nat) : Nat :=
  (hdr.filterMap (fun h => if h.startsWith (key ++ "=") then (h.drop (key.length + 1)).toNat? else none)).head?.getD dflt

def hdrStr (hdr : List String) (key : String) (dflt : String) : String :=
  (hdr.filterMap (fun h => if h.startsWith (key ++ "=") then some (h.drop (key.length + 1)).toString else none)).head?.getD dflt

def initR (hdr : List String) : RState :=
  let w := hdrNat hdr "W" 1
  let c : Cfg := { L := hdrNat hdr "L" 0, G := hdrNat hdr "G" 1, steal := hdrNat hdr "steal" 0 == 1,
                   workers := (List.range w).map (· + 1),
                   bal := if hdrNat hdr "bal" 0 == 1 then some (w + 1) else none }
  { mode := hdrStr hdr "mode" "pool", c := c, s := State.init c, started := false, maxTid := w + 1,
    simple := Simple.State.init }

def showPc (p : Pc) : String := reprStr p

/-- `lpop.3` → some 3 -/
def slotOf (pfx name : String) : Option Nat :=
  if name.startsWith pfx then (name.drop pfx.length).toNat? else none

def parseIn (w : String) : Option Bool :=
  if w == "in=1" then some true else if w == "in=0" then some false else none

/-- trace line → label (`none`: a line this model has nothing to say about) -/
def lblOf (a : Act) : Except String (Option Lbl) :=
  match a with
  | .ld n 0 o v =>
    if n == "running" then (if o == .acq then .ok (some (.ldRun (v != 0))) else .error "memory order of the `_running` load is not acquire")
    else match slotOf "lpop." n, slotOf "lpush." n with
      | some k, _ => if o == .rlx then .ok (some (.ldPop k v)) else .error "memory order of an index load is not relaxed"
      | _, some k => if o == .rlx then .ok (some (.ldPush k v)) else .error "memory order of an index load is not relaxed"
      | _, _ => .ok none
  | .st n 0 o v =>
    if n == "running" then (if o == .rel ∧ v == 0 then .ok (some .stRun) else .error "unexpected store to `_running`")
    else match slotOf "lpush." n with
      | some k => if o == .rlx then .ok (some (.stPush k v)) else .error "memory order of an index store is not relaxed"
      | none => .error s!"unexpected store to {n}"
  | .cas n 0 _ so fo e d ok obs =>
    match slotOf "lpop." n with
    | some k =>
      if so == .rlx ∧ fo == .rlx ∧ d == e + 1 then .ok (some (.casPop k e ok obs))
      else .error "unexpected shape of the CAS on a pop index"
    | none => .error s!"unexpected CAS on {n}"
  | .rmw "add" n 0 o old 1 =>
    if o != .rlx then .error "memory order of a ticket fetch_add is not relaxed"
    else if n == "gpush" then .ok (some (.gPushTk old))
    else if n == "gpop" then .ok (some (.gPopTk old))
    else .error s!"unexpected fetch_add on {n}"
  | .join u => .ok (some (.join u))
  | .exit => .ok (some .exit)
  | .spawn _ => .ok none
  | .ev ["submit", id, inp] =>
    match id.toNat?, parseIn inp with
    | some id, some b => .ok (some (.submit id b))
    | _, _ => .error "bad submit event"
  | .ev ["accept", id] => match id.toNat? with | some id => .ok (some (.accept id)) | none => .error "bad event"
  | .ev ["reject", id] => match id.toNat? with | some id => .ok (some (.reject id)) | none => .error "bad event"
  | .ev ["run", id, inp] =>
    match id.toNat?, parseIn inp with
    | some id, some b => .ok (some (.run id b))
    | _, _ => .error "bad run event"
  | .ev ["done", id] => match id.toNat? with | some id => .ok (some (.done id)) | none => .error "bad event"
  | .ev ["stop_begin"] => .ok (some .stopBegin)
  | .ev ["stop_end"] => .ok (some .stopEnd)
  | .ev ["wakeup"] => .ok (some .wakeup)
  | .ev ["wakeup_ret"] => .ok (some .wakeupRet)
  | .ev ["scope_enter"] => .ok (some .scopeEnter)
  | .ev ["scope_leave"] => .ok (some .scopeLeave)
  | .ev _ => .ok none
  | .race _ => .error "race reported by the payload monitor"
  | a => .error s!"unexpected action {reprStr a} on a named location"

def findThread (r : RState) (p : Pc → Bool) : Option Nat :=
  (List.range (r.maxTid + 1)).find? (fun u => p (r.s.pc u))

/-- perform the hidden steps thread `t` owes (and, recursively, those they wait for) -/
partial def force (r : RState) (t : Nat) (fuel : Nat) : Except String RState :=
  if fuel = 0 then .error "hidden-step inference ran out of fuel" else
  match r.s.pc t with
  | .gPub p _ =>
    if r.s.g.slotFree r.c.gslots p then
      match step r.c r.s t .publish with
      | some s' => force { r with s := s', hiddenSteps := r.hiddenSteps + 1 } t (fuel - 1)
      | none => .error s!"thread {t}: publish of global ticket {p} is not enabled in the model"
    else
      match findThread r (fun q => q == .wGWait (p - r.c.gslots)) with
      | some u => do
        let r' ← force r u (fuel - 1)
        if r'.s.g.slotFree r.c.gslots p then force r' t (fuel - 1)
        else .error s!"thread {t} completed the push of global ticket {p} but slot {p - r.c.gslots} is still occupied in the model"
      | none => .error s!"thread {t} completed the push of global ticket {p} but ticket {p - r.c.gslots} has not been popped (queue full) in the model"
  | .wGWait i =>
    if r.s.g.ready i then
      match step r.c r.s t .receive with
      | some s' => .ok { r with s := s', hiddenSteps := r.hiddenSteps + 1 }
      | none => .error s!"thread {t}: receive of global ticket {i} is not enabled in the model"
    else
      match findThread r (fun q => match q with | .gPub p _ => p == i | _ => false) with
      | some u => do
        let r' ← force r u (fuel - 1)
        if r'.s.g.ready i then force r' t (fuel - 1)
        else .error s!"thread {t} obtained global ticket {i} which is not published in the model"
      | none => .error s!"thread {t} obtained the value of global ticket {i} but no push holds that ticket in the model"
  | .rLPub _ _ p =>
    match r.s.own t with
    | none => .error "local publish by a thread without a slot"
    | some k =>
      if (r.s.l k).slotFree r.c.lslots p then
        match step r.c r.s t .publish with
        | some s' => .ok { r with s := s', hiddenSteps := r.hiddenSteps + 1 }
        | none => .error s!"thread {t}: publish of local ticket {p} is not enabled in the model"
      else .error s!"thread {t} completed the push of local ticket {p} of queue {k} but slot {p - r.c.lslots} is not free in the model"
  | _ => .ok r

def stepPool (r : RState) (o : Obs) (a : Act) : Except String RState := do
  let t := o.tid
  let r := { r with maxTid := max r.maxTid t }
  match a with
  | .ev ["started"] => return { r with started := true }
  | _ =>
  if !r.started && t == 0 then return r      -- construction / start(): before the model's initial state
  match ← lblOf a with
  | none => return r
  | some lb =>
    -- a thread other than the stopper/balancer never loads `_running`; the main thread's own joins of
    -- harness threads are `idle` joins
    let r ← force r t 64
    match step r.c r.s t lb with
    | some s' => return { r with s := s' }
    | none =>
      -- a claim of a local ticket whose publish is still pending in the model: do it now
      match lb with
      | .casPop k e true _ =>
        match findThread r (fun q => match q with | .rLPub _ _ p => p == e | _ => false) with
        | some u =>
          if r.s.own u = some k then
            let r' ← force r u 64
            match step r'.c r'.s t lb with
            | some s' => return { r' with s := s' }
            | none => throw s!"thread {t} at {showPc (r.s.pc t)}: step {reprStr lb} is not enabled in the model (after completing the pending push)"
          else throw s!"thread {t} at {showPc (r.s.pc t)}: step {reprStr lb} is not enabled in the model"
        | none => throw s!"thread {t} at {showPc (r.s.pc t)}: step {reprStr lb} is not enabled in the model"
      | _ => throw s!"thread {t} at {showPc (r.s.pc t)}: step {reprStr lb} is not enabled in the model"

/-- complete every hidden step that is enabled (used when the run has stalled, to bring the model up to date) -/
partial def settle (r : RState) (fuel : Nat) : RState :=
  if fuel = 0 then r else
  let try1 (r : RState) (u : Nat) : Option RState :=
    [Lbl.publish, Lbl.receive].findSome? (fun lb =>
      (step r.c r.s u lb).map (fun s' => { r with s := s', hiddenSteps := r.hiddenSteps + 1 }))
  match (List.range (r.maxTid + 1)).findSome? (try1 r) with
  | some r' => settle r' (fuel - 1)
  | none => r

/-- the documented blocking submit: a stall is the client's own doing iff every worker that has not
exited is itself blocked pushing a child into the full global queue -/
def stallByDesign (r : RState) : Except String Unit :=
  let live := r.c.workers.filter (fun w => r.s.pc w != .exited)
  match live.find? (fun w => match r.s.pc w with
      | .gPub p (.rRet _ _) => r.s.g.slotFree r.c.gslots p
      | _ => true) with
  | some w => .error s!"stall: worker {w} is at {showPc (r.s.pc w)}, not blocked in its own submission to the full global queue"
  | none => if live.isEmpty then .error "stall although every worker has exited" else .ok ()

def stepObs (r : RState) (o : Obs) : Except String RState :=
  if o.kind == "VERDICT" then .ok { (settle r 4096) with stalled := some (o.args.headD "?") } else
  match Act.ofObs o with
  | none => .error "unknown trace line"
  | some a =>
    if r.mode == "pool" then stepPool r o a
    else match Simple.stepAct r.mode r.simple o.tid a with
      | .ok s' => .ok { r with simple := s' }
      | .error e => .error e

/-- end of trace: the model-side statement of the property on the replayed path -/
def finalR (r : RState) : Except String Unit :=
  if r.mode != "pool" then (if r.stalled.isSome then .error "stall" else Simple.final r.mode r.simple) else
  if r.stalled.isSome then stallByDesign r else
  if !r.s.stopReturned then .ok () else
  let ids := List.range 4096
  match ids.find? (fun id => r.s.known id && (r.s.preStop id || r.s.viaLocal id) && !r.s.done id) with
  | some id => .error s!"model: stop() returned but task {id} (accepted before stop / pushed into a local queue) is not done"
  | none =>
    match ids.find? (fun id => r.s.runs id > 1) with
    | some id => .error s!"model: task {id} ran {r.s.runs id} times"
    | none => .ok ()

def main : IO Unit := do
  replayLoop (← IO.getStdin) initR stepObs finalR
