import Babylon.Core.Proto
import Babylon.Wire.Codec
import Babylon.Wire.Pb
import Babylon.Wire.Traits
/-! Line-protocol driver for the serialization model (property C11).

    usage: drv_C11 [debug|ndebug]

    type <id> <type-expr>                 register a type under an id            -> ok
    enc  <id> <value>                     calculated size (`calcSize`) + serialize -> ok <size> <hex|->
    encu <id> <value>                     like enc, the bytes printed sorted (types with unordered containers)
    enc2 <id> <value1> <value2>           serialize value1, mutate the same object to value2,
                                          serialize again (the model has no caches: = enc value2)
    pb   <id> <value>                     protobuf's own encoding of a struct of the documented-compatible kinds
    rt   <id> <value> <pres>              serialize, then parse through <pres> into a fresh object
    dec  <id> <hex|-> <pres>              parse into a fresh object              -> ok <value> | fail | noret
    deci <id> <value> <hex|-> <pres>      parse into an object holding <value>   -> ok <value> | fail | noret

    type-expr:  bool i8 i16 i32 i64 u8 u16 u32 u64 e<bits><s|u> f32 f64 str vec(T) arr(T,n) list(T) set(T)
                map(K,V) uptr(T) sptr(T) agg(<num>:T=<default>,…) aggb(…)   (aggb: first entry is the base class)
    value:      decimal (negative for signed kinds; raw bit pattern for f32/f64), x<hex> string,
                [v,…] sequence, [k:v,…] map, ~ null, &v pointer, (v,…) aggregate members in declaration order
    pres:       f | g | fL<n> | s<chunk> | s<chunk>L<n>  (array-backed (g: via std::string) / stream-backed, optional outer PushLimit)
    Sets and maps are printed sorted by the text of their elements. -/
open Babylon.Core Babylon.Wire

abbrev P := StateT (List Char) Option

def peek : P (Option Char) := fun s => some (s.head?, s)
def next : P Char := fun s => match s with | c :: r => some (c, r) | [] => none
def expect (c : Char) : P Unit := do if (← next) == c then pure () else failure
def tryChar (c : Char) : P Bool := fun s => match s with
  | d :: r => if d == c then some (true, r) else some (false, s)
  | [] => some (false, s)

partial def natP : P Nat := do
  let rec go (acc : Nat) (any : Bool) : P Nat := do
    match (← peek) with
    | some c => if c.isDigit then do let _ ← next; go (acc * 10 + (c.toNat - '0'.toNat)) true
                else if any then pure acc else failure
    | none => if any then pure acc else failure
  go 0 false

def identP : P String := fun s =>
  let w := s.takeWhile (fun c => c.isAlphanum)
  some (String.ofList w, s.drop w.length)

def hexVal (c : Char) : Option Nat :=
  if c.isDigit then some (c.toNat - '0'.toNat)
  else if 'a' ≤ c ∧ c ≤ 'f' then some (c.toNat - 'a'.toNat + 10)
  else if 'A' ≤ c ∧ c ≤ 'F' then some (c.toNat - 'A'.toNat + 10) else none

partial def hexBytes : List Char → Option Bytes
  | [] => some []
  | a :: b :: r => do
    let x ← hexVal a; let y ← hexVal b
    let rest ← hexBytes r
    pure (UInt8.ofNat (x * 16 + y) :: rest)
  | _ => none

def hexP : P Bytes := fun s =>
  let w := s.takeWhile (fun c => (hexVal c).isSome)
  match hexBytes w with
  | some b => some (b, s.drop w.length)
  | none => none

def scalarOfName (s : String) : Option Ty :=
  match s with
  | "bool" => some .bool | "f32" => some .f32 | "f64" => some .f64 | "str" => some .str
  | "i8" => some (.int 8 true) | "i16" => some (.int 16 true) | "i32" => some (.int 32 true) | "i64" => some (.int 64 true)
  | "u8" => some (.int 8 false) | "u16" => some (.int 16 false) | "u32" => some (.int 32 false) | "u64" => some (.int 64 false)
  | "e8s" => some (.enum 8 true) | "e16s" => some (.enum 16 true) | "e32s" => some (.enum 32 true) | "e64s" => some (.enum 64 true)
  | "e8u" => some (.enum 8 false) | "e16u" => some (.enum 16 false) | "e32u" => some (.enum 32 false) | "e64u" => some (.enum 64 false)
  | _ => none

def fromSigned (bits : Nat) (neg : Bool) (n : Nat) : Nat :=
  if neg then (2 ^ bits - n % 2 ^ bits) % 2 ^ bits else n % 2 ^ bits

mutual
/-- value of a given type -/
partial def valP (t : Ty) : P Val :=
  match t with
  | .bool => do pure (.num (← natP))
  | .int b _ | .enum b _ => do let neg ← tryChar '-'; pure (.num (fromSigned b neg (← natP)))
  | .f32 | .f64 => do pure (.num (← natP))
  | .str => do expect 'x'; pure (.bytes (← hexP))
  | .vec e | .list e | .set e | .arr e _ => do expect '['; seqP e
  | .map k w => do expect '['; mapP k w
  | .uptr e | .sptr e => do
    if (← tryChar '~') then pure .null else do expect '&'; pure (.some (← valP e))
  | .agg _ fs => do expect '('; recP fs true
partial def seqP (e : Ty) : P Val := do
  if (← tryChar ']') then pure .nil else do
    let x ← valP e
    let _ ← tryChar ','
    pure (.cons x (← seqP e))
partial def mapP (k w : Ty) : P Val := do
  if (← tryChar ']') then pure .nil else do
    let x ← valP k; expect ':'; let y ← valP w
    let _ ← tryChar ','
    pure (.cons (.pair x y) (← mapP k w))
partial def recP (fs : Fields) (first : Bool) : P Val :=
  match fs with
  | .nil => do expect ')'; pure .nil
  | .cons _ t _ rest => do
    if !first then expect ','
    let x ← valP t
    pure (.cons x (← recP rest false))
end

mutual
partial def tyP : P Ty := do
  let name ← identP
  match scalarOfName name with
  | some t => pure t
  | none =>
    expect '('
    match name with
    | "vec" => do let t ← tyP; expect ')'; pure (.vec t)
    | "list" => do let t ← tyP; expect ')'; pure (.list t)
    | "set" => do let t ← tyP; expect ')'; pure (.set t)
    | "uptr" => do let t ← tyP; expect ')'; pure (.uptr t)
    | "sptr" => do let t ← tyP; expect ')'; pure (.sptr t)
    | "arr" => do let t ← tyP; expect ','; let n ← natP; expect ')'; pure (.arr t n)
    | "map" => do let k ← tyP; expect ','; let w ← tyP; expect ')'; pure (.map k w)
    | "agg" => do pure (.agg false (← fieldsP true))
    | "aggb" => do pure (.agg true (← fieldsP true))
    | _ => failure
partial def fieldsP (first : Bool) : P Fields := do
  if (← tryChar ')') then pure .nil else do
    if !first then expect ','
    let num ← natP; expect ':'
    let t ← tyP; expect '='
    let d ← valP t
    pure (.cons num t d (← fieldsP false))
end

def runP {α} (p : P α) (s : String) : Option α :=
  match p s.toList with
  | some (a, []) => some a
  | _ => none

/-! printing -/

def hexDigit (n : Nat) : Char := if n < 10 then Char.ofNat (48 + n) else Char.ofNat (87 + n)
def hexOf (b : Bytes) : String :=
  String.ofList (b.flatMap (fun x => [hexDigit (x.toNat / 16), hexDigit (x.toNat % 16)]))
def hexOrDash (b : Bytes) : String := if b.isEmpty then "-" else hexOf b

def showNum (bits : Nat) (sgn : Bool) (n : Nat) : String :=
  if sgn && decide (2 ^ (bits - 1) ≤ n) then "-" ++ toString (2 ^ bits - n) else toString n

def insertSorted (s : String) : List String → List String
  | [] => [s]
  | h :: t => if s ≤ h then s :: h :: t else h :: insertSorted s t
def sortStrings (l : List String) : List String := l.foldl (fun acc s => insertSorted s acc) []

mutual
partial def showVal (t : Ty) (v : Val) : String :=
  match t, v with
  | .bool, .num n => toString n
  | .int b s, .num n => showNum b s n
  | .enum b s, .num n => showNum b s n
  | .f32, .num n | .f64, .num n => toString n
  | .str, .bytes b => "x" ++ hexOf b
  | .vec e, v | .list e, v | .arr e _, v => "[" ++ ",".intercalate (v.toList.map (showVal e)) ++ "]"
  | .set e, v => "[" ++ ",".intercalate (sortStrings (v.toList.map (showVal e))) ++ "]"
  | .map k w, v => "[" ++ ",".intercalate (sortStrings (v.toList.map (fun p => match p with
      | .pair x y => showVal k x ++ ":" ++ showVal w y
      | _ => "?"))) ++ "]"
  | .uptr _, .null | .sptr _, .null => "~"
  | .uptr e, .some x | .sptr e, .some x => "&" ++ showVal e x
  | .agg _ fs, v => "(" ++ ",".intercalate (showRec fs v) ++ ")"
  | _, _ => "?"
partial def showRec (fs : Fields) (v : Val) : List String :=
  match fs, v with
  | .cons _ t _ rest, .cons x xs => showVal t x :: showRec rest xs
  | _, _ => []
end

def insertByte (b : UInt8) : Bytes → Bytes
  | [] => [b]
  | h :: t => if b ≤ h then b :: h :: t else h :: insertByte b t
/-- `encu`: bytes printed sorted (unordered containers iterate in an unspecified order) -/
def sortBytes (l : Bytes) : Bytes := l.foldl (fun acc b => insertByte b acc) []

def presP : P Pres := do
  let c ← next
  let flat ← (if c == 'f' || c == 'g' then pure true else if c == 's' then pure false else failure)
  if !flat then let _ ← natP     -- chunk size: the model covers every chunking below 10 bytes alike
  let outer ← (do if (← tryChar 'L') then pure (some (← natP)) else pure none)
  pure { flat := flat, outer := outer }

structure DSt where
  types : List (String × Ty) := []
  cfg : Cfg

def showRes (t : Ty) : Res → String
  | .ok v _ => "ok " ++ showVal t v
  | .fail => "fail"
  | .noret => "noret"

def bytesArg (s : String) : Option Bytes := if s == "-" then some [] else runP hexP s

def step (s : DSt) (line : String) : DSt × String :=
  match words line with
  | ["reset"] => (s, "ok")
  | ["type", id, e] =>
    match runP tyP e with
    | some t => ({ s with types := (id, t) :: s.types.filter (·.1 != id) }, "ok")
    | none => (s, "bad-type")
  | ["enc", id, v] =>
    match s.types.lookup id with
    | some t => match runP (valP t) v with
      | some x => (s, s!"ok {calcSize Babylon.Gen.Wire.ptrInheritsTrivial t x} {hexOrDash (encode t x)}")
      | none => (s, "bad-value")
    | none => (s, "bad-id")
  | ["pb", id, v] =>
    match s.types.lookup id with
    | some t => match runP (valP t) v with
      | some x => (s, if compatTy t then s!"ok {hexOrDash (pbEncode t x)}" else "unsupported")
      | none => (s, "bad-value")
    | none => (s, "bad-id")
  | ["encu", id, v] =>
    match s.types.lookup id with
    | some t => match runP (valP t) v with
      | some x => (s, s!"ok {calcSize Babylon.Gen.Wire.ptrInheritsTrivial t x} {hexOrDash (sortBytes (encode t x))}")
      | none => (s, "bad-value")
    | none => (s, "bad-id")
  | ["enc2u", id, _, v] =>
    match s.types.lookup id with
    | some t => match runP (valP t) v with
      | some x => (s, s!"ok {calcSize Babylon.Gen.Wire.ptrInheritsTrivial t x} {hexOrDash (sortBytes (encode t x))}")
      | none => (s, "bad-value")
    | none => (s, "bad-id")
  | ["enc2", id, _, v] =>
    match s.types.lookup id with
    | some t => match runP (valP t) v with
      | some x => (s, s!"ok {calcSize Babylon.Gen.Wire.ptrInheritsTrivial t x} {hexOrDash (encode t x)}")
      | none => (s, "bad-value")
    | none => (s, "bad-id")
  | ["rt", id, v, p] =>
    match s.types.lookup id, runP presP p with
    | some t, some pr => match runP (valP t) v with
      | some x => (s, showRes t (parse s.cfg t pr (encode t x) (dflt t)))
      | none => (s, "bad-value")
    | _, _ => (s, "bad-op")
  | ["dec", id, h, p] =>
    match s.types.lookup id, bytesArg h, runP presP p with
    | some t, some b, some pr => (s, showRes t (parse s.cfg t pr b (dflt t)))
    | _, _, _ => (s, "bad-op")
  | ["deci", id, v, h, p] =>
    match s.types.lookup id, bytesArg h, runP presP p with
    | some t, some b, some pr =>
      match runP (valP t) v with
      | some d => (s, showRes t (parse s.cfg t pr b d))
      | none => (s, "bad-value")
    | _, _, _ => (s, "bad-op")
  | _ => (s, "bad-op")

def main (args : List String) : IO Unit :=
  runLines step ({ cfg := Cfg.ofSource (args.head? == some "debug") } : DSt)
