import Babylon.Core.Trace
import Babylon.CVec.Model
/-! Driver for property C04 (ConcurrentVector / RetireList).

* default: lock-step replay.  stdin: runs `RUN <seed> bits=<b> …` / VRT trace lines / `END`;
  stdout: `ok <n>` | `diverge <why>`.  A model step yields the labels of one shared action plus the
  thread-local allocator / constructor events that follow it; they are queued per thread and every
  trace line of that thread must equal the head of its queue.
* `drv_C04 seq`: line protocol for the pure index arithmetic (E-SEQ). -/
open Babylon.Core Babylon.CVec

structure RState where
  c : Cfg
  s : State
  pending : Nat → List Act

def hdrNat (hdr : List String) (key : String) : Option Nat :=
  (hdr.filterMap (fun h => if h.startsWith (key ++ "=") then (h.drop (key.length + 1)).toNat? else none)).head?

def initR (hdr : List String) : RState :=
  let bits := (hdrNat hdr "bits").getD 0
  let rr := match hdrNat hdr "reread" with
    | some v => v != 0
    | none => Babylon.Gen.CVec.retireRereads
  { c := { bits := bits, reread := rr }, s := State.init 1000000000, pending := fun _ => [] }

def atTime (w : String) : Option Nat := if w.startsWith "@" then (w.drop 1).toNat? else none

def stripTime (ws : List String) : List String := ws.filter (fun w => !w.startsWith "@")

def parseSeg (w : String) : Option (Nat × Nat × Nat) :=
  match w.splitOn ":" with
  | [a, b, l] => do pure ((← a.toNat?), (← b.toNat?), (← l.toNat?))
  | _ => none

def idleQuiet (r : RState) (t : Nat) : Bool := r.s.pc t == .idle && (r.pending t).isEmpty

def startCall (r : RState) (t : Nat) (f : State → State) : Except String RState :=
  if !idleQuiet r t then .error s!"call while the model thread is at {reprStr (r.s.pc t)} with {(r.pending t).length} labels pending"
  else if r.s.destroyed then .error "call after destruction"
  else .ok { r with s := f r.s }

def expectRet (r : RState) (t : Nat) (want : Res → Bool) (what : String) : Except String RState :=
  if !idleQuiet r t then .error s!"implementation returned from {what} but the model thread is at {reprStr (r.s.pc t)} with {(r.pending t).length} labels pending"
  else if want (r.s.result t) then .ok r
  else .error s!"{what} returned differently: model result {reprStr (r.s.result t)}"

def stepObs (r : RState) (o : Obs) : Except String RState :=
  let t := o.tid
  match Act.ofObs o with
  | none => .error "unknown trace line"
  | some (.ev ["call", "ensure", i]) =>
    match i.toNat? with
    | some i => startCall r t (fun s => callEnsure r.c s t i)
    | none => .error "bad index"
  | some (.ev ["call", "reserve", n]) =>
    match n.toNat? with
    | some n => startCall r t (fun s => callReserve r.c s t n)
    | none => .error "bad size"
  | some (.ev ["call", "foreach", b, e]) =>
    match b.toNat?, e.toNat? with
    | some b, some e => startCall r t (fun s => callRange r.c s t b e)
    | _, _ => .error "bad range"
  | some (.ev ["call", w, off, n]) =>
    if w == "fill" || w == "copy" then
      match off.toNat?, n.toNat? with
      | some off, some n => startCall r t (fun s => callRange r.c s t off (off + n))
      | _, _ => .error "bad range"
    else .error "unknown call"
  | some (.ev ["call", "snap"]) => startCall r t (fun s => callSnap s t .snap)
  | some (.ev ["call", "get", i]) =>
    match i.toNat? with
    | some i => startCall r t (fun s => callSnap s t (.get i))
    | none => .error "bad index"
  | some (.ev ["call", "gc"]) => startCall r t (fun s => callGc s t)
  | some (.ev ["call", "destroy"]) => startCall r t (fun s => callDestroy s t)
  | some (.ev ["ret", "ensure", b, off]) =>
    expectRet r t (fun x => match x with | .elem _ b' o' => some b' == b.toNat? && some o' == off.toNat? | _ => false) s!"ensure -> {b} {off}"
  | some (.ev ["ret", "get", b, off]) =>
    expectRet r t (fun x => match x with | .elem _ b' o' => some b' == b.toNat? && some o' == off.toNat? | _ => false) s!"operator[] -> {b} {off}"
  | some (.ev ["ret", "snap", T]) =>
    expectRet r t (fun x => match x with | .table T' => some T' == T.toNat? | _ => false) s!"snapshot -> table {T}"
  | some (.ev ("ret" :: "foreach" :: segs)) =>
    expectRet r t (fun x => match x with | .segs l => segs.mapM parseSeg == some l | _ => false) s!"for_each -> {segs}"
  | some (.ev ["ret", w]) =>
    if w == "fill" || w == "copy" then expectRet r t (fun x => match x with | .segs _ => true | _ => false) w
    else expectRet r t (fun x => x == .unit) w
  | some (.ev ["woke", v]) =>
    match atTime v with
    | some v => if v < r.s.now then .error s!"virtual clock went backwards: {v} < {r.s.now}" else .ok { r with s := { r.s with now := v } }
    | none => .error "bad time"
  | some (.ev ["sleep", _]) | some (.ev ["stall", _]) => .ok r
  | some (.ev ["use", T, i, b, off, _]) =>
    match T.toNat?, i.toNat?, b.toNat?, off.toNat? with
    | some T, some i, some b, some off =>
      if r.s.snap t ≠ some T then .error s!"snapshot of thread {t} is table {reprStr (r.s.snap t)} in the model"
      else if (r.s.freedT T).isSome then .error s!"implementation dereferences table {T}, freed in the model"
      else if elemAt r.c (r.s.tbl T) i = some (b, off) then .ok r
      else .error s!"snapshot[{i}] is {b}:{off}, model says {reprStr (elemAt r.c (r.s.tbl T) i)}"
    | _, _, _, _ => .error "bad use line"
  | some (.ev ["usefreed", T, _, _]) =>
    match T.toNat? with
    | some T => if (r.s.freedT T).isSome then .ok r else .error s!"harness says table {T} is freed, the model does not"
    | none => .error "bad usefreed line"
  | some (.ev ("ORACLE" :: _)) | some (.ev ("stats" :: _)) => .ok r
  | some (.spawn _) | some (.join _) | some .exit => .ok r
  | some a0 =>
    let a := match a0 with
      | .ev ws => Act.ev (stripTime ws)
      | x => x
    match r.pending t with
    | l :: rest =>
      if l = a then .ok { r with pending := upd r.pending t rest }
      else .error s!"model expects {reprStr l} (queued), implementation did {reprStr a}"
    | [] =>
      let spurious := match a with
        | .cas _ _ true _ _ e _ ok obs => !ok && e == obs
        | _ => false
      let clock := match a with
        | .ev ["clock", v] => v.toNat?.getD 0
        | _ => 0
      match stepThread r.c r.s t { spurious := spurious, clock := clock } with
      | none => .error s!"implementation performs {reprStr a} but the model thread has no step (pc {reprStr (r.s.pc t)})"
      | some (_, []) => .error "model step without label"
      | some (s', l :: rest) =>
        if l = a then .ok { r with s := s', pending := upd r.pending t rest }
        else .error s!"model expects {reprStr l}, implementation did {reprStr a}"

def finalR (r : RState) : Except String Unit :=
  if !r.s.destroyed then .error "trace ended before the vector was destroyed"
  else match (List.range 64).find? (fun t => !idleQuiet r t) with
    | some t => .error s!"trace ended while model thread {t} is at {reprStr (r.s.pc t)} with {(r.pending t).length} labels pending"
    | none => .ok ()

/-- E-SEQ line protocol for the index arithmetic -/
def seqStep (_ : Unit) (line : String) : Unit × String :=
  let out := match words line with
    | ["reset"] => "ok"
    | ["meta", h] =>
      match h.toNat? with
      | some h => let b := setBits h; s!"{b} {2 ^ b} {2 ^ b - 1}"
      | none => "bad"
    | ["idx", bits, i] =>
      match bits.toNat?, i.toNat? with
      | some bits, some i => let c : Cfg := { bits := bits }; s!"{blockIndex c i} {blockOffset c i}"
      | _, _ => "bad"
    | ["grow", bits, "ensure", i] =>
      match bits.toNat?, i.toNat? with
      | some bits, some i => s!"{needEnsure { bits := bits } i}"
      | _, _ => "bad"
    | ["grow", bits, "reserve", n] =>
      match bits.toNat?, n.toNat? with
      | some bits, some n => s!"{needReserve { bits := bits } n}"
      | _, _ => "bad"
    | ["segs", bits, b, e] =>
      match bits.toNat?, b.toNat?, e.toNat? with
      | some bits, some b, some e =>
        let c : Cfg := { bits := bits }
        let n := needReserve c e
        let l := forEachSegs c (List.range n) b e
        s!"{n}" ++ String.join (l.map (fun (x : Nat × Nat × Nat) => s!" {x.1}:{x.2.1}:{x.2.2}"))
      | _, _, _ => "bad"
    | _ => "bad-op"
  ((), out)

def main (args : List String) : IO Unit := do
  if args == ["seq"] then runLines seqStep ()
  else replayLoop (← IO.getStdin) initR stepObs finalR
