import Babylon.Core.Trace
import Babylon.Counter.Model
import Std.Data.HashSet
/-! History replay driver for property C19 (counters / enumerable thread-locals).
stdin: runs `RUN <seed> …` / VRT trace lines / `END`; stdout per run: `ok <n>` | `diverge <why>`.
Only harness events (`<tid> ev …`) are interpreted; each is one event of the history model
(`Babylon.Counter`), the ids the real allocators handed out are the choices of the model's events, and
every observed location of `local()` and every observed quiescent value is compared with the model's.
Reads overlapping adds (`call cread` … `ret cread`) are checked against the bound of
`adder_concurrent_bounds`. -/
open Babylon.Core Babylon.Counter

inductive Kind | adder | summer | maxer | miner | etl | cetl
  deriving DecidableEq, Repr

def Kind.ofString : String → Option Kind
  | "adder" => some .adder | "summer" => some .summer | "maxer" => some .maxer
  | "miner" => some .miner | "etl" => some .etl | "cetl" => some .cetl | _ => none

structure Reading where
  h : Nat
  base : Int × Int            -- sums of the adds completed when the read started (value, count)
  over : List (Nat × (Int × Int))   -- (thread, add) overlapping the read so far, latest first

structure World where
  kinds : List (Nat × Kind) := []
  adder : Fam Int := Fam.init Adder.cfg
  summer : Fam Summer.Cell := Fam.init Summer.cfg
  maxer : Cmp.State := { fam := Fam.init (Cmp.cfg true), ver := fun _ => 0 }
  miner : Cmp.State := { fam := Fam.init (Cmp.cfg false), ver := fun _ => 0 }
  etl : Fam Int := Fam.init Raw.etlCfg
  cetl : Fam Int := Fam.init Raw.cetlCfg
  done : List (Nat × (Int × Int)) := []          -- handle ↦ (Σ value, Σ count) of completed adds since creation / reset
  inflight : List (Nat × Nat × (Int × Int)) := []  -- (thread, handle, add) called, not yet returned
  reading : Option Reading := none
  reads : Nat := 0
  creads : Nat := 0

def World.kindOf (w : World) (h : Nat) : Option Kind := (w.kinds.find? (·.1 == h)).map (·.2)
def World.doneOf (w : World) (h : Nat) : Int × Int := ((w.done.find? (·.1 == h)).map (·.2)).getD (0, 0)
def World.setDone (w : World) (h : Nat) (v : Int × Int) : World :=
  { w with done := (h, v) :: w.done.filter (·.1 != h) }

def orErr {α : Type} (o : Option α) (msg : String) : Except String α :=
  match o with | some a => .ok a | none => .error msg

def ints (ws : List String) : Except String (List Int) :=
  ws.mapM (fun w => orErr (parseInt? w) s!"bad number `{w}`")
def nats (ws : List String) : Except String (List Nat) :=
  ws.mapM (fun w => orErr w.toNat? s!"bad number `{w}`")

def showLoc (l : Loc) : String := s!"(storage {l.k}, slot {l.tid}, offset {l.off})"

/-- apply a thread event to every family -/
def World.threads (w : World) (f : {β : Type} → Fam β → Option (Fam β)) : Except String World := do
  let a ← orErr (f w.adder) "thread event rejected (adder family)"
  let s ← orErr (f w.summer) "thread event rejected (summer family)"
  let mx ← orErr (f w.maxer.fam) "thread event rejected (maxer family)"
  let mn ← orErr (f w.miner.fam) "thread event rejected (miner family)"
  let e ← orErr (f w.etl) "thread event rejected (etl family)"
  let c ← orErr (f w.cetl) "thread event rejected (cetl family)"
  pure { w with adder := a, summer := s, maxer := { w.maxer with fam := mx }, miner := { w.miner with fam := mn }, etl := e, cetl := c }

def newMsg (h i : Nat) : String :=
  s!"new {h}: the model rejects instance id {i} (held by a live instance, handle in use, or not the next never-reused id)"

def World.new (w : World) (h : Nat) (k : Kind) (i : Nat) : Except String World := do
  let w := { w with kinds := (h, k) :: w.kinds.filter (·.1 != h) }
  let w := w.setDone h (0, 0)
  match k with
  | .adder => do pure { w with adder := ← orErr (newInst Adder.cfg w.adder h i) (newMsg h i) }
  | .summer => do pure { w with summer := ← orErr (newInst Summer.cfg w.summer h i) (newMsg h i) }
  | .maxer => do pure { w with maxer := ← orErr (Cmp.step true w.maxer (.new h i)) (newMsg h i) }
  | .miner => do pure { w with miner := ← orErr (Cmp.step false w.miner (.new h i)) (newMsg h i) }
  | .etl => do pure { w with etl := ← orErr (newInst Raw.etlCfg w.etl h i) (newMsg h i) }
  | .cetl => do pure { w with cetl := ← orErr (newInst Raw.cetlCfg w.cetl h i) (newMsg h i) }

def World.drop (w : World) (h : Nat) : Except String World := do
  let k ← orErr (w.kindOf h) s!"drop of unknown handle {h}"
  let msg := s!"drop {h}: not a live instance in the model"
  let w' ← match k with
    | .adder => do pure { w with adder := ← orErr (dropInst Adder.cfg w.adder h) msg }
    | .summer => do pure { w with summer := ← orErr (dropInst Summer.cfg w.summer h) msg }
    | .maxer => do pure { w with maxer := ← orErr (Cmp.step true w.maxer (.drop h)) msg }
    | .miner => do pure { w with miner := ← orErr (Cmp.step false w.miner (.drop h)) msg }
    | .etl => do pure { w with etl := ← orErr (dropInst Raw.etlCfg w.etl h) msg }
    | .cetl => do pure { w with cetl := ← orErr (dropInst Raw.cetlCfg w.cetl h) msg }
  pure { w' with kinds := w'.kinds.filter (·.1 != h) }

def World.swap (w : World) (a b : Nat) : Except String World := do
  let k ← orErr (w.kindOf a) s!"move of unknown handle {a}"
  let k' ← orErr (w.kindOf b) s!"move of unknown handle {b}"
  if k ≠ k' then throw "move between different kinds"
  let msg := s!"move {a} {b}: not live instances in the model"
  let da := w.doneOf a
  let db := w.doneOf b
  let w := (w.setDone a db).setDone b da
  match k with
  | .adder => do pure { w with adder := ← orErr (swapInst w.adder a b) msg }
  | .etl => do pure { w with etl := ← orErr (swapInst w.etl a b) msg }
  | .cetl => do pure { w with cetl := ← orErr (swapInst w.cetl a b) msg }
  | _ => throw "this kind is not movable"

/-- `local()` + update of thread `t` on `h`; returns the model's location -/
def World.add (w : World) (t h : Nat) (v : Int × Int) (j : Nat) (pure? : Bool) : Except String (World × Loc) := do
  let k ← orErr (w.kindOf h) s!"add on unknown handle {h}"
  let msg := s!"local() of thread {t} on {h}: rejected by the model (dead thread / dead instance / thread id {j} is held by another live thread)"
  match k with
  | .adder => do
    let p ← orErr (updAt Adder.cfg w.adder t h j (if pure? then id else (· + v.1))) msg
    pure ({ w with adder := p.1 }, p.2)
  | .summer => do
    let p ← orErr (updAt Summer.cfg w.summer t h j (if pure? then id else fun x => Summer.addC x (v.1, v.2.toNat))) msg
    pure ({ w with summer := p.1 }, p.2)
  | .maxer => do
    let p ← orErr (updAt (Cmp.cfg true) w.maxer.fam t h j (if pure? then id else Cmp.put true (w.maxer.ver h) v.1)) msg
    pure ({ w with maxer := { w.maxer with fam := p.1 } }, p.2)
  | .miner => do
    let p ← orErr (updAt (Cmp.cfg false) w.miner.fam t h j (if pure? then id else Cmp.put false (w.miner.ver h) v.1)) msg
    pure ({ w with miner := { w.miner with fam := p.1 } }, p.2)
  | .etl => do
    let p ← orErr (updAt Raw.etlCfg w.etl t h j (if pure? then id else (· + v.1))) msg
    pure ({ w with etl := p.1 }, p.2)
  | .cetl => do
    let p ← orErr (updAt Raw.cetlCfg w.cetl t h j (if pure? then id else (· + v.1))) msg
    pure ({ w with cetl := p.1 }, p.2)

def World.reset (w : World) (h : Nat) : Except String World := do
  let k ← orErr (w.kindOf h) s!"reset of unknown handle {h}"
  let msg := s!"reset {h}: not a live instance in the model"
  let w := w.setDone h (0, 0)
  match k with
  | .adder => do pure { w with adder := ← orErr (Adder.step w.adder (.reset h)) msg }
  | .maxer => do pure { w with maxer := ← orErr (Cmp.step true w.maxer (.reset h)) msg }
  | .miner => do pure { w with miner := ← orErr (Cmp.step false w.miner (.reset h)) msg }
  | .etl => do pure { w with etl := ← orErr (Babylon.Counter.step Raw.etlCfg w.etl (.each h (fun _ => 0))) msg }
  | .cetl => do pure { w with cetl := ← orErr (Babylon.Counter.step Raw.cetlCfg w.cetl (.each h (fun _ => 0))) msg }
  | .summer => throw "a summer has no reset"

/-- what a quiescent read returns in the model, as the words the harness prints -/
def World.read (w : World) (h : Nat) : Except String (List String) := do
  let k ← orErr (w.kindOf h) s!"read of unknown handle {h}"
  let dead := s!"read {h}: not a live instance in the model"
  match k with
  | .adder => do pure [toString (← orErr (Adder.value w.adder h) dead)]
  | .summer => do
    let v ← orErr (Summer.value w.summer h) dead
    pure [toString v.1, toString v.2]
  | .maxer => do
    match ← orErr (Cmp.value true w.maxer h) dead with
    | some v => pure ["1", toString v]
    | none => pure ["0", "0"]
  | .miner => do
    match ← orErr (Cmp.value false w.miner h) dead with
    | some v => pure ["1", toString v]
    | none => pure ["0", "0"]
  | .etl => do
    let cells ← orErr (forEach Raw.etlCfg w.etl h) dead
    pure [toString (sumInts cells), toString cells.length]
  | .cetl => do
    let cells ← orErr (forEach Raw.cetlCfg w.cetl h) dead
    pure [toString (sumInts cells), toString cells.length]

def World.aread (w : World) (h : Nat) (const : Bool) : Except String (List String) := do
  let k ← orErr (w.kindOf h) s!"for_each_alive on unknown handle {h}"
  let ub := s!"for_each_alive {h}: in the model a live thread id is not below the storage size — the unclipped overload reads the block table out of bounds"
  let r ← match k with
    | .etl => orErr (if const then forEachAliveConst Raw.etlCfg w.etl h else forEachAlive Raw.etlCfg w.etl h) ub
    | .cetl => orErr (if const then forEachAliveConst Raw.cetlCfg w.cetl h else forEachAlive Raw.cetlCfg w.cetl h) ub
    | _ => throw "for_each_alive is exercised on the bare thread-locals only"
  pure (toString (sumInts (r.map (·.2))) :: r.map (fun p => toString p.1))

def pairOf (k : Kind) (vs : List Int) : Except String (Int × Int) :=
  match k, vs with
  | .summer, [a, b] => .ok (a, b)
  | .summer, _ => .error "summer add needs `sum num`"
  | _, [a] => .ok (a, 1)
  | _, _ => .error "add needs one value"

def addP (a b : Int × Int) : Int × Int := (a.1 + b.1, a.2 + b.2)
def lo (xs : List (Int × Int)) : Int × Int := xs.foldl (fun a x => (a.1 + min x.1 0, a.2 + min x.2 0)) (0, 0)
def hi (xs : List (Int × Int)) : Int × Int := xs.foldl (fun a x => (a.1 + max x.1 0, a.2 + max x.2 0)) (0, 0)

/-- sums of `base` + one prefix of every thread's overlapping adds (`over` in chronological order):
what a read can return when every cell is loaded once and every contribution is stored indivisibly -/
def reachable (base : Int × Int) (over : List (Nat × (Int × Int))) : Std.HashSet (Int × Int) :=
  let threads := (over.map (·.1)).eraseDups
  threads.foldl (fun (cur : Std.HashSet (Int × Int)) t =>
    let mine := (over.filter (·.1 == t)).map (·.2)
    -- running prefix sums of this thread's adds, the empty prefix included
    let prefixes := mine.foldl (fun (acc : List (Int × Int) × (Int × Int)) x =>
      let s := addP acc.2 x; (s :: acc.1, s)) ([(0, 0)], (0, 0)) |>.1
    cur.fold (fun (nxt : Std.HashSet (Int × Int)) b => prefixes.foldl (fun n p => n.insert (addP b p)) nxt) {})
    (({} : Std.HashSet (Int × Int)).insert base)

def stepEv (w : World) (t : Nat) (ws : List String) : Except String World := do
  match ws with
  | ["tstart"] => w.threads (fun f => threadStart f t)
  | ["texit"] => w.threads (fun f => threadExit f t)
  | ["new", h, k, i] => do
    let k ← orErr (Kind.ofString k) "unknown kind"
    let [h, i] ← nats [h, i] | throw "bad new"
    w.new h k i
  | ["drop", h] => do
    let [h] ← nats [h] | throw "bad drop"
    w.drop h
  | ["mvnew", h', h, i'] => do
    let [h', h, i'] ← nats [h', h, i'] | throw "bad mvnew"
    let k ← orErr (w.kindOf h) s!"move from unknown handle {h}"
    let w ← w.new h' k i'
    w.swap h' h
  | ["mvasg", h', h] => do
    let [h', h] ← nats [h', h] | throw "bad mvasg"
    w.swap h' h
  | "call" :: "add" :: h :: vs => do
    let [h] ← nats [h] | throw "bad add"
    let k ← orErr (w.kindOf h) s!"add on unknown handle {h}"
    let v ← pairOf k (← ints vs)
    let w := { w with inflight := (t, h, v) :: w.inflight }
    match w.reading with
    | some r => pure (if r.h = h then { w with reading := some { r with over := (t, v) :: r.over } } else w)
    | none => pure w
  | "ret" :: "add" :: h :: rest => do
    let [h] ← nats [h] | throw "bad add"
    let k ← orErr (w.kindOf h) s!"add on unknown handle {h}"
    let n := rest.length
    if n < 4 then throw "bad ret add"
    let v ← pairOf k (← ints (rest.take (n - 3)))
    let [ok, otid, ooff] ← nats (rest.drop (n - 3)) | throw "bad location"
    let (w, l) ← w.add t h v otid false
    if l ≠ ⟨ok, otid, ooff⟩ then
      throw s!"local() of thread {t} on {h} landed at {showLoc ⟨ok, otid, ooff⟩}, the model says {showLoc l}"
    let w := { w with inflight := w.inflight.filter (fun x => !(x.1 == t && x.2.1 == h)) }
    pure (w.setDone h (addP (w.doneOf h) v))
  | ["local", h, ok, otid, ooff] => do
    let [h, ok, otid, ooff] ← nats [h, ok, otid, ooff] | throw "bad local"
    let (w, l) ← w.add t h (0, 0) otid true
    if l ≠ ⟨ok, otid, ooff⟩ then
      throw s!"local() of thread {t} on {h} landed at {showLoc ⟨ok, otid, ooff⟩}, the model says {showLoc l}"
    pure w
  | ["reset", h] => do
    let [h] ← nats [h] | throw "bad reset"
    w.reset h
  | "read" :: h :: obs => do
    let [h] ← nats [h] | throw "bad read"
    let want ← w.read h
    -- `_` = not observed (slot count of a bare thread-local read on a worker thread)
    let same := want.length == obs.length && (want.zip obs).all (fun p => p.2 == "_" || p.1 == p.2)
    if !same then throw s!"quiescent read of {h} returned {obs}, the model says {want}"
    pure { w with reads := w.reads + 1 }
  | "aread" :: h :: obs => do
    let [h] ← nats [h] | throw "bad aread"
    let want ← w.aread h false
    if want ≠ obs then throw s!"for_each_alive of {h} gave (sum, slots…) {obs}, the model says {want}"
    pure { w with reads := w.reads + 1 }
  | "acread" :: h :: obs => do
    let [h] ← nats [h] | throw "bad acread"
    let want ← w.aread h true
    if want ≠ obs then throw s!"const for_each_alive of {h} gave (sum, slots…) {obs}, the model says {want}"
    pure { w with reads := w.reads + 1 }
  | ["call", "cread", h] => do
    let [h] ← nats [h] | throw "bad cread"
    if w.reading.isSome then throw "nested concurrent read"
    let over := (w.inflight.filter (·.2.1 == h)).map (fun x => (x.1, x.2.2))
    pure { w with reading := some { h := h, base := w.doneOf h, over := over } }
  | "ret" :: "cread" :: h :: obs => do
    let [h] ← nats [h] | throw "bad cread"
    let r ← orErr w.reading "ret cread without call"
    if r.h ≠ h then throw "ret cread of another handle"
    let vs ← ints obs
    let l := addP r.base (lo (r.over.map (·.2)))
    let u := addP r.base (hi (r.over.map (·.2)))
    let sets := reachable r.base r.over.reverse
    let k ← orErr (w.kindOf h) "cread of unknown handle"
    match k, vs with
    | .summer, [a, b] =>
      if !(l.1 ≤ a ∧ a ≤ u.1 ∧ l.2 ≤ b ∧ b ≤ u.2) then
        throw s!"concurrent read of summer {h} returned ({a}, {b}), outside [{l.1}, {u.1}] x [{l.2}, {u.2}]"
      else if !sets.contains (a, b) then
        throw s!"concurrent read of summer {h} returned ({a}, {b}): not (Σ v, Σ n) of the adds completed at the call plus a per-thread prefix of the overlapping ones — sum and count of one contribution were read apart"
      else pure { w with reading := none, creads := w.creads + 1 }
    | _, a :: _ =>
      if !(l.1 ≤ a ∧ a ≤ u.1) then
        throw s!"concurrent read of {h} returned {a}, outside [{l.1}, {u.1}] (adds completed before the read started … adds started before it ended)"
      else if !(sets.fold (fun f p => f || p.1 == a) false) then
        throw s!"concurrent read of {h} returned {a}: not the adds completed at the call plus a per-thread prefix of the overlapping ones"
      else pure { w with reading := none, creads := w.creads + 1 }
    | _, _ => throw "bad cread values"
  | _ => pure w     -- ORACLE verdicts, notes, statistics

def stepObs (w : World) (o : Obs) : Except String World :=
  match o.kind, o.args with
  | "ev", ws => stepEv w o.tid ws
  | _, _ => .ok w   -- spawn / join / exit / race lines of VRT

def main : IO Unit := do
  replayLoop (← IO.getStdin) (fun _ => ({} : World)) stepObs (fun _ => .ok ())
