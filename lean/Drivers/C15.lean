import Babylon.Core.Trace
import Babylon.Topic.Model
/-! Lock-step replay driver for property C15 (ConcurrentTransientTopic).
stdin: runs `RUN <seed> bs=<block> cap=<slots reserved> threads=<bound> …` / VRT trace lines / `END`;
stdout per run: `ok <n>` | `diverge <why>`.

Every atomic-level line must be exactly the next action of that thread in `Babylon.Topic.stepThread`
(kind, location, memory order, values); harness events drive calls / returns and are checked against
the client contract and the model's results:
  ev call publish <n> | ev fill <b> <n> <runs…> | ev ret publish
  ev call close | ev ret close | ev call clear | ev ret clear | ev subscribe
  ev call consume <n> | ev ret consume <m> <runs…>
where `<runs…>` encodes a value list as `first:count` runs of consecutive values. -/
open Babylon.Core Babylon.Topic

structure RState where
  c : Cfg
  n : Nat            -- bound on thread ids (contract checks quantify over `0 .. n-1`)
  s : State

def hdrNat (hdr : List String) (key : String) (dflt : Nat) : Nat :=
  (hdr.filterMap (fun h => if h.startsWith (key ++ "=") then (h.drop (key.length + 1)).toNat? else none)).head?.getD dflt

def initR (hdr : List String) : RState :=
  { c := { bs := hdrNat hdr "bs" Babylon.Gen.Topic.blockSize }, n := hdrNat hdr "threads" 64,
    s := State.fresh (fun _ => 0) (hdrNat hdr "cap" 0) (fun _ => 0) }

/-- decode `first:count` runs -/
def decodeRuns (ws : List String) : Option (List Nat) :=
  ws.foldlM (fun acc w =>
    match w.splitOn ":" with
    | [a, k] => do
      let a ← a.toNat?
      let k ← k.toNat?
      pure (acc ++ (List.range k).map (· + a))
    | [a] => do pure (acc ++ [← a.toNat?])
    | _ => none) []

def allThreads (r : RState) (p : Pc → Bool) : Bool := (List.range r.n).all (fun u => p (r.s.pc u))

def isIdle (p : Pc) : Bool := p == .idle

def sleepersOn (r : RState) (j : Nat) : Nat :=
  ((List.range r.n).filter (fun u => match r.s.pc u with | .kSleep _ _ j' => j' == j | _ => false)).length

def stepObs (r : RState) (o : Obs) : Except String RState :=
  let t := o.tid
  let s := r.s
  let pcStr := reprStr (s.pc t)
  if t ≥ r.n then .error s!"thread id {t} exceeds the bound threads={r.n} of the header" else
  match Act.ofObs o with
  | none => .error "unknown trace line"
  | some (.ev ["call", "publish", n]) =>
    match n.toNat? with
    | none => .error "bad count"
    | some n =>
      if s.pc t ≠ .idle then .error s!"call while not idle (pc {pcStr})"
      else if s.closed then .error "client contract: publish after close without clear"
      else if s.clearing then .error "client contract: call during clear"
      else .ok { r with s := callPublish s t n }
  | some (.ev ("fill" :: b :: n :: runs)) =>
    match decodeRuns runs with
    | none => .error "bad value runs"
    | some vals =>
      match stepThread r.c s t { vals := vals } with
      | none => .error s!"implementation calls the publish callback on [{b}, +{n}) with {vals.length} values but the model thread is at {pcStr}"
      | some (s', l) =>
        if l = .ev ("fill" :: b :: n :: vals.map toString) then .ok { r with s := s' }
        else .error s!"model expects {reprStr l}, implementation did fill {b} {n}"
  | some (.ev ["ret", "publish"]) =>
    if s.pc t = .idle then .ok r else .error s!"implementation returned from publish but the model thread is at {pcStr}"
  | some (.ev ["call", "close"]) =>
    if s.pc t ≠ .idle then .error s!"call while not idle (pc {pcStr})"
    else if s.clearing then .error "client contract: call during clear"
    else if !allThreads r (fun p => !p.publishing) then .error "client contract: close while a publish is in progress"
    else .ok { r with s := callClose s t }
  | some (.ev ["ret", "close"]) =>
    if s.pc t = .idle then .ok r else .error s!"implementation returned from close but the model thread is at {pcStr}"
  | some (.ev ["call", "clear"]) =>
    if s.clearing || !allThreads r isIdle then .error "client contract: clear while another call is in progress"
    else .ok { r with s := callClear s t }
  | some (.ev ["ret", "clear"]) =>
    if s.pc t = .idle && !s.clearing then .ok r else .error s!"implementation returned from clear but the model thread is at {pcStr}"
  | some (.ev ["subscribe"]) =>
    if s.pc t ≠ .idle then .error s!"subscribe while not idle (pc {pcStr})"
    else if s.clearing then .error "client contract: call during clear"
    else .ok { r with s := subscribe s t }
  | some (.ev ["call", "consume", n]) =>
    match n.toNat? with
    | none => .error "bad count"
    | some n =>
      if s.pc t ≠ .idle then .error s!"call while not idle (pc {pcStr})"
      else if s.clearing then .error "client contract: call during clear"
      else .ok { r with s := callConsume r.c s t n }
  | some (.ev ("ret" :: "consume" :: m :: runs)) =>
    match m.toNat?, decodeRuns runs, s.pc t with
    | some m, some vals, .kRet b _ m' =>
      let want := (readRange s b m').map (·.2)
      if m ≠ m' then .error s!"consume returned {m} items, model says {m'}"
      else if vals ≠ want then .error s!"consume returned values {vals}, model says {want}"
      else if !(List.range m').all (fun k => s.hb.seen t (b + k)) then
        .error s!"model: a returned slot's publication does not happen-before the return (orders too weak)"
      else .ok { r with s := retConsume s t b m' }
    | _, _, _ => .error s!"implementation returned from consume but the model thread is at {pcStr}"
  | some (.ev _) => .ok r            -- other harness events (oracle verdicts, notes, stats)
  | some (.spawn _) | some (.join _) | some .exit | some (.race _) => .ok r
  | some a =>
    let inp : Inp := match a with
      | .cas _ _ _ _ _ e _ ok obs => { spurious := !ok && e == obs }
      | .fwake _ _ _ w => { woken := w }
      | _ => {}
    match stepThread r.c s t inp with
    | none => .error s!"implementation performs {reprStr a} but the model thread is at {pcStr}"
    | some (s', l) =>
      if l ≠ a then .error s!"model expects {reprStr l}, implementation did {reprStr a}"
      else
        match a, s.pc t with
        | .fwake _ _ _ w, .wWake _ _ _ _ j =>
          if w = sleepersOn r j then .ok { r with s := s' }
          else .error s!"futex wake on slot {j} woke {w} threads, the model has {sleepersOn r j} sleepers"
        | _, _ => .ok { r with s := s' }

def finalR (r : RState) : Except String Unit :=
  if allThreads r isIdle then .ok () else .error "a model thread is still inside a call at the end of the trace"

def main : IO Unit := do
  replayLoop (← IO.getStdin) initR stepObs finalR
