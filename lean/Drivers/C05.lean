import Babylon.Core.Trace
import Babylon.Anyflow.Dep
import Babylon.Anyflow.Graph
/-! Replay driver for property C05 (anyflow).
stdin: runs `RUN <seed> mode=dep|graph|pool|inject …` / VRT trace lines / `END`; stdout per run: `ok <n>` | `diverge <why>`.

* mode `dep` (L1, atomic lock-step): every operation on `dep.wn`, `C.closure`, `T.closure`, `V.wn` must be the next
  action of one of the three actors of `Babylon.Anyflow.Dep.step` (actor ↔ thread is resolved by the first action of an
  actor: the `fetch_add` for A, the relaxed load of `release` for C / T); extra acquire loads of a closure word by code
  outside the protocol (`flush_emits`, the harness oracle) are stutter steps.
* modes `graph` / `pool` / `inject` (L2, event level): the named atomics of vertices, data and closure and the harness
  events are translated one-to-one into `Babylon.Anyflow.Graph.Ev` and must be enabled in `stepEvent`; reported final
  values are compared with the model state and, after a successful run, the targets with `evalSeq`. -/
open Babylon.Core Babylon.Anyflow

def kvNat (ws : List String) (key : String) : Option Nat :=
  (ws.filterMap (fun w => if w.startsWith (key ++ "=") then (w.drop (key.length + 1)).toNat? else none)).head?

/- =========================================== L1: one dependency =========================================== -/
structure DepR where
  s : Option Dep.State := none
  thr : List (Dep.Actor × Nat) := []       -- most recent first

def DepR.actorsOf (r : DepR) (t : Nat) : List Dep.Actor := (r.thr.filter (·.2 == t)).map (·.1)

def depLoc (l : String) : Bool := l == "dep.wn" || l == "C.closure" || l == "T.closure" || l == "V.wn"

def actLoc : Act → Option String
  | .ld l _ _ _ => some l | .st l _ _ _ => some l | .xchg l _ _ _ _ => some l
  | .cas l _ _ _ _ _ _ _ _ => some l | .rmw _ l _ _ _ _ => some l | _ => none

def isSpurious : Act → Bool
  | .cas _ _ _ _ _ e _ ok obs => !ok && e == obs
  | _ => false

/-- plain (non-atomic) steps leave no trace line: they are taken right before the same thread's next traced action
(and for everybody when the run is over) -/
def advancePlain (s : Dep.State) (x : Dep.Actor) : Nat → Dep.State
  | 0 => s
  | n + 1 =>
    match Dep.step s x false with
    | some (s', l) => if l = Dep.plainAct then advancePlain s' x n else s
    | none => s

def flushPlain (s : Dep.State) : Dep.State :=
  [Dep.Actor.A, .C, .T].foldl (fun s x => advancePlain s x 4) s

def depTry (s : Dep.State) (xs : List Dep.Actor) (a : Act) : Option Dep.State :=
  xs.findSome? (fun x =>
    let s := advancePlain s x 4
    match Dep.step s x (isSpurious a) with
    | some (s', l) => if l = a then some s' else none
    | none => none)

def depCheck (s : Dep.State) : Except String Dep.State :=
  if Dep.good s then .ok s else .error s!"the model left the set of good states (dep_protocol_exhaustive would be false): {reprStr s}"

def depObs (r : DepR) (o : Obs) : Except String DepR :=
  let t := o.tid
  match Act.ofObs o with
  | none => .error "unknown trace line"
  | some (.ev ("cycle" :: _ :: kv)) =>
    match kvNat kv "hasCond", kvNat kv "b" with
    | some h, some b => .ok { s := some (Dep.State.init ⟨h == 1, h == 1 && b == 1⟩), thr := [] }
    | _, _ => .error "bad cycle line"
  | some a =>
    match r.s with
    | none => .ok r
    | some s =>
      match a with
      | .ev ["invoke", "2", tok] =>
        let want := Act.ev ["process", if tok == "-" then "0" else "1"]
        match depTry s (r.actorsOf t) want with
        | some s' => do let s' ← depCheck s'; pure { r with s := some s' }
        | none => .error s!"the source vertex runs in thread {t} (dependency ready = {tok != "-"}) but no actor of that thread made it runnable with that `_ready`; model state {reprStr s}"
      | .ev ["waited"] =>
        let s := flushPlain s
        if !Dep.good s then .error s!"the model left the set of good states: {reprStr s}" else
        if (s.a == .idle || s.a == .done) && (s.c == .idle || s.c == .done) && (s.t == .idle || s.t == .done) then .ok r
        else .error s!"run finished but the model still has an actor in the middle of its protocol: {reprStr s}"
      | .ev _ | .spawn _ | .join _ | .exit => .ok r
      | _ =>
        match actLoc a with
        | none => .ok r
        | some loc =>
          if !depLoc loc then .ok r else
          match a with
          | .st "V.wn" _ _ v => if v == 1 && s.a == .idle then .ok r else .error s!"unexpected store {v} to the vertex counter"
          | _ =>
            -- first action of an actor binds it to this thread
            let starter : Option Dep.Actor := match a with
              | .rmw "add" "dep.wn" _ _ _ _ => some .A
              | .ld "C.closure" _ .rlx _ => some .C
              | .ld "T.closure" _ .rlx _ => some .T
              | _ => none
            let r := match starter with
              | some x => { r with thr := (x, t) :: r.thr.filter (·.1 != x) }
              | none => r
            match depTry s (r.actorsOf t) a with
            | some s' => do let s' ← depCheck s'; pure { r with s := some s' }
            | none =>
              match a with
              | .ld _ _ .acq _ => .ok r        -- stutter: a look at a closure word by code outside the protocol
              | _ => .error s!"thread {t} did {reprStr a}, which is not the next action of its actors {reprStr (r.actorsOf t)} in model state {reprStr s}"

/- =========================================== L2: whole graphs =========================================== -/
open Babylon.Anyflow.Graph in
structure GR where
  verts : Array VertexSpec := #[]
  nData : Nat := 0
  envs : List (Nat × Option Val) := []
  p : Option Params := none
  s : State := State.init
  pendPub : List (Nat × Nat × Option Val) := []
  owedD : List Nat := []
  bindAdd : Bool := false
  bindFailOwed : Bool := false
  mainInFire : Bool := false
  code : Option Int := none
  inCycle : Bool := false
  allowSame : Bool := false      -- mode samedata: dependencies with condition = target are generated on purpose
  hidden : List Nat := []        -- external producers (harness kind 2): their processor only parks its vertex closure and
                                 -- the data is emitted by another thread — for the model such a data has no producer
                                 -- (the vertex is kept as an empty vertex so that indices agree) and its emitter is the
                                 -- environment; the parked closure is an ordinary open vertex closure (`vadd` / `vsub`)

open Babylon.Anyflow.Graph

def parseOV (s : String) : Option (Option Val) :=
  if s == "-" || s == "e" then some none else s.toNat?.map some

def parseDep (w : String) : Option DepSpec :=
  match w.splitOn ":" with
  | [t, c, ev, es] => do
    let t ← t.toNat?
    let cond ← if c == "-" then some none else c.toNat?.map (fun c => some (c, ev == "1"))
    pure { target := t, cond := cond, essential := es == "1" }
  | _ => none

def splitAt (ws : List String) (key : String) : List String × List String :=
  (ws.takeWhile (· != key), (ws.dropWhile (· != key)).drop 1)

/-- `v12.act` ↦ ('v', [12], "act");  `e3_1.wn` ↦ ('e', [3,1], "wn");  `ctx.cb` ↦ ('c', [], "cb") -/
def parseLoc (l : String) : Option (Char × List Nat × String) :=
  match l.splitOn "." with
  | [a, f] =>
    if a == "ctx" then some ('c', [], f)
    else
      let c := a.front
      match ((a.drop 1).toString.splitOn "_").mapM String.toNat? with
      | some ns => some (c, ns, f)
      | none => none
  | _ => none

def u64 (i : Int) : Nat := (i % 18446744073709551616).toNat

def GR.ev (r : GR) (e : Ev) (what : String) : Except String GR :=
  match r.p with
  | none => .error s!"{what}: no graph yet"
  | some p =>
    match stepEvent p r.s e with
    | some s' => .ok { r with s := s' }
    | none => .error s!"{what}: event {reprStr e} is not enabled in the model"

def mkParams (r : GR) (targets : List Nat) : Params :=
  let verts := r.verts.toList
  let emits := (verts.map (·.emits)).flatten
  let nIn := emits.foldl min r.nData
  let envs := r.envs
  { g := { nIn := nIn, nData := r.nData, verts := verts }, proc := mix,
    inp := fun d => (envs.find? (·.1 == d)).map (·.2), targets := targets }

def showOV : Option Val → String
  | some v => toString v
  | none => "-"

def graphObs (r : GR) (o : Obs) : Except String GR :=
  let t := o.tid
  match Act.ofObs o with
  | none => .error "unknown trace line"
  | some (.ev ("cycle" :: _)) =>
    -- a new cycle on the same graph instance: the model must accept `reset` and is then in its initial state
    if r.inCycle then
      match r.p with
      | some p =>
        match stepEvent p r.s .reset with
        | some s' => .ok { s := s', inCycle := true, allowSame := r.allowSame }
        | none => .error "reset: the model does not accept `reset` at the end of the previous cycle (run not completely finished)"
      | none => .ok { inCycle := true, allowSame := r.allowSame }
    else .ok { inCycle := true, allowSame := r.allowSame }
  | some (.ev ["graph", "ndata", n]) => .ok { r with nData := n.toNat?.getD 0 }
  | some (.ev ("graph" :: "vertex" :: _ :: "kind" :: k :: "emits" :: rest)) =>
    let (es, ds) := splitAt rest "deps"
    match es.mapM String.toNat?, ds.mapM parseDep with
    | some es, some ds =>
      if k == "2" then .ok { r with hidden := r.verts.size :: r.hidden, verts := r.verts.push { deps := [], emits := [] } }
      else .ok { r with verts := r.verts.push { deps := ds, emits := es } }
    | _, _ => .error "bad graph vertex line"
  | some (.ev ["env", d, x]) =>
    match d.toNat?, parseOV x with
    | some d, some x => .ok { r with envs := (d, x) :: r.envs }
    | _, _ => .error "bad env line"
  | some (.ev ("targets" :: ts)) =>
    match ts.mapM String.toNat? with
    | some ts =>
      let p := mkParams r ts
      if !wfB p then .error "the generated graph is not well-formed (topological numbering / unique producers / distinct targets)"
      else if !r.allowSame && !noSameDataB p then .error "a dependency's condition is its own target (outside WF; only mode samedata generates these)"
      else .ok { r with p := some p }
    | none => .error "bad targets line"
  | some (.ev ["publish", d, x]) =>
    match d.toNat?, parseOV x with
    | some d, some x => .ok { r with pendPub := (t, d, x) :: r.pendPub }
    | _, _ => .error "bad publish line"
  | some (.ev ("run" :: _)) => r.ev .run "run"
  | some (.ev ["activate", v]) =>
    match v.toNat? with
    | some v => if r.s.vact v then .ok r else .error s!"on_activate of vertex {v} without a successful activation CAS"
    | none => .error "bad activate line"
  | some (.ev ("invoke" :: v :: toks)) =>
    match v.toNat?, toks.mapM parseOV with
    | some v, some ins => r.ev (.procStart v ins) s!"processor of vertex {v} entered with inputs {toks}"
    | _, _ => .error "bad invoke line"
  | some (.ev ["done", v]) =>
    match v.toNat? with
    | some v => r.ev (.procEnd v) "processor left"
    | none => .error "bad done line"
  | some (.ev ["result", c]) =>
    match parseInt? c with
    | some c =>
      match r.s.fin with
      | some f => if (f == 0) == (c == 0) then .ok { r with code := some c } else .error s!"get() returned {c}, the model finished with {f}"
      | none => .error s!"get() returned {c} but the model's closure is not finished"
    | none => .error "bad result line"
  | some (.ev ["waited"]) =>
    if r.s.flushed == 0 then .error "wait() returned but the model's closure was not flushed"
    else if !r.s.lateEnv && (r.s.opened != 0 || r.s.procs != 0 || r.s.wvn != 0) then
      .error s!"wait() returned with {r.s.opened} open vertex closures / {r.s.procs} running processors in the model"
    else .ok r
  | some (.ev ["value", d, x]) =>
    match d.toNat?, r.p with
    | some d, some p =>
      if x == "unready" then
        if r.s.sealed d then .error s!"data {d} is not ready in the implementation but sealed in the model" else .ok r
      else
        match parseOV x with
        | some x =>
          if !r.s.sealed d then .error s!"data {d} is ready in the implementation but not in the model"
          else if r.s.val d != x then .error s!"data {d} = {showOV x} in the implementation, {showOV (r.s.val d)} in the model"
          else if r.code == some 0 && p.targets.contains d && evalSeq p d != x then
            .error s!"target {d} = {showOV x} after a successful run, evalSeq gives {showOV (evalSeq p d)}"
          else .ok r
        | none => .error "bad value line"
    | _, _ => .error "bad value line"
  | some (.ev _) | some (.spawn _) | some (.join _) | some .exit => .ok r
  | some a =>
    match actLoc a with
    | none => .ok r
    | some loc =>
      match parseLoc loc, r.p with
      | none, _ => .ok r
      | _, none => .ok r
      | some (c, ns, f), some p =>
        if c == 'v' && (match ns with | [v] => r.hidden.contains v | _ => false) then .ok r else
        match c, ns, f, a with
        | 'v', [v], "act", .cas _ _ _ _ _ _ _ ok _ =>
          if ok then r.ev (.activate v) s!"activation CAS of vertex {v} succeeded"
          else if r.s.vact v then .ok r else .error s!"activation CAS of vertex {v} failed but the model has it inactive"
        | 'v', [v], "wn", .st _ _ _ n =>
          if r.s.vact v && n == p.g.nDeps v then .ok r else .error s!"vertex {v}: stored count {n}, model expects {p.g.nDeps v} (activated={r.s.vact v})"
        | 'v', [v], "wn", .rmw "sub" _ _ _ old cnt =>
          if old != u64 (r.s.wn v) then .error s!"vertex {v}: counter was {old}, model has {r.s.wn v}"
          else r.ev (.vdec v cnt) s!"vertex {v} counter decremented by {cnt}"
        | 'e', [v, k], "wn", .rmw "add" _ _ _ _ _ =>
          if r.s.dactN v != k then .error s!"dependency {k} of vertex {v} activated, model expects dependency {r.s.dactN v} next"
          else r.ev (.dactivate v) s!"dependency {k} of vertex {v} activated"
        | 'd', [d], "closure", .cas _ _ weak _ _ _ desired ok _ =>
          if !weak then
            -- GraphData::bind
            if !r.bindAdd then .error "bind CAS without the preceding depend_data_add" else
            if p.targets[r.s.bindPc]? != some d then .error s!"bind of data {d}, model expects target index {r.s.bindPc}" else
            let willBind := !(r.s.sealed d || r.s.bound d)
            if willBind != ok then .error s!"bind CAS of data {d}: ok={ok}, model says {willBind}" else
            do let r ← r.ev .bind "bind"; pure { r with bindAdd := false, bindFailOwed := !ok }
          else if ok && desired == Babylon.Gen.Anyflow.sealedClosure then
            let x := ((r.pendPub.find? (fun q => q.1 == t && q.2.1 == d)).map (·.2.2)).getD none
            let r' := { r with pendPub := r.pendPub.filter (fun q => !(q.1 == t && q.2.1 == d)) }
            let wasBound := r.s.bound d
            let e : Ev := if !r.s.running then .envSeal d x else
              match p.g.producer d with
              | some (v, k) => .sealBy v k x
              | none => .envSeal d x
            do let r' ← r'.ev e s!"data {d} sealed with {showOV x} by thread {t}"
               pure (if wasBound then { r' with owedD := t :: r'.owedD } else r')
          else .ok r
        | 'c', [], "wdn", .rmw "add" _ _ _ _ _ => .ok { r with bindAdd := true }
        | 'c', [], "wdn", .rmw "sub" _ _ _ old _ =>
          let expect := r.s.wdn + (if r.bindAdd || r.bindFailOwed then 1 else 0)
          if old != expect then .error s!"closure data count was {old}, model has {expect}" else
          if r.bindFailOwed && t == 0 then .ok { r with bindFailOwed := false }
          else if r.owedD.contains t then do let r ← r.ev .dsub "depend_data_sub"; pure { r with owedD := r.owedD.erase t }
          else if t == 0 then do let r ← r.ev .fireD "fire (data)"; pure { r with mainInFire := true }
          else .error s!"thread {t} decrements the closure's data count without having sealed a bound data"
        | 'c', [], "wvn", .rmw "add" _ _ _ old _ =>
          if old != r.s.wvn then .error s!"closure vertex count was {old}, model has {r.s.wvn}" else r.ev .vadd "vertex closure created"
        | 'c', [], "wvn", .rmw "sub" _ _ _ old _ =>
          if old != r.s.wvn then .error s!"closure vertex count was {old}, model has {r.s.wvn}"
          else if t == 0 && r.mainInFire then do let r ← r.ev .fireV "fire (vertex)"; pure { r with mainInFire := false }
          else r.ev .vsub "vertex closure done"
        | 'c', [], "cb", .cas _ _ _ _ _ _ _ ok _ =>
          if ok then r.ev (.finish (if r.s.wdn == 0 then 0 else -1)) "mark_finished" else .ok r
        | _, _, _, _ => .ok r

/- =========================================== dispatch =========================================== -/
inductive R
  | dep (r : DepR)
  | graph (r : GR)

def initR (hdr : List String) : R :=
  if hdr.contains "mode=dep" then .dep {} else .graph { allowSame := hdr.contains "mode=samedata" }

def stepObs (r : R) (o : Obs) : Except String R :=
  match r with
  | .dep d => (depObs d o).map .dep
  | .graph g => (graphObs g o).map .graph

def finalR (_ : R) : Except String Unit := .ok ()

def main : IO Unit := do
  replayLoop (← IO.getStdin) initR stepObs finalR
