import Babylon.Core.Trace
import Babylon.Epoch.Model
/-! Lock-step replay driver for property C09 (Epoch).
stdin: runs `RUN <seed> mode=acc|tls bs=<n> n0=<n> nb0=<n> tbl0=<ptr> …` / VRT trace lines / `END`;
stdout per run: `ok <n>` | `diverge <why>`.

Every atomic trace line of a thread that is inside an Epoch call must be exactly the model thread's
next action (kind, location, memory order, values); loads read the latest message (VRT executes
sequentially consistent interleavings) while the model's view bookkeeping runs along, so the
client-contract checks that need views (Accessor hand-over ordered by release/acquire, reclamation
only of epochs the model marks reclaimable) are decided on the real execution.  Atomic lines of a
thread outside any call are client accesses (`cl+k`).  Thread creation / join are release/acquire
transfers on reserved client cells. -/
open Babylon.Core Babylon.Core.MemView Babylon.Epoch

structure RState where
  c : Cfg
  o : Orders
  s : State
  ptrs : List (Nat × Nat)      -- block-table pointer value ↦ number of blocks
  pend : List (Nat × Nat)      -- thread inside allocate() ↦ the id the implementation is going to return

def hdrNat (hdr : List String) (key : String) (dflt : Nat) : Nat :=
  (hdr.filterMap (fun h => if h.startsWith (key ++ "=") then (h.drop (key.length + 1)).toNat? else none)).head?.getD dflt

def initR (hdr : List String) : RState :=
  let tls := hdr.contains "mode=tls"
  let c : Cfg := { tls := tls, bs := hdrNat hdr "bs" 1024, n0 := hdrNat hdr "n0" 0, nb0 := hdrNat hdr "nb0" 0 }
  { c := c, o := genOrders, s := State.init c, ptrs := [(hdrNat hdr "tbl0" 0, c.nb0)], pend := [] }

def showPc (p : Pc) : String := reprStr p

def spawnCell (child : Nat) : Nat := 100000 + child
def exitCell (child : Nat) : Nat := 200000 + child

/-- the model thread performs its next action reading the latest message -/
def modelStep (r : RState) (t : Nat) : Option (State × Act) :=
  stepThread r.c r.o r.s t (latest r.s (nextLoc r.c r.s t))

def lookupPtr (ptrs : List (Nat × Nat)) (p : Nat) : Option Nat := (ptrs.find? (·.1 == p)).map (·.2)

/-- rewrite the pointer values of a `tbl` trace line into block counts; the desired value of a CAS
is taken from the model's own action (the pointer is fresh) -/
def translate (ptrs : List (Nat × Nat)) (impl model : Act) : Except String Act :=
  match impl, model with
  | .ld "tbl" 0 o p, _ =>
    match lookupPtr ptrs p with
    | some nb => .ok (.ld "tbl" 0 o nb)
    | none => .error s!"block table pointer {p} was never installed"
  | .cas "tbl" 0 w so fo e _ ok obs, .cas _ _ _ _ _ _ d' _ _ =>
    match lookupPtr ptrs e, lookupPtr ptrs obs with
    | some e', some obs' => .ok (.cas "tbl" 0 w so fo e' d' ok obs')
    | _, _ => .error s!"block table pointer {e} / {obs} was never installed"
  | a, _ => .ok a

def idleCheck (r : RState) (t : Nat) (what : String) : Except String Unit :=
  if r.s.pc t = .idle then .ok () else .error s!"{what} while the model thread is at {showPc (r.s.pc t)}"

def retCheck (r : RState) (t : Nat) (what : String) (v : Option Nat) : Except String RState :=
  if r.s.pc t ≠ .idle then .error s!"implementation returned from {what} but the model thread is at {showPc (r.s.pc t)}"
  else match v with
    | none => .ok r
    | some x => if r.s.ret t = some x then .ok r else .error s!"{what} returned {x}, model says {reprStr (r.s.ret t)}"

/-- start of create_accessor / first use of the thread id; `i` = the index the implementation will
return (found by look-ahead in the trace).  Whether `allocate()` pops or mints is decided when the
thread's next visible action arrives (`settleAlloc`). -/
def doCreate (r : RState) (t i : Nat) : Except String RState := do
  idleCheck r t "call create"
  if r.c.tls ∧ r.s.tslot t ≠ none then throw "thread already has a thread id in the model"
  pure { r with s := callCreate r.s t, pend := (t, i) :: r.pend.filter (·.1 != t) }

/-- the free-list pop of `allocate()` is invisible in the trace (C14's business): perform it in the
model just before the thread's next visible action, unless that action is the minting RMW -/
def settleAlloc (r : RState) (t : Nat) (minting : Bool) : Except String RState :=
  if r.s.pc t ≠ .cr0 ∨ minting then .ok r else
  match r.pend.find? (·.1 == t) with
  | none => .error "thread is inside allocate() but no returned id is known"
  | some (_, i) =>
    match stepThread r.c r.o r.s t (i + 1) with
    | some (s2, _) => .ok { r with s := s2 }
    | none => .error s!"implementation reuses id {i} which is not free in the model ({reprStr (r.s.own i)})"

def holderOf (r : RState) (i : Nat) : Option Nat :=
  match r.s.own i with
  | .held h => some h
  | _ => none

def doEvent (r : RState) (t : Nat) (ws : List String) : Except String RState :=
  match ws with
  | ["call", "create", i] | ["call", "tlsinit", i] =>
    match i.toNat? with
    | some i => doCreate r t i
    | none => .error "no index for create (trace truncated?)"
  | ["ret", "create", i] | ["ret", "tlsinit", i] => retCheck r t "create" i.toNat?
  | ["call", "lock", i] =>
    match i.toNat? with
    | none => .error "bad index"
    | some i => do
      idleCheck r t "call lock"
      if r.s.own i ≠ .held t then throw s!"client contract: thread {t} locks accessor {i} it does not hold in the model"
      if r.c.tls then
        if r.s.tslot t ≠ some i then throw s!"thread-local lock on slot {i} but the model thread id is {reprStr (r.s.tslot t)}"
        pure { r with s := callLockT r.s t i }
      else pure { r with s := callLock r.s t i }
  | ["call", "unlock", i] =>
    match i.toNat? with
    | none => .error "bad index"
    | some i => do
      idleCheck r t "call unlock"
      if r.s.own i ≠ .held t then throw s!"client contract: thread {t} unlocks accessor {i} it does not hold in the model"
      if r.s.lt i = 0 then throw s!"client contract: unlock of slot {i} without lock"
      pure { r with s := callUnlock r.s t i }
  | ["call", "release", i] =>
    match i.toNat? with
    | none => .error "bad index"
    | some i => do
      idleCheck r t "call release"
      if r.c.tls then throw "Accessor::release in a thread-local style run"
      if r.s.own i ≠ .held t then throw s!"client contract: thread {t} releases accessor {i} it does not hold in the model"
      pure { r with s := callRelease r.s t i }
  | ["call", "tlsexit", i] =>
    match i.toNat? with
    | none => .error "bad index"
    | some i => do
      idleCheck r t "thread exit"
      if r.s.own i ≠ .held t then throw s!"client contract: thread {t} returns thread id {i} it does not hold in the model"
      if r.s.lt i ≠ 0 then throw s!"client contract: thread exit inside a region of slot {i}"
      match stepThread r.c r.o (callReleaseT r.s t i) t 0 with
      | some (s2, _) => pure { r with s := s2 }
      | none => throw "model cannot push the id"
  | ["ret", "lock"] => retCheck r t "lock" none
  | ["ret", "unlock"] => retCheck r t "unlock" none
  | ["ret", "release"] => retCheck r t "release" none
  | ["call", "tick"] => do idleCheck r t "call tick"; pure { r with s := callTick r.s t }
  | ["ret", "tick", e] => retCheck r t "tick" e.toNat?
  | ["call", "lwm"] => do idleCheck r t "call lwm"; pure { r with s := callScan r.s t }
  | ["ret", "lwm", m] => retCheck r t "low_water_mark" m.toNat?
  | ["move", i] =>
    match i.toNat? with
    | none => .error "bad index"
    | some i => do
      idleCheck r t "move"
      match holderOf r i with
      | none => throw s!"accessor {i} moved but nobody holds it in the model"
      | some h =>
        if (r.s.pc h).uses i then throw s!"accessor {i} moved while its holder {h} is inside a call on it"
        if r.s.av i ≤ r.s.cur t then pure { r with s := move r.s i t }
        else throw s!"client contract: hand-over of accessor {i} from thread {h} to thread {t} is not ordered by release/acquire (receiver view {reprStr (r.s.cur t).ents}, needed {reprStr (r.s.av i).ents})"
  | ["free", _, e] =>
    match e.toNat? with
    | none => .error "bad epoch"
    | some e =>
      if r.s.recl e then .ok r
      else .error s!"implementation reclaims epoch {e} which the model does not mark reclaimable"
  | _ => .ok r

def stepObs (r0 : RState) (ob : Obs) : Except String RState := do
  let t := ob.tid
  let minting := match Act.ofObs ob with
    | some (.rmw "add" l _ _ _ _) => l == r0.c.cnt.name.1
    | some (.ev ("call" :: _)) => true
    | _ => false
  let r ← settleAlloc r0 t minting
  match Act.ofObs ob with
  | none => .error "unknown trace line"
  | some (.ev ws) => doEvent r t ws
  | some (.race ws) => .error s!"data race reported by the happens-before monitor: {ws}"
  | some (.spawn child) =>
    -- thread creation synchronises: release store by the parent, acquire load by the child
    let (s1, _) := clientStore r.s t (spawnCell child) .rel 1
    match clientLoad s1 child (spawnCell child) .acq (latest s1 (.cl (spawnCell child))) with
    | some (s2, _) => .ok { r with s := s2 }
    | none => .error "spawn transfer failed"
  | some .exit =>
    let (s1, _) := clientStore r.s t (exitCell t) .rel 1
    .ok { r with s := s1 }
  | some (.join child) =>
    match clientLoad r.s t (exitCell child) .acq (latest r.s (.cl (exitCell child))) with
    | some (s2, _) => .ok { r with s := s2 }
    | none => .error "join transfer failed"
  | some a =>
    if r.s.pc t = .idle then
      -- client access
      match a with
      | .ld "cl" k o v =>
        match clientLoad r.s t k o (latest r.s (.cl k)) with
        | some (s2, l) => if l = a then .ok { r with s := s2 } else .error s!"client load: model memory holds {reprStr l}, implementation read {v}"
        | none => .error "client load not admissible"
      | .st "cl" k o v => .ok { r with s := (clientStore r.s t k o v).1 }
      | .xchg "cl" k o _ v =>
        match clientXchg r.s t k o v with
        | some (s2, l) => if l = a then .ok { r with s := s2 } else .error s!"client exchange: model {reprStr l}, implementation {reprStr a}"
        | none => .error "client exchange failed"
      | .fence o => .ok { r with s := (clientFence r.s t o).1 }
      | _ => .error s!"implementation performs {reprStr a} but the model thread is idle"
    else
      match (if r.s.pc t = .cr0 then stepThread r.c r.o r.s t 0 else modelStep r t) with
      | none => .error s!"model thread at {showPc (r.s.pc t)} cannot move"
      | some (s', l) =>
        match translate r.ptrs a l with
        | .error e => .error e
        | .ok a' =>
          if l = a' then
            let ptrs := match a, l with
              | .cas "tbl" 0 _ _ _ _ d true _, .cas _ _ _ _ _ _ d' _ _ => (d, d') :: r.ptrs
              | _, _ => r.ptrs
            -- `deallocate` is invisible in the trace (C14's business): perform it as soon as the
            -- model thread reaches it, so that the id is free in the model no later than in reality
            let s'' := match s'.pc t with
              | .rl2 _ => (match stepThread r.c r.o s' t 0 with | some (s2, _) => s2 | none => s')
              | _ => s'
            .ok { r with s := s'', ptrs := ptrs }
          else .error s!"model expects {reprStr l}, implementation did {reprStr a'}"

def finalR (_r : RState) : Except String Unit := .ok ()

/-- look-ahead: give every `call create` / `call tlsinit` the index its matching `ret` reports -/
def annotate (lines : Array String) : Array String := Id.run do
  let mut out := lines
  for i in [0:lines.size] do
    let ws := words lines[i]!
    match ws with
    | [t, "ev", "call", what] =>
      if what == "create" || what == "tlsinit" then
        let mut found : Option String := none
        for j in [i+1:lines.size] do
          if found.isNone then
            match words lines[j]! with
            | [t', "ev", "ret", what', idx] => if t' == t && what' == what then found := some idx
            | _ => pure ()
        match found with
        | some idx => out := out.set! i s!"{t} ev call {what} {idx}"
        | none => pure ()
    | _ => pure ()
  return out

partial def loop (h : IO.FS.Stream) : IO Unit := do
  let line ← h.getLine
  if line.isEmpty then return ()
  match words line with
  | "RUN" :: hdr =>
    let rec collect (acc : Array String) : IO (Array String) := do
      let l ← h.getLine
      if l.isEmpty || l.trimAscii.toString == "END" then return acc
      collect (acc.push l)
    let ls ← collect #[]
    let (n, err, s) := replay stepObs (initR hdr) (annotate ls).toList
    match err with
    | some e => IO.println s!"diverge {e}"
    | none =>
      match finalR s with
      | .ok _ => IO.println s!"ok {n}"
      | .error e => IO.println s!"diverge at end of trace: {e}"
    loop h
  | _ => loop h

def main : IO Unit := do
  loop (← IO.getStdin)
