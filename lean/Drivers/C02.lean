import Babylon.BQ.Replay
/-! Lock-step replay driver for property C02 (ConcurrentBoundedQueue wake-ups); shared with C01. -/
def main : IO Unit := Babylon.BQ.replayMain
