import Babylon.Core.Trace
import Babylon.Pages.Model
/-! Lock-step replay driver for property C17 (page allocators / object pool).
stdin: runs `RUN <seed> mode=… cap=… batch=… count=… pool=… threads=…` / VRT trace lines / `END`;
stdout per run: `ok <n>` | `diverge <why>`.
Every atomic operation on the queue's ticket counters and slot words, every fence and every harness event
must be exactly the next action of that thread in `Babylon.Pages.stepThread` (silent thread-local moves
of the model are taken eagerly before the thread's next visible action).  Events-only traces (the ASan
build of the harness, one thread) are replayed with `L2=1`: the model runs its own atomic steps between
two events. -/
open Babylon.Core Babylon.Pages

structure RState where
  c : Cfg
  s : State
  l2 : Bool := false          -- events only (single thread): atomic steps are internal
  poolDtor : Bool := false
  destroyed : List Nat := []
  nQuiescent : Nat := 0

def hdrVal (hdr : List String) (key : String) : Option String :=
  (hdr.filterMap (fun h => if h.startsWith (key ++ "=") then some (h.drop (key.length + 1)).toString else none)).head?

def initR (hdr : List String) : RState :=
  let nat (k : String) : Nat := ((hdrVal hdr k).bind String.toNat?).getD 0
  let mode := match hdrVal hdr "mode" with
    | some "strict" => Mode.poolStrict
    | some "auto" => Mode.poolAuto
    | _ => Mode.pages
  let count := match hdrVal hdr "count" with
    | some "pre" => CountMode.pre
    | some "post" => CountMode.post
    | _ => CountMode.off
  let c : Cfg := { cap := nat "cap", nthreads := nat "threads", batch := nat "batch", count := count, mode := mode, poolCap := nat "pool" }
  { c := c, s := State.initAt c (nat "base"), l2 := nat "L2" == 1 }

def showPc (p : Pc) : String := reprStr p

/-- normalise an observed action: slot words carry the waiter flag in their high half -/
def normAct : Act → Act
  | .ld "slot" off o v => .ld "slot" off o (v % Babylon.Gen.Pages.verMod)
  | .xchg "slot" off o old new => .xchg "slot" off o (old % Babylon.Gen.Pages.verMod) (new % Babylon.Gen.Pages.verMod)
  | a => a

def isEvent : Option Act → Bool
  | some (.ev _) => true
  | _ => false

/-- take silent steps of thread `t`, then its next visible step, which must be `a` -/
def matchStep (c : Cfg) (fuel : Nat) (s : State) (t : Nat) (a : Act) (tok : Nat) (spur : Bool) : Except String State :=
  match fuel with
  | 0 => .error "too many silent steps"
  | fuel + 1 =>
    match stepThread c s t tok spur with
    | none => .error s!"implementation performs {reprStr a} but the model thread is at {showPc (s.th t).pc} with no enabled step (idle, or a guard of the assumed queue specification fails)"
    | some (s', none) => matchStep c fuel s' t a tok spur
    | some (s', some l) =>
      if l = normAct a then .ok s' else .error s!"model expects {reprStr l}, implementation did {reprStr a}"

/-- events-only replay: run thread `t` (silent and atomic steps) until its next step is the event `a` -/
def matchEvent (c : Cfg) (fuel : Nat) (s : State) (t : Nat) (a : Act) (tok : Nat) : Except String State :=
  match fuel with
  | 0 => .error "no event after too many internal steps (spinning forever?)"
  | fuel + 1 =>
    match stepThread c s t tok false with
    | none => .error s!"implementation emits {reprStr a} but the model thread is at {showPc (s.th t).pc} with no enabled step"
    | some (s', l) =>
      if isEvent l then (if l = some a then .ok s' else .error s!"model expects {reprStr l}, implementation did {reprStr a}")
      else matchEvent c fuel s' t a tok

/-- run thread `t` until it waits for its `ret` event (silent steps only; in L2 mode also atomic steps) -/
def runToRet (c : Cfg) (l2 : Bool) (fuel : Nat) (s : State) (t : Nat) : Except String State :=
  match fuel with
  | 0 => .error "call does not finish"
  | fuel + 1 =>
    if (s.th t).pc = .retWait then .ok s else
    match stepThread c s t 0 false with
    | none => .error s!"implementation returned but the model thread is at {showPc (s.th t).pc} with no enabled step"
    | some (s', none) => runToRet c l2 fuel s' t
    | some (s', some l) =>
      if l2 && !isEvent (some l) then runToRet c l2 fuel s' t
      else .error s!"implementation returned but the model's next action is {reprStr l}"

def doCall (r : RState) (t : Nat) (op : Op) : Except String RState :=
  match callOp r.c r.s t op with
  | some s' => .ok { r with s := s' }
  | none => .error s!"call {reprStr op} is not allowed in the model (thread at {showPc (r.s.th t).pc}, or the client contract fails: tokens not held / not fresh)"

def doRet (r : RState) (t : Nat) (kind : OpKind) (result : List Nat) : Except String RState := do
  let s1 ← runToRet r.c r.l2 100000 r.s t
  let th := s1.th t
  if th.kind ≠ kind then throw s!"implementation returns from {reprStr kind}, model thread is inside {reprStr th.kind}"
  if th.result ≠ result then throw s!"implementation returned {result}, model says {th.result}"
  match retOp r.c s1 t with
  | some s2 => pure { r with s := s2 }
  | none => throw "model cannot return"

def stepObs (r : RState) (o : Obs) : Except String RState :=
  let t := o.tid
  if t ≥ r.c.nthreads then .error s!"thread {t} outside the configured {r.c.nthreads} threads" else
  match Act.ofObs o with
  | none => .error "unknown trace line"
  | some (.ev ("ORACLE" :: _)) | some (.ev ("stats" :: _)) => .ok r
  | some (.spawn _) | some (.join _) | some .exit => .ok r
  | some (.fwait _ _ _ _) | some (.fwoke _ _ _) | some (.fwake _ _ _ _) => .ok r
  | some (.race ws) => .error s!"payload race {ws}"
  | some (.ev ["call", "alloc", n]) =>
    match n.toNat? with
    | some n => doCall r t (.alloc n)
    | none => .error "bad number"
  | some (.ev ("ret" :: "alloc" :: ids)) =>
    match ids.mapM String.toNat? with
    | some ids => doRet r t .alloc ids
    | none => .error "bad ids"
  | some (.ev ("call" :: "dealloc" :: ids)) =>
    match ids.mapM String.toNat? with
    | some ids => doCall r t (.dealloc ids)
    | none => .error "bad ids"
  | some (.ev ["ret", "dealloc"]) => doRet r t .dealloc []
  | some (.ev ["call", "dtor"]) => doCall r t .dtor
  | some (.ev ["ret", "dtor"]) => do
    let r' ← doRet r t .dtor []
    if !(cacheToks r'.s).isEmpty then throw s!"destructor returned, model cache still holds {cacheToks r'.s}"
    pure r'
  | some (.ev ("call" :: "bdtor" :: order)) =>
    match order.mapM String.toNat? with
    | some order => doCall r t (.bdtor order)
    | none => .error "bad order"
  | some (.ev ["ret", "bdtor"]) => do
    let r' ← doRet r t .bdtor []
    if !r'.s.bufs.flatten.isEmpty then throw s!"batch destructor returned, model thread buffers still hold {r'.s.bufs.flatten}"
    pure r'
  | some (.ev ["inject", o]) =>
    match o.toNat? with
    | some o => doCall r t (.inject o)
    | none => .error "bad id"
  | some (.ev ["call", "pop"]) => doCall r t .pop
  | some (.ev ["call", "trypop"]) => doCall r t .tryPop
  | some (.ev ["call", "push", o]) =>
    match o.toNat? with
    | some o => doCall r t (.push o)
    | none => .error "bad id"
  | some (.ev ["ret", "push"]) => doRet r t .push []
  | some (.ev ["ret", w, x]) =>
    let kind := if w == "pop" then OpKind.pop else OpKind.tryPop
    if w != "pop" && w != "trypop" then .error "unknown ret" else
    if x == "null" then doRet r t kind []
    else match x.toNat? with
      | some x => doRet r t kind [x]
      | none => .error "bad id"
  | some (.ev ["cached", n]) =>
    if !quiescentB r.c r.s then .error "harness reports a quiescent point, model threads are not idle"
    else if !qshapeB r.c r.s then .error "quiescent shape of the queue (assumed: C01 bq_inv) does not hold in the model state"
    else if n.toNat? ≠ some (cacheToks r.s).length then .error s!"implementation caches {n} tokens, model {(cacheToks r.s).length}"
    else if r.s.obtained ≠ r.s.returned + (toks r.c r.s).length then .error "model conservation broken"
    else .ok { r with nQuiescent := r.nQuiescent + 1 }
  | some (.ev ["count", n]) =>
    if n.toNat? = some r.s.counter.toNat then .ok r else .error s!"allocated page counter {n}, model {r.s.counter}"
  | some (.ev ["hits", a, b]) =>
    if a.toNat? = some r.s.hitSum ∧ b.toNat? = some r.s.hitNum then .ok r
    else .error s!"cache_hit_summary {a}/{b}, model {r.s.hitSum}/{r.s.hitNum}"
  | some (.ev ["call", "pooldtor"]) =>
    if quiescentB r.c r.s then .ok { r with poolDtor := true } else .error "pool destroyed while threads are inside"
  | some (.ev ["ret", "pooldtor"]) =>
    if r.destroyed.mergeSort = (cacheToks r.s).mergeSort then .ok r
    else .error s!"pool destructor destroyed {r.destroyed}, model cache holds {cacheToks r.s}"
  | some (.ev [w, p]) =>
    match p.toNat? with
    | none => .error "bad token"
    | some p =>
      if r.poolDtor then
        if w == "up_free" then .ok { r with destroyed := p :: r.destroyed } else .error "event during pool destruction"
      else if w == "up_alloc" || w == "up_free" || w == "recycle" then
        (if r.l2 then matchEvent r.c 100000 r.s t (.ev [w, toString p]) p else matchStep r.c 10000 r.s t (.ev [w, toString p]) p false).map
          (fun s' => { r with s := s' })
      else .error "unknown event"
  | some (.ev _) => .error "unknown event"
  | some a =>
    let pc := (r.s.th t).pc
    match a with
    | .fence _ => if pc = .idle then .ok r else (matchStep r.c 10000 r.s t a 0 false).map (fun s' => { r with s := s' })
    | _ =>
    if pc = .idle then
      -- size() / harness inspection of the counters at a quiescent point
      match a with
      | .ld "popi" 0 _ v => if v = r.s.popIdx then .ok r else .error s!"popi is {v}, model {r.s.popIdx}"
      | .ld "pushi" 0 _ v => if v = r.s.pushIdx then .ok r else .error s!"pushi is {v}, model {r.s.pushIdx}"
      | _ => .error s!"implementation performs {reprStr a} but the model thread is idle"
    else
      let waitNoise : Bool := match a with
        | .ld "slot" _ _ _ => decide (pc = .dlWait)
        | .cas "slot" _ _ _ _ _ _ _ _ => decide (pc = .dlWait)
        | _ => false
      if waitNoise then .ok r else
      let spur := match a with
        | .cas _ _ true _ _ e _ ok obs => !ok && e == obs
        | _ => false
      (matchStep r.c 10000 r.s t a 0 spur).map (fun s' => { r with s := s' })

def finalR (r : RState) : Except String Unit :=
  if !quiescentB r.c r.s then .error "trace ended with a model thread inside a call"
  else if !(toks r.c r.s).Nodup then .error "model reached a state where a token is in two places"
  else if r.s.obtained ≠ r.s.returned + (toks r.c r.s).length then .error "model conservation broken"
  else .ok ()

def main : IO Unit := do
  replayLoop (← IO.getStdin) initR stepObs finalR
