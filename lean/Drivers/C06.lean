import Babylon.Core.Proto
import Babylon.Arena.Model
/-! Line-protocol driver for the monotonic buffer resource model (property C06).

Two registers `A`, `B` (resources), two page allocators `0`, `1` and two upstream resources `0`, `1`.
The allocators are the *environment* of the model; here they are the same deterministic placement
policies the harness (`harness/c06.cpp`) implements on real memory, so that every address is the
offset from the harness's arena base and both sides print identical lines.

  zone size Z = 2^26; page allocator i lives in [(1+i)Z, (2+i)Z), upstream j in [(3+j)Z, (4+j)Z)
  page allocator: policy 0 = ascending adjacent pages, 1 = descending adjacent, 2 = odd multiples
                  of the page size (gaps); reuse = 1 keeps a LIFO free list of returned pages
  upstream:       bump cursor, policy 0 = tight (next aligned address), 1 = additionally never more
                  aligned than requested; zero-byte requests consume one byte
-/
open Babylon.Core Babylon.Arena

def zone : Nat := 2 ^ 26

structure PA where
  ps : Nat := 256
  policy : Nat := 0
  reuse : Bool := false
  fresh : Nat := 0
  free : List Nat := []
  deriving Inhabited

def PA.freshAddr (p : PA) (i n : Nat) : Nat :=
  let base := (1 + i) * zone
  match p.policy with
  | 0 => base + n * p.ps
  | 1 => base + zone - (n + 1) * p.ps
  | _ => base + (2 * n + 1) * p.ps

/-- the next `k` pages the allocator would hand out, and the allocator after handing them out -/
def PA.take (p : PA) (i : Nat) : Nat → PA × List Nat
  | 0 => (p, [])
  | k + 1 =>
    let (p1, a) :=
      match (if p.reuse then p.free else []) with
      | x :: rest => ({ p with free := rest }, x)
      | [] => ({ p with fresh := p.fresh + 1 }, p.freshAddr i p.fresh)
    let (p2, l) := p1.take i k
    (p2, a :: l)

def PA.give (p : PA) (pages : List Nat) : PA :=
  pages.foldl (fun q x => { q with free := x :: q.free }) p

structure UP where
  policy : Nat := 0
  cursor : Nat := 64
  deriving Inhabited

def UP.alloc (u : UP) (j bytes align : Nat) : UP × Nat :=
  let base := (3 + j) * zone
  let al := if align = 0 then 1 else align
  let a0 := alignUp (base + u.cursor) al
  let a := if u.policy = 1 ∧ a0 % (2 * al) = 0 then a0 + al else a0
  ({ u with cursor := a + (if bytes = 0 then 1 else bytes) - base }, a)

structure St where
  sys : Sys := ⟨Arena.fresh 0 256 0, Arena.fresh 1 256 1⟩
  pa0 : PA := {}
  pa1 : PA := {}
  up0 : UP := {}
  up1 : UP := {}

def St.pa (s : St) (i : Nat) : PA := if i = 0 then s.pa0 else s.pa1
def St.setPa (s : St) (i : Nat) (p : PA) : St := if i = 0 then { s with pa0 := p } else { s with pa1 := p }
def St.upr (s : St) (j : Nat) : UP := if j = 0 then s.up0 else s.up1
def St.setUp (s : St) (j : Nat) (u : UP) : St := if j = 0 then { s with up0 := u } else { s with up1 := u }

def showEv : Ev → Option String
  | .pageAlloc pa a => some s!"P+{pa}:{a}"
  | .upAlloc up a b al => some s!"U+{up}:{a}:{b}:{al}"
  | .dtor t => some s!"D{t}"
  | .pageFree pa a => some s!"P-{pa}:{a}"
  | .upFree up a b al => some s!"U-{up}:{a}:{b}:{al}"
  | .write _ _ => none
  | .read _ _ => none

def showEvs (evs : List Ev) : String := " ".intercalate (evs.filterMap showEv)

def showArena (a : Arena) : String :=
  let pa := match a.pageArrs with | [] => "0:0" | x :: _ => s!"{x.addr}:{x.pages.length}"
  let ov := match a.ovArrs with | [] => "0:0" | x :: _ => s!"{x.addr}:{x.ents.length}"
  let dt := match a.dtArrs with | [] => "0:0" | x :: _ => s!"{x.addr}:{x.tasks.length}"
  s!"fb={a.freeBegin} fe={a.freeEnd} used={a.spaceUsed} alloc={a.spaceAllocated} pa={pa} ov={ov} dt={dt}"

/-- environment bookkeeping after an operation: commit the allocator calls / returns it made -/
def St.commit (s : St) (evs : List Ev) : St :=
  evs.foldl (fun s ev =>
    match ev with
    | .pageAlloc pa _ => s.setPa pa ((s.pa pa).take pa 1).1
    | .pageFree pa a => s.setPa pa ((s.pa pa).give [a])
    | .upAlloc up _ b al => s.setUp up ((s.upr up).alloc up b al).1
    | _ => s) s

def reg? (r : String) : Option Bool := if r == "A" then some false else if r == "B" then some true else none

/-- answers the environment would give to the next operation of resource `x` -/
def St.envFor (s : St) (x : Arena) (bytes align : Nat) : Env :=
  let pg := ((s.pa x.pa).take x.pa 2).2
  let up := match x.upRequest bytes align with
    | some (b, al) => ((s.upr x.up).alloc x.up b al).2
    | none => 0
  ⟨pg.getD 0 0, pg.getD 1 0, up⟩

def userBlocks (x : Arena) : List Block := (x.blocks.filter (·.kind == .user)).reverse

def step (paths : Bool) (s : St) (line : String) : St × String :=
  match words line with
  | ["reset"] => ({}, "ok")
  | ["end"] =>
    let (sys1, ev1) := s.sys.step (.renew false 0 256 0)
    let (_, ev2) := sys1.step (.renew true 1 256 1)
    ({}, s!"ok | {showEvs (ev1 ++ ev2)}")
  | ["pa", i, ps, pol, reuse] =>
    match i.toNat?, ps.toNat?, pol.toNat?, reuse.toNat? with
    | some i, some ps, some pol, some reuse => (s.setPa i { ps := ps, policy := pol, reuse := reuse != 0 }, "ok")
    | _, _, _, _ => (s, "bad-op")
  | ["up", j, pol] =>
    match j.toNat?, pol.toNat? with
    | some j, some pol => (s.setUp j { policy := pol }, "ok")
    | _, _ => (s, "bad-op")
  | ["new", r, i, j] =>
    match reg? r, i.toNat?, j.toNat? with
    | some r, some i, some j =>
      let (sys, evs) := s.sys.step (.renew r i (s.pa i).ps j)
      let s := { s with sys := sys }.commit evs
      (s, s!"ok | {showArena (s.sys.get r)} | {showEvs evs}")
    | _, _, _ => (s, "bad-op")
  | ["move", a, b] =>
    match reg? a, reg? b with
    | some a, some b =>
      let (sys, _) := s.sys.step (.move a b)
      ({ s with sys := sys }, s!"ok | {showArena sys.a} | {showArena sys.b}")
    | _, _ => (s, "bad-op")
  | [r, "alloc", bytes, align] =>
    match reg? r, bytes.toNat?, align.toNat? with
    | some r, some bytes, some align =>
      if align = 0 ∨ align &&& (align - 1) ≠ 0 then (s, "bad-op") else
      let x := s.sys.get r
      let e := s.envFor x bytes align
      let (x', p, evs) := x.allocate bytes align .user e
      let s := { s with sys := s.sys.set r x' }.commit evs
      let extra := if paths then s!" path={repr (x.allocPath bytes align)}" else ""
      (s, s!"ret={p} | {showArena x'} | {showEvs evs}{extra}")
    | _, _, _ => (s, "bad-op")
  | [r, "reg", tag] =>
    match reg? r, tag.toNat? with
    | some r, some tag =>
      let x := s.sys.get r
      let e := s.envFor x Babylon.Gen.Arena.sizeofDtArray Babylon.Gen.Arena.alignofDtArray
      let (sys, evs) := s.sys.step (.on r (.reg tag e))
      let s := { s with sys := sys }.commit evs
      let extra := if paths then (if x.dtRoom then " path=dtRoom" else s!" path=dtNew+{repr (x.allocPath Babylon.Gen.Arena.sizeofDtArray Babylon.Gen.Arena.alignofDtArray)}") else ""
      (s, s!"ok | {showArena (sys.get r)} | {showEvs evs}{extra}")
    | _, _ => (s, "bad-op")
  | [r, "release"] =>
    match reg? r with
    | some r =>
      let (sys, evs) := s.sys.step (.on r .release)
      let s := { s with sys := sys }.commit evs
      (s, s!"ok | {showArena (sys.get r)} | {showEvs evs}")
    | none => (s, "bad-op")
  | [r, "contains", kind, k, off] =>
    match reg? r, k.toNat?, parseInt? off with
    | some r, some k, some off =>
      let x := s.sys.get r
      let base : Option Nat :=
        if kind == "abs" then some k
        else if kind == "fb" then some x.freeBegin
        else if kind == "fe" then some x.freeEnd
        else if kind == "b" then
          let bs := userBlocks x
          if bs.isEmpty then some 0 else (bs[k % bs.length]?).map (·.addr)
        else if kind == "o" then   -- a block of the *other* register
          let bs := userBlocks (s.sys.get (!r))
          if bs.isEmpty then some 0 else (bs[k % bs.length]?).map (·.addr)
        else none
      match base with
      | some b =>
        let ptr := (b : Int) + off
        if ptr < 0 then (s, "bad-op") else (s, s!"{x.contains ptr.toNat} | {showArena x} | ")
      | none => (s, "bad-op")
    | _, _, _ => (s, "bad-op")
  | _ => (s, "bad-op")

def main (args : List String) : IO Unit := runLines (step (args.contains "paths")) ({} : St)
