import Babylon.BQ.Replay
/-! Lock-step replay driver for property C01 (ConcurrentBoundedQueue); shared with C02. -/
def main : IO Unit := Babylon.BQ.replayMain
