import Babylon.Core.Proto
/-! Line-protocol driver for property C13 (stub). -/
def main : IO Unit := Babylon.Core.runLines (fun (s : Unit) _ => (s, "bad-op")) ()
