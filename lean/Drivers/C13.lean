import Babylon.Core.Trace
import Babylon.Gen.Coro
import Babylon.Coro.Futex
import Babylon.Coro.Cancel
import Babylon.Coro.Await
/-! Lock-step replay driver for property C13 (coroutine futex, cancellable wrapper, awaits).
stdin: runs `RUN <seed> mode=<mode> …` / VRT trace lines / `END`; stdout: `ok <n>` | `diverge <why>`.

mode=futex: every trace line of the real code (mutex lock / unlock, slot version CAS, slot id pop /
mint / push, plain accesses to `Node::next`, harness events) must be the next step of the
corresponding actor of `Babylon.Coro.step`.  OS threads carry a stack of actors: a client call at the
bottom, the coroutine frames that run inline (inplace executor, or a non-suspending wait) on top. -/
open Babylon.Core Babylon.Coro

structure FState where
  c : Cfg
  s : State
  stacks : List (Nat × List Actor) := []      -- OS thread -> actors, innermost first
  inline : List Nat := []                     -- frames that continued without suspending
  ids : List (Nat × Nat × Nat) := []          -- (frame, slot, version) of every emplace
  ctx : List (Nat × Nat) := []                -- frame ↦ context it currently runs in
  rej : List Nat := []                        -- OS threads on which an executor has just rejected a resumption
  nalloc : Nat := 0

def FState.stack (r : FState) (t : Nat) : List Actor :=
  match r.stacks.find? (·.1 == t) with
  | some (_, l) => l
  | none => [.cl t]

def FState.setStack (r : FState) (t : Nat) (l : List Actor) : FState :=
  { r with stacks := (t, l) :: r.stacks.filter (·.1 != t) }

def FState.top (r : FState) (t : Nat) : Actor := (r.stack t).head?.getD (.cl t)

def isResumePc : Pc → Option Nat
  | .oResume n => some n
  | .aResume n _ _ _ _ => some n
  | .cResume n => some n
  | _ => none

/-- run the silent `resume` step of actor `a` if that is its next step -/
def fireSilent (r : FState) (a : Actor) : FState :=
  match isResumePc (r.s.pc a) with
  | some _ =>
    match step r.c r.s a (0, 0) with
    | some (s', _) => { r with s := s' }
    | none => r
  | none => r

def nameNum (pre : String) (s : String) : Option Nat :=
  if s.startsWith pre then (s.drop pre.length).toNat? else none

def showEv (e : Ev) : String := reprStr e
def showPc (p : Pc) : String := reprStr p

/-- perform the model step of `a` and require its label to be `want` -/
def expect (r : FState) (a : Actor) (inp : Nat × Nat) (want : Ev) : Except String FState :=
  let r := fireSilent r a
  match step r.c r.s a inp with
  | none => .error s!"implementation did {showEv want} but the model actor {reprStr a} cannot step (pc {showPc (r.s.pc a)})"
  | some (s', l) =>
    if l = want then .ok { r with s := s' }
    else .error s!"model expects {showEv l} (pc {showPc (r.s.pc a)}), implementation did {showEv want}"

def holdsLock (r : FState) (a : Actor) : Bool :=
  match r.s.pc a with
  | .wLink .. | .oScan .. | .oUnlock .. | .aScan .. | .aUnlock .. | .cRemove .. => true
  | _ => false

/-- `e<k>`; `e-1` (the thread is in no executor) is an index no frame is bound to -/
def parseExec (s : String) : Option Nat := if s == "e-1" then some 1000 else nameNum "e" s

def allActors (_r : FState) : List Actor :=
  (List.range 64).map Actor.cl

/-- after a step of frame `h` on OS thread `t`: a frame that parked leaves the thread -/
def afterFrameStep (r : FState) (t : Nat) (a : Actor) : FState :=
  match a with
  | .fr h =>
    if r.s.fpc h = .idle ∧ r.s.fr h ≠ .running then r.setStack t ((r.stack t).erase a)
    else if r.s.fpc h = .idle ∧ r.s.fr h = .running then { r with inline := h :: r.inline }
    else r
  | _ => r

def stepFutex (r : FState) (o : Obs) : Except String FState :=
  let t := o.tid
  let a := r.top t
  match o.kind, o.args with
  -- ------------------------------------------------------------ harness events
  | "ev", ["spawn", h, e] =>
    match h.toNat?, parseExec e with
    | some h, some e =>
      if r.s.fr h = .fresh then .ok { r with s := { r.s with fr := upd r.s.fr h .resuming, fex := upd r.s.fex h e } }
      else .error "spawn of a frame that exists"
    | _, _ => .error "bad spawn"
  | "ev", [k, h, e] =>
    if k == "start" || k == "resumed" then
      match h.toNat?, parseExec e with
      | some h, some e =>
        -- a pending silent resume of some actor
        let r := (allActors r).foldl (fun r b => match isResumePc (r.s.pc b) with
          | some n => if (r.s.node n).h = h ∧ r.s.fr h = .suspended then fireSilent r b else r
          | none => r) r
        if r.s.fr h = .resuming then
          -- an executor that refuses the closure (`invoke` != 0) makes the library resume in place
          if e ≠ r.s.fex h ∧ ¬ r.rej.contains t then .error s!"frame {h} continues on executor {e}, the model binds it to {r.s.fex h}"
          else
          .ok ({ r with s := r.s.run h, rej := r.rej.erase t, ctx := (h, e) :: r.ctx.filter (·.1 ≠ h) }.setStack t (.fr h :: (r.stack t).erase (.fr h)))
        else if k == "resumed" ∧ r.s.fr h = .running ∧ r.inline.contains h ∧ a = .fr h then
          -- no suspension: the frame continues where it runs
          if (r.ctx.find? (·.1 == h)).map (·.2) ≠ some e then .error s!"frame {h} continues inline on executor {e}, it runs on {reprStr (r.ctx.find? (·.1 == h))}"
          else .ok { r with inline := r.inline.erase h }
        else .error s!"frame {h} continues but the model has it {reprStr (r.s.fr h)} with no resume pending"
      | _, _ => .error "bad event"
    else if k == "token" then .ok r
    else if k == "xreject" then .ok { r with rej := t :: r.rej }
    else if k == "ret" then
      -- ret <call> <value>
      let r := fireSilent r (.cl t)
      match e.toNat? with
      | some v =>
        if r.s.cpc t = .idle ∧ r.s.res t = v then .ok r
        else .error s!"{h} returned {v}; model: pc {showPc (r.s.cpc t)} result {r.s.res t}"
      | none => .error "bad ret"
    else if k == "call" then
      match e.toNat? with
      | some f =>
        if a ≠ .cl t ∨ r.s.cpc t ≠ .idle then .error "call while the client is not idle"
        else if h == "wake_one" then .ok { r with s := r.s.setPc (.cl t) (.oLock f) }
        else if h == "wake_all" then .ok { r with s := r.s.setPc (.cl t) (.aLock f) }
        else .error "unknown call"
      | none => .error "bad call"
    else .ok r
  | "ev", ["wait", h, f, v] =>
    match h.toNat?, f.toNat?, v.toNat? with
    | some h, some f, some v =>
      if a = .fr h ∧ r.s.fr h = .running ∧ r.s.fpc h = .idle ∧ ¬ r.inline.contains h then
        .ok { r with s := { r.s with fr := upd r.s.fr h .suspended }.setPc (.fr h) (.wAlloc f v) }
      else .error s!"frame {h} waits but the model has it {reprStr (r.s.fr h)} / {showPc (r.s.fpc h)} (running on this thread: {reprStr a})"
    | _, _, _ => .error "bad wait"
  | "ev", ["token", _, _, _] => .ok r
  | "ev", ["done", h] =>
    match h.toNat? with
    | some h =>
      if a = .fr h ∧ r.s.fr h = .running ∧ r.s.fpc h = .idle ∧ ¬ r.inline.contains h then
        .ok ({ r with s := { r.s with fr := upd r.s.fr h .done } }.setStack t ((r.stack t).erase (.fr h)))
      else .error s!"frame {h} finishes but the model has it {reprStr (r.s.fr h)}"
    | none => .error "bad done"
  | "ev", ["call", "cancel", n, ver] =>
    match n.toNat?, ver.toNat? with
    | some n, some ver =>
      if a ≠ .cl t ∨ r.s.cpc t ≠ .idle then .error "call while the client is not idle"
      else if (r.s.box n).used = false ∨ (r.s.box n).ver < ver then
        .error "client contract: cancellation token that no emplace has issued"
      else if (r.s.box n).ver = ver ∧ (r.s.box n).taken = false ∧ (r.s.box n).pub = false then
        .error "client contract: cancellation token of a wait that is not linked yet"
      else .ok { r with s := r.s.setPc (.cl t) (.cTake n ver) }
    | _, _ => .error "bad cancel"
  | "ev", ["call", "set", f, v] =>
    match f.toNat?, v.toNat? with
    | some f, some v =>
      if a ≠ .cl t ∨ r.s.cpc t ≠ .idle then .error "call while the client is not idle"
      else .ok { r with s := r.s.setPc (.cl t) (.sSet f v) }
    | _, _ => .error "bad set"
  | "ev", ["ret", "set"] =>
    if r.s.cpc t = .idle then .ok r else .error "set returned but the model client is not idle"
  | "ev", ["slots", "allocated", n, "minted", _] =>
    let cnt := ((List.range 96).filter (fun i => (r.s.box i).alloc)).length
    if some cnt == n.toNat? ∧ r.s.allocs - r.s.frees = cnt then .ok r
    else .error s!"implementation has {n} slots allocated at the end, the model {cnt} (allocs {r.s.allocs} frees {r.s.frees})"
  | "ev", _ => .ok r
  -- ------------------------------------------------------------ deposit box: slot ids
  | "casw", ["fh", so, _, e, d, ok, _] =>
    if ok != "1" then .ok r else
    match e.toNat?, d.toNat? with
    | some e, some d =>
      if so == "acqrel" then     -- pop: allocate
        let n := e % 2 ^ 32
        let ver := e / 2 ^ 32
        (expect r a (n, ver) (.alloc n ver)).map (fun r => { r with ids := (a.frame, n, ver) :: r.ids })
      else                       -- push: deallocate
        let n := d % 2 ^ 32
        (expect r a (0, 0) (.free n)).map (fun r => afterFrameStep r t a)
    | _, _ => .error "bad cas"
  | "rmw", ["add", "nv", _, old, _] =>
    match old.toNat? with
    | some n => (expect r a (n, 0) (.alloc n 0)).map (fun r => { r with ids := (a.frame, n, 0) :: r.ids })
    | none => .error "bad rmw"
  | "ld", _ => .ok r
  | "st", [l, _, v] =>
    match nameNum "ver" l, nameNum "val" l, v.toNat? with
    | some n, _, some v =>
      match r.s.pc a with
      | .wCons _ _ n' ver' => if n = n' ∧ v = ver' then .ok r else .error s!"version store {n}@{v}, model emplace is {n'}@{ver'}"
      | p => .error s!"version store outside emplace (pc {showPc p})"
    | _, some f, some v => expect r a (0, 0) (.setval f v)
    | _, _, _ => .error "unknown store"
  | "cas", [l, _, _, e, d, ok, _] =>
    match nameNum "ver" l, e.toNat?, d.toNat? with
    | some n, some e, some d =>
      if d ≠ e + 1 then .error "take does not bump the version by one" else
      (expect r a (0, 0) (.take n e (ok == "1")))
    | _, _, _ => .error "unknown cas"
  -- ------------------------------------------------------------ mutex
  | "lock", [l] =>
    match nameNum "m" l with
    | some f => expect r a (0, 0) (.lock f)
    | none => .error "unknown mutex"
  | "unlock", [l] =>
    match nameNum "m" l with
    | some f => (expect r a (0, 0) (.unlock f)).map (fun r => afterFrameStep r t a)
    | none => .error "unknown mutex"
  -- ------------------------------------------------------------ plain accesses to Node::next
  | "pwr", [l, _] =>
    match nameNum "nx" l with
    | some n =>
      match r.s.pc a with
      | .wCons _ _ n' _ => if n = n' then expect r a (0, 0) (.cons n) else .error "construction of a foreign node"
      | p => if holdsLock r a then .ok r else .error s!"plain write to next of node {n} outside the lock (pc {showPc p})"
    | none => .error "unknown plain write"
  | "prd", [l, _, v] =>
    match nameNum "nx" l with
    | some n =>
      let r := fireSilent r a
      match r.s.pc a with
      | .aNext .. | .aRead .. =>
        let val : Option (Option Nat) := if v == "0" then some none else (nameNum "@nd" v).map some
        match val with
        | some val => expect r a (0, 0) (.rdnext n val)
        | none => .error s!"next of node {n} holds an unknown pointer {v}"
      | p => if holdsLock r a then .ok r else .error s!"plain read of next of node {n} outside the lock (pc {showPc p})"
    | none => .error "unknown plain read"
  | "spawn", _ | "join", _ | "exit", _ | "race", _ | "VERDICT", _ => .ok r
  | k, _ => .error s!"unknown trace line kind {k}"

def finalFutex (r : FState) : Except String Unit :=
  if r.s.bad then .error "model reached a state where a coroutine that is not suspended was resumed"
  else .ok ()

/-- run header -> which sub-driver -/
inductive RState
  | futex (r : FState)
  | cancel (r : Babylon.Coro.Cancel.RState)
  | await (r : Babylon.Coro.Await.RState)
  | other

def headerVal (hdr : List String) (key : String) : Option String :=
  (hdr.filterMap (fun h => if h.startsWith (key ++ "=") then some ((h.drop (key.length + 1)).toString) else none)).head?

def initR (hdr : List String) : RState :=
  match headerVal hdr "mode" with
  | some "futex" =>
    .futex { c := { nextFirst := Babylon.Gen.Coro.wakeAllNextFirst }, s := State.init }
  | some "cancel" => .cancel Babylon.Coro.Cancel.RState.init
  | some "await" => .await Babylon.Coro.Await.RState.init
  | _ => .other

def stepObs (r : RState) (o : Obs) : Except String RState :=
  match r with
  | .futex r => (stepFutex r o).map .futex
  | .cancel r => (Babylon.Coro.Cancel.stepObs r o).map .cancel
  | .await r => (Babylon.Coro.Await.stepObs r o).map .await
  | .other => .error "unknown mode"

def finalR : RState → Except String Unit
  | .futex r => finalFutex r
  | .cancel r => Babylon.Coro.Cancel.finalR r
  | .await r => Babylon.Coro.Await.finalR r
  | .other => .error "unknown mode"

def main : IO Unit := do
  replayLoop (← IO.getStdin) initR stepObs finalR
