import Babylon.Core.Trace
import Babylon.Future.Model
/-! Lock-step replay driver for property C08 (Future / Promise / CountDownLatch).
stdin: runs `RUN <seed> mode=… latch=<N|-> prog=… [preset=<futex word>]` / VRT trace lines / `END`;
stdout per run: `ok <n>` | `diverge <why>`.
Every trace line of the real code must be exactly the next action of that thread in
`Babylon.Future.stepThread` (same operation, location, memory order, values read and written). -/
open Babylon.Core Babylon.Future

structure RState where
  s : State
  addr : List (Nat × Nat)      -- callback id ↦ address of its node (learnt at the registrant's first CAS)
  tids : List Nat
  wrapMode : Bool

def addrFn (m : List (Nat × Nat)) : Nat → Nat := fun id => (m.lookup id).getD 0

def hdrVal (hdr : List String) (key : String) : Option String :=
  (hdr.filterMap (fun h => if h.startsWith (key ++ "=") then some ((h.drop (key.length + 1)).toString) else none)).head?

/-- run thread `t` silently while it is at a step the trace cannot show -/
def silent (s : State) (t : Nat) : Nat → State
  | 0 => s
  | n + 1 =>
    match s.pc t with
    | .s0 _ => if s.latch then (match stepThread (fun _ => 0) s t {} with | some (s', _) => silent s' t n | none => s) else s
    | _ => s

/-- latch constructed with count 0: the constructor publishes before the trace starts -/
def runToIdle (s : State) (t : Nat) : Nat → State
  | 0 => s
  | n + 1 => match stepThread (fun _ => 0) s t {} with | some (s', _) => runToIdle s' t n | none => s

def initR (hdr : List String) : RState :=
  let latch := (hdrVal hdr "latch").bind String.toNat?
  let s0 := State.init latch
  let s1 := if latch = some 0 then runToIdle s0 0 16 else s0
  { s := s1, addr := [], tids := [], wrapMode := hdrVal hdr "mode" == some "wrap" }

def showPc (p : Pc) : String := reprStr p

def toOf (args : List String) : Option Nat :=
  (args.filterMap (fun a => if a.startsWith "to=" then (a.drop 3).toNat? else none)).head?

def stepObs (r : RState) (o : Obs) : Except String RState :=
  let t := o.tid
  let r := if r.tids.contains t then r else { r with tids := t :: r.tids }
  let idle := r.s.pc t = .idle
  let call (s' : State) : Except String RState :=
    if idle then .ok { r with s := s' } else .error s!"call while the model thread is at {showPc (r.s.pc t)}"
  match Act.ofObs o with
  | none => .error "unknown trace line"
  | some (.spawn _) | some (.join _) | some .exit => .ok r
  | some (.race _) => .ok r          -- reported by the check itself (HB monitor on the value storage)
  | some (.ev ("ORACLE" :: _)) | some (.ev ("stats" :: _)) => .ok r
  | some (.ev ["preset", v]) =>      -- harness mode `wrap` writes the futex word directly (regression for the counter carry)
    match v.toNat? with
    | some v => if r.wrapMode then .ok { r with s := { r.s with futex := v } } else .error "preset outside wrap mode"
    | none => .error "bad preset"
  | some (.ev ["call", "set", v]) =>
    match v.toNat? with
    | none => .error "bad value"
    | some v =>
      if r.s.latch then .error "set_value on a latch"
      else if r.s.setCalled then .error "client contract: second set_value"
      else call (callSet r.s t v)
  | some (.ev ["call", "down", d]) =>
    match d.toNat? with
    | none => .error "bad value"
    | some d =>
      if !r.s.latch then .error "count_down without a latch"
      else if d < 1 ∨ d > r.s.budget then .error s!"client contract: count_down({d}) with budget {r.s.budget}"
      else call (callDown r.s t d)
  | some (.ev ["call", "get"]) => call (callGet r.s t)
  | some (.ev ["call", "waitfor", tau]) =>
    match parseInt? tau with
    | none => .error "bad timeout"
    | some tau => call (callWaitFor r.s t tau)
  | some (.ev ["call", "reg", id]) =>
    match id.toNat? with
    | none => .error "bad id"
    | some id => if r.s.regStarted id then .error "callback id registered twice" else call (callReg r.s t id)
  | some (.ev ["call", "ready"]) => call (callReady r.s t)
  | some a =>
    -- bind the address of the registrant's node at its first CAS
    let r := match r.s.pc t, a with
      | .r1 id _, .cas _ _ _ _ _ _ desired _ _ => if (r.addr.lookup id).isNone then { r with addr := (id, desired) :: r.addr } else r
      | _, _ => r
    -- the clock only moves forward; a clock line carries the value read
    let sE : Except String State := match a with
      | .ev ["clock", c] =>
        match c.toNat? with
        | some c => if c < r.s.now then .error s!"clock went backwards ({c} < {r.s.now})" else .ok { r.s with now := c }
        | none => .error "bad clock"
      | _ => .ok r.s
    match sE with
    | .error e => .error e
    | .ok s =>
    let hint : Hint := match a with
      | .cas _ _ _ _ _ e _ ok obs => { spurious := !ok && e == obs }
      | .fwoke _ _ tmo => { timeout := tmo }
      | .fwake _ _ _ n => { woken := n }
      | _ => {}
    -- relative timeout handed to futex_wait
    let toChk : Except String Unit := match s.pc t, a with
      | .f3 _ to _, .fwait .. => if toOf o.args = some to then .ok () else .error s!"futex_wait timeout: model {to}, implementation {toOf o.args}"
      | _, .fwait .. => if (toOf o.args).isNone then .ok () else .error "futex_wait with a timeout where the model waits without one"
      | _, _ => .ok ()
    match toChk with
    | .error e => .error e
    | .ok _ =>
    match stepThread (addrFn r.addr) s t hint with
    | none => .error s!"implementation performs {reprStr a} but the model thread is at {showPc (s.pc t)} (no action possible)"
    | some (s', l) =>
      if l = a then .ok { r with s := silent s' t 2 }
      else .error s!"model (at {showPc (s.pc t)}) expects {reprStr l}, implementation did {reprStr a}"

def finalR (r : RState) : Except String Unit :=
  match r.tids.find? (fun t => r.s.pc t ≠ .idle) with
  | some t => .error s!"trace ended while model thread {t} is at {showPc (r.s.pc t)}"
  | none =>
    if r.s.unsync then .error "model: a value / node read was not ordered by happens-before"
    else if r.s.setDone then
      match (List.range 64).find? (fun id => r.s.regDone id && r.s.runs id != [r.s.storage]) with
      | some id => .error s!"model: callback {id} ran {(r.s.runs id).length} times"
      | none => .ok ()
    else .ok ()

def main : IO Unit := do
  replayLoop (← IO.getStdin) initR stepObs finalR
