/-
  View-level (release/acquire, stale reads allowed) form of the concurrent read bound, over
  Babylon/Core/MemView.lean.

  One cell per counting thread (slot).  A contribution = the slot's owner loads its cell and stores
  `step old v` — `old + v` for the adder, the component-wise sum for the summer (the 16-byte access is
  ONE message), the versioned `put` for maxer / miner — with load / store orders `oL`, `oS` that are
  PARAMETERS: the cells are plain accesses in the code, every theorem below holds for all orders, in
  particular for relaxed / relaxed, the weakest.  The reader loads each cell with order `oL`; the load
  may return ANY message its view admits.  The external hand-off ("the contributing thread was joined")
  is a store to a per-slot flag by the owner (order `oR`, value = number of contributions completed) and
  a load of that flag by the reader (order `oA`).
  Ghost: `contribs x` = the contributions completed on slot `x`, in order; `got x` = what the reader's
  last load of slot `x` returned, with the reader's view of the cell just before the load; `seen x` =
  the largest flag value the reader obtained through a release store / acquire load pair.
  Threads: reader = 0, owner of slot `x` = `x + 1`.
-/
import Babylon.Core.MemView
import Babylon.Core.Reach
import Babylon.Counter.Model

namespace Babylon.Counter.View
open Babylon.Core Babylon.Core.MemView

inductive Loc
  | cell (x : Nat)
  | flag (x : Nat)
  deriving DecidableEq, Repr

/-- the cell type, how it is coded in one message, how a contribution changes it -/
structure Kind (α γ : Type) where
  init : α
  step : α → γ → α
  enc : α → Nat
  dec : Nat → α
  dec_enc : ∀ a, dec (enc a) = a

/-- value of a cell after the first `k` contributions -/
def Kind.pre {α γ : Type} (K : Kind α γ) (cs : List γ) (k : Nat) : α := (cs.take k).foldl K.step K.init

structure Ords where
  oL : Ord    -- loads of a cell (owner and reader)
  oS : Ord    -- the owner's store
  oR : Ord    -- the owner's hand-off store
  oA : Ord    -- the reader's hand-off load

structure State (α γ : Type) where
  mem : Mem Loc
  pc : Nat → Option (α × γ)          -- slot's owner inside a contribution: (loaded, v)
  contribs : Nat → List γ            -- ghost
  got : Nat → Option (α × Nat)       -- reader's last load of the slot: (value, its view of the cell before the load)
  seen : Nat → Nat                   -- ghost: contributions of the slot handed off to the reader

variable {α γ : Type}

def State.init (K : Kind α γ) : State α γ :=
  { mem := Mem.init (fun l => match l with | .cell _ => K.enc K.init | .flag _ => 0),
    pc := fun _ => none, contribs := fun _ => [], got := fun _ => none, seen := fun _ => 0 }

inductive Act (γ : Type)
  | wLoad (x : Nat) (v : γ) (ts : Nat)
  | wStore (x : Nat)
  | wFlag (x : Nat)
  | rFlag (x : Nat) (ts : Nat)
  | rLoad (x : Nat) (ts : Nat)

def fupd {β : Type} (f : Nat → β) (k : Nat) (v : β) : Nat → β := fun x => if x = k then v else f x

def step (K : Kind α γ) (O : Ords) (s : State α γ) : Act γ → Option (State α γ)
  | .wLoad x v ts =>
    match s.pc x with
    | some _ => none
    | none =>
      match s.mem.read (x + 1) (.cell x) O.oL ts with
      | none => none
      | some (m', val) => some { s with mem := m', pc := fupd s.pc x (some (K.dec val, v)) }
  | .wStore x =>
    match s.pc x with
    | none => none
    | some (a, v) =>
      some { s with mem := s.mem.write (x + 1) (.cell x) O.oS (K.enc (K.step a v)),
                    pc := fupd s.pc x none, contribs := fupd s.contribs x (s.contribs x ++ [v]) }
  | .wFlag x =>
    match s.pc x with
    | some _ => none
    | none => some { s with mem := s.mem.write (x + 1) (.flag x) O.oR (s.contribs x).length }
  | .rFlag x ts =>
    match s.mem.read 0 (.flag x) O.oA ts with
    | none => none
    | some (m', val) =>
      some { s with mem := m',
                    seen := if O.oR.releases && O.oA.acquires && decide (0 < ts)
                            then fupd s.seen x (max (s.seen x) val) else s.seen }
  | .rLoad x ts =>
    match s.mem.read 0 (.cell x) O.oL ts with
    | none => none
    | some (m', val) =>
      some { s with mem := m', got := fupd s.got x (some (K.dec val, (s.mem.tv 0).cur.get (.cell x))) }

def Step (K : Kind α γ) (O : Ords) (s t : State α γ) : Prop := ∃ a, step K O s a = some t

def run (K : Kind α γ) (O : Ords) : State α γ → List (Act γ) → Option (State α γ)
  | s, [] => some s
  | s, a :: as => (step K O s a).bind (fun t => run K O t as)

/-! ### the invariant -/

structure Inv (K : Kind α γ) (O : Ords) (s : State α γ) : Prop where
  wf : s.mem.WF
  /-- message `k` of a cell holds the value after the first `k` contributions -/
  len : ∀ x, s.mem.len (.cell x) = (s.contribs x).length + 1
  msg : ∀ x k m, (s.mem.hist (.cell x))[k]? = some m → m.val = K.enc (K.pre (s.contribs x) k)
  /-- coherence: the owner has seen its own last store, so its load can only read that one -/
  own : ∀ x, ((s.mem.tv (x + 1)).cur.get (.cell x)) + 1 = s.mem.len (.cell x)
  loaded : ∀ x a v, s.pc x = some (a, v) → a = K.pre (s.contribs x) (s.contribs x).length
  /-- a released flag message carries a view of the cell that covers the contributions it counts -/
  flag : O.oR.releases = true → ∀ x k m, 0 < k → (s.mem.hist (.flag x))[k]? = some m →
    m.val ≤ m.view.get (.cell x)
  seenLe : ∀ x, s.seen x ≤ (s.mem.tv 0).cur.get (.cell x)
  gotOk : ∀ x a hb, s.got x = some (a, hb) →
    ∃ k, hb ≤ k ∧ k ≤ (s.contribs x).length ∧ a = K.pre (s.contribs x) k

theorem pre_append_le (K : Kind α γ) (cs : List γ) (v : γ) {k : Nat} (h : k ≤ cs.length) :
    K.pre (cs ++ [v]) k = K.pre cs k := by
  unfold Kind.pre; rw [List.take_append_of_le_length h]

theorem pre_snoc (K : Kind α γ) (cs : List γ) (v : γ) :
    K.pre (cs ++ [v]) (cs.length + 1) = K.step (K.pre cs cs.length) v := by
  unfold Kind.pre
  have h1 : (cs ++ [v]).take (cs.length + 1) = cs ++ [v] := List.take_of_length_le (by simp)
  rw [h1, List.take_of_length_le (Nat.le_refl _), List.foldl_append]; rfl

theorem init_inv (K : Kind α γ) (O : Ords) : Inv K O (State.init K) := by
  refine ⟨Mem.init_wf _, fun x => rfl, ?_, fun x => rfl, fun x a v h => (by cases h), ?_,
    fun x => Nat.zero_le _, fun x a hb h => (by cases h)⟩
  · intro x k m hk
    cases k with
    | zero =>
      simp [State.init, Mem.init] at hk
      subst hk; rfl
    | succ k => simp [State.init, Mem.init] at hk
  · intro _ x k m hk hm
    cases k with
    | zero => omega
    | succ k => simp [State.init, Mem.init] at hm

theorem fupd_same {β : Type} (f : Nat → β) (k : Nat) (v : β) : fupd f k v k = v := by simp [fupd]
theorem fupd_ne {β : Type} (f : Nat → β) {k x : Nat} (v : β) (h : x ≠ k) : fupd f k v x = f x := by simp [fupd, h]

/-- a load changes only the loading thread's views -/
theorem read_frame {m m' : Mem Loc} {t : Nat} {l : Loc} {o : Ord} {ts v : Nat}
    (h : m.read t l o ts = some (m', v)) :
    m'.hist = m.hist ∧ (∀ l', m'.len l' = m.len l') ∧ (∀ t', t' ≠ t → m'.tv t' = m.tv t') ∧
    (m.tv t).cur ≤ (m'.tv t).cur ∧ ts < m.len l ∧ (m.tv t).cur.get l ≤ ts ∧
    (∃ msg, (m.hist l)[ts]? = some msg ∧ v = msg.val ∧ m'.tv t = (m.tv t).read msg l ts o) := by
  have hlt := Mem.read_ts_lt h
  obtain ⟨msg, hm, hv, hle, rfl⟩ := Mem.read_spec h
  refine ⟨rfl, fun _ => rfl, fun t' ht => by simp [ht], ?_, hlt, hle, msg, hm, hv, by simp⟩
  simp only [upd_same]
  exact TView.read_cur_le _ _ _ _ _

theorem step_inv (K : Kind α γ) (O : Ords) {s t : State α γ} {a : Act γ} (hI : Inv K O s)
    (h : step K O s a = some t) : Inv K O t := by
  cases a with
  | wLoad x v ts =>
    simp only [step] at h
    cases hp : s.pc x with
    | some p => rw [hp] at h; cases h
    | none =>
      rw [hp] at h
      cases hr : s.mem.read (x + 1) (.cell x) O.oL ts with
      | none => rw [hr] at h; cases h
      | some p =>
        obtain ⟨m', val⟩ := p
        rw [hr] at h
        simp only [Option.some.injEq] at h
        subst h
        obtain ⟨hh, hl, hto, hcur, hlt, hge, msg, hmsg, hval, htv⟩ := read_frame hr
        have hwf := Mem.read_wf hr hI.wf
        have hown := hI.own x
        have hts : ts + 1 = s.mem.len (.cell x) := by omega
        refine ⟨hwf, ?_, ?_, ?_, ?_, ?_, ?_, hI.gotOk⟩
        · intro y; show m'.len (.cell y) = _; rw [hl]; exact hI.len y
        · intro y k m hk
          have hk' : (m'.hist (.cell y))[k]? = some m := hk
          rw [hh] at hk'; exact hI.msg y k m hk'
        · intro y
          show (m'.tv (y + 1)).cur.get (.cell y) + 1 = m'.len (.cell y)
          rw [hl]
          by_cases e : y = x
          · subst e
            have h1 : ts ≤ (m'.tv (y + 1)).cur.get (.cell y) := by
              rw [htv]; exact TView.read_cur_ts _ _ _ _ _
            have h2 := hwf.cur (y + 1) (.cell y)
            rw [hl] at h2
            omega
          · rw [hto (y + 1) (by omega)]; exact hI.own y
        · intro y a' v' hy
          have hy' : fupd s.pc x (some (K.dec val, v)) y = some (a', v') := hy
          by_cases e : y = x
          · subst e
            rw [fupd_same] at hy'
            simp only [Option.some.injEq, Prod.mk.injEq] at hy'
            rw [← hy'.1, hval, hI.msg y ts msg hmsg, K.dec_enc]
            have := hI.len y
            have : ts = (s.contribs y).length := by omega
            rw [this]
          · rw [fupd_ne _ _ e] at hy'; exact hI.loaded y a' v' hy'
        · intro hrel y k m hk hm
          have hm' : (m'.hist (.flag y))[k]? = some m := hm
          rw [hh] at hm'; exact hI.flag hrel y k m hk hm'
        · intro y
          show s.seen y ≤ (m'.tv 0).cur.get (.cell y)
          rw [hto 0 (by omega)]; exact hI.seenLe y
  | wStore x =>
    simp only [step] at h
    cases hp : s.pc x with
    | none => rw [hp] at h; cases h
    | some p =>
      obtain ⟨a, v⟩ := p
      rw [hp] at h
      simp only [Option.some.injEq] at h
      subst h
      have ha := hI.loaded x a v hp
      have hlen := hI.len x
      have hne : ∀ y, y ≠ x → (Loc.cell y) ≠ Loc.cell x := fun y hy e => hy (by cases e; rfl)
      refine ⟨Mem.write_wf _ _ _ _ _ hI.wf, ?_, ?_, ?_, ?_, ?_, ?_, ?_⟩
      · intro y
        show (s.mem.write (x + 1) (.cell x) O.oS _).len (.cell y) = (fupd s.contribs x (s.contribs x ++ [v]) y).length + 1
        by_cases e : y = x
        · subst e; rw [Mem.write_len_same, fupd_same, hlen]; simp
        · rw [Mem.write_len_other _ _ _ _ _ _ (hne y e), fupd_ne _ _ e]; exact hI.len y
      · intro y k m hk
        have hk' : ((s.mem.write (x + 1) (.cell x) O.oS (K.enc (K.step a v))).hist (.cell y))[k]? = some m := hk
        show m.val = K.enc (K.pre (fupd s.contribs x (s.contribs x ++ [v]) y) k)
        by_cases e : y = x
        · subst e
          rw [fupd_same]
          rw [Mem.write_hist_same] at hk'
          have hl' : (s.mem.hist (.cell y)).length = (s.contribs y).length + 1 := hlen
          by_cases hk2 : k < (s.mem.hist (.cell y)).length
          · rw [List.getElem?_append_left hk2] at hk'
            rw [pre_append_le K _ v (by omega)]
            exact hI.msg y k m hk'
          · by_cases hk3 : k = (s.mem.hist (.cell y)).length
            · subst hk3
              rw [List.getElem?_append_right (Nat.le_refl _)] at hk'
              simp only [Nat.sub_self, List.getElem?_cons_zero, Option.some.injEq] at hk'
              rw [← hk', hl', pre_snoc, ← ha]
            · rw [List.getElem?_eq_none (by simp; omega)] at hk'; cases hk'
        · rw [fupd_ne _ _ e]
          rw [Mem.write_hist_other _ _ _ _ _ _ (hne y e)] at hk'
          exact hI.msg y k m hk'
      · intro y
        show ((s.mem.write (x + 1) (.cell x) O.oS _).tv (y + 1)).cur.get (.cell y) + 1 =
          (s.mem.write (x + 1) (.cell x) O.oS _).len (.cell y)
        by_cases e : y = x
        · subst e
          rw [Mem.write_tv_same, Mem.write_len_same]
          have := hI.own y
          simp only [TView.wrote, View.get_bump, if_true]
          omega
        · rw [Mem.write_tv_other _ _ _ _ _ _ (by omega), Mem.write_len_other _ _ _ _ _ _ (hne y e)]
          exact hI.own y
      · intro y a' v' hy
        have hy' : fupd s.pc x none y = some (a', v') := hy
        by_cases e : y = x
        · subst e; rw [fupd_same] at hy'; cases hy'
        · rw [fupd_ne _ _ e] at hy'
          show a' = K.pre (fupd s.contribs x (s.contribs x ++ [v]) y) (fupd s.contribs x (s.contribs x ++ [v]) y).length
          rw [fupd_ne _ _ e]; exact hI.loaded y a' v' hy'
      · intro hrel y k m hk hm
        have hm' : ((s.mem.write (x + 1) (.cell x) O.oS (K.enc (K.step a v))).hist (.flag y))[k]? = some m := hm
        rw [Mem.write_hist_other _ _ _ _ _ _ (by intro e; cases e)] at hm'
        exact hI.flag hrel y k m hk hm'
      · intro y
        show s.seen y ≤ ((s.mem.write (x + 1) (.cell x) O.oS _).tv 0).cur.get (.cell y)
        rw [Mem.write_tv_other _ _ _ _ _ _ (by omega)]; exact hI.seenLe y
      · intro y a' hb hy
        obtain ⟨k, h1, h2, h3⟩ := hI.gotOk y a' hb hy
        show ∃ k, hb ≤ k ∧ k ≤ (fupd s.contribs x (s.contribs x ++ [v]) y).length ∧
          a' = K.pre (fupd s.contribs x (s.contribs x ++ [v]) y) k
        by_cases e : y = x
        · subst e
          rw [fupd_same]
          exact ⟨k, h1, by simp; omega, by rw [pre_append_le K _ v h2]; exact h3⟩
        · rw [fupd_ne _ _ e]; exact ⟨k, h1, h2, h3⟩
  | wFlag x =>
    simp only [step] at h
    cases hp : s.pc x with
    | some p => rw [hp] at h; cases h
    | none =>
      rw [hp] at h
      simp only [Option.some.injEq] at h
      subst h
      have hcf : ∀ y, (Loc.cell y) ≠ Loc.flag x := fun y e => by cases e
      refine ⟨Mem.write_wf _ _ _ _ _ hI.wf, ?_, ?_, ?_, hI.loaded, ?_, ?_, hI.gotOk⟩
      · intro y
        show (s.mem.write (x + 1) (.flag x) O.oR _).len (.cell y) = _
        rw [Mem.write_len_other _ _ _ _ _ _ (hcf y)]; exact hI.len y
      · intro y k m hk
        have hk' : ((s.mem.write (x + 1) (.flag x) O.oR (s.contribs x).length).hist (.cell y))[k]? = some m := hk
        rw [Mem.write_hist_other _ _ _ _ _ _ (hcf y)] at hk'
        exact hI.msg y k m hk'
      · intro y
        show ((s.mem.write (x + 1) (.flag x) O.oR _).tv (y + 1)).cur.get (.cell y) + 1 =
          (s.mem.write (x + 1) (.flag x) O.oR _).len (.cell y)
        rw [Mem.write_len_other _ _ _ _ _ _ (hcf y)]
        by_cases e : y = x
        · subst e
          rw [Mem.write_tv_same]
          simp only [TView.wrote, View.get_bump, if_neg (hcf y)]
          exact hI.own y
        · rw [Mem.write_tv_other _ _ _ _ _ _ (by omega)]; exact hI.own y
      · intro hrel y k m hk hm
        have hm' : ((s.mem.write (x + 1) (.flag x) O.oR (s.contribs x).length).hist (.flag y))[k]? = some m := hm
        by_cases e : y = x
        · subst e
          rw [Mem.write_hist_same] at hm'
          by_cases hk2 : k < (s.mem.hist (.flag y)).length
          · rw [List.getElem?_append_left hk2] at hm'
            exact hI.flag hrel y k m hk hm'
          · by_cases hk3 : k = (s.mem.hist (.flag y)).length
            · subst hk3
              rw [List.getElem?_append_right (Nat.le_refl _)] at hm'
              simp only [Nat.sub_self, List.getElem?_cons_zero, Option.some.injEq] at hm'
              rw [← hm']
              simp only [TView.relView, hrel, if_true, TView.wrote, View.get_bump, if_neg (hcf y)]
              have := hI.own y
              have := hI.len y
              omega
            · rw [List.getElem?_eq_none (by simp; omega)] at hm'; cases hm'
        · rw [Mem.write_hist_other _ _ _ _ _ _ (by intro e'; cases e'; exact e rfl)] at hm'
          exact hI.flag hrel y k m hk hm'
      · intro y
        show s.seen y ≤ ((s.mem.write (x + 1) (.flag x) O.oR _).tv 0).cur.get (.cell y)
        rw [Mem.write_tv_other _ _ _ _ _ _ (by omega)]; exact hI.seenLe y
  | rFlag x ts =>
    simp only [step] at h
    cases hr : s.mem.read 0 (.flag x) O.oA ts with
    | none => rw [hr] at h; cases h
    | some p =>
      obtain ⟨m', val⟩ := p
      rw [hr] at h
      simp only [Option.some.injEq] at h
      subst h
      obtain ⟨hh, hl, hto, hcur, hlt, hge, msg, hmsg, hval, htv⟩ := read_frame hr
      refine ⟨Mem.read_wf hr hI.wf, ?_, ?_, ?_, hI.loaded, ?_, ?_, hI.gotOk⟩
      · intro y; show m'.len (.cell y) = _; rw [hl]; exact hI.len y
      · intro y k m hk
        have hk' : (m'.hist (.cell y))[k]? = some m := hk
        rw [hh] at hk'; exact hI.msg y k m hk'
      · intro y
        show (m'.tv (y + 1)).cur.get (.cell y) + 1 = m'.len (.cell y)
        rw [hl, hto (y + 1) (by omega)]; exact hI.own y
      · intro hrel y k m hk hm
        have hm' : (m'.hist (.flag y))[k]? = some m := hm
        rw [hh] at hm'; exact hI.flag hrel y k m hk hm'
      · intro y
        have hold : s.seen y ≤ (m'.tv 0).cur.get (.cell y) := Nat.le_trans (hI.seenLe y) (hcur (.cell y))
        show (if (O.oR.releases && O.oA.acquires && decide (0 < ts)) = true
          then fupd s.seen x (max (s.seen x) val) else s.seen) y ≤ (m'.tv 0).cur.get (.cell y)
        split
        · rename_i hc
          simp only [Bool.and_eq_true, decide_eq_true_eq] at hc
          by_cases e : y = x
          · subst e
            rw [fupd_same]
            have h1 := hI.flag hc.1.1 y ts msg hc.2 hmsg
            have h2 : msg.view ≤ (m'.tv 0).cur := by rw [htv]; exact TView.read_acquires _ _ _ _ _ hc.1.2
            have h3 := h2 (.cell y)
            rw [hval]
            omega
          · rw [fupd_ne _ _ e]; exact hold
        · exact hold
  | rLoad x ts =>
    simp only [step] at h
    cases hr : s.mem.read 0 (.cell x) O.oL ts with
    | none => rw [hr] at h; cases h
    | some p =>
      obtain ⟨m', val⟩ := p
      rw [hr] at h
      simp only [Option.some.injEq] at h
      subst h
      obtain ⟨hh, hl, hto, hcur, hlt, hge, msg, hmsg, hval, htv⟩ := read_frame hr
      refine ⟨Mem.read_wf hr hI.wf, ?_, ?_, ?_, hI.loaded, ?_, ?_, ?_⟩
      · intro y; show m'.len (.cell y) = _; rw [hl]; exact hI.len y
      · intro y k m hk
        have hk' : (m'.hist (.cell y))[k]? = some m := hk
        rw [hh] at hk'; exact hI.msg y k m hk'
      · intro y
        show (m'.tv (y + 1)).cur.get (.cell y) + 1 = m'.len (.cell y)
        rw [hl, hto (y + 1) (by omega)]; exact hI.own y
      · intro hrel y k m hk hm
        have hm' : (m'.hist (.flag y))[k]? = some m := hm
        rw [hh] at hm'; exact hI.flag hrel y k m hk hm'
      · intro y
        exact Nat.le_trans (hI.seenLe y) (hcur (.cell y))
      · intro y a' hb hy
        have hy' : fupd s.got x (some (K.dec val, (s.mem.tv 0).cur.get (.cell x))) y = some (a', hb) := hy
        by_cases e : y = x
        · subst e
          rw [fupd_same] at hy'
          simp only [Option.some.injEq, Prod.mk.injEq] at hy'
          obtain ⟨e1, e2⟩ := hy'
          have := hI.len y
          show ∃ k, hb ≤ k ∧ k ≤ (s.contribs y).length ∧ a' = K.pre (s.contribs y) k
          refine ⟨ts, by omega, by omega, ?_⟩
          rw [← e1, hval, hI.msg y ts msg hmsg, K.dec_enc]
        · rw [fupd_ne _ _ e] at hy'; exact hI.gotOk y a' hb hy'

theorem reach_inv (K : Kind α γ) (O : Ords) (s : State α γ)
    (h : Reachable (· = State.init K) (Step K O) s) : Inv K O s := by
  apply Reachable.invariant (Inv K O) _ _ s h
  · intro s hs; rw [hs]; exact init_inv K O
  · intro s t hI ⟨a, ha⟩; exact step_inv K O hI ha

/-- a load by the reader returns a per-slot prefix that covers everything handed off to it -/
theorem rLoad_covers (K : Kind α γ) (O : Ords) {s t : State α γ} {x ts : Nat} (hI : Inv K O s)
    (h : step K O s (.rLoad x ts) = some t) :
    ∃ a hb k, t.got x = some (a, hb) ∧ s.seen x ≤ k ∧ hb ≤ k ∧ k ≤ (t.contribs x).length ∧
      a = K.pre (t.contribs x) k := by
  have hIt := step_inv K O hI h
  simp only [step] at h
  cases hr : s.mem.read 0 (.cell x) O.oL ts with
  | none => rw [hr] at h; cases h
  | some p =>
    rw [hr] at h
    simp only [Option.some.injEq] at h
    subst h
    have hg : fupd s.got x (some (K.dec p.2, (s.mem.tv 0).cur.get (.cell x))) x =
        some (K.dec p.2, (s.mem.tv 0).cur.get (.cell x)) := fupd_same _ _ _
    obtain ⟨k, h1, h2, h3⟩ := hIt.gotOk x _ _ hg
    exact ⟨_, _, k, hg, Nat.le_trans (hI.seenLe x) h1, h1, h2, h3⟩

/-! ### the adder's cell: ℤ coded in one message (zig-zag) -/

def encInt (i : Int) : Nat := if 0 ≤ i then 2 * i.toNat else 2 * (-i).toNat - 1
def decInt (n : Nat) : Int := if n % 2 = 0 then ((n / 2 : Nat) : Int) else -(((n + 1) / 2 : Nat) : Int)

theorem decInt_encInt (i : Int) : decInt (encInt i) = i := by
  unfold decInt encInt
  split <;> split <;> omega

def adderKind : Kind Int Int :=
  { init := 0, step := fun a v => a + v, enc := encInt, dec := decInt, dec_enc := decInt_encInt }

/-! ### two naturals in one message: `2^a * (2 b + 1)` -/

def pairN (a b : Nat) : Nat := 2 ^ a * (2 * b + 1)

/-- strip the factors of two (`fuel` bounds the recursion) -/
def unpairN : Nat → Nat → Nat × Nat
  | 0, m => (0, m / 2)
  | fuel + 1, m => if m % 2 = 0 then ((unpairN fuel (m / 2)).1 + 1, (unpairN fuel (m / 2)).2) else (0, m / 2)

theorem unpairN_pairN (a b : Nat) : ∀ fuel, a ≤ fuel → unpairN fuel (pairN a b) = (a, b) := by
  induction a with
  | zero =>
    intro fuel _
    have h : pairN 0 b = 2 * b + 1 := by simp [pairN]
    rw [h]
    cases fuel with
    | zero => simp only [unpairN]; congr 1; omega
    | succ f =>
      simp only [unpairN]
      rw [if_neg (by omega)]
      congr 1; omega
  | succ a ih =>
    intro fuel hf
    have h : pairN (a + 1) b = 2 * pairN a b := by
      simp only [pairN, Nat.pow_succ]
      rw [Nat.mul_assoc, Nat.mul_comm 2 (2 * b + 1), ← Nat.mul_assoc, Nat.mul_comm]
    cases fuel with
    | zero => omega
    | succ f =>
      rw [h]
      simp only [unpairN]
      rw [if_pos (by omega)]
      have h2 : 2 * pairN a b / 2 = pairN a b := by omega
      rw [h2, ih f (by omega)]

theorem le_pairN (a b : Nat) : a ≤ pairN a b := by
  have h1 : a < 2 ^ a := Nat.lt_two_pow_self
  have h2 : 2 ^ a * 1 ≤ 2 ^ a * (2 * b + 1) := Nat.mul_le_mul_left _ (by omega)
  unfold pairN; omega

def unpair (m : Nat) : Nat × Nat := unpairN m m

theorem unpair_pairN (a b : Nat) : unpair (pairN a b) = (a, b) :=
  unpairN_pairN a b _ (le_pairN a b)

/-- the summer's cell `{sum, num}` — ONE 16-byte message -/
def summerKind : Kind Summer.Cell Summer.Cell :=
  { init := (0, 0), step := Summer.addC,
    enc := fun c => pairN (encInt c.1) c.2,
    dec := fun m => (decInt (unpair m).1, (unpair m).2),
    dec_enc := by intro c; simp only [unpair_pairN, decInt_encInt] }

/-- a maxer / miner slot `{version, value}`; a contribution is `(the counter's _version, sample)` and
acts by `Cmp.put` (the body of `operator<<`) -/
def cmpKind (isMax : Bool) : Kind Cmp.Slot (Nat × Int) :=
  { init := (Cmp.cfg isMax).dflt, step := fun sl c => Cmp.put isMax c.1 c.2 sl,
    enc := fun sl => pairN (encInt sl.2) sl.1,
    dec := fun m => ((unpair m).2, decInt (unpair m).1),
    dec_enc := by intro sl; simp only [unpair_pairN, decInt_encInt] }

def maxerKind : Kind Cmp.Slot (Nat × Int) := cmpKind true
def minerKind : Kind Cmp.Slot (Nat × Int) := cmpKind false

/-! ### the whole `value()`: the loads of slots `0 … n-1` -/

/-- what the reader's loads of the first `n` slots returned, in slot order -/
def loads (s : State α γ) (n : Nat) : List α := (List.range n).filterMap (fun x => (s.got x).map (·.1))

theorem filterMap_eq_map {β δ : Type} (f : β → Option δ) (g : β → δ) (l : List β)
    (h : ∀ x ∈ l, f x = some (g x)) : l.filterMap f = l.map g := by
  induction l with
  | nil => rfl
  | cons a l ih =>
    rw [List.filterMap_cons, h a List.mem_cons_self, List.map_cons,
      ih (fun x hx => h x (List.mem_cons_of_mem _ hx))]

/-- every slot's load is a prefix value: one choice function `k` for the whole read -/
theorem loads_prefix (K : Kind α γ) (O : Ords) {s : State α γ} (hI : Inv K O s) (n : Nat)
    (hall : ∀ x, x < n → (s.got x).isSome = true) :
    ∃ k : Nat → Nat,
      (∀ x, x < n → ∃ a hb, s.got x = some (a, hb) ∧ hb ≤ k x ∧ k x ≤ (s.contribs x).length) ∧
      loads s n = (List.range n).map (fun x => K.pre (s.contribs x) (k x)) := by
  have hex : ∀ x, ∃ k, ∀ a hb, s.got x = some (a, hb) →
      hb ≤ k ∧ k ≤ (s.contribs x).length ∧ a = K.pre (s.contribs x) k := by
    intro x
    cases hg : s.got x with
    | none => exact ⟨0, fun a hb h => by cases h⟩
    | some p =>
      obtain ⟨k, h1, h2, h3⟩ := hI.gotOk x p.1 p.2 hg
      refine ⟨k, fun a hb h => ?_⟩
      cases h
      exact ⟨h1, h2, h3⟩
  obtain ⟨k, hk⟩ := Classical.axiomOfChoice hex
  refine ⟨k, ?_, ?_⟩
  · intro x hx
    cases hg : s.got x with
    | none => have := hall x hx; rw [hg] at this; cases this
    | some p =>
      obtain ⟨h1, h2, _⟩ := hk x p.1 p.2 hg
      exact ⟨p.1, p.2, rfl, h1, h2⟩
  · unfold loads
    apply filterMap_eq_map
    intro x hx
    have hx' := List.mem_range.mp hx
    cases hg : s.got x with
    | none => have := hall x hx'; rw [hg] at this; cases this
    | some p =>
      obtain ⟨_, _, h3⟩ := hk x p.1 p.2 hg
      simp only [Option.map_some, h3]

/-- one writer contributes 5 and hands off (flag value 1 = "one contribution completed"); the reader
obtains the flag, then loads the cell -/
def handoffRun (O : Ords) (tsCell : Nat) : Option (Option (Int × Nat)) :=
  (run adderKind O (State.init adderKind) [.wLoad 0 5 0, .wStore 0, .wFlag 0, .rFlag 0 1, .rLoad 0 tsCell]).map
    (fun s => s.got 0)

end Babylon.Counter.View
