/-
  Columns: what one instance owns inside the shared thread-local lines, how every event acts on the
  columns, and the exactness of every counter whose aggregate is a commutative-monoid sum
  (ConcurrentAdder, ConcurrentSummer, the bare thread-locals).
-/
import Babylon.Counter.Lemmas

namespace Babylon.Counter
open Babylon.Gen.Counter

variable {β : Type}

/-- the cells instance id `i` owns: slot ↦ value (its offset in every thread's line of its storage) -/
def colOf (c : Cfg β) (s : Fam β) (i : Nat) : Nat → β := fun x => s.cell (i / c.num) x (i % c.num)
/-- the slots `for_each` walks for instance id `i` -/
def bndOf (c : Cfg β) (s : Fam β) (i : Nat) : Nat := bound s (i / c.num)

theorem forEach_eq (c : Cfg β) (s : Fam β) (h : Nat) :
    forEach c s h = (s.instOf h).map (fun i => (List.range (bndOf c s i)).map (colOf c s i)) := rfl

theorem col_tail {c : Cfg β} {s : Fam β} (hI : Inv c s) (i x : Nat) (hx : bndOf c s i ≤ x) :
    colOf c s i x = c.dflt := by
  unfold bndOf at hx
  rw [bound_eq hI] at hx
  apply hI.tailDflt
  omega

/-! ### how each event acts on the columns -/

theorem thread_cols {c : Cfg β} {s s' : Fam β} {e : Ev β} (he : (∃ t, e = .tstart t) ∨ (∃ t, e = .texit t))
    (h : step c s e = some s') :
    s'.instOf = s.instOf ∧ (∀ i, colOf c s' i = colOf c s i) ∧ (∀ i, bndOf c s' i = bndOf c s i) := by
  rcases he with ⟨t, rfl⟩ | ⟨t, rfl⟩
  · simp only [step, threadStart] at h
    split at h
    · cases h
    · cases h; exact ⟨rfl, fun _ => rfl, fun _ => rfl⟩
  · simp only [step, threadExit] at h
    split at h
    · cases h; exact ⟨rfl, fun _ => rfl, fun _ => rfl⟩
    · cases h

theorem new_cols {c : Cfg β} {s s' : Fam β} {hd i : Nat} (hI : Inv c s) (h : newInst c s hd i = some s') :
    s.instOf hd = none ∧ s'.instOf = upd1 s.instOf hd (some i) ∧ (∀ i', colOf c s' i' = colOf c s i') ∧
    (∀ i', bndOf c s' i' = bndOf c s i') ∧ (∀ x, colOf c s i x = c.dflt) := by
  obtain ⟨hnot, hfree, hfr, rfl⟩ := newInst_spec hI h
  refine ⟨?_, rfl, fun _ => rfl, fun _ => rfl, fun x => ?_⟩
  · cases e : s.instOf hd with
    | none => rfl
    | some i' => exact absurd (hI.instLive _ _ e) hnot
  · apply hI.freeDflt i hfree _ x
    intro hf; rw [hfr hf]; exact Nat.le_refl _

theorem drop_cols {c : Cfg β} {s s' : Fam β} {hd : Nat} (hI : Inv c s) (h : dropInst c s hd = some s') :
    ∃ i, s.instOf hd = some i ∧ s'.instOf = upd1 s.instOf hd none ∧
      (∀ i', i' ≠ i → colOf c s' i' = colOf c s i') ∧ (∀ i', bndOf c s' i' = bndOf c s i') := by
  obtain ⟨i, hi, rfl⟩ := dropInst_spec h
  refine ⟨i, hi, rfl, ?_, fun _ => rfl⟩
  intro i' hne
  funext x
  show (if c.fresh || !dtorZeroesFirst then s.cell else zeroCol c s i) (i' / c.num) x (i' % c.num) = _
  split
  · rfl
  · rw [zeroCol_apply]
    split
    · rename_i hc
      exact absurd (divmod_inj hc.1 hc.2.1) hne
    · rfl

theorem swap_cols {c : Cfg β} {s s' : Fam β} {a b : Nat} (h : swapInst s a b = some s') :
    s'.instOf = (fun x => if x = a then s.instOf b else if x = b then s.instOf a else s.instOf x) ∧
    (∀ i, colOf c s' i = colOf c s i) ∧ (∀ i, bndOf c s' i = bndOf c s i) := by
  obtain ⟨_, _, rfl⟩ := swapInst_spec h
  exact ⟨rfl, fun _ => rfl, fun _ => rfl⟩

theorem upd_cols {c : Cfg β} {s s' : Fam β} {t hd j : Nat} {f : β → β} {l : Loc} (hI : Inv c s)
    (hu : updAt c s t hd j f = some (s', l)) (hcap : s'.tidEnd ≤ tidCap) :
    ∃ i, s.instOf hd = some i ∧ s'.instOf = s.instOf ∧ s'.tidOf t = some l.tid ∧ l.tid < bndOf c s' i ∧
      l.k = i / c.num ∧ l.off = i % c.num ∧
      colOf c s' i = upd1 (colOf c s i) l.tid (f (colOf c s i l.tid)) ∧
      (∀ i', i' ≠ i → colOf c s' i' = colOf c s i') := by
  obtain ⟨i, s1, hi, hk, ho, ht, hl, hI1, hF, hsz, rfl, hI'⟩ := updAt_spec hI hu hcap
  refine ⟨i, hi, hF.instOf, hF.tid, ?_, hk, ho, ?_, ?_⟩
  · unfold bndOf
    rw [bound_eq hI']
    have h1 := hI1.tidLt _ _ hF.tid
    rw [hk] at hsz
    show l.tid < min s1.tidEnd (s1.size (i / c.num))
    omega
  · funext x
    show (if i / c.num = l.k ∧ x = l.tid ∧ i % c.num = l.off then f (s.cell l.k l.tid l.off)
      else s1.cell (i / c.num) x (i % c.num)) = upd1 (colOf c s i) l.tid (f (colOf c s i l.tid)) x
    rw [hF.cell]
    by_cases ex : x = l.tid
    · subst ex
      rw [upd1_same, if_pos ⟨hk.symm, rfl, ho.symm⟩, hk, ho]; rfl
    · rw [upd1_ne _ _ ex, if_neg (fun hc => ex hc.2.1)]; rfl
  · intro i' hne
    funext x
    show (if i' / c.num = l.k ∧ x = l.tid ∧ i' % c.num = l.off then f (s.cell l.k l.tid l.off)
      else s1.cell (i' / c.num) x (i' % c.num)) = colOf c s i' x
    rw [hF.cell, if_neg]
    · rfl
    · intro hc
      exact hne (divmod_inj (hc.1.trans hk) (hc.2.2.trans ho))

theorem each_cols {c : Cfg β} {s s' : Fam β} {hd : Nat} {g : β → β} (h : forEachUpd c s hd g = some s') :
    ∃ i, s.instOf hd = some i ∧ s'.instOf = s.instOf ∧
      colOf c s' i = (fun x => if x < bndOf c s i then g (colOf c s i x) else colOf c s i x) ∧
      (∀ i', i' ≠ i → colOf c s' i' = colOf c s i') ∧ (∀ i', bndOf c s' i' = bndOf c s i') := by
  obtain ⟨i, hi, rfl⟩ := forEachUpd_spec h
  refine ⟨i, hi, rfl, ?_, ?_, fun _ => rfl⟩
  · funext x
    show (if i / c.num = i / c.num ∧ i % c.num = i % c.num ∧ x < bound s (i / c.num)
      then g (s.cell (i / c.num) x (i % c.num)) else s.cell (i / c.num) x (i % c.num)) = _
    simp only [true_and]; rfl
  · intro i' hne
    funext x
    show (if i' / c.num = i / c.num ∧ i' % c.num = i % c.num ∧ x < bound s (i / c.num)
      then g (s.cell (i' / c.num) x (i' % c.num)) else s.cell (i' / c.num) x (i' % c.num)) = _
    rw [if_neg]
    · rfl
    · intro hc; exact hne (divmod_inj hc.1 hc.2.1)

/-! ### commutative-monoid sums -/

structure Mon (β : Type) where
  add : β → β → β
  zero : β
  assoc : ∀ a b c, add (add a b) c = add a (add b c)
  comm : ∀ a b, add a b = add b a
  zero_add : ∀ a, add zero a = a

def Mon.sum (m : Mon β) : List β → β
  | [] => m.zero
  | x :: xs => m.add x (Mon.sum m xs)

namespace Mon
variable (m : Mon β)

theorem add_zero (a : β) : m.add a m.zero = a := by rw [m.comm, m.zero_add]

/-- `Σ_{x < n} f x` -/
def sumTo (f : Nat → β) (n : Nat) : β := m.sum ((List.range n).map f)

theorem sum_append (xs ys : List β) : m.sum (xs ++ ys) = m.add (m.sum xs) (m.sum ys) := by
  induction xs with
  | nil => simp [sum, m.zero_add]
  | cons x xs ih => simp [sum, ih, m.assoc]

theorem sumTo_zero (f : Nat → β) : m.sumTo f 0 = m.zero := rfl

theorem sumTo_succ (f : Nat → β) (n : Nat) : m.sumTo f (n + 1) = m.add (m.sumTo f n) (f n) := by
  unfold sumTo
  rw [List.range_succ, List.map_append, sum_append]
  simp [sum, m.add_zero]

theorem sumTo_congr {f g : Nat → β} {n : Nat} (h : ∀ x, x < n → f x = g x) : m.sumTo f n = m.sumTo g n := by
  induction n with
  | zero => rfl
  | succ n ih =>
    rw [sumTo_succ, sumTo_succ, ih (fun x hx => h x (Nat.lt_succ_of_lt hx)), h n (Nat.lt_succ_self n)]

theorem sumTo_upd (f : Nat → β) {n x : Nat} (v : β) (hx : x < n) :
    m.sumTo (upd1 f x (m.add (f x) v)) n = m.add (m.sumTo f n) v := by
  induction n with
  | zero => omega
  | succ n ih =>
    rw [sumTo_succ, sumTo_succ]
    by_cases e : x = n
    · subst e
      rw [upd1_same, m.sumTo_congr (g := f) (fun y hy => upd1_ne f _ (by omega)), m.assoc]
    · rw [upd1_ne f _ (Ne.symm e), ih (by omega), m.assoc, m.comm v, ← m.assoc]

theorem sumTo_tail (f : Nat → β) {n N : Nat} (hN : n ≤ N) (h : ∀ x, n ≤ x → f x = m.zero) :
    m.sumTo f N = m.sumTo f n := by
  induction N with
  | zero => have : n = 0 := by omega
            rw [this]
  | succ N ih =>
    by_cases e : n = N + 1
    · rw [e]
    · rw [sumTo_succ, h N (by omega), m.add_zero]
      exact ih (by omega)

theorem sumTo_all_zero (f : Nat → β) (n : Nat) (h : ∀ x, f x = m.zero) : m.sumTo f n = m.zero := by
  induction n with
  | zero => rfl
  | succ n ih => rw [sumTo_succ, ih, h, m.zero_add]

end Mon

/-! ### the generic monoid counter -/

inductive MEv (β : Type)
  | tstart (t : Nat) | texit (t : Nat)
  | new (h i : Nat) | drop (h : Nat) | swap (a b : Nat)
  | add (t h j : Nat) (v : β)
  | reset (h : Nat)

def MEv.toEv (m : Mon β) : MEv β → Ev β
  | .tstart t => .tstart t | .texit t => .texit t
  | .new h i => .new h i | .drop h => .drop h | .swap a b => .swap a b
  | .add t h j v => .upd t h j (fun x => m.add x v)
  | .reset h => .each h (fun _ => m.zero)

/-- the reference counter: handle ↦ sum of what was added since creation / reset -/
def mRef (m : Mon β) (r : Nat → Option β) : MEv β → (Nat → Option β)
  | .tstart _ => r | .texit _ => r
  | .new h _ => upd1 r h (some m.zero)
  | .drop h => upd1 r h none
  | .swap a b => fun x => if x = a then r b else if x = b then r a else r x
  | .add _ h _ v => upd1 r h ((r h).map (fun x => m.add x v))
  | .reset h => upd1 r h ((r h).map (fun _ => m.zero))

def mRun (c : Cfg β) (m : Mon β) : Fam β → (Nat → Option β) → List (MEv β) → Option (Fam β × (Nat → Option β))
  | s, r, [] => some (s, r)
  | s, r, e :: es => (step c s (e.toEv m)).bind (fun s' => mRun c m s' (mRef m r e) es)

def mValue (c : Cfg β) (m : Mon β) (s : Fam β) (h : Nat) : Option β := (forEach c s h).map m.sum

/-- model and reference agree: every live handle's column sums to its reference value -/
def RInv (c : Cfg β) (m : Mon β) (s : Fam β) (r : Nat → Option β) : Prop :=
  ∀ h, r h = (s.instOf h).map (fun i => m.sumTo (colOf c s i) (bndOf c s i))

theorem mValue_eq (c : Cfg β) (m : Mon β) (s : Fam β) (h : Nat) :
    mValue c m s h = (s.instOf h).map (fun i => m.sumTo (colOf c s i) (bndOf c s i)) := by
  unfold mValue
  rw [forEach_eq]
  cases s.instOf h <;> rfl

/-- the column sum does not depend on how far beyond the bound one sums -/
theorem colSum_ext {c : Cfg β} (m : Mon β) (hd : c.dflt = m.zero) {s : Fam β} (hI : Inv c s) (i : Nat) {N : Nat}
    (hN : bndOf c s i ≤ N) : m.sumTo (colOf c s i) N = m.sumTo (colOf c s i) (bndOf c s i) :=
  m.sumTo_tail _ hN (fun x hx => (col_tail hI i x hx).trans hd)

theorem mstep_rinv {c : Cfg β} (m : Mon β) (hd : c.dflt = m.zero) (hz : dtorZeroesFirst = true)
    {s s' : Fam β} {r : Nat → Option β} {e : MEv β} (hI : Inv c s) (hR : RInv c m s r)
    (h : step c s (e.toEv m) = some s') (hcap : s'.tidEnd ≤ tidCap) : RInv c m s' (mRef m r e) := by
  have hI' := step_inv hz hI h hcap
  cases e with
  | tstart t =>
    obtain ⟨h1, h2, h3⟩ := thread_cols (Or.inl ⟨t, rfl⟩) h
    intro hd'; rw [h1]; simp only [h2, h3]; exact hR hd'
  | texit t =>
    obtain ⟨h1, h2, h3⟩ := thread_cols (Or.inr ⟨t, rfl⟩) h
    intro hd'; rw [h1]; simp only [h2, h3]; exact hR hd'
  | new hh i =>
    obtain ⟨hnone, h1, h2, h3, h4⟩ := new_cols hI h
    intro x
    rw [h1]
    simp only [h2, h3, mRef]
    by_cases ex : x = hh
    · subst ex
      rw [upd1_same, upd1_same]
      simp only [Option.map_some]
      rw [m.sumTo_all_zero _ _ (fun y => (h4 y).trans hd)]
    · rw [upd1_ne _ _ ex, upd1_ne _ _ ex]; exact hR x
  | drop hh =>
    obtain ⟨i, hi, h1, h2, h3⟩ := drop_cols hI h
    intro x
    rw [h1]
    simp only [mRef]
    by_cases ex : x = hh
    · subst ex; rw [upd1_same, upd1_same]; rfl
    · rw [upd1_ne _ _ ex, upd1_ne _ _ ex, hR x]
      cases hx : s.instOf x with
      | none => rfl
      | some i' =>
        have hne : i' ≠ i := fun e => ex (hI.instInj _ _ _ (e ▸ hx) hi)
        simp only [Option.map_some, h2 i' hne, h3]
  | swap a b =>
    obtain ⟨h1, h2, h3⟩ := swap_cols (c := c) h
    intro x
    rw [h1]
    simp only [mRef, h2, h3]
    by_cases ea : x = a
    · rw [if_pos ea, if_pos ea]; exact hR b
    · by_cases eb : x = b
      · rw [if_neg ea, if_pos eb, if_neg ea, if_pos eb]; exact hR a
      · rw [if_neg ea, if_neg eb, if_neg ea, if_neg eb]; exact hR x
  | add t hh j v =>
    simp only [MEv.toEv, step] at h
    cases hu : updAt c s t hh j (fun x => m.add x v) with
    | none => rw [hu] at h; cases h
    | some p =>
      rw [hu] at h
      simp only [Option.map_some, Option.some.injEq] at h
      subst h
      obtain ⟨i, hi, h1, h2, h3, _, _, h4, h5⟩ := upd_cols (l := p.2) (s' := p.1) hI hu hcap
      intro x
      rw [h1]
      simp only [mRef]
      by_cases ex : x = hh
      · subst ex
        rw [upd1_same, hR x, hi]
        simp only [Option.map_some]
        rw [h4]
        -- sum both columns up to a common bound
        have hN1 : bndOf c s i ≤ max (bndOf c s i) (bndOf c p.1 i) := Nat.le_max_left _ _
        have hN2 : bndOf c p.1 i ≤ max (bndOf c s i) (bndOf c p.1 i) := Nat.le_max_right _ _
        rw [← colSum_ext m hd hI i hN1]
        have := colSum_ext m hd hI' i hN2
        rw [h4] at this
        rw [← this, m.sumTo_upd _ v (by omega)]
      · rw [upd1_ne _ _ ex, hR x]
        cases hx : s.instOf x with
        | none => rfl
        | some i' =>
          have hne : i' ≠ i := fun e => ex (hI.instInj _ _ _ (e ▸ hx) hi)
          simp only [Option.map_some, h5 i' hne]
          have hN1 : bndOf c s i' ≤ max (bndOf c s i') (bndOf c p.1 i') := Nat.le_max_left _ _
          have hN2 : bndOf c p.1 i' ≤ max (bndOf c s i') (bndOf c p.1 i') := Nat.le_max_right _ _
          rw [← colSum_ext m hd hI i' hN1]
          have := colSum_ext m hd hI' i' hN2
          rw [h5 i' hne] at this
          rw [← this]
  | reset hh =>
    simp only [MEv.toEv, step] at h
    split at h
    · obtain ⟨i, hi, h1, h2, h3, h4⟩ := each_cols h
      intro x
      rw [h1]
      simp only [mRef]
      by_cases ex : x = hh
      · subst ex
        rw [upd1_same, hR x, hi]
        simp only [Option.map_some, h4]
        rw [h2, m.sumTo_all_zero]
        intro y
        show (if y < bndOf c s i then m.zero else colOf c s i y) = m.zero
        split
        · rfl
        · exact (col_tail hI i y (by omega)).trans hd
      · rw [upd1_ne _ _ ex, hR x]
        cases hx : s.instOf x with
        | none => rfl
        | some i' =>
          have hne : i' ≠ i := fun e => ex (hI.instInj _ _ _ (e ▸ hx) hi)
          simp only [Option.map_some, h3 i' hne, h4]
    · cases h

theorem mRun_tidEnd_mono {c : Cfg β} (m : Mon β) {es : List (MEv β)} :
    ∀ {s s' : Fam β} {r r' : Nat → Option β}, mRun c m s r es = some (s', r') → s.tidEnd ≤ s'.tidEnd := by
  induction es with
  | nil => intro s s' r r' h; cases h; exact Nat.le_refl _
  | cons e es ih =>
    intro s s' r r' h
    simp only [mRun] at h
    cases h1 : step c s (e.toEv m) with
    | none => rw [h1] at h; cases h
    | some s1 =>
      rw [h1] at h
      exact Nat.le_trans (step_tidEnd_mono h1) (ih h)

/-- **Exactness of every monoid counter**, for every history: the invariant and the agreement with
the reference survive every event, as long as `end<T>()` stays below the `uint16_t` cap. -/
theorem mRun_exact {c : Cfg β} (m : Mon β) (hd : c.dflt = m.zero) (hz : dtorZeroesFirst = true)
    {es : List (MEv β)} :
    ∀ {s s' : Fam β} {r r' : Nat → Option β}, Inv c s → RInv c m s r → mRun c m s r es = some (s', r') →
      s'.tidEnd ≤ tidCap → Inv c s' ∧ RInv c m s' r' := by
  induction es with
  | nil => intro s s' r r' hI hR h _; cases h; exact ⟨hI, hR⟩
  | cons e es ih =>
    intro s s' r r' hI hR h hcap
    simp only [mRun] at h
    cases h1 : step c s (e.toEv m) with
    | none => rw [h1] at h; cases h
    | some s1 =>
      rw [h1] at h
      have hc1 : s1.tidEnd ≤ tidCap := Nat.le_trans (mRun_tidEnd_mono m h) hcap
      exact ih (step_inv hz hI h1 hc1) (mstep_rinv m hd hz hI hR h1 hc1) h hcap

/-- a monoid-counter history is a history of the generic family -/
theorem mRun_run {c : Cfg β} (m : Mon β) {es : List (MEv β)} :
    ∀ {s s' : Fam β} {r r' : Nat → Option β}, mRun c m s r es = some (s', r') →
      run c s (es.map (fun e => e.toEv m)) = some s' := by
  induction es with
  | nil => intro s s' r r' h; cases h; rfl
  | cons e es ih =>
    intro s s' r r' h
    simp only [mRun] at h
    simp only [List.map_cons, run]
    cases h1 : step c s (e.toEv m) with
    | none => rw [h1] at h; cases h
    | some s1 => rw [h1] at h; exact ih h

theorem init_rinv (c : Cfg β) (m : Mon β) : RInv c m (Fam.init c) (fun _ => none) := by
  intro h; rfl

end Babylon.Counter
