/-
  Invariants of the thread-local family model (Babylon/Counter/Model.lean) and the frame lemmas the
  counter theorems are built from.  Generic in the cell type.
-/
import Babylon.Counter.Model

namespace Babylon.Counter
open Babylon.Gen.Counter

/-- largest `end<T>()` for which `uint16_t(snapshot.size())` is still the size: `65536 - 128` -/
def tidCap : Nat := u16 - storageBlock

theorem storageBlock_eq : storageBlock = 128 := rfl
theorem u16_eq : u16 = 65536 := rfl
theorem nextIdStep_eq : nextIdStep = 1 := rfl
theorem tidCap_eq : tidCap = 65408 := rfl

variable {β : Type}

structure Inv (c : Cfg β) (s : Fam β) : Prop where
  numPos : 0 < c.num
  cap : s.tidEnd ≤ tidCap
  tidLive : ∀ t x, s.tidOf t = some x → t ∈ s.live
  tidInj : ∀ t t' x, s.tidOf t = some x → s.tidOf t' = some x → t = t'
  tidLt : ∀ t x, s.tidOf t = some x → x < s.tidEnd
  instLive : ∀ h i, s.instOf h = some i → h ∈ s.handles
  instInj : ∀ h h' i, s.instOf h = some i → s.instOf h' = some i → h = h'
  instLt : ∀ h i, s.instOf h = some i → i < s.instEnd
  cacheOk : ∀ t k x, s.cache t = some (k, x) → t ∈ s.live ∧ s.tidOf t = some x ∧ x < s.size k
  sizeLe : ∀ k, s.size k ≤ (s.tidEnd + 127) / 128 * 128
  tailDflt : ∀ k x o, (s.tidEnd ≤ x ∨ s.size k ≤ x) → s.cell k x o = c.dflt
  freeDflt : ∀ i, (∀ h, s.instOf h ≠ some i) → (c.fresh = true → s.instEnd ≤ i) →
    ∀ x, s.cell (i / c.num) x (i % c.num) = c.dflt

theorem init_inv (c : Cfg β) (hn : 0 < c.num) : Inv c (Fam.init c) := by
  constructor <;> simp [Fam.init, hn, tidCap_eq]

theorem size16_eq {c : Cfg β} {s : Fam β} (hI : Inv c s) (k : Nat) : size16 s k = s.size k := by
  unfold size16
  split
  · have h1 := hI.sizeLe k
    have h2 := hI.cap
    rw [tidCap_eq] at h2
    rw [u16_eq]
    omega
  · rfl

theorem bound_eq {c : Cfg β} {s : Fam β} (hI : Inv c s) (k : Nat) : bound s k = min s.tidEnd (s.size k) := by
  unfold bound; rw [size16_eq hI]

theorem upd1_same {α : Type} (f : Nat → α) (k : Nat) (v : α) : upd1 f k v k = v := by simp [upd1]
theorem upd1_ne {α : Type} (f : Nat → α) {k x : Nat} (v : α) (h : x ≠ k) : upd1 f k v x = f x := by simp [upd1, h]

theorem tidHeld_iff {c : Cfg β} {s : Fam β} (hI : Inv c s) (i : Nat) :
    tidHeld s i = true ↔ ∃ t, s.tidOf t = some i := by
  unfold tidHeld
  rw [List.any_eq_true]
  constructor
  · rintro ⟨t, _, h⟩; exact ⟨t, by simpa using h⟩
  · rintro ⟨t, h⟩; exact ⟨t, hI.tidLive t i h, by simp [h]⟩

theorem instHeld_iff {c : Cfg β} {s : Fam β} (hI : Inv c s) (i : Nat) :
    instHeld s i = true ↔ ∃ h, s.instOf h = some i := by
  unfold instHeld
  rw [List.any_eq_true]
  constructor
  · rintro ⟨t, _, h⟩; exact ⟨t, by simpa using h⟩
  · rintro ⟨t, h⟩; exact ⟨t, hI.instLive t i h, by simp [h]⟩

/-- `(i / n, i % n)` determines `i` -/
theorem divmod_inj {n i i' : Nat} (h1 : i / n = i' / n) (h2 : i % n = i' % n) : i = i' := by
  rw [← Nat.div_add_mod i n, ← Nat.div_add_mod i' n, h1, h2]

/-! ### thread start / exit -/

theorem threadStart_inv {c : Cfg β} {s s' : Fam β} {t : Nat} (hI : Inv c s) (h : threadStart s t = some s') :
    Inv c s' := by
  unfold threadStart at h
  split at h
  · cases h
  · rename_i hnot
    cases h
    refine { hI with tidLive := ?_, tidInj := ?_, tidLt := ?_, cacheOk := ?_ }
    · intro t' x hx
      by_cases e : t' = t
      · subst e; simp [upd1] at hx
      · simp only [upd1, if_neg e] at hx
        exact List.mem_cons_of_mem _ (hI.tidLive _ _ hx)
    · intro a b x ha hb
      by_cases ea : a = t
      · subst ea; simp [upd1] at ha
      · by_cases eb : b = t
        · subst eb; simp [upd1] at hb
        · simp only [upd1, if_neg ea] at ha
          simp only [upd1, if_neg eb] at hb
          exact hI.tidInj _ _ _ ha hb
    · intro a x ha
      by_cases ea : a = t
      · subst ea; simp [upd1] at ha
      · simp only [upd1, if_neg ea] at ha
        exact hI.tidLt _ _ ha
    · intro a k x ha
      by_cases ea : a = t
      · subst ea; simp [upd1] at ha
      · simp only [upd1, if_neg ea] at ha ⊢
        obtain ⟨h1, h2, h3⟩ := hI.cacheOk _ _ _ ha
        exact ⟨List.mem_cons_of_mem _ h1, h2, h3⟩

theorem threadExit_inv {c : Cfg β} {s s' : Fam β} {t : Nat} (hI : Inv c s) (h : threadExit s t = some s') :
    Inv c s' := by
  unfold threadExit at h
  split at h
  · cases h
    refine { hI with tidLive := ?_, tidInj := ?_, tidLt := ?_, cacheOk := ?_ }
    · intro t' x hx
      by_cases e : t' = t
      · subst e; simp [upd1] at hx
      · simp only [upd1, if_neg e] at hx
        exact (List.mem_erase_of_ne e).mpr (hI.tidLive _ _ hx)
    · intro a b x ha hb
      by_cases ea : a = t
      · subst ea; simp [upd1] at ha
      · by_cases eb : b = t
        · subst eb; simp [upd1] at hb
        · simp only [upd1, if_neg ea] at ha
          simp only [upd1, if_neg eb] at hb
          exact hI.tidInj _ _ _ ha hb
    · intro a x ha
      by_cases ea : a = t
      · subst ea; simp [upd1] at ha
      · simp only [upd1, if_neg ea] at ha
        exact hI.tidLt _ _ ha
    · intro a k x ha
      by_cases ea : a = t
      · subst ea; simp [upd1] at ha
      · simp only [upd1, if_neg ea] at ha ⊢
        obtain ⟨h1, h2, h3⟩ := hI.cacheOk _ _ _ ha
        exact ⟨(List.mem_erase_of_ne ea).mpr h1, h2, h3⟩
  · cases h

/-! ### constructor / destructor / move -/

theorem newInst_spec {c : Cfg β} {s s' : Fam β} {h i : Nat} (hI : Inv c s) (hn : newInst c s h i = some s') :
    h ∉ s.handles ∧ (∀ h', s.instOf h' ≠ some i) ∧ (c.fresh = true → i = s.instEnd) ∧
    s' = { s with handles := h :: s.handles, instOf := upd1 s.instOf h (some i),
                  instEnd := max s.instEnd (i + nextIdStep) } := by
  unfold newInst at hn
  split at hn
  · cases hn
  · rename_i hc
    cases hn
    simp only [not_or, not_and, Decidable.not_not] at hc
    refine ⟨hc.1, ?_, hc.2.2.2, rfl⟩
    intro h' hh
    have := (instHeld_iff hI i).mpr ⟨h', hh⟩
    exact hc.2.1 this

theorem newInst_inv {c : Cfg β} {s s' : Fam β} {h i : Nat} (hI : Inv c s) (hn : newInst c s h i = some s') :
    Inv c s' := by
  obtain ⟨hnot, hfree, hfr, rfl⟩ := newInst_spec hI hn
  have hnone : s.instOf h = none := by
    cases e : s.instOf h with
    | none => rfl
    | some i' => exact absurd (hI.instLive _ _ e) hnot
  refine { hI with instLive := ?_, instInj := ?_, instLt := ?_, freeDflt := ?_ }
  · intro a x ha
    by_cases ea : a = h
    · subst ea; exact List.mem_cons_self
    · simp only [upd1, if_neg ea] at ha
      exact List.mem_cons_of_mem _ (hI.instLive _ _ ha)
  · intro a b x ha hb
    by_cases ea : a = h <;> by_cases eb : b = h
    · rw [ea, eb]
    · subst ea
      simp only [upd1, if_true, if_neg eb] at ha hb
      cases ha
      exact absurd hb (hfree b)
    · subst eb
      simp only [upd1, if_true, if_neg ea] at ha hb
      cases hb
      exact absurd ha (hfree a)
    · simp only [upd1, if_neg ea] at ha
      simp only [upd1, if_neg eb] at hb
      exact hI.instInj _ _ _ ha hb
  · intro a x ha
    by_cases ea : a = h
    · subst ea
      simp only [upd1, if_true] at ha
      cases ha
      show i < max s.instEnd (i + nextIdStep)
      rw [nextIdStep_eq]; omega
    · simp only [upd1, if_neg ea] at ha
      have := hI.instLt _ _ ha
      show x < max s.instEnd (i + nextIdStep)
      omega
  · intro i' hfree' hfresh x
    apply hI.freeDflt i' _ _ x
    · intro a ha
      by_cases ea : a = h
      · subst ea; rw [hnone] at ha; cases ha
      · exact hfree' a (by simp only [upd1, if_neg ea]; exact ha)
    · intro hf
      have := hfresh hf
      show s.instEnd ≤ i'
      have h2 : max s.instEnd (i + nextIdStep) ≤ i' := this
      omega

/-- a new instance's column is all default — even when its id is recycled -/
theorem newInst_col {c : Cfg β} {s s' : Fam β} {h i : Nat} (hI : Inv c s) (hn : newInst c s h i = some s') :
    s'.instOf h = some i ∧ s'.cell = s.cell ∧ ∀ x, s'.cell (i / c.num) x (i % c.num) = c.dflt := by
  obtain ⟨hnot, hfree, hfr, rfl⟩ := newInst_spec hI hn
  refine ⟨by simp [upd1], rfl, fun x => ?_⟩
  apply hI.freeDflt i hfree _ x
  intro hf
  rw [hfr hf]
  exact Nat.le_refl _

theorem dropInst_spec {c : Cfg β} {s s' : Fam β} {h : Nat} (hd : dropInst c s h = some s') :
    ∃ i, s.instOf h = some i ∧
      s' = { s with cell := if c.fresh || !dtorZeroesFirst then s.cell else zeroCol c s i,
                    handles := s.handles.erase h, instOf := upd1 s.instOf h none } := by
  unfold dropInst at hd
  split at hd
  · cases hd
  · rename_i i hi
    split at hd
    · cases hd; exact ⟨i, hi, rfl⟩
    · cases hd

theorem zeroCol_apply {c : Cfg β} {s : Fam β} (i k x o : Nat) :
    zeroCol c s i k x o = if k = i / c.num ∧ o = i % c.num ∧ x < bound s (i / c.num) then c.dflt else s.cell k x o := rfl

theorem dropInst_inv {c : Cfg β} {s s' : Fam β} {h : Nat} (hz : dtorZeroesFirst = true) (hI : Inv c s)
    (hd : dropInst c s h = some s') : Inv c s' := by
  obtain ⟨i, hi, rfl⟩ := dropInst_spec hd
  have hcell : ∀ k x o, (if c.fresh || !dtorZeroesFirst then s.cell else zeroCol c s i) k x o = s.cell k x o ∨
      (if c.fresh || !dtorZeroesFirst then s.cell else zeroCol c s i) k x o = c.dflt := by
    intro k x o
    split
    · exact Or.inl rfl
    · rw [zeroCol_apply]; split
      · exact Or.inr rfl
      · exact Or.inl rfl
  refine { hI with instLive := ?_, instInj := ?_, instLt := ?_, tailDflt := ?_, freeDflt := ?_ }
  · intro a x ha
    by_cases ea : a = h
    · subst ea; simp [upd1] at ha
    · simp only [upd1, if_neg ea] at ha
      exact (List.mem_erase_of_ne ea).mpr (hI.instLive _ _ ha)
  · intro a b x ha hb
    by_cases ea : a = h
    · subst ea; simp [upd1] at ha
    · by_cases eb : b = h
      · subst eb; simp [upd1] at hb
      · simp only [upd1, if_neg ea] at ha
        simp only [upd1, if_neg eb] at hb
        exact hI.instInj _ _ _ ha hb
  · intro a x ha
    by_cases ea : a = h
    · subst ea; simp [upd1] at ha
    · simp only [upd1, if_neg ea] at ha
      exact hI.instLt _ _ ha
  · intro k x o hx
    rcases hcell k x o with e | e
    · exact e.trans (hI.tailDflt k x o hx)
    · exact e
  · intro i' hfree' hfresh x
    show (if c.fresh || !dtorZeroesFirst then s.cell else zeroCol c s i) (i' / c.num) x (i' % c.num) = c.dflt
    by_cases ei : i' = i
    · subst ei
      -- the destroyed instance's own column: zeroed below the bound, default beyond it
      cases hf : c.fresh
      · simp only [hf, hz, Bool.false_or, Bool.not_true, Bool.false_eq_true, if_false]
        rw [zeroCol_apply]
        split
        · rfl
        · rename_i hcond
          simp only [true_and, Nat.not_lt] at hcond
          rw [bound_eq hI] at hcond
          apply hI.tailDflt
          omega
      · have h1 : s.instEnd ≤ i' := hfresh hf
        have h2 := hI.instLt _ _ hi
        omega
    · have hfree0 : ∀ a, s.instOf a ≠ some i' := by
        intro a ha
        by_cases ea : a = h
        · subst ea; rw [hi] at ha; cases ha; exact ei rfl
        · exact hfree' a (by simp only [upd1, if_neg ea]; exact ha)
      rcases hcell (i' / c.num) x (i' % c.num) with e | e
      · exact e.trans (hI.freeDflt i' hfree0 hfresh x)
      · exact e

theorem swapInst_spec {s s' : Fam β} {a b : Nat} (h : swapInst s a b = some s') :
    a ∈ s.handles ∧ b ∈ s.handles ∧
    s' = { s with instOf := fun x => if x = a then s.instOf b else if x = b then s.instOf a else s.instOf x } := by
  unfold swapInst at h
  split at h
  · rename_i hc; cases h; exact ⟨hc.1, hc.2, rfl⟩
  · cases h

theorem swapInst_inv {c : Cfg β} {s s' : Fam β} {a b : Nat} (hI : Inv c s) (h : swapInst s a b = some s') :
    Inv c s' := by
  obtain ⟨ha, hb, rfl⟩ := swapInst_spec h
  -- the new map is the old one composed with the transposition (a b)
  have hσ : ∀ x, (if x = a then s.instOf b else if x = b then s.instOf a else s.instOf x) =
      s.instOf (if x = a then b else if x = b then a else x) := by
    intro x; split
    · rfl
    · split <;> rfl
  have hinj : ∀ x x' : Nat, (if x = a then b else if x = b then a else x) =
      (if x' = a then b else if x' = b then a else x') → x = x' := by
    intro x x' e; grind
  refine { hI with instLive := ?_, instInj := ?_, instLt := ?_, freeDflt := ?_ }
  · intro x i hx
    have hx' : s.instOf (if x = a then b else if x = b then a else x) = some i := (hσ x) ▸ hx
    have := hI.instLive _ _ hx'
    split at this
    · rename_i e; rw [e]; exact ha
    · split at this
      · rename_i e; rw [e]; exact hb
      · exact this
  · intro x x' i hx hx'
    have h1 : s.instOf (if x = a then b else if x = b then a else x) = some i := (hσ x) ▸ hx
    have h2 : s.instOf (if x' = a then b else if x' = b then a else x') = some i := (hσ x') ▸ hx'
    exact hinj _ _ (hI.instInj _ _ _ h1 h2)
  · intro x i hx
    have hx' : s.instOf (if x = a then b else if x = b then a else x) = some i := (hσ x) ▸ hx
    exact hI.instLt _ _ hx'
  · intro i hfree hfresh x
    apply hI.freeDflt i _ hfresh x
    intro y hy
    -- y is the image of σ y under the transposition
    have := hfree (if y = a then b else if y = b then a else y)
    apply this
    show (if (if y = a then b else if y = b then a else y) = a then s.instOf b
      else if (if y = a then b else if y = b then a else y) = b then s.instOf a
      else s.instOf (if y = a then b else if y = b then a else y)) = some i
    grind

/-! ### `local()` -/

/-- what a `local()` call of thread `t` may change, and what it leaves alone -/
structure LocalFrame (s s' : Fam β) (t x : Nat) : Prop where
  cell : s'.cell = s.cell
  instOf : s'.instOf = s.instOf
  handles : s'.handles = s.handles
  instEnd : s'.instEnd = s.instEnd
  live : s'.live = s.live
  tidEnd : s.tidEnd ≤ s'.tidEnd
  size : ∀ k, s.size k ≤ s'.size k
  tid : s'.tidOf t = some x
  tidOld : ∀ y, s.tidOf t = some y → y = x
  tidOther : ∀ t', t' ≠ t → s'.tidOf t' = s.tidOf t'

theorem ensure_inv {c : Cfg β} {s : Fam β} {t k x : Nat} (hI : Inv c s) (ht : t ∈ s.live)
    (hx : s.tidOf t = some x) : Inv c (ensure s t k x) := by
  have hlt := hI.tidLt _ _ hx
  unfold ensure
  refine { hI with cacheOk := ?_, sizeLe := ?_, tailDflt := ?_ }
  · intro a k' y ha
    show a ∈ s.live ∧ s.tidOf a = some y ∧
      y < upd1 s.size k (max (s.size k) ((x / storageBlock + 1) * storageBlock)) k'
    have ha' : upd1 s.cache t (some (k, x)) a = some (k', y) := ha
    by_cases ea : a = t
    · subst ea
      rw [upd1_same] at ha'
      cases ha'
      refine ⟨ht, hx, ?_⟩
      rw [upd1_same, storageBlock_eq]
      omega
    · rw [upd1_ne _ _ ea] at ha'
      obtain ⟨h1, h2, h3⟩ := hI.cacheOk _ _ _ ha'
      refine ⟨h1, h2, ?_⟩
      by_cases ek : k' = k
      · subst ek; rw [upd1_same]; omega
      · rw [upd1_ne _ _ ek]; exact h3
  · intro k'
    show upd1 s.size k (max (s.size k) ((x / storageBlock + 1) * storageBlock)) k' ≤ (s.tidEnd + 127) / 128 * 128
    have := hI.sizeLe k'
    by_cases ek : k' = k
    · subst ek; rw [upd1_same, storageBlock_eq]; omega
    · rw [upd1_ne _ _ ek]; exact this
  · intro k' y o hy
    apply hI.tailDflt k' y o
    rcases hy with hy | hy
    · exact Or.inl hy
    · have hy' : upd1 s.size k (max (s.size k) ((x / storageBlock + 1) * storageBlock)) k' ≤ y := hy
      by_cases ek : k' = k
      · subst ek; rw [upd1_same] at hy'; right; omega
      · rw [upd1_ne _ _ ek] at hy'; exact Or.inr hy'

theorem ensure_frame {s : Fam β} {t k x : Nat} (hx : s.tidOf t = some x) :
    LocalFrame s (ensure s t k x) t x ∧ x < (ensure s t k x).size k ∧ (ensure s t k x).cache t = some (k, x) := by
  unfold ensure
  refine ⟨⟨rfl, rfl, rfl, rfl, rfl, Nat.le_refl _, ?_, hx, ?_, fun _ _ => rfl⟩, ?_, ?_⟩
  · intro k'
    show s.size k' ≤ upd1 s.size k (max (s.size k) ((x / storageBlock + 1) * storageBlock)) k'
    by_cases ek : k' = k
    · subst ek; rw [upd1_same]; omega
    · rw [upd1_ne _ _ ek]; exact Nat.le_refl _
  · intro y hy; rw [hx] at hy; cases hy; rfl
  · show x < upd1 s.size k (max (s.size k) ((x / storageBlock + 1) * storageBlock)) k
    rw [upd1_same, storageBlock_eq]; omega
  · show upd1 s.cache t (some (k, x)) t = some (k, x)
    rw [upd1_same]

theorem slowLocal_spec {c : Cfg β} {s s' : Fam β} {t k j x : Nat} (hI : Inv c s) (ht : t ∈ s.live)
    (h : slowLocal s t k j = some (s', x)) (hcap : s'.tidEnd ≤ tidCap) :
    Inv c s' ∧ LocalFrame s s' t x ∧ x < s'.size k ∧ s'.cache t = some (k, x) := by
  unfold slowLocal at h
  split at h
  · rename_i y hy
    cases h
    obtain ⟨f1, f2, f3⟩ := ensure_frame (k := k) hy
    exact ⟨ensure_inv hI ht hy, f1, f2, f3⟩
  · rename_i hnone
    split at h
    · cases h
    · rename_i hheld
      cases h
      have hfree : ∀ t', s.tidOf t' ≠ some j := by
        intro t' ht'
        exact hheld ((tidHeld_iff hI j).mpr ⟨t', ht'⟩)
      -- the state after the allocation
      have hcap' : max s.tidEnd (j + 1) ≤ tidCap := hcap
      have hI0 : Inv c { s with tidOf := upd1 s.tidOf t (some j), tidEnd := max s.tidEnd (j + 1) } := by
        refine { hI with cap := hcap', tidLive := ?_, tidInj := ?_, tidLt := ?_, cacheOk := ?_, sizeLe := ?_, tailDflt := ?_ }
        · intro a y ha
          have ha' : upd1 s.tidOf t (some j) a = some y := ha
          by_cases ea : a = t
          · subst ea; exact ht
          · rw [upd1_ne _ _ ea] at ha'; exact hI.tidLive _ _ ha'
        · intro a b y ha hb
          have ha' : upd1 s.tidOf t (some j) a = some y := ha
          have hb' : upd1 s.tidOf t (some j) b = some y := hb
          by_cases ea : a = t <;> by_cases eb : b = t
          · rw [ea, eb]
          · subst ea; rw [upd1_same] at ha'; rw [upd1_ne _ _ eb] at hb'; cases ha'; exact absurd hb' (hfree b)
          · subst eb; rw [upd1_same] at hb'; rw [upd1_ne _ _ ea] at ha'; cases hb'; exact absurd ha' (hfree a)
          · rw [upd1_ne _ _ ea] at ha'; rw [upd1_ne _ _ eb] at hb'; exact hI.tidInj _ _ _ ha' hb'
        · intro a y ha
          have ha' : upd1 s.tidOf t (some j) a = some y := ha
          show y < max s.tidEnd (j + 1)
          by_cases ea : a = t
          · subst ea; rw [upd1_same] at ha'; cases ha'; omega
          · rw [upd1_ne _ _ ea] at ha'; have := hI.tidLt _ _ ha'; omega
        · intro a k' y ha
          obtain ⟨h1, h2, h3⟩ := hI.cacheOk _ _ _ ha
          refine ⟨h1, ?_, h3⟩
          show upd1 s.tidOf t (some j) a = some y
          by_cases ea : a = t
          · subst ea; rw [hnone] at h2; cases h2
          · rw [upd1_ne _ _ ea]; exact h2
        · intro k'
          have := hI.sizeLe k'
          show s.size k' ≤ (max s.tidEnd (j + 1) + 127) / 128 * 128
          omega
        · intro k' y o hy
          apply hI.tailDflt k' y o
          rcases hy with hy | hy
          · have hy' : max s.tidEnd (j + 1) ≤ y := hy
            left; omega
          · exact Or.inr hy
      have hj : ({ s with tidOf := upd1 s.tidOf t (some j), tidEnd := max s.tidEnd (j + 1) } : Fam β).tidOf t = some j := by
        show upd1 s.tidOf t (some j) t = some j
        rw [upd1_same]
      obtain ⟨f1, f2, f3⟩ := ensure_frame (k := k) hj
      refine ⟨ensure_inv hI0 ht hj, ?_, f2, f3⟩
      refine ⟨f1.cell, f1.instOf, f1.handles, f1.instEnd, f1.live, ?_, f1.size, f1.tid, ?_, ?_⟩
      · exact Nat.le_trans (Nat.le_max_left _ _) f1.tidEnd
      · intro y hy; rw [hnone] at hy; cases hy
      · intro t' ht'
        rw [f1.tidOther t' ht']
        show upd1 s.tidOf t (some j) t' = s.tidOf t'
        rw [upd1_ne _ _ ht']

theorem localAt_spec {c : Cfg β} {s s' : Fam β} {t h j : Nat} {l : Loc} (hI : Inv c s)
    (hl : localAt c s t h j = some (s', l)) (hcap : s'.tidEnd ≤ tidCap) :
    ∃ i, s.instOf h = some i ∧ l.k = i / c.num ∧ l.off = i % c.num ∧ t ∈ s.live ∧
      Inv c s' ∧ LocalFrame s s' t l.tid ∧ l.tid < s'.size l.k := by
  unfold localAt at hl
  split at hl
  · rename_i ht
    split at hl
    · cases hl
    · rename_i i hi
      refine ⟨i, hi, ?_⟩
      -- slow path, shared by the cache-miss cases
      have slow : ∀ {p : Fam β × Nat}, slowLocal s t (i / c.num) j = some p →
          (p.1, (⟨i / c.num, p.2, i % c.num⟩ : Loc)) = (s', l) →
          l.k = i / c.num ∧ l.off = i % c.num ∧ t ∈ s.live ∧ Inv c s' ∧ LocalFrame s s' t l.tid ∧ l.tid < s'.size l.k := by
        intro p hp he
        obtain ⟨p1, p2⟩ := p
        cases he
        obtain ⟨a, b, c', _⟩ := slowLocal_spec hI ht hp hcap
        exact ⟨rfl, rfl, ht, a, b, c'⟩
      dsimp only at hl
      split at hl
      · rename_i k' x hc
        split at hl
        · rename_i hk
          cases hl
          obtain ⟨h1, h2, h3⟩ := hI.cacheOk _ _ _ hc
          subst hk
          refine ⟨rfl, rfl, ht, hI, ⟨rfl, rfl, rfl, rfl, rfl, Nat.le_refl _, fun _ => Nat.le_refl _, h2, ?_, fun _ _ => rfl⟩, h3⟩
          intro y hy; rw [h2] at hy; cases hy; rfl
        · cases hp : slowLocal s t (i / c.num) j with
          | none => rw [hp] at hl; cases hl
          | some p => rw [hp] at hl; exact slow hp (by simpa using hl)
      · cases hp : slowLocal s t (i / c.num) j with
        | none => rw [hp] at hl; cases hl
        | some p => rw [hp] at hl; exact slow hp (by simpa using hl)
  · cases hl

theorem setCell_inv {c : Cfg β} {s : Fam β} {l : Loc} {v : β} (hI : Inv c s) (h1 : l.tid < s.tidEnd)
    (h2 : l.tid < s.size l.k) (i : Nat) (hd : ∃ h, s.instOf h = some i) (hk : l.k = i / c.num)
    (ho : l.off = i % c.num) : Inv c (setCell s l v) := by
  unfold setCell
  refine { hI with tailDflt := ?_, freeDflt := ?_ }
  · intro k x o hx
    show (if k = l.k ∧ x = l.tid ∧ o = l.off then v else s.cell k x o) = c.dflt
    split
    · rename_i hc
      obtain ⟨rfl, rfl, rfl⟩ := hc
      have hx' : s.tidEnd ≤ l.tid ∨ s.size l.k ≤ l.tid := hx
      omega
    · exact hI.tailDflt k x o hx
  · intro i' hfree hfresh x
    show (if i' / c.num = l.k ∧ x = l.tid ∧ i' % c.num = l.off then v else s.cell (i' / c.num) x (i' % c.num)) = c.dflt
    split
    · rename_i hc
      obtain ⟨e1, _, e3⟩ := hc
      have : i' = i := divmod_inj (e1.trans hk) (e3.trans ho)
      subst this
      obtain ⟨h, hh⟩ := hd
      exact absurd hh (hfree h)
    · exact hI.freeDflt i' hfree hfresh x

theorem updAt_spec {c : Cfg β} {s s' : Fam β} {t h j : Nat} {f : β → β} {l : Loc} (hI : Inv c s)
    (hu : updAt c s t h j f = some (s', l)) (hcap : s'.tidEnd ≤ tidCap) :
    ∃ i s1, s.instOf h = some i ∧ l.k = i / c.num ∧ l.off = i % c.num ∧ t ∈ s.live ∧
      localAt c s t h j = some (s1, l) ∧ Inv c s1 ∧ LocalFrame s s1 t l.tid ∧ l.tid < s1.size l.k ∧
      s' = setCell s1 l (f (s.cell l.k l.tid l.off)) ∧ Inv c s' := by
  unfold updAt at hu
  cases hl : localAt c s t h j with
  | none => rw [hl] at hu; cases hu
  | some p =>
    obtain ⟨s1, l1⟩ := p
    rw [hl] at hu
    simp only [Option.map_some, Option.some.injEq, Prod.mk.injEq] at hu
    obtain ⟨hs', rfl⟩ := hu
    have hcap1 : s1.tidEnd ≤ tidCap := by rw [← hs'] at hcap; exact hcap
    obtain ⟨i, hi, hk, ho, ht, hI1, hF, hsz⟩ := localAt_spec hI hl hcap1
    have hcell : s1.cell l1.k l1.tid l1.off = s.cell l1.k l1.tid l1.off := by rw [hF.cell]
    refine ⟨i, s1, hi, hk, ho, ht, rfl, hI1, hF, hsz, ?_, ?_⟩
    · rw [← hs', hcell]
    · rw [← hs']
      exact setCell_inv hI1 (hI1.tidLt _ _ hF.tid) hsz i ⟨h, by rw [hF.instOf]; exact hi⟩ hk ho

theorem forEachUpd_spec {c : Cfg β} {s s' : Fam β} {h : Nat} {g : β → β} (hf : forEachUpd c s h g = some s') :
    ∃ i, s.instOf h = some i ∧
      s' = { s with cell := fun k x o =>
        if k = i / c.num ∧ o = i % c.num ∧ x < bound s (i / c.num) then g (s.cell k x o) else s.cell k x o } := by
  unfold forEachUpd at hf
  cases hi : s.instOf h with
  | none => rw [hi] at hf; cases hf
  | some i =>
    rw [hi] at hf
    simp only [Option.map_some, Option.some.injEq] at hf
    exact ⟨i, rfl, hf.symm⟩

theorem forEachUpd_inv {c : Cfg β} {s s' : Fam β} {h : Nat} {g : β → β} (hI : Inv c s)
    (hf : forEachUpd c s h g = some s') : Inv c s' := by
  obtain ⟨i, hi, rfl⟩ := forEachUpd_spec hf
  refine { hI with tailDflt := ?_, freeDflt := ?_ }
  · intro k x o hx
    show (if k = i / c.num ∧ o = i % c.num ∧ x < bound s (i / c.num) then g (s.cell k x o) else s.cell k x o) = c.dflt
    split
    · rename_i hc
      obtain ⟨rfl, _, hlt⟩ := hc
      rw [bound_eq hI] at hlt
      have hx' : s.tidEnd ≤ x ∨ s.size (i / c.num) ≤ x := hx
      omega
    · exact hI.tailDflt k x o hx
  · intro i' hfree hfresh x
    show (if i' / c.num = i / c.num ∧ i' % c.num = i % c.num ∧ x < bound s (i / c.num)
      then g (s.cell (i' / c.num) x (i' % c.num)) else s.cell (i' / c.num) x (i' % c.num)) = c.dflt
    split
    · rename_i hc
      have : i' = i := divmod_inj hc.1 hc.2.1
      subst this
      exact absurd hi (hfree h)
    · exact hI.freeDflt i' hfree hfresh x

/-! ### every step: `end<T>()` only grows, the invariant is kept (below the uint16_t cap) -/

theorem localAt_tidEnd_mono {c : Cfg β} {s s' : Fam β} {t h j : Nat} {l : Loc}
    (hl : localAt c s t h j = some (s', l)) : s.tidEnd ≤ s'.tidEnd := by
  have slow : ∀ {k : Nat} {p : Fam β × Nat}, slowLocal s t k j = some p → s.tidEnd ≤ p.1.tidEnd := by
    intro k p hp
    unfold slowLocal at hp
    split at hp
    · cases hp; exact Nat.le_refl _
    · split at hp
      · cases hp
      · cases hp; exact Nat.le_max_left _ _
  unfold localAt at hl
  split at hl
  · split at hl
    · cases hl
    · rename_i i hi
      dsimp only at hl
      split at hl
      · split at hl
        · cases hl; exact Nat.le_refl _
        · cases hp : slowLocal s t (i / c.num) j with
          | none => rw [hp] at hl; cases hl
          | some p =>
            rw [hp] at hl
            simp only [Option.map_some, Option.some.injEq, Prod.mk.injEq] at hl
            rw [← hl.1]; exact slow hp
      · cases hp : slowLocal s t (i / c.num) j with
        | none => rw [hp] at hl; cases hl
        | some p =>
          rw [hp] at hl
          simp only [Option.map_some, Option.some.injEq, Prod.mk.injEq] at hl
          rw [← hl.1]; exact slow hp
  · cases hl

theorem step_tidEnd_mono {c : Cfg β} {s s' : Fam β} {e : Ev β} (h : step c s e = some s') :
    s.tidEnd ≤ s'.tidEnd := by
  cases e with
  | tstart t =>
    simp only [step, threadStart] at h
    split at h
    · cases h
    · cases h; exact Nat.le_refl _
  | texit t =>
    simp only [step, threadExit] at h
    split at h
    · cases h; exact Nat.le_refl _
    · cases h
  | new hd i =>
    simp only [step, newInst] at h
    split at h
    · cases h
    · cases h; exact Nat.le_refl _
  | drop hd =>
    obtain ⟨i, _, rfl⟩ := dropInst_spec (c := c) h
    exact Nat.le_refl _
  | swap a b =>
    obtain ⟨_, _, rfl⟩ := swapInst_spec h
    exact Nat.le_refl _
  | upd t hd j f =>
    simp only [step, updAt] at h
    cases hl : localAt c s t hd j with
    | none => rw [hl] at h; cases h
    | some p =>
      rw [hl] at h
      simp only [Option.map_some, Option.some.injEq] at h
      rw [← h]
      exact localAt_tidEnd_mono (l := p.2) (s' := p.1) hl
  | each hd g =>
    simp only [step] at h
    split at h
    · obtain ⟨i, _, rfl⟩ := forEachUpd_spec h
      exact Nat.le_refl _
    · cases h

theorem step_inv {c : Cfg β} {s s' : Fam β} {e : Ev β} (hz : dtorZeroesFirst = true) (hI : Inv c s)
    (h : step c s e = some s') (hcap : s'.tidEnd ≤ tidCap) : Inv c s' := by
  cases e with
  | tstart t => exact threadStart_inv hI h
  | texit t => exact threadExit_inv hI h
  | new hd i => exact newInst_inv hI h
  | drop hd => exact dropInst_inv hz hI h
  | swap a b => exact swapInst_inv hI h
  | upd t hd j f =>
    simp only [step] at h
    cases hu : updAt c s t hd j f with
    | none => rw [hu] at h; cases h
    | some p =>
      rw [hu] at h
      simp only [Option.map_some, Option.some.injEq] at h
      subst h
      obtain ⟨_, _, _, _, _, _, _, _, _, _, _, hI'⟩ := updAt_spec (l := p.2) (s' := p.1) hI hu hcap
      exact hI'
  | each hd g =>
    simp only [step] at h
    split at h
    · exact forEachUpd_inv hI h
    · cases h

theorem run_tidEnd_mono {c : Cfg β} {es : List (Ev β)} : ∀ {s s' : Fam β}, run c s es = some s' → s.tidEnd ≤ s'.tidEnd := by
  induction es with
  | nil => intro s s' h; cases h; exact Nat.le_refl _
  | cons e es ih =>
    intro s s' h
    simp only [run] at h
    cases h1 : step c s e with
    | none => rw [h1] at h; cases h
    | some s1 =>
      rw [h1] at h
      exact Nat.le_trans (step_tidEnd_mono h1) (ih h)

theorem run_inv {c : Cfg β} (hz : dtorZeroesFirst = true) {es : List (Ev β)} :
    ∀ {s s' : Fam β}, Inv c s → run c s es = some s' → s'.tidEnd ≤ tidCap → Inv c s' := by
  induction es with
  | nil => intro s s' hI h _; cases h; exact hI
  | cons e es ih =>
    intro s s' hI h hcap
    simp only [run] at h
    cases h1 : step c s e with
    | none => rw [h1] at h; cases h
    | some s1 =>
      rw [h1] at h
      have hc1 : s1.tidEnd ≤ tidCap := Nat.le_trans (run_tidEnd_mono h) hcap
      exact ih (step_inv hz hI h1 hc1) h hcap

end Babylon.Counter
