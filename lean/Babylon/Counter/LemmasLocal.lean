/-
  `local()` is private and stable; `for_each` covers every slot ever used; `for_each_alive` visits
  exactly the slots of the live threads.  Consequences of the family invariant.
-/
import Babylon.Counter.LemmasAgg

namespace Babylon.Counter
open Babylon.Gen.Counter

variable {β : Type}

/-- states reachable by a history that keeps `end<T>()` below the `uint16_t` cap -/
def Reach (c : Cfg β) (s : Fam β) : Prop := ∃ es, run c (Fam.init c) es = some s ∧ s.tidEnd ≤ tidCap

theorem reach_inv {c : Cfg β} (hn : 0 < c.num) (hz : dtorZeroesFirst = true) {s : Fam β} (h : Reach c s) : Inv c s := by
  obtain ⟨es, hr, hc⟩ := h
  exact run_inv hz (init_inv c hn) hr hc

/-- the cell thread `t` owns in instance `h`: storage and offset from the instance id, slot = thread id -/
def locOf (c : Cfg β) (s : Fam β) (h t : Nat) : Option Loc :=
  match s.instOf h, s.tidOf t with
  | some i, some x => some ⟨i / c.num, x, i % c.num⟩
  | _, _ => none

/-- `local()` returns the caller's own cell of that instance — on the cached fast path too -/
theorem local_returns_own {c : Cfg β} {s s' : Fam β} {t h j : Nat} {l : Loc} (hI : Inv c s)
    (hl : localAt c s t h j = some (s', l)) (hcap : s'.tidEnd ≤ tidCap) : locOf c s' h t = some l := by
  obtain ⟨i, hi, hk, ho, _, _, hF, _⟩ := localAt_spec hI hl hcap
  unfold locOf
  rw [hF.instOf, hi, hF.tid]
  cases l
  simp only at hk ho
  rw [hk, ho]

/-- distinct (instance, thread) pairs own distinct cells -/
theorem locOf_inj {c : Cfg β} {s : Fam β} (hI : Inv c s) {h h' t t' : Nat} {l : Loc}
    (h1 : locOf c s h t = some l) (h2 : locOf c s h' t' = some l) : h = h' ∧ t = t' := by
  unfold locOf at h1 h2
  cases hi : s.instOf h with
  | none => rw [hi] at h1; cases h1
  | some i =>
    cases hx : s.tidOf t with
    | none => rw [hi, hx] at h1; cases h1
    | some x =>
      cases hi' : s.instOf h' with
      | none => rw [hi'] at h2; cases h2
      | some i' =>
        cases hx' : s.tidOf t' with
        | none => rw [hi', hx'] at h2; cases h2
        | some x' =>
          rw [hi, hx] at h1
          rw [hi', hx'] at h2
          simp only [Option.some.injEq] at h1 h2
          rw [← h1] at h2
          simp only [Loc.mk.injEq] at h2
          obtain ⟨e1, e2, e3⟩ := h2
          have : i' = i := divmod_inj e1 e3
          subst this; subst e2
          exact ⟨hI.instInj _ _ _ hi hi', hI.tidInj _ _ _ hx hx'⟩

/-- a thread keeps its thread id until it exits -/
theorem step_tid_stable {c : Cfg β} {s s' : Fam β} {e : Ev β} {t x : Nat} (hI : Inv c s)
    (h : step c s e = some s') (hcap : s'.tidEnd ≤ tidCap) (hne : e ≠ .texit t) (hx : s.tidOf t = some x) :
    s'.tidOf t = some x := by
  cases e with
  | tstart t' =>
    simp only [step, threadStart] at h
    split at h
    · cases h
    · rename_i hnot
      cases h
      have : t ≠ t' := fun e => hnot (e ▸ hI.tidLive _ _ hx)
      show upd1 s.tidOf t' none t = some x
      rw [upd1_ne _ _ this]; exact hx
  | texit t' =>
    simp only [step, threadExit] at h
    split at h
    · cases h
      have : t ≠ t' := fun e => hne (by rw [e])
      show upd1 s.tidOf t' none t = some x
      rw [upd1_ne _ _ this]; exact hx
    · cases h
  | new hd i =>
    simp only [step, newInst] at h
    split at h
    · cases h
    · cases h; exact hx
  | drop hd =>
    obtain ⟨i, _, rfl⟩ := dropInst_spec (c := c) h
    exact hx
  | swap a b =>
    obtain ⟨_, _, rfl⟩ := swapInst_spec h
    exact hx
  | upd t' hd j f =>
    simp only [step] at h
    cases hu : updAt c s t' hd j f with
    | none => rw [hu] at h; cases h
    | some p =>
      rw [hu] at h
      simp only [Option.map_some, Option.some.injEq] at h
      subst h
      obtain ⟨i, s1, _, _, _, _, _, _, hF, _, hs', _⟩ := updAt_spec (l := p.2) (s' := p.1) hI hu hcap
      rw [hs']
      show s1.tidOf t = some x
      by_cases e : t = t'
      · subst e; rw [hF.tid, ← hF.tidOld x hx]
      · rw [hF.tidOther t e]; exact hx
  | each hd g =>
    simp only [step] at h
    split at h
    · obtain ⟨i, _, rfl⟩ := forEachUpd_spec h
      exact hx
    · cases h

theorem run_tid_stable {c : Cfg β} (hz : dtorZeroesFirst = true) {es : List (Ev β)} {t x : Nat} :
    ∀ {s s' : Fam β}, Inv c s → run c s es = some s' → s'.tidEnd ≤ tidCap → (∀ e ∈ es, e ≠ Ev.texit t) →
      s.tidOf t = some x → s'.tidOf t = some x := by
  induction es with
  | nil => intro s s' _ h _ _ hx; cases h; exact hx
  | cons e es ih =>
    intro s s' hI h hcap hne hx
    simp only [run] at h
    cases h1 : step c s e with
    | none => rw [h1] at h; cases h
    | some s1 =>
      rw [h1] at h
      have hc1 : s1.tidEnd ≤ tidCap := Nat.le_trans (run_tidEnd_mono h) hcap
      exact ih (step_inv hz hI h1 hc1) h hcap (fun e he => hne e (List.mem_cons_of_mem _ he))
        (step_tid_stable hI h1 hc1 (hne e List.mem_cons_self) hx)

/-! ### `for_each` covers every slot that was ever used -/

theorem step_size_mono {c : Cfg β} {s s' : Fam β} {e : Ev β} (hI : Inv c s) (h : step c s e = some s')
    (hcap : s'.tidEnd ≤ tidCap) (k : Nat) : s.size k ≤ s'.size k := by
  cases e with
  | tstart t =>
    simp only [step, threadStart] at h
    split at h
    · cases h
    · cases h; exact Nat.le_refl _
  | texit t =>
    simp only [step, threadExit] at h
    split at h
    · cases h; exact Nat.le_refl _
    · cases h
  | new hd i =>
    simp only [step, newInst] at h
    split at h
    · cases h
    · cases h; exact Nat.le_refl _
  | drop hd =>
    obtain ⟨i, _, rfl⟩ := dropInst_spec (c := c) h
    exact Nat.le_refl _
  | swap a b =>
    obtain ⟨_, _, rfl⟩ := swapInst_spec h
    exact Nat.le_refl _
  | upd t hd j f =>
    simp only [step] at h
    cases hu : updAt c s t hd j f with
    | none => rw [hu] at h; cases h
    | some p =>
      rw [hu] at h
      simp only [Option.map_some, Option.some.injEq] at h
      subst h
      obtain ⟨i, s1, _, _, _, _, _, _, hF, _, hs', _⟩ := updAt_spec (l := p.2) (s' := p.1) hI hu hcap
      rw [hs']
      exact hF.size k
  | each hd g =>
    simp only [step] at h
    split at h
    · obtain ⟨i, _, rfl⟩ := forEachUpd_spec h
      exact Nat.le_refl _
    · cases h

/-- the walk of `for_each` only grows (below the cap) -/
theorem run_bound_mono {c : Cfg β} (hz : dtorZeroesFirst = true) {es : List (Ev β)} :
    ∀ {s s' : Fam β}, Inv c s → run c s es = some s' → s'.tidEnd ≤ tidCap → ∀ k, bound s k ≤ bound s' k := by
  induction es with
  | nil => intro s s' _ h _ k; cases h; exact Nat.le_refl _
  | cons e es ih =>
    intro s s' hI h hcap k
    simp only [run] at h
    cases h1 : step c s e with
    | none => rw [h1] at h; cases h
    | some s1 =>
      rw [h1] at h
      have hc1 : s1.tidEnd ≤ tidCap := Nat.le_trans (run_tidEnd_mono h) hcap
      have hI1 := step_inv hz hI h1 hc1
      refine Nat.le_trans ?_ (ih hI1 h hcap k)
      rw [bound_eq hI, bound_eq hI1]
      have := step_tidEnd_mono h1
      have := step_size_mono hI h1 hc1 k
      omega

/-! ### `for_each_alive` -/

theorem mem_aliveTids {c : Cfg β} {s : Fam β} (hI : Inv c s) (x : Nat) :
    x ∈ aliveTids s ↔ ∃ t, t ∈ s.live ∧ s.tidOf t = some x := by
  unfold aliveTids
  rw [List.mem_filter, List.mem_range, tidHeld_iff hI]
  constructor
  · rintro ⟨_, t, ht⟩; exact ⟨t, hI.tidLive _ _ ht, ht⟩
  · rintro ⟨t, _, ht⟩; exact ⟨hI.tidLt _ _ ht, t, ht⟩

theorem forEachAlive_clipped {c : Cfg β} {s : Fam β} (hI : Inv c s) {h i : Nat} (hi : s.instOf h = some i) :
    forEachAliveWith true c s h =
      some (((aliveTids s).filter (· < s.size (i / c.num))).map (fun x => (x, s.cell (i / c.num) x (i % c.num)))) := by
  unfold forEachAliveWith
  rw [hi]
  simp only [if_true]
  have h1 := hI.sizeLe (i / c.num)
  have h2 := hI.cap
  rw [tidCap_eq] at h2
  have : s.size (i / c.num) % u16 = s.size (i / c.num) := by rw [u16_eq]; omega
  rw [this]

end Babylon.Counter
