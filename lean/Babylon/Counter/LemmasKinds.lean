/-
  The adder, the summer and the bare thread-locals as instances of the generic monoid counter.
-/
import Babylon.Counter.LemmasAgg

namespace Babylon.Counter
open Babylon.Gen.Counter

def intMon : Mon Int :=
  { add := fun a b => a + b, zero := 0, assoc := Int.add_assoc, comm := Int.add_comm, zero_add := Int.zero_add }

theorem sumInts_eq (l : List Int) : sumInts l = intMon.sum l := by
  induction l with
  | nil => rfl
  | cons x xs ih => simp only [sumInts, Mon.sum, ih]; rfl

def cellMon : Mon Summer.Cell :=
  { add := Summer.addC, zero := (0, 0),
    assoc := by intro a b c; simp only [Summer.addC, Int.add_assoc, Nat.add_assoc],
    comm := by intro a b; simp only [Summer.addC, Int.add_comm, Nat.add_comm],
    zero_add := by intro a; simp [Summer.addC] }

theorem sumCells_eq (l : List Summer.Cell) : Summer.sumCells l = cellMon.sum l := by
  induction l with
  | nil => rfl
  | cons x xs ih => simp only [Summer.sumCells, Mon.sum, ih]; rfl

namespace Adder
def AEv.toM : AEv → MEv Int
  | .tstart t => .tstart t | .texit t => .texit t
  | .new h i => .new h i | .drop h => .drop h | .swap a b => .swap a b
  | .add t h j v => .add t h j v
  | .reset h => .reset h

theorem step_eq (s : Fam Int) (e : AEv) : step s e = Counter.step cfg s (e.toM.toEv intMon) := by
  cases e <;> rfl
theorem ref_eq (r : Nat → Option Int) (e : AEv) : refStep r e = mRef intMon r e.toM := by
  cases e <;> rfl
theorem run_eq (es : List AEv) : ∀ (s : Fam Int) (r : Nat → Option Int),
    run s r es = mRun cfg intMon s r (es.map AEv.toM) := by
  induction es with
  | nil => intro s r; rfl
  | cons e es ih =>
    intro s r
    simp only [run, List.map_cons, mRun, step_eq, ref_eq]
    cases Counter.step cfg s (e.toM.toEv intMon) with
    | none => rfl
    | some s1 => exact ih s1 _
theorem value_eq (s : Fam Int) (h : Nat) : value s h = mValue cfg intMon s h := by
  unfold value mValue
  cases forEach cfg s h with
  | none => rfl
  | some l => simp only [Option.map_some, sumInts_eq]
theorem num_pos : 0 < cfg.num := by decide
end Adder

namespace Summer
def SEv.toM : SEv → MEv Cell
  | .tstart t => .tstart t | .texit t => .texit t
  | .new h i => .new h i | .drop h => .drop h
  | .add t h j v => .add t h j v

theorem step_eq (s : Fam Cell) (e : SEv) : step s e = Counter.step cfg s (e.toM.toEv cellMon) := by
  cases e <;> rfl
theorem ref_eq (r : Nat → Option Cell) (e : SEv) : refStep r e = mRef cellMon r e.toM := by
  cases e <;> rfl
theorem run_eq (es : List SEv) : ∀ (s : Fam Cell) (r : Nat → Option Cell),
    run s r es = mRun cfg cellMon s r (es.map SEv.toM) := by
  induction es with
  | nil => intro s r; rfl
  | cons e es ih =>
    intro s r
    simp only [run, List.map_cons, mRun, step_eq, ref_eq]
    cases Counter.step cfg s (e.toM.toEv cellMon) with
    | none => rfl
    | some s1 => exact ih s1 _
theorem value_eq (s : Fam Cell) (h : Nat) : value s h = mValue cfg cellMon s h := by
  unfold value mValue
  cases forEach cfg s h with
  | none => rfl
  | some l => simp only [Option.map_some, sumCells_eq]
theorem num_pos : 0 < cfg.num := by decide
end Summer

/-- the reference after a run is the fold of `refStep` over the history -/
theorem Adder.ref_fold (es : List Adder.AEv) : ∀ (s s' : Fam Int) (r r' : Nat → Option Int),
    Adder.run s r es = some (s', r') → r' = es.foldl Adder.refStep r := by
  induction es with
  | nil => intro s s' r r' h; cases h; rfl
  | cons e es ih =>
    intro s s' r r' h
    simp only [Adder.run] at h
    cases h1 : Adder.step s e with
    | none => rw [h1] at h; cases h
    | some s1 => rw [h1] at h; exact ih _ _ _ _ h


end Babylon.Counter
