/-
  The source text the C19 model (Babylon/Counter/Model.lean) was written against: whitespace-free
  bodies of every modelled function of thread_local.h / counter.h / counter.cpp, as extracted by
  gen/counter.py at the time of writing (after the repairs f87c6ba, aff20d8).  Properties/C19.lean
  proves `Gen.Counter.src_* = Pinned.*` on every run: an edit of any of these functions stops the
  proof from checking, and the model has to be revisited deliberately.  Hand-maintained.
-/
namespace Babylon.Counter.Pinned

def etl_for_each : String := "{autosnapshot=_storage.snapshot();snapshot.for_each(0,::std::min(ThreadIdType::templateend<T>(),static_cast<uint16_t>(snapshot.size())),callback);}"
def etl_for_each_alive : String := "{autosnapshot=_storage.snapshot();uint16_tsize=snapshot.size();ThreadIdType::templatefor_each<T>([&](uint16_tbegin,uint16_tend){begin=::std::min(begin,size);end=::std::min(end,size);snapshot.for_each(begin,end,callback);});}"
def etl_for_each_alive_const : String := "{autosnapshot=_storage.snapshot();uint16_tsize=snapshot.size();ThreadIdType::templatefor_each<T>([&](uint16_tbegin,uint16_tend){begin=::std::min(begin,size);end=::std::min(end,size);snapshot.for_each(begin,end,callback);});}"
def compact_for_each : String := "{_storage->for_each([&](CacheLine*iter,CacheLine*end){for(;iter!=end;++iter){callback(iter->value[_cacheline_offset]);}});}|{_storage->for_each([&](constCacheLine*iter,constCacheLine*end){for(;iter!=end;++iter){callback(iter->value[_cacheline_offset]);}});}"
def compact_for_each_alive : String := "{_storage->for_each_alive([&](CacheLine*iter,CacheLine*end){for(;iter!=end;++iter){callback(iter->value[_cacheline_offset]);}});}|{_storage->for_each_alive([&](constCacheLine*iter,constCacheLine*end){for(;iter!=end;++iter){callback(iter->value[_cacheline_offset]);}});}"
def etl_local : String := "{autoitem=local_fast();if((__builtin_expect(false||(item==nullptr),false))){item=&_storage.ensure(ThreadIdType::templatecurrent_thread_id<T>().value);_s_cache.id=_id;_s_cache.item=item;}return*item;}"
def etl_local_fast : String := "{if((__builtin_expect(false||(_s_cache.id==_id),true))){return_s_cache.item;}returnnullptr;}"
def etl_move_assign : String := "{::std::swap(_id,other._id);::std::swap(_storage,other._storage);return*this;}"
def compact_move_assign : String := "{::std::swap(_instance_id,other._instance_id);::std::swap(_cacheline_offset,other._cacheline_offset);::std::swap(_storage,other._storage);return*this;}"
def compact_ctor : String := "_instance_id{allocate_id()},_cacheline_offset{_instance_id%NUM_PER_CACHELINE},_storage{&storage(_instance_id/NUM_PER_CACHELINE)}{}"
def compact_move_ctor : String := "{*this=::std::move(other);}"
def compact_dtor : String := "{_storage->for_each([&](CacheLine*iter,CacheLine*end){for(;iter!=end;++iter){iter->value[_cacheline_offset]=T();}});id_allocator().deallocate(_instance_id);}"
def compact_local : String := "{return_storage->local().value[_cacheline_offset];}"
def adder_value : String := "{Tsum=0;_storage.for_each([&](constT&value){sum+=value;});returnsum;}"
def adder_reset : String := "{_storage.for_each([&](T&value){value=0;});}"
def adder_count : String := "{auto&local=_storage.local();local=local+value;}"
def cmp_put : String := "{auto&local=_storage.local();if((__builtin_expect(false||(_version!=local.version),false))){local.version=_version;local.value=value;return*this;}if((__builtin_expect(false||(_comparer(value,local.value)),false))){local.value=value;}return*this;}"
def cmp_value : String := "{boolhas_result=false;Tresult=EXTREMUM;_storage.for_each([&](constSlot&slot){if(slot.version==_version){if(!has_result||_comparer(slot.value,result)){result=slot.value;has_result=true;}}});if(has_result){compare_value=result;}returnhas_result;}"
def cmp_value0 : String := "{Tcompare_value=0;value(compare_value);returncompare_value;}"
def cmp_reset : String := "{++_version;}"
def cmp_slot : String := "{size_tversion{(18446744073709551615UL)};Tvalue;}"
def cmp_extremum : String := "Max?std::numeric_limits<T>::min():std::numeric_limits<T>::max()"
def cmp_comparers : String := "template<typenameT>structMaxComparer{booloperator()(Tlhs,Trhs)const{returnlhs>rhs;}};template<typenameT>structMinComparer{booloperator()(Tlhs,Trhs)const{returnlhs<rhs;}};"
def summer_put1 : String := "{returnoperator<<({value,1});}"
def summer_put : String := "{auto&local=_storage.local();__m128idelta_value=_mm_load_si128(reinterpret_cast<__m128i*>(&summary));__m128ilocal_value=_mm_load_si128(reinterpret_cast<__m128i*>(&local));local_value=_mm_add_epi64(local_value,delta_value);_mm_store_si128(reinterpret_cast<__m128i*>(&local),local_value);return*this;}"
def summer_value : String := "{__m128isummary_value=_mm_setzero_si128();_storage.for_each([&](constSummary&value){__m128ilocal_value=_mm_load_si128(reinterpret_cast<const__m128i*>(&value));summary_value=_mm_add_epi64(summary_value,local_value);});return{summary_value[0],static_cast<size_t>(summary_value[1])};}"
end Babylon.Counter.Pinned
