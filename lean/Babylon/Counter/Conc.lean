/-
  Reads that overlap adds: one adder as single-writer cells read by a concurrent reader.

  Granularity = one memory access (what VRT schedules when the cells are registered as payload):
    wLoad x v   the owner of slot `x` executes the load of `local = local + v` (the add "starts")
    wStore x    … and its store (the add "completes")
    rStart n    `value()` takes its bound `n = min(end<T>(), size)`
    rLoad       … loads the next slot and accumulates
    rEnd        … returns
  Slot `x` has one writer at a time (`local_private_stable`): the successive threads that own thread
  id `x` are one sequential writer; thread exit / slot reuse is therefore not visible here.
  Cells are relaxed atomics: a load returns the latest store (per-location coherence is all that is
  used: every cell is read by the reader and written by its single writer only).
  Ghost fields (`comp`, `pend`, `lo`, `hi`, `c0`, `negs`, `poss`) never influence a non-ghost field.
-/
import Babylon.Core.Reach
import Babylon.Counter.Lemmas

namespace Babylon.Counter.Conc
open Babylon.Core Babylon.Counter

/-- `Σ_{x < n} f x` -/
def isum (f : Nat → Int) : Nat → Int
  | 0 => 0
  | n + 1 => isum f n + f n

structure CState where
  cell : Nat → Int                       -- slot ↦ the counter's word in that thread's line
  wpc : Nat → Option (Int × Int)         -- slot's writer inside `count(v)`: `(loaded value, v)`
  rpc : Option (Nat × Int × Nat)         -- reader inside `value()`: `(next slot, sum so far, bound)`
  result : Option Int                    -- what the last `value()` returned
  -- ghost
  comp : Nat → Int                       -- Σ of the completed adds of the slot
  lo : Nat → Int                         -- per slot, for the read in progress: completed before it started
  hi : Nat → Int                         --   + negative / positive parts of the adds overlapping it
  c0 : Int                               -- Σ (visited slots) of the adds completed before the read started
  negs : Int                             -- Σ min(v, 0) over the adds overlapping the read (visited slots)
  poss : Int                             -- Σ max(v, 0) over the same adds

def CState.init : CState :=
  { cell := fun _ => 0, wpc := fun _ => none, rpc := none, result := none, comp := fun _ => 0,
    lo := fun _ => 0, hi := fun _ => 0, c0 := 0, negs := 0, poss := 0 }

/-- value of the add the slot's writer is executing, 0 when idle -/
def pend (s : CState) (x : Nat) : Int := match s.wpc x with | some (_, v) => v | none => 0

inductive CAct
  | wLoad (x : Nat) (v : Int)
  | wStore (x : Nat)
  | rStart (n : Nat)
  | rLoad
  | rEnd

def cstep (s : CState) : CAct → Option CState
  | .wLoad x v =>
    match s.wpc x with
    | some _ => none
    | none =>
      let active := s.rpc.isSome
      let visited := match s.rpc with | some (_, _, n) => decide (x < n) | none => false
      some { s with wpc := upd1 s.wpc x (some (s.cell x, v)),
                    lo := if active then upd1 s.lo x (s.lo x + min v 0) else s.lo,
                    hi := if active then upd1 s.hi x (s.hi x + max v 0) else s.hi,
                    negs := if visited then s.negs + min v 0 else s.negs,
                    poss := if visited then s.poss + max v 0 else s.poss }
  | .wStore x =>
    match s.wpc x with
    | none => none
    | some (a, v) =>
      some { s with cell := upd1 s.cell x (a + v), wpc := upd1 s.wpc x none, comp := upd1 s.comp x (s.comp x + v) }
  | .rStart n =>
    match s.rpc with
    | some _ => none
    | none =>
      some { s with rpc := some (0, 0, n), result := none,
                    lo := fun x => s.comp x + min (pend s x) 0,
                    hi := fun x => s.comp x + max (pend s x) 0,
                    c0 := isum s.comp n,
                    negs := isum (fun x => min (pend s x) 0) n,
                    poss := isum (fun x => max (pend s x) 0) n }
  | .rLoad =>
    match s.rpc with
    | some (i, acc, n) => if i < n then some { s with rpc := some (i + 1, acc + s.cell i, n) } else none
    | none => none
  | .rEnd =>
    match s.rpc with
    | some (i, acc, n) => if i = n then some { s with rpc := none, result := some acc } else none
    | none => none

/-- any interleaving of the writers' and the reader's memory accesses -/
def Step (s t : CState) : Prop := ∃ a, cstep s a = some t

/-! ### lemmas on sums -/

theorem isum_congr {f g : Nat → Int} {n : Nat} (h : ∀ x, x < n → f x = g x) : isum f n = isum g n := by
  induction n with
  | zero => rfl
  | succ n ih => simp only [isum]; rw [ih (fun x hx => h x (by omega)), h n (by omega)]

theorem isum_add (f g : Nat → Int) (n : Nat) : isum (fun x => f x + g x) n = isum f n + isum g n := by
  induction n with
  | zero => rfl
  | succ n ih => simp only [isum, ih]; omega

theorem isum_le {f g : Nat → Int} {n : Nat} (h : ∀ x, x < n → f x ≤ g x) : isum f n ≤ isum g n := by
  induction n with
  | zero => exact Int.le_refl _
  | succ n ih =>
    simp only [isum]
    have := ih (fun x hx => h x (by omega))
    have := h n (by omega)
    omega

theorem isum_upd (f : Nat → Int) {n x : Nat} (d : Int) (hx : x < n) :
    isum (upd1 f x (f x + d)) n = isum f n + d := by
  induction n with
  | zero => omega
  | succ n ih =>
    simp only [isum]
    by_cases e : x = n
    · subst e
      rw [isum_congr (g := f) (fun y hy => by simp [upd1]; omega)]
      simp [upd1]; omega
    · rw [ih (by omega)]
      simp [upd1, Ne.symm e]; omega

/-! ### the invariant -/

structure CInv (s : CState) : Prop where
  cellDone : ∀ x, s.cell x = s.comp x
  loaded : ∀ x a v, s.wpc x = some (a, v) → a = s.cell x
  /-- while a read is in progress: each cell lies between its slot's bounds, the partial sum between
  the partial bounds, and the bounds add up to the advertised ones -/
  reading : ∀ i acc n, s.rpc = some (i, acc, n) →
    i ≤ n ∧
    (∀ x, s.lo x - min (pend s x) 0 ≤ s.cell x ∧ s.cell x ≤ s.hi x - max (pend s x) 0) ∧
    isum s.lo i ≤ acc ∧ acc ≤ isum s.hi i ∧
    isum s.lo n = s.c0 + s.negs ∧ isum s.hi n = s.c0 + s.poss
  /-- after a read: the returned value is within the advertised bounds -/
  finished : ∀ res, s.result = some res → s.rpc = none → s.c0 + s.negs ≤ res ∧ res ≤ s.c0 + s.poss

theorem init_cinv : CInv CState.init :=
  ⟨fun _ => rfl, fun _ _ _ h => (by cases h), fun _ _ _ h => (by cases h), fun _ h _ => (by cases h)⟩

theorem pend_upd_same (s : CState) (wpc : Nat → Option (Int × Int)) (x : Nat) (p : Option (Int × Int)) :
    pend { s with wpc := upd1 wpc x p } x = (match p with | some (_, v) => v | none => 0) := by
  simp [pend, upd1]

theorem isum_mono_tail {f : Nat → Int} {i n : Nat} (h : i ≤ n) (hf : ∀ x, f x ≤ 0) : isum f n ≤ isum f i := by
  induction n with
  | zero => have : i = 0 := by omega
            subst this; exact Int.le_refl _
  | succ n ih =>
    by_cases e : i = n + 1
    · subst e; exact Int.le_refl _
    · have := ih (by omega)
      have := hf n
      simp only [isum]; omega

theorem cstep_inv {s t : CState} {a : CAct} (hI : CInv s) (h : cstep s a = some t) : CInv t := by
  cases a with
  | wLoad x v =>
    simp only [cstep] at h
    cases hw : s.wpc x with
    | some p => rw [hw] at h; cases h
    | none =>
      rw [hw] at h
      simp only [Option.some.injEq] at h
      subst h
      have hp0 : pend s x = 0 := by simp [pend, hw]
      refine ⟨hI.cellDone, ?_, ?_, ?_⟩
      · intro y a' v' hy
        have hy' : upd1 s.wpc x (some (s.cell x, v)) y = some (a', v') := hy
        by_cases e : y = x
        · subst e; simp [upd1] at hy'; exact hy'.1.symm
        · simp only [upd1, if_neg e] at hy'; exact hI.loaded y a' v' hy'
      · intro i acc n hr
        have hr' : s.rpc = some (i, acc, n) := hr
        obtain ⟨h1, h2, h3, h4, h5, h6⟩ := hI.reading i acc n hr'
        -- pend of the new state
        have hpend : ∀ y, pend { s with wpc := upd1 s.wpc x (some (s.cell x, v)) } y = if y = x then v else pend s y := by
          intro y; by_cases e : y = x
          · subst e; simp [pend, upd1]
          · simp [pend, upd1, e]
        have hact : s.rpc.isSome = true := by rw [hr']; rfl
        simp only [hact, if_true]
        have hslot : ∀ y, (upd1 s.lo x (s.lo x + min v 0)) y - min (if y = x then v else pend s y) 0 ≤ s.cell y ∧
            s.cell y ≤ (upd1 s.hi x (s.hi x + max v 0)) y - max (if y = x then v else pend s y) 0 := by
          intro y
          by_cases e : y = x
          · subst e
            have := h2 y
            rw [hp0] at this
            rw [if_pos rfl, upd1_same, upd1_same]
            omega
          · rw [if_neg e, upd1_ne _ _ e, upd1_ne _ _ e]; exact h2 y
        have hlo : isum (upd1 s.lo x (s.lo x + min v 0)) i ≤ acc := by
          by_cases hxi : x < i
          · rw [isum_upd _ _ hxi]; omega
          · rw [isum_congr (g := s.lo) (fun y hy => upd1_ne _ _ (by omega))]; exact h3
        have hhi : acc ≤ isum (upd1 s.hi x (s.hi x + max v 0)) i := by
          by_cases hxi : x < i
          · rw [isum_upd _ _ hxi]; omega
          · rw [isum_congr (g := s.hi) (fun y hy => upd1_ne _ _ (by omega))]; exact h4
        by_cases hxn : x < n
        · have hdec : (match s.rpc with | some (_, _, n) => decide (x < n) | none => false) = true := by
            rw [hr']; simp [hxn]
          simp only [hdec, if_true]
          refine ⟨h1, ?_, hlo, hhi, ?_, ?_⟩
          · intro y
            have := hslot y
            rw [← hpend y] at this
            exact this
          · show isum (upd1 s.lo x (s.lo x + min v 0)) n = s.c0 + (s.negs + min v 0)
            rw [isum_upd _ _ hxn, h5]; omega
          · show isum (upd1 s.hi x (s.hi x + max v 0)) n = s.c0 + (s.poss + max v 0)
            rw [isum_upd _ _ hxn, h6]; omega
        · have hdec : (match s.rpc with | some (_, _, n) => decide (x < n) | none => false) = false := by
            rw [hr']; simp [hxn]
          simp only [hdec, Bool.false_eq_true, if_false]
          refine ⟨h1, ?_, hlo, hhi, ?_, ?_⟩
          · intro y
            have := hslot y
            rw [← hpend y] at this
            exact this
          · show isum (upd1 s.lo x (s.lo x + min v 0)) n = s.c0 + s.negs
            rw [isum_congr (g := s.lo) (fun y hy => upd1_ne _ _ (by omega))]; exact h5
          · show isum (upd1 s.hi x (s.hi x + max v 0)) n = s.c0 + s.poss
            rw [isum_congr (g := s.hi) (fun y hy => upd1_ne _ _ (by omega))]; exact h6
      · intro res hres hrpc
        have hrpc' : s.rpc = none := hrpc
        have hdec : (match s.rpc with | some (_, _, n) => decide (x < n) | none => false) = false := by
          rw [hrpc']
        have hact : s.rpc.isSome = false := by rw [hrpc']; rfl
        simp only [hdec, hact, Bool.false_eq_true, if_false]
        exact hI.finished res hres hrpc'
  | wStore x =>
    simp only [cstep] at h
    cases hw : s.wpc x with
    | none => rw [hw] at h; cases h
    | some p =>
      obtain ⟨a, v⟩ := p
      rw [hw] at h
      simp only [Option.some.injEq] at h
      subst h
      have ha := hI.loaded x a v hw
      have hpx : pend s x = v := by simp [pend, hw]
      have hpend : ∀ y, pend { s with cell := upd1 s.cell x (a + v), wpc := upd1 s.wpc x none, comp := upd1 s.comp x (s.comp x + v) } y = if y = x then 0 else pend s y := by
        intro y; by_cases e : y = x
        · subst e; simp [pend, upd1]
        · simp [pend, upd1, e]
      refine ⟨?_, ?_, ?_, hI.finished⟩
      · intro y
        show upd1 s.cell x (a + v) y = upd1 s.comp x (s.comp x + v) y
        by_cases e : y = x
        · subst e; simp only [upd1, if_true]; rw [ha, hI.cellDone y]
        · simp only [upd1, if_neg e]; exact hI.cellDone y
      · intro y a' v' hy
        have hy' : upd1 s.wpc x none y = some (a', v') := hy
        by_cases e : y = x
        · subst e; simp [upd1] at hy'
        · simp only [upd1, if_neg e] at hy'
          show a' = upd1 s.cell x (a + v) y
          simp only [upd1, if_neg e]; exact hI.loaded y a' v' hy'
      · intro i acc n hr
        obtain ⟨h1, h2, h3, h4, h5, h6⟩ := hI.reading i acc n hr
        refine ⟨h1, ?_, h3, h4, h5, h6⟩
        intro y
        dsimp only
        rw [hpend]
        by_cases e : y = x
        · subst e
          have := h2 y
          rw [hpx] at this
          rw [if_pos rfl, upd1_same]
          omega
        · simp only [upd1, if_neg e]; exact h2 y
  | rStart n =>
    simp only [cstep] at h
    cases hr : s.rpc with
    | some p => rw [hr] at h; cases h
    | none =>
      rw [hr] at h
      simp only [Option.some.injEq] at h
      subst h
      refine ⟨hI.cellDone, hI.loaded, ?_, ?_⟩
      · intro i acc n' hr'
        simp only [Option.some.injEq, Prod.mk.injEq] at hr'
        obtain ⟨rfl, rfl, rfl⟩ := hr'
        refine ⟨Nat.zero_le _, ?_, Int.le_refl _, Int.le_refl _, ?_, ?_⟩
        · intro x
          show s.comp x + min (pend s x) 0 - min (pend s x) 0 ≤ s.cell x ∧
            s.cell x ≤ s.comp x + max (pend s x) 0 - max (pend s x) 0
          rw [hI.cellDone x]; omega
        · show isum (fun x => s.comp x + min (pend s x) 0) n = isum s.comp n + isum (fun x => min (pend s x) 0) n
          exact isum_add _ _ _
        · show isum (fun x => s.comp x + max (pend s x) 0) n = isum s.comp n + isum (fun x => max (pend s x) 0) n
          exact isum_add _ _ _
      · intro res hres _; cases hres
  | rLoad =>
    simp only [cstep] at h
    cases hr : s.rpc with
    | none => rw [hr] at h; cases h
    | some p =>
      obtain ⟨i, acc, n⟩ := p
      rw [hr] at h
      simp only at h
      split at h
      · rename_i hlt
        simp only [Option.some.injEq] at h
        subst h
        obtain ⟨h1, h2, h3, h4, h5, h6⟩ := hI.reading i acc n hr
        refine ⟨hI.cellDone, hI.loaded, ?_, ?_⟩
        · intro i' acc' n' hr'
          simp only [Option.some.injEq, Prod.mk.injEq] at hr'
          obtain ⟨rfl, rfl, rfl⟩ := hr'
          have := h2 i
          have hm1 : min (pend s i) 0 ≤ 0 := by omega
          have hm2 : 0 ≤ max (pend s i) 0 := by omega
          refine ⟨by omega, h2, ?_, ?_, h5, h6⟩
          · show isum s.lo (i + 1) ≤ acc + s.cell i
            simp only [isum]; omega
          · show acc + s.cell i ≤ isum s.hi (i + 1)
            simp only [isum]; omega
        · intro res hres hnone; cases hnone
      · cases h
  | rEnd =>
    simp only [cstep] at h
    cases hr : s.rpc with
    | none => rw [hr] at h; cases h
    | some p =>
      obtain ⟨i, acc, n⟩ := p
      rw [hr] at h
      simp only at h
      split at h
      · rename_i heq
        simp only [Option.some.injEq] at h
        subst h
        obtain ⟨h1, h2, h3, h4, h5, h6⟩ := hI.reading i acc n hr
        subst heq
        refine ⟨hI.cellDone, hI.loaded, fun _ _ _ hr' => (by cases hr'), ?_⟩
        intro res hres _
        simp only [Option.some.injEq] at hres
        subst hres
        show s.c0 + s.negs ≤ acc ∧ acc ≤ s.c0 + s.poss
        omega
      · cases h

theorem reach_cinv (s : CState) (h : Reachable (· = CState.init) Step s) : CInv s := by
  apply Reachable.invariant CInv _ _ s h
  · intro s hs; rw [hs]; exact init_cinv
  · intro s t hI ⟨a, ha⟩; exact cstep_inv hI ha

/-! ### non-negative adds: the lower bound is the sum completed before the read started -/

/-- the step relation restricted to non-negative adds -/
def StepNN (s t : CState) : Prop := ∃ a, (∀ x v, a = .wLoad x v → 0 ≤ v) ∧ cstep s a = some t

/-- all the adds are non-negative: then `negs` stays 0 -/
def NonNeg (s : CState) : Prop := (∀ x a v, s.wpc x = some (a, v) → 0 ≤ v) ∧ s.negs = 0

theorem isum_zero {f : Nat → Int} {n : Nat} (h : ∀ x, f x = 0) : isum f n = 0 := by
  induction n with
  | zero => rfl
  | succ n ih => simp only [isum, ih, h]; rfl

theorem nonneg_step {s t : CState} (hN : NonNeg s) (h : StepNN s t) : NonNeg t := by
  obtain ⟨a, ha, hs⟩ := h
  cases a with
  | wLoad x v =>
    have hv := ha x v rfl
    simp only [cstep] at hs
    cases hw : s.wpc x with
    | some p => rw [hw] at hs; cases hs
    | none =>
      rw [hw] at hs
      simp only [Option.some.injEq] at hs
      subst hs
      constructor
      · intro y a' v' hy
        have hy' : upd1 s.wpc x (some (s.cell x, v)) y = some (a', v') := hy
        by_cases e : y = x
        · subst e; rw [upd1_same] at hy'; cases hy'; exact hv
        · rw [upd1_ne _ _ e] at hy'; exact hN.1 y a' v' hy'
      · show (if (match s.rpc with | some (_, _, n) => decide (x < n) | none => false) = true
          then s.negs + min v 0 else s.negs) = 0
        split
        · rw [hN.2]; omega
        · exact hN.2
  | wStore x =>
    simp only [cstep] at hs
    cases hw : s.wpc x with
    | none => rw [hw] at hs; cases hs
    | some p =>
      obtain ⟨a, v⟩ := p
      rw [hw] at hs
      simp only [Option.some.injEq] at hs
      subst hs
      refine ⟨?_, hN.2⟩
      intro y a' v' hy
      have hy' : upd1 s.wpc x none y = some (a', v') := hy
      by_cases e : y = x
      · subst e; rw [upd1_same] at hy'; cases hy'
      · rw [upd1_ne _ _ e] at hy'; exact hN.1 y a' v' hy'
  | rStart n =>
    simp only [cstep] at hs
    cases hr : s.rpc with
    | some p => rw [hr] at hs; cases hs
    | none =>
      rw [hr] at hs
      simp only [Option.some.injEq] at hs
      subst hs
      refine ⟨hN.1, ?_⟩
      show isum (fun x => min (pend s x) 0) n = 0
      apply isum_zero
      intro x
      have : 0 ≤ pend s x := by
        unfold pend
        cases hw : s.wpc x with
        | none => exact Int.le_refl _
        | some p => exact hN.1 x p.1 p.2 hw
      omega
  | rLoad =>
    simp only [cstep] at hs
    cases hr : s.rpc with
    | none => rw [hr] at hs; cases hs
    | some p =>
      obtain ⟨i, acc, n⟩ := p
      rw [hr] at hs
      simp only at hs
      split at hs
      · simp only [Option.some.injEq] at hs; subst hs; exact hN
      · cases hs
  | rEnd =>
    simp only [cstep] at hs
    cases hr : s.rpc with
    | none => rw [hr] at hs; cases hs
    | some p =>
      obtain ⟨i, acc, n⟩ := p
      rw [hr] at hs
      simp only at hs
      split at hs
      · simp only [Option.some.injEq] at hs; subst hs; exact hN
      · cases hs

theorem reachNN_inv (s : CState) (h : Reachable (· = CState.init) StepNN s) : CInv s ∧ NonNeg s := by
  apply Reachable.invariant (fun s => CInv s ∧ NonNeg s) _ _ s h
  · intro s hs; rw [hs]; exact ⟨init_cinv, fun _ _ _ h => (by cases h), rfl⟩
  · intro s t ⟨hI, hN⟩ hst
    have hst' := hst
    obtain ⟨a, _, ha⟩ := hst
    exact ⟨cstep_inv hI ha, nonneg_step hN hst'⟩

end Babylon.Counter.Conc
