/-
  ConcurrentMaxer / ConcurrentMiner: the versioned slots hold, per period, the extreme of the samples.
-/
import Babylon.Counter.LemmasAgg

namespace Babylon.Counter.Cmp
open Babylon.Gen.Counter Babylon.Counter

/-! ### `_comparer` is a strict total order -/

theorem better_irrefl (m : Bool) (a : Int) : better m a a = false := by
  cases m <;> simp [better]

theorem better_ntrans {m : Bool} {a b c : Int} (h1 : better m a b = false) (h2 : better m b c = false) :
    better m a c = false := by
  cases m <;> simp [better] at * <;> omega

theorem better_antisymm {m : Bool} {a b : Int} (h1 : better m a b = false) (h2 : better m b a = false) : a = b := by
  cases m <;> simp [better] at * <;> omega

theorem better_asymm {m : Bool} {a b : Int} (h1 : better m a b = true) : better m b a = false := by
  cases m <;> simp [better] at * <;> omega

theorem better_trans_n {m : Bool} {a b c : Int} (h1 : better m a b = true) (h2 : better m c b = false) :
    better m c a = false := by
  cases m <;> simp [better] at * <;> omega

theorem better_lt_le {m : Bool} {a b c : Int} (h1 : better m a b = true) (h2 : better m a c = false) :
    better m b c = false := by
  cases m <;> simp [better] at * <;> omega

/-! ### the fold of `value(T&)` (with the first-sample guard) computes the extreme of the matching slots -/

theorem fold_cons (g isMax : Bool) (ver : Nat) (s : Slot) (ss : List Slot) (acc : Bool × Int) :
    fold g isMax ver (s :: ss) acc = fold g isMax ver ss
      (if s.1 = ver then (if (g && !acc.1) || better isMax s.2 acc.2 then (true, s.2) else acc) else acc) := rfl

theorem fold_has (isMax : Bool) (ver : Nat) : ∀ (L : List Slot) (res : Int),
    ∃ res', fold true isMax ver L (true, res) = (true, res') ∧ better isMax res res' = false ∧
      (∀ s ∈ L, s.1 = ver → better isMax s.2 res' = false) ∧ (res' = res ∨ ∃ s ∈ L, s.1 = ver ∧ s.2 = res') := by
  intro L
  induction L with
  | nil => intro res; exact ⟨res, rfl, better_irrefl _ _, by simp, Or.inl rfl⟩
  | cons s ss ih =>
    intro res
    rw [fold_cons]
    by_cases hv : s.1 = ver
    · rw [if_pos hv]
      simp only [Bool.not_true, Bool.and_false, Bool.false_or]
      cases hb : better isMax s.2 res with
      | true =>
        simp only [if_true]
        obtain ⟨r', h1, h2, h3, h4⟩ := ih s.2
        refine ⟨r', h1, better_lt_le hb h2, ?_, ?_⟩
        · intro s' hs' hv'
          rcases List.mem_cons.mp hs' with rfl | hs'
          · exact h2
          · exact h3 s' hs' hv'
        · rcases h4 with rfl | ⟨s', hs', hv', he⟩
          · exact Or.inr ⟨s, List.mem_cons_self, hv, rfl⟩
          · exact Or.inr ⟨s', List.mem_cons_of_mem _ hs', hv', he⟩
      | false =>
        simp only [Bool.false_eq_true, if_false]
        obtain ⟨r', h1, h2, h3, h4⟩ := ih res
        refine ⟨r', h1, h2, ?_, ?_⟩
        · intro s' hs' hv'
          rcases List.mem_cons.mp hs' with rfl | hs'
          · exact better_ntrans hb h2
          · exact h3 s' hs' hv'
        · rcases h4 with rfl | ⟨s', hs', hv', he⟩
          · exact Or.inl rfl
          · exact Or.inr ⟨s', List.mem_cons_of_mem _ hs', hv', he⟩
    · rw [if_neg hv]
      obtain ⟨r', h1, h2, h3, h4⟩ := ih res
      refine ⟨r', h1, h2, ?_, ?_⟩
      · intro s' hs' hv'
        rcases List.mem_cons.mp hs' with rfl | hs'
        · exact absurd hv' hv
        · exact h3 s' hs' hv'
      · rcases h4 with rfl | ⟨s', hs', hv', he⟩
        · exact Or.inl rfl
        · exact Or.inr ⟨s', List.mem_cons_of_mem _ hs', hv', he⟩

theorem fold_none (isMax : Bool) (ver : Nat) : ∀ (L : List Slot) (res : Int),
    ((∀ s ∈ L, s.1 ≠ ver) ∧ fold true isMax ver L (false, res) = (false, res)) ∨
    (∃ res', fold true isMax ver L (false, res) = (true, res') ∧
      (∀ s ∈ L, s.1 = ver → better isMax s.2 res' = false) ∧ ∃ s ∈ L, s.1 = ver ∧ s.2 = res') := by
  intro L
  induction L with
  | nil => intro res; exact Or.inl ⟨by simp, rfl⟩
  | cons s ss ih =>
    intro res
    rw [fold_cons]
    by_cases hv : s.1 = ver
    · rw [if_pos hv]
      simp only [Bool.not_false, Bool.and_self, Bool.true_or, if_true]
      obtain ⟨r', h1, h2, h3, h4⟩ := fold_has isMax ver ss s.2
      refine Or.inr ⟨r', h1, ?_, ?_⟩
      · intro s' hs' hv'
        rcases List.mem_cons.mp hs' with rfl | hs'
        · exact h2
        · exact h3 s' hs' hv'
      · rcases h4 with rfl | ⟨s', hs', hv', he⟩
        · exact ⟨s, List.mem_cons_self, hv, rfl⟩
        · exact ⟨s', List.mem_cons_of_mem _ hs', hv', he⟩
    · rw [if_neg hv]
      rcases ih res with ⟨h1, h2⟩ | ⟨r', h1, h2, s', hs', hv', he⟩
      · refine Or.inl ⟨?_, h2⟩
        intro s' hs'
        rcases List.mem_cons.mp hs' with rfl | hs'
        · exact hv
        · exact h1 s' hs'
      · refine Or.inr ⟨r', h1, ?_, s', List.mem_cons_of_mem _ hs', hv', he⟩
        intro s'' hs'' hv''
        rcases List.mem_cons.mp hs'' with rfl | hs''
        · exact absurd hv'' hv
        · exact h2 s'' hs'' hv''

/-! ### the invariant tying slots to the reference -/

/-- what the reference value `o` of the current period says about the column -/
def SlotOk (isMax : Bool) (ver : Nat) (col : Nat → Slot) : Option Int → Prop
  | none => ∀ x, (col x).1 ≠ ver
  | some e => (∃ x, col x = (ver, e)) ∧ ∀ x, (col x).1 = ver → better isMax (col x).2 e = false

/-- a live comparer: its version is below the reset count, no slot is ahead of it, and the reference
describes the slots of the current version -/
def LiveOk (isMax : Bool) (ver n : Nat) (col : Nat → Slot) (ro : Option (Option Int)) : Prop :=
  ver ≤ n ∧ (∀ x, (col x).1 = sizeMax ∨ (col x).1 ≤ ver) ∧ ∃ o, ro = some o ∧ SlotOk isMax ver col o

def CInv (isMax : Bool) (s : State) (r : Ref) (n : Nat) : Prop :=
  (∀ h, s.fam.instOf h = none → r h = none) ∧
  (∀ h i, s.fam.instOf h = some i → LiveOk isMax (s.ver h) n (colOf (cfg isMax) s.fam i) (r h))

theorem sizeMax_eq : sizeMax = 2 ^ 64 - 1 := by decide

theorem LiveOk.mono {isMax : Bool} {ver n n' : Nat} {col : Nat → Slot} {ro : Option (Option Int)}
    (h : LiveOk isMax ver n col ro) (hn : n ≤ n') : LiveOk isMax ver n' col ro :=
  ⟨Nat.le_trans h.1 hn, h.2.1, h.2.2⟩

/-- the reference after one more sample -/
def upRef (isMax : Bool) (v : Int) : Option Int → Int
  | none => v
  | some e => if better isMax v e then v else e

/-- one `<<` on slot `x0` keeps the reference in step -/
theorem put_liveOk {isMax : Bool} {ver n : Nat} {col : Nat → Slot} {o : Option Int} (v : Int) (x0 : Nat)
    (hL : LiveOk isMax ver n col (some o)) :
    LiveOk isMax ver n (upd1 col x0 (put isMax ver v (col x0))) (some (some (upRef isMax v o))) := by
  obtain ⟨h1, h2, o', ho', h3⟩ := hL
  cases ho'
  refine ⟨h1, ?_, _, rfl, ?_⟩
  · intro x
    by_cases ex : x = x0
    · subst ex
      rw [upd1_same]
      unfold put
      split
      · exact Or.inr (Nat.le_refl _)
      · split
        · exact Or.inr (Nat.le_refl _)
        · exact h2 x
    · rw [upd1_ne _ _ ex]; exact h2 x
  · -- the slot after the operation
    have hslot : ∀ x, x ≠ x0 → upd1 col x0 (put isMax ver v (col x0)) x = col x := fun x hx => upd1_ne _ _ hx
    have hx0 : upd1 col x0 (put isMax ver v (col x0)) x0 = put isMax ver v (col x0) := upd1_same _ _ _
    cases o with
    | none =>
      -- first sample of the period: the slot had another version
      have hv : ver ≠ (col x0).1 := fun e => h3 x0 e.symm
      have hp : put isMax ver v (col x0) = (ver, v) := by unfold put; rw [if_pos hv]
      show SlotOk isMax ver (upd1 col x0 (put isMax ver v (col x0))) (some v)
      refine ⟨⟨x0, by rw [hx0, hp]⟩, ?_⟩
      intro x hx
      by_cases ex : x = x0
      · subst ex; rw [hx0, hp]; exact better_irrefl _ _
      · rw [hslot x ex] at hx; exact absurd hx (h3 x)
    | some e =>
      show SlotOk isMax ver (upd1 col x0 (put isMax ver v (col x0)))
        (some (if better isMax v e = true then v else e))
      obtain ⟨⟨xw, hw⟩, hub⟩ := h3
      by_cases hv : ver = (col x0).1
      · -- the thread already sampled in this period
        have hub0 := hub x0 hv.symm
        cases hb : better isMax v (col x0).2 with
        | true =>
          have hp : put isMax ver v (col x0) = (ver, v) := by
            unfold put; rw [if_neg (fun h => h hv), hb]; rfl
          cases hbe : better isMax v e with
          | true =>
            rw [if_pos rfl]
            refine ⟨⟨x0, by rw [hx0, hp]⟩, ?_⟩
            intro x hx
            by_cases ex : x = x0
            · subst ex; rw [hx0, hp]; exact better_irrefl _ _
            · rw [hslot x ex] at hx ⊢
              exact better_trans_n hbe (hub x hx)
          | false =>
            rw [if_neg (by simp)]
            have hne : xw ≠ x0 := by
              intro e'
              subst e'
              rw [hw] at hb
              simp only at hb
              rw [hb] at hbe
              cases hbe
            refine ⟨⟨xw, by rw [hslot xw hne, hw]⟩, ?_⟩
            intro x hx
            by_cases ex : x = x0
            · subst ex; rw [hx0, hp]; exact hbe
            · rw [hslot x ex] at hx ⊢; exact hub x hx
        | false =>
          have hp : put isMax ver v (col x0) = col x0 := by
            unfold put; rw [if_neg (fun h => h hv), hb]; rfl
          have hcol : upd1 col x0 (put isMax ver v (col x0)) = col := by
            funext x
            by_cases ex : x = x0
            · subst ex; rw [hx0, hp]
            · exact hslot x ex
          rw [hcol]
          have hbe : better isMax v e = false := better_ntrans hb hub0
          rw [hbe, if_neg (by simp)]
          exact ⟨⟨xw, hw⟩, hub⟩
      · -- first sample of this thread in the period
        have hp : put isMax ver v (col x0) = (ver, v) := by unfold put; rw [if_pos hv]
        have hne : xw ≠ x0 := by
          intro e'; subst e'; rw [hw] at hv; exact hv rfl
        cases hbe : better isMax v e with
        | true =>
          rw [if_pos rfl]
          refine ⟨⟨x0, by rw [hx0, hp]⟩, ?_⟩
          intro x hx
          by_cases ex : x = x0
          · subst ex; rw [hx0, hp]; exact better_irrefl _ _
          · rw [hslot x ex] at hx ⊢
            exact better_trans_n hbe (hub x hx)
        | false =>
          rw [if_neg (by simp)]
          refine ⟨⟨xw, by rw [hslot xw hne, hw]⟩, ?_⟩
          intro x hx
          by_cases ex : x = x0
          · subst ex; rw [hx0, hp]; exact hbe
          · rw [hslot x ex] at hx ⊢; exact hub x hx

/-- a fresh (all-default) column is a live comparer without samples -/
theorem fresh_liveOk (isMax : Bool) (n : Nat) (col : Nat → Slot) (h : ∀ x, col x = (cfg isMax).dflt) :
    LiveOk isMax 0 n col (some none) := by
  refine ⟨Nat.zero_le _, fun x => Or.inl ?_, none, rfl, ?_⟩
  · rw [h x]; rfl
  · intro x; rw [h x]
    show slotVersionInit ≠ 0
    decide

/-- `reset`: no slot carries the next version -/
theorem reset_liveOk {isMax : Bool} {ver n : Nat} {col : Nat → Slot} {ro : Option (Option Int)}
    (hL : LiveOk isMax ver n col ro) (hn : n + 1 < sizeMax) :
    LiveOk isMax ((ver + 1) % 2 ^ 64) (n + 1) col (ro.map (fun _ => none)) := by
  obtain ⟨h1, h2, o, ho, _⟩ := hL
  have hs := sizeMax_eq
  have hmod : (ver + 1) % 2 ^ 64 = ver + 1 := Nat.mod_eq_of_lt (by omega)
  rw [hmod]
  refine ⟨by omega, ?_, none, by rw [ho]; rfl, ?_⟩
  · intro x
    rcases h2 x with h | h
    · exact Or.inl h
    · exact Or.inr (by omega)
  · intro x
    rcases h2 x with h | h <;> omega

/-! ### every event keeps the invariant -/

theorem resets_cons (e : CEv) (es : List CEv) : resets (e :: es) = resets [e] + resets es := by
  cases e <;> simp [resets] <;> omega

/-- transfer of `LiveOk` to a state where nothing about the handle changed -/
theorem frame_live {isMax : Bool} {s s' : State} {r r' : Ref} {n : Nat} {h i : Nat}
    (hL : LiveOk isMax (s.ver h) n (colOf (cfg isMax) s.fam i) (r h))
    (hv : s'.ver h = s.ver h) (hc : colOf (cfg isMax) s'.fam i = colOf (cfg isMax) s.fam i) (hr : r' h = r h) :
    LiveOk isMax (s'.ver h) n (colOf (cfg isMax) s'.fam i) (r' h) := by
  rw [hv, hc, hr]; exact hL

theorem cstep_inv (isMax : Bool) (hz : dtorZeroesFirst = true) {s s' : State} {r : Ref} {n : Nat} {e : CEv}
    (hI : Inv (cfg isMax) s.fam) (hC : CInv isMax s r n) (h : step isMax s e = some s')
    (hcap : s'.fam.tidEnd ≤ tidCap) (hn : n + resets [e] < sizeMax) :
    Inv (cfg isMax) s'.fam ∧ CInv isMax s' (refStep isMax r e) (n + resets [e]) := by
  cases e with
  | tstart t =>
    simp only [step] at h
    cases hf : threadStart s.fam t with
    | none => rw [hf] at h; cases h
    | some f =>
      rw [hf] at h; simp only [Option.map_some, Option.some.injEq] at h; subst h
      obtain ⟨c1, c2, _⟩ := thread_cols (c := cfg isMax) (e := .tstart t) (Or.inl ⟨t, rfl⟩) hf
      refine ⟨threadStart_inv hI hf, ?_, ?_⟩
      · intro x hx; exact hC.1 x (by rw [← c1]; exact hx)
      · intro x i hx
        exact frame_live (s' := { s with fam := f }) (r' := r) (hC.2 x i (by rw [← c1]; exact hx)) rfl (c2 i) rfl
  | texit t =>
    simp only [step] at h
    cases hf : threadExit s.fam t with
    | none => rw [hf] at h; cases h
    | some f =>
      rw [hf] at h; simp only [Option.map_some, Option.some.injEq] at h; subst h
      obtain ⟨c1, c2, _⟩ := thread_cols (c := cfg isMax) (e := .texit t) (Or.inr ⟨t, rfl⟩) hf
      refine ⟨threadExit_inv hI hf, ?_, ?_⟩
      · intro x hx; exact hC.1 x (by rw [← c1]; exact hx)
      · intro x i hx
        exact frame_live (s' := { s with fam := f }) (r' := r) (hC.2 x i (by rw [← c1]; exact hx)) rfl (c2 i) rfl
  | new hh i =>
    simp only [step] at h
    cases hf : newInst (cfg isMax) s.fam hh i with
    | none => rw [hf] at h; cases h
    | some f =>
      rw [hf] at h; simp only [Option.map_some, Option.some.injEq] at h; subst h
      obtain ⟨hnone, c1, c2, _, c4⟩ := new_cols hI hf
      refine ⟨newInst_inv hI hf, ?_, ?_⟩
      · intro x hx
        have hx' : f.instOf x = none := hx
        rw [c1] at hx'
        by_cases ex : x = hh
        · subst ex; rw [upd1_same] at hx'; cases hx'
        · rw [upd1_ne _ _ ex] at hx'
          show upd1 r hh (some none) x = none
          rw [upd1_ne _ _ ex]; exact hC.1 x hx'
      · intro x i' hx
        have hx' : f.instOf x = some i' := hx
        rw [c1] at hx'
        show LiveOk isMax (upd1 s.ver hh 0 x) (n + 0) (colOf (cfg isMax) f i') (upd1 r hh (some none) x)
        by_cases ex : x = hh
        · subst ex
          rw [upd1_same] at hx'; cases hx'
          rw [upd1_same, upd1_same, c2]
          exact fresh_liveOk isMax _ _ c4
        · rw [upd1_ne _ _ ex] at hx'
          rw [upd1_ne _ _ ex, upd1_ne _ _ ex, c2]
          exact hC.2 x i' hx'
  | drop hh =>
    simp only [step] at h
    cases hf : dropInst (cfg isMax) s.fam hh with
    | none => rw [hf] at h; cases h
    | some f =>
      rw [hf] at h; simp only [Option.map_some, Option.some.injEq] at h; subst h
      obtain ⟨i, hi, c1, c2, _⟩ := drop_cols hI hf
      refine ⟨dropInst_inv hz hI hf, ?_, ?_⟩
      · intro x hx
        have hx' : f.instOf x = none := hx
        rw [c1] at hx'
        show upd1 r hh none x = none
        by_cases ex : x = hh
        · subst ex; rw [upd1_same]
        · rw [upd1_ne _ _ ex] at hx' ⊢; exact hC.1 x hx'
      · intro x i' hx
        have hx' : f.instOf x = some i' := hx
        rw [c1] at hx'
        by_cases ex : x = hh
        · subst ex; rw [upd1_same] at hx'; cases hx'
        · rw [upd1_ne _ _ ex] at hx'
          have hne : i' ≠ i := fun e => ex (hI.instInj _ _ _ (e ▸ hx') hi)
          show LiveOk isMax (s.ver x) (n + 0) (colOf (cfg isMax) f i') (upd1 r hh none x)
          rw [upd1_ne _ _ ex, c2 i' hne]
          exact hC.2 x i' hx'
  | put t hh j v =>
    simp only [step] at h
    cases hu : updAt (cfg isMax) s.fam t hh j (put isMax (s.ver hh) v) with
    | none => rw [hu] at h; cases h
    | some p =>
      rw [hu] at h; simp only [Option.map_some, Option.some.injEq] at h; subst h
      have hcap' : p.1.tidEnd ≤ tidCap := hcap
      obtain ⟨i, hi, c1, _, _, _, _, c4, c5⟩ := upd_cols (l := p.2) (s' := p.1) hI hu hcap'
      obtain ⟨_, _, _, _, _, _, _, _, _, _, _, hI'⟩ := updAt_spec (l := p.2) (s' := p.1) hI hu hcap'
      refine ⟨hI', ?_, ?_⟩
      · intro x hx
        have hx' : p.1.instOf x = none := hx
        rw [c1] at hx'
        have hne : x ≠ hh := fun e => by rw [e, hi] at hx'; cases hx'
        show upd1 r hh _ x = none
        rw [upd1_ne _ _ hne]; exact hC.1 x hx'
      · intro x i' hx
        have hx' : p.1.instOf x = some i' := hx
        rw [c1] at hx'
        show LiveOk isMax (s.ver x) (n + 0) (colOf (cfg isMax) p.1 i') (upd1 r hh _ x)
        by_cases ex : x = hh
        · subst ex
          rw [hi] at hx'; cases hx'
          obtain ⟨l1, l2, o, ho, l3⟩ := hC.2 x i hi
          rw [upd1_same, ho, c4]
          show LiveOk isMax (s.ver x) n _ (some (some (upRef isMax v o)))
          exact put_liveOk v p.2.tid ⟨l1, l2, o, rfl, l3⟩
        · have hne : i' ≠ i := fun e => ex (hI.instInj _ _ _ (e ▸ hx') hi)
          rw [upd1_ne _ _ ex, c5 i' hne]
          exact hC.2 x i' hx'
  | reset hh =>
    simp only [step] at h
    split at h
    · cases h
      refine ⟨hI, ?_, ?_⟩
      · intro x hx
        show upd1 r hh ((r hh).map fun _ => none) x = none
        by_cases ex : x = hh
        · subst ex; rw [upd1_same, hC.1 x hx]; rfl
        · rw [upd1_ne _ _ ex]; exact hC.1 x hx
      · intro x i hx
        show LiveOk isMax (upd1 s.ver hh ((s.ver hh + 1) % 2 ^ 64) x) (n + 1) (colOf (cfg isMax) s.fam i)
          (upd1 r hh ((r hh).map fun _ => none) x)
        by_cases ex : x = hh
        · subst ex
          rw [upd1_same, upd1_same]
          exact reset_liveOk (hC.2 x i hx) hn
        · rw [upd1_ne _ _ ex, upd1_ne _ _ ex]
          exact (hC.2 x i hx).mono (Nat.le_succ _)
    · cases h

theorem cstep_tidEnd_mono {isMax : Bool} {s s' : State} {e : CEv} (h : step isMax s e = some s') :
    s.fam.tidEnd ≤ s'.fam.tidEnd := by
  cases e with
  | tstart t =>
    simp only [step] at h
    cases hf : threadStart s.fam t with
    | none => rw [hf] at h; cases h
    | some f =>
      rw [hf] at h; simp only [Option.map_some, Option.some.injEq] at h; subst h
      exact step_tidEnd_mono (c := cfg isMax) (e := .tstart t) hf
  | texit t =>
    simp only [step] at h
    cases hf : threadExit s.fam t with
    | none => rw [hf] at h; cases h
    | some f =>
      rw [hf] at h; simp only [Option.map_some, Option.some.injEq] at h; subst h
      exact step_tidEnd_mono (c := cfg isMax) (e := .texit t) hf
  | new hh i =>
    simp only [step] at h
    cases hf : newInst (cfg isMax) s.fam hh i with
    | none => rw [hf] at h; cases h
    | some f =>
      rw [hf] at h; simp only [Option.map_some, Option.some.injEq] at h; subst h
      exact step_tidEnd_mono (c := cfg isMax) (e := .new hh i) hf
  | drop hh =>
    simp only [step] at h
    cases hf : dropInst (cfg isMax) s.fam hh with
    | none => rw [hf] at h; cases h
    | some f =>
      rw [hf] at h; simp only [Option.map_some, Option.some.injEq] at h; subst h
      exact step_tidEnd_mono (c := cfg isMax) (e := .drop hh) hf
  | put t hh j v =>
    simp only [step] at h
    cases hu : updAt (cfg isMax) s.fam t hh j (put isMax (s.ver hh) v) with
    | none => rw [hu] at h; cases h
    | some p =>
      rw [hu] at h; simp only [Option.map_some, Option.some.injEq] at h; subst h
      exact step_tidEnd_mono (c := cfg isMax) (e := .upd t hh j (put isMax (s.ver hh) v))
        (by simp only [Counter.step, hu, Option.map_some])
  | reset hh =>
    simp only [step] at h
    split at h
    · cases h; exact Nat.le_refl _
    · cases h

theorem crun_tidEnd_mono {isMax : Bool} {es : List CEv} :
    ∀ {s s' : State} {r r' : Ref}, run isMax s r es = some (s', r') → s.fam.tidEnd ≤ s'.fam.tidEnd := by
  induction es with
  | nil => intro s s' r r' h; cases h; exact Nat.le_refl _
  | cons e es ih =>
    intro s s' r r' h
    simp only [run] at h
    cases h1 : step isMax s e with
    | none => rw [h1] at h; cases h
    | some s1 =>
      rw [h1] at h
      exact Nat.le_trans (cstep_tidEnd_mono h1) (ih h)

theorem crun_inv (isMax : Bool) (hz : dtorZeroesFirst = true) {es : List CEv} :
    ∀ {s s' : State} {r r' : Ref} {n : Nat}, Inv (cfg isMax) s.fam → CInv isMax s r n →
      run isMax s r es = some (s', r') → s'.fam.tidEnd ≤ tidCap → n + resets es < sizeMax →
      Inv (cfg isMax) s'.fam ∧ CInv isMax s' r' (n + resets es) := by
  induction es with
  | nil => intro s s' r r' n hI hC h _ _; cases h; exact ⟨hI, hC⟩
  | cons e es ih =>
    intro s s' r r' n hI hC h hcap hn
    simp only [run] at h
    cases h1 : step isMax s e with
    | none => rw [h1] at h; cases h
    | some s1 =>
      rw [h1] at h
      rw [resets_cons] at hn ⊢
      have hc1 : s1.fam.tidEnd ≤ tidCap := Nat.le_trans (crun_tidEnd_mono h) hcap
      obtain ⟨hI1, hC1⟩ := cstep_inv isMax hz hI hC h1 hc1 (by omega)
      have := ih hI1 hC1 h hcap (by omega)
      rw [Nat.add_assoc] at this
      exact this

theorem init_cinv (isMax : Bool) : CInv isMax (init isMax) (fun _ => none) 0 :=
  ⟨fun _ _ => rfl, fun h i hi => by cases hi⟩

/-! ### `value(T&)` returns what the reference says -/

theorem value_of_cinv {isMax : Bool} (hg : cmpFirstGuard = true) {s : State} {r : Ref} {n : Nat}
    (hI : Inv (cfg isMax) s.fam) (hC : CInv isMax s r n) (hn : n < sizeMax) (h : Nat) :
    value isMax s h = r h := by
  unfold value
  rw [forEach_eq, hg]
  cases hi : s.fam.instOf h with
  | none => rw [hC.1 h hi]; rfl
  | some i =>
    obtain ⟨l1, l2, o, ho, l3⟩ := hC.2 h i hi
    rw [ho]
    simp only [Option.map_some]
    -- membership in the walked list
    have hmem : ∀ sl : Slot, sl ∈ (List.range (bndOf (cfg isMax) s.fam i)).map (colOf (cfg isMax) s.fam i) ↔
        ∃ x, x < bndOf (cfg isMax) s.fam i ∧ colOf (cfg isMax) s.fam i x = sl := by
      intro sl; simp [List.mem_map, List.mem_range]
    -- a slot of the current version lies below the bound
    have hin : ∀ x, (colOf (cfg isMax) s.fam i x).1 = s.ver h → x < bndOf (cfg isMax) s.fam i := by
      intro x hx
      apply Classical.byContradiction
      intro hge
      have := col_tail hI i x (by omega)
      rw [this] at hx
      have : slotVersionInit = s.ver h := hx
      have h64 : sizeMax = slotVersionInit := rfl
      omega
    rcases fold_none isMax (s.ver h) ((List.range (bndOf (cfg isMax) s.fam i)).map (colOf (cfg isMax) s.fam i))
        (extremum isMax) with ⟨hnone, hf⟩ | ⟨res', hf, hub, sl, hsl, hv, he⟩
    · rw [hf]
      simp only [Bool.false_eq_true, if_false]
      cases o with
      | none => rfl
      | some e =>
        obtain ⟨⟨xw, hw⟩, _⟩ := l3
        have hlt := hin xw (by rw [hw])
        exact absurd (by rw [hw]) (hnone _ ((hmem _).mpr ⟨xw, hlt, rfl⟩))
    · rw [hf]
      simp only [if_true]
      obtain ⟨x', hx', rfl⟩ := (hmem sl).mp hsl
      cases o with
      | none => exact absurd hv (l3 x')
      | some e =>
        obtain ⟨⟨xw, hw⟩, hub'⟩ := l3
        have hlt := hin xw (by rw [hw])
        have h1 : better isMax e res' = false := by
          have := hub _ ((hmem _).mpr ⟨xw, hlt, rfl⟩) (by rw [hw])
          rw [hw] at this; exact this
        have h2 : better isMax res' e = false := by
          have := hub' x' hv
          rw [he] at this; exact this
        rw [better_antisymm h1 h2]

theorem num_pos (isMax : Bool) : 0 < (cfg isMax).num := by cases isMax <;> decide


theorem ref_fold (isMax : Bool) (es : List CEv) : ∀ (s s' : State) (r r' : Ref),
    run isMax s r es = some (s', r') → r' = es.foldl (refStep isMax) r := by
  induction es with
  | nil => intro s s' r r' h; cases h; rfl
  | cons e es ih =>
    intro s s' r r' h
    simp only [run] at h
    cases h1 : step isMax s e with
    | none => rw [h1] at h; cases h
    | some s1 => rw [h1] at h; exact ih _ _ _ _ h


end Babylon.Counter.Cmp
