/-
  History model of babylon's enumerable thread-locals and the counters built on them
  (src/babylon/concurrent/thread_local.h, counter.h, counter.cpp).

  One *family* `Fam β` = one template instantiation:
    * `CompactEnumerableThreadLocal<T, N, Leaky>` (`fresh = false`): a static vector of storages
      `EnumerableThreadLocal<CacheLine>`; instance id `i` (from a recycling `IdAllocator<uint32_t>`)
      uses storage `i / NUM_PER_CACHELINE`, offset `i % NUM_PER_CACHELINE` inside every thread's line;
      the destructor zeroes that offset in every line `for_each` reaches, then releases the id;
    * a bare `EnumerableThreadLocal<T>` (`fresh = true`, `num = 1`): the instance key is the never
      reused `fetch_add` id `_id`, each instance owns its storage.
  State = what the code keeps:
    thread ids   `tidOf : thread → Option id` (per-type `IdAllocator<uint16_t>`, allocated by the first
                 slow-path `local()` of a thread, released by the thread's TLS destructor), `tidEnd = end()`;
    instances    `instOf : handle → Option id`, `instEnd`;
    storage      `size k` (the `ConcurrentVector<T,128>` of storage `k`), `cell k tid off`;
    cache        `cache t = (key, slot)`: the thread-local `{id, item*}` fast path of `local()`.  The real key
                 is the `_id` of the `EnumerableThreadLocal` that filled the cache; for a compact family that
                 is the static storage object, which is never destroyed and whose `_id` is in bijection with
                 the storage index, so the model uses the index; for a bare thread-local it is the instance's
                 own never-reused `_id` (`fresh`), which is the instance key itself.
  What is assumed of the two id allocators (this is all that C14 provides and all that is used):
    an `allocate` returns an id that no live holder has (`ida_unique`), afterwards `end()` is larger
    than every id handed out (ids are `fetch_add` results) and `end()` never decreases; freed ids may be
    handed out again in any order; `for_each` at quiescence reports exactly the held ids
    (`ida_for_each_quiescent`).  The id chosen by an allocation is a parameter of the event (`j`, `i`):
    theorems quantify over every admissible choice, the replay driver supplies the observed one.
  Arithmetic is over ℤ: the model does not describe signed overflow (undefined behaviour in `count`).
  Core Lean only (the replay driver links this file).
-/
import Babylon.Gen.Counter

namespace Babylon.Counter
open Babylon.Gen.Counter

def upd1 {α : Type} (f : Nat → α) (k : Nat) (v : α) : Nat → α := fun x => if x = k then v else f x

/-- 2^16: `for_each` narrows the snapshot size to `uint16_t` -/
def u16 : Nat := 65536

structure Cfg (β : Type) where
  num : Nat          -- NUM_PER_CACHELINE (1 for a bare EnumerableThreadLocal)
  fresh : Bool       -- instance keys come from the never-reused fetch_add counter
  dflt : β           -- value of a freshly constructed / zeroed cell (`T()`)
  inst0 : Nat        -- first instance key (`next_id{1}` for fresh keys, 0 for the IdAllocator)

structure Fam (β : Type) where
  live : List Nat                    -- live threads (the main thread is 0)
  tidOf : Nat → Option Nat           -- thread ↦ its thread id of this type
  tidEnd : Nat                       -- `ThreadId::end<T>()`
  handles : List Nat                 -- live instances (harness handles)
  instOf : Nat → Option Nat          -- handle ↦ instance id / `_id`
  instEnd : Nat
  size : Nat → Nat                   -- storage key ↦ `_storage.size()` (a multiple of 128)
  cell : Nat → Nat → Nat → β         -- storage key ↦ thread id ↦ offset ↦ value
  cache : Nat → Option (Nat × Nat)   -- thread ↦ (storage key, slot) of `_s_cache`

def Fam.init {β : Type} (c : Cfg β) : Fam β :=
  { live := [0], tidOf := fun _ => none, tidEnd := 0, handles := [], instOf := fun _ => none,
    instEnd := c.inst0, size := fun _ => 0, cell := fun _ _ _ => c.dflt, cache := fun _ => none }

/-- where a `local()` call landed: storage, slot (thread id), offset in the line -/
structure Loc where
  k : Nat
  tid : Nat
  off : Nat
  deriving DecidableEq, Repr

section ops
variable {β : Type}

def tidHeld (s : Fam β) (i : Nat) : Bool := s.live.any (fun t => s.tidOf t == some i)
def instHeld (s : Fam β) (i : Nat) : Bool := s.handles.any (fun h => s.instOf h == some i)

/-- `snapshot.size()` as `for_each` sees it -/
def size16 (s : Fam β) (k : Nat) : Nat := if forEachU16Cast then s.size k % u16 else s.size k

/-- `for_each` walks slots `[0, min(end<T>(), uint16_t(snapshot.size())))` -/
def bound (s : Fam β) (k : Nat) : Nat := min s.tidEnd (size16 s k)

def threadStart (s : Fam β) (t : Nat) : Option (Fam β) :=
  if t ∈ s.live then none
  else some { s with live := t :: s.live, tidOf := upd1 s.tidOf t none, cache := upd1 s.cache t none }

/-- thread exit: the TLS destructor of `ThreadId` releases the id; `_s_cache` dies with the thread -/
def threadExit (s : Fam β) (t : Nat) : Option (Fam β) :=
  if t ∈ s.live then
    some { s with live := s.live.erase t, tidOf := upd1 s.tidOf t none, cache := upd1 s.cache t none }
  else none

/-- constructor: `_instance_id{allocate_id()}` (observed / chosen id `i`), offset `i % num`,
storage `i / num`; bare thread-local: `_id{fetch_add_id()}`. -/
def newInst (c : Cfg β) (s : Fam β) (h i : Nat) : Option (Fam β) :=
  if h ∈ s.handles ∨ instHeld s i = true ∨ i < c.inst0 ∨ (c.fresh = true ∧ i ≠ s.instEnd) then none
  else some { s with handles := h :: s.handles, instOf := upd1 s.instOf h (some i),
                     instEnd := max s.instEnd (i + nextIdStep) }

/-- the destructor's `for_each` writing `T()` at its offset -/
def zeroCol (c : Cfg β) (s : Fam β) (i : Nat) : Nat → Nat → Nat → β :=
  let b := bound s (i / c.num)
  let k0 := i / c.num
  let o0 := i % c.num
  let old := s.cell
  fun k tid o => if k = k0 ∧ o = o0 ∧ tid < b then c.dflt else old k tid o

def dropInst (c : Cfg β) (s : Fam β) (h : Nat) : Option (Fam β) :=
  match s.instOf h with
  | none => none
  | some i =>
    if h ∈ s.handles then
      some { s with cell := if c.fresh || !dtorZeroesFirst then s.cell else zeroCol c s i,
                    handles := s.handles.erase h, instOf := upd1 s.instOf h none }
    else none

/-- move assignment = swap of `(_instance_id, _cacheline_offset, _storage)` / `(_id, _storage)` -/
def swapInst (s : Fam β) (h h' : Nat) : Option (Fam β) :=
  if h ∈ s.handles ∧ h' ∈ s.handles then
    some { s with instOf := fun x => if x = h then s.instOf h' else if x = h' then s.instOf h else s.instOf x }
  else none

/-- `_storage.ensure(tid)` + cache fill of the slow path of `local()` -/
def ensure (s : Fam β) (t k x : Nat) : Fam β :=
  { s with size := upd1 s.size k (max (s.size k) ((x / storageBlock + 1) * storageBlock)),
           cache := upd1 s.cache t (some (k, x)) }

def slowLocal (s : Fam β) (t k j : Nat) : Option (Fam β × Nat) :=
  match s.tidOf t with
  | some x => some (ensure s t k x, x)
  | none =>
    if tidHeld s j = true then none
    else some (ensure { s with tidOf := upd1 s.tidOf t (some j), tidEnd := max s.tidEnd (j + 1) } t k j, j)

/-- `local()` of thread `t` on instance `h`; `j` = the thread id the allocator hands out if the thread
has none yet. -/
def localAt (c : Cfg β) (s : Fam β) (t h j : Nat) : Option (Fam β × Loc) :=
  if t ∈ s.live then
    match s.instOf h with
    | none => none
    | some i =>
      let k := i / c.num
      let o := i % c.num
      match s.cache t with
      | some (k', x) =>
        if k' = k then some (s, ⟨k, x, o⟩)
        else (slowLocal s t k j).map (fun p => (p.1, ⟨k, p.2, o⟩))
      | none => (slowLocal s t k j).map (fun p => (p.1, ⟨k, p.2, o⟩))
  else none

def setCell (s : Fam β) (l : Loc) (v : β) : Fam β :=
  let old := s.cell
  { s with cell := fun k tid o => if k = l.k ∧ tid = l.tid ∧ o = l.off then v else old k tid o }

/-- `auto& x = local(); x = f(x)` -/
def updAt (c : Cfg β) (s : Fam β) (t h j : Nat) (f : β → β) : Option (Fam β × Loc) :=
  (localAt c s t h j).map (fun p => (setCell p.1 p.2 (f (p.1.cell p.2.k p.2.tid p.2.off)), p.2))

/-- the values `for_each` passes to its callback, in slot order -/
def forEach (c : Cfg β) (s : Fam β) (h : Nat) : Option (List β) :=
  (s.instOf h).map (fun i => (List.range (bound s (i / c.num))).map (fun tid => s.cell (i / c.num) tid (i % c.num)))

/-- `for_each` with a mutating callback -/
def forEachUpd (c : Cfg β) (s : Fam β) (h : Nat) (g : β → β) : Option (Fam β) :=
  (s.instOf h).map (fun i =>
    let b := bound s (i / c.num)
    let k0 := i / c.num
    let o0 := i % c.num
    let old := s.cell
    { s with cell := fun k tid o => if k = k0 ∧ o = o0 ∧ tid < b then g (old k tid o) else old k tid o })

/-- the ids `ThreadId::for_each<T>` reports at quiescence: exactly the held ones, ascending (C14) -/
def aliveTids (s : Fam β) : List Nat := (List.range s.tidEnd).filter (tidHeld s)

/-- `for_each_alive`: `(slot, value)` pairs; `none` = the unclipped overload indexes the block table
beyond its size (undefined behaviour).  `clipped` says whether the overload clips the ranges to
`uint16_t(snapshot.size())`. -/
def forEachAliveWith (clipped : Bool) (c : Cfg β) (s : Fam β) (h : Nat) : Option (List (Nat × β)) :=
  match s.instOf h with
  | none => none
  | some i =>
    let k := i / c.num
    let ids := aliveTids s
    if clipped then
      some ((ids.filter (· < s.size k % u16)).map (fun tid => (tid, s.cell k tid (i % c.num))))
    else if ids.all (· < s.size k) then
      some (ids.map (fun tid => (tid, s.cell k tid (i % c.num))))
    else none

/-- the overload a non-const object (and every CompactEnumerableThreadLocal) resolves to -/
def forEachAlive (c : Cfg β) (s : Fam β) (h : Nat) := forEachAliveWith feaClipped c s h
def forEachAliveConst (c : Cfg β) (s : Fam β) (h : Nat) := forEachAliveWith feaConstClipped c s h

/-- generic events of one family -/
inductive Ev (β : Type)
  | tstart (t : Nat)
  | texit (t : Nat)
  | new (h i : Nat)
  | drop (h : Nat)
  | swap (h h' : Nat)
  | upd (t h j : Nat) (f : β → β)
  | each (h : Nat) (g : β → β)

def step (c : Cfg β) (s : Fam β) : Ev β → Option (Fam β)
  | .tstart t => threadStart s t
  | .texit t => threadExit s t
  | .new h i => newInst c s h i
  | .drop h => dropInst c s h
  | .swap h h' => swapInst s h h'
  | .upd t h j f => (updAt c s t h j f).map (·.1)
  | .each h g => if h ∈ s.handles then forEachUpd c s h g else none

def run (c : Cfg β) : Fam β → List (Ev β) → Option (Fam β)
  | s, [] => some s
  | s, e :: es => (step c s e).bind (fun s' => run c s' es)

end ops

/-! ## The counters -/

def sumInts : List Int → Int
  | [] => 0
  | x :: xs => x + sumInts xs

/- `GenericsConcurrentAdder<ssize_t>` over `CompactEnumerableThreadLocal<ssize_t, 64, true>` -/
namespace Adder
def cfg : Cfg Int := { num := numAdder, fresh := false, dflt := 0, inst0 := 0 }
inductive AEv
  | tstart (t : Nat) | texit (t : Nat)
  | new (h i : Nat) | drop (h : Nat) | swap (h h' : Nat)
  | add (t h j : Nat) (v : Int)          -- `adder << v`
  | reset (h : Nat)
  deriving Repr
def AEv.toEv : AEv → Ev Int
  | .tstart t => .tstart t | .texit t => .texit t
  | .new h i => .new h i | .drop h => .drop h | .swap a b => .swap a b
  | .add t h j v => .upd t h j (· + v)
  | .reset h => .each h (fun _ => 0)
/-- `value()` -/
def value (s : Fam Int) (h : Nat) : Option Int := (forEach cfg s h).map sumInts
def step (s : Fam Int) (e : AEv) : Option (Fam Int) := Counter.step cfg s e.toEv
/-- the reference: what an adder is, `h ↦ Σ adds since creation / reset` -/
def refStep (r : Nat → Option Int) : AEv → (Nat → Option Int)
  | .tstart _ => r | .texit _ => r
  | .new h _ => upd1 r h (some 0)
  | .drop h => upd1 r h none
  | .swap a b => fun x => if x = a then r b else if x = b then r a else r x
  | .add _ h _ v => upd1 r h ((r h).map (· + v))
  | .reset h => upd1 r h ((r h).map (fun _ => 0))
def run : Fam Int → (Nat → Option Int) → List AEv → Option (Fam Int × (Nat → Option Int))
  | s, r, [] => some (s, r)
  | s, r, e :: es => (step s e).bind (fun s' => run s' (refStep r e) es)
end Adder

/- `ConcurrentSummer` over `CompactEnumerableThreadLocal<Summary, 64, true>`; a cell is `(sum, num)` -/
namespace Summer
abbrev Cell := Int × Nat
def cfg : Cfg Cell := { num := numSummer, fresh := false, dflt := (0, 0), inst0 := 0 }
def addC (a b : Cell) : Cell := (a.1 + b.1, a.2 + b.2)
def sumCells : List Cell → Cell
  | [] => (0, 0)
  | x :: xs => addC x (sumCells xs)
inductive SEv
  | tstart (t : Nat) | texit (t : Nat)
  | new (h i : Nat) | drop (h : Nat)
  | add (t h j : Nat) (v : Cell)          -- `summer << Summary{sum, num}` (`<< v` is `{v, 1}`)
  deriving Repr
def SEv.toEv : SEv → Ev Cell
  | .tstart t => .tstart t | .texit t => .texit t
  | .new h i => .new h i | .drop h => .drop h
  | .add t h j v => .upd t h j (fun x => addC x v)
def value (s : Fam Cell) (h : Nat) : Option Cell := (forEach cfg s h).map sumCells
def step (s : Fam Cell) (e : SEv) : Option (Fam Cell) := Counter.step cfg s e.toEv
def refStep (r : Nat → Option Cell) : SEv → (Nat → Option Cell)
  | .tstart _ => r | .texit _ => r
  | .new h _ => upd1 r h (some (0, 0))
  | .drop h => upd1 r h none
  | .add _ h _ v => upd1 r h ((r h).map (fun x => addC x v))
def run : Fam Cell → (Nat → Option Cell) → List SEv → Option (Fam Cell × (Nat → Option Cell))
  | s, r, [] => some (s, r)
  | s, r, e :: es => (step s e).bind (fun s' => run s' (refStep r e) es)
end Summer

/- `ConcurrentMaxer` / `ConcurrentMiner` (`ConcurrentComparer<ssize_t, Max>`) over
`CompactEnumerableThreadLocal<Slot, 64, true>`; a cell is `(version, value)`, a fresh slot has
version `SIZE_MAX`. -/
namespace Cmp
abbrev Slot := Nat × Int
def sizeMax : Nat := slotVersionInit
def cfg (isMax : Bool) : Cfg Slot :=
  { num := if isMax then numMaxer else numMiner, fresh := false, dflt := (slotVersionInit, 0), inst0 := 0 }
/-- `_comparer(lhs, rhs)` -/
def better (isMax : Bool) (l r : Int) : Bool := if isMax then decide (l > r) else decide (l < r)
def extremum (isMax : Bool) : Int := if isMax then extremumMax else extremumMin
/-- body of `operator<<` on the thread's slot, `ver` = the counter's `_version` -/
def put (isMax : Bool) (ver : Nat) (v : Int) (s : Slot) : Slot :=
  if ver ≠ s.1 then (ver, v) else if better isMax v s.2 then (ver, v) else s
/-- the fold of `value(T&)`: `(has_result, result)`; `guard` = accept the first matching slot
unconditionally (`!has_result ||`) -/
def fold (guard isMax : Bool) (ver : Nat) : List Slot → Bool × Int → Bool × Int
  | [], acc => acc
  | s :: ss, acc =>
    fold guard isMax ver ss
      (if s.1 = ver then
        (if (guard && !acc.1) || better isMax s.2 acc.2 then (true, s.2) else acc)
       else acc)
structure State where
  fam : Fam Slot
  ver : Nat → Nat            -- handle ↦ `_version`
/-- `value(T&)`: `some v` = returned true and stored `v`; `none` = no result this period -/
def value (isMax : Bool) (s : State) (h : Nat) : Option (Option Int) :=
  (forEach (cfg isMax) s.fam h).map (fun cells =>
    let r := fold cmpFirstGuard isMax (s.ver h) cells (false, extremum isMax)
    if r.1 then some r.2 else none)
inductive CEv
  | tstart (t : Nat) | texit (t : Nat)
  | new (h i : Nat) | drop (h : Nat)
  | put (t h j : Nat) (v : Int)           -- `maxer << v`
  | reset (h : Nat)                       -- `++_version`
  deriving Repr
def step (isMax : Bool) (s : State) : CEv → Option State
  | .tstart t => (threadStart s.fam t).map (fun f => { s with fam := f })
  | .texit t => (threadExit s.fam t).map (fun f => { s with fam := f })
  | .new h i => (newInst (cfg isMax) s.fam h i).map (fun f => { fam := f, ver := upd1 s.ver h 0 })
  | .drop h => (dropInst (cfg isMax) s.fam h).map (fun f => { s with fam := f })
  | .put t h j v => (updAt (cfg isMax) s.fam t h j (put isMax (s.ver h) v)).map (fun p => { s with fam := p.1 })
  | .reset h => if h ∈ s.fam.handles then some { s with ver := upd1 s.ver h ((s.ver h + 1) % 2 ^ 64) } else none
def init (isMax : Bool) : State := { fam := Fam.init (cfg isMax), ver := fun _ => 0 }
/-- the reference: handle ↦ `none` (no such comparer) | `some none` (no sample in the current period) |
`some (some e)` (`e` = extreme of the samples of the current period) -/
abbrev Ref := Nat → Option (Option Int)
def refStep (isMax : Bool) (r : Ref) : CEv → Ref
  | .tstart _ => r | .texit _ => r
  | .new h _ => upd1 r h (some none)
  | .drop h => upd1 r h none
  | .put _ h _ v =>
    upd1 r h ((r h).map (fun o => some (match o with
      | none => v
      | some e => if better isMax v e then v else e)))
  | .reset h => upd1 r h ((r h).map (fun _ => none))
def run (isMax : Bool) : State → Ref → List CEv → Option (State × Ref)
  | s, r, [] => some (s, r)
  | s, r, e :: es => (step isMax s e).bind (fun s' => run isMax s' (refStep isMax r e) es)
/-- number of `reset` events of a history -/
def resets : List CEv → Nat
  | [] => 0
  | .reset _ :: es => resets es + 1
  | _ :: es => resets es
end Cmp

/- the bare thread-locals the harness exercises directly: cells hold a `uint64_t`, `add` is
`local() += v`, reads are `for_each` / `for_each_alive` sums.
`EnumerableThreadLocal<uint64_t>`: fresh keys, one storage per instance;
`CompactEnumerableThreadLocal<uint64_t, 1>`: `numCetl` instances share a line. -/
namespace Raw
def etlCfg : Cfg Int := { num := 1, fresh := true, dflt := 0, inst0 := nextIdInit }
def cetlCfg : Cfg Int := { num := numCetl, fresh := false, dflt := 0, inst0 := 0 }
end Raw

end Babylon.Counter
