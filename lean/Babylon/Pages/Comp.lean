/-
  C17 — the compensating wait loop of `deal_n_continuously(callback, reverse_callback, index, num)` exits as
  soon as its range is published: from the version check of slot `i` on, `num - i` version reads, each of
  which matches, and the thread is at the acquire fence in front of the callback — no compensation, no read of
  the opposite counter, no upstream traffic.
-/
import Babylon.Pages.Dtor
import Babylon.Pages.Sched

namespace Babylon.Pages
open Babylon.Core

/-- the slots `i' ∈ [i, num)` of the current segment of thread `t` carry the version their ticket expects
and nobody is inside them -/
def Published (c : Cfg) (s : State) (t : Tid) : Prop :=
  ∀ i', (s.th t).i ≤ i' → i' < (s.th t).num →
    ∃ sl, s.slots[((s.th t).idx + i') % c.cap]? = some sl ∧
      sl.ver = expVer c.cap ((s.th t).idx + i') (s.th t).dir ∧ sl.owner = none

theorem filterMap_set_same {α β : Type} (f : α → Option β) : ∀ (l : List α) (k : Nat) (x y : α),
    l[k]? = some x → f y = f x → (l.set k y).filterMap f = l.filterMap f
  | [], _, _, _, h, _ => by simp at h
  | z :: zs, 0, x, y, h, hf => by
    simp only [List.getElem?_cons_zero, Option.some.injEq] at h
    subst h
    simp only [List.set_cons_zero, List.filterMap_cons, hf]
  | z :: zs, k + 1, x, y, h, hf => by
    simp only [List.getElem?_cons_succ] at h
    simp only [List.set_cons_succ, List.filterMap_cons, filterMap_set_same f zs k x y h hf]

theorem cacheToks_set_owner (s : State) (k : Nat) (sl : Slot) (o : Option Owner) (h : s.slots[k]? = some sl) :
    cacheToks (s.setSlot k { sl with owner := o }) = cacheToks s :=
  filterMap_set_same (fun x : Slot => x.val) s.slots k sl _ h rfl

theorem rdVer_match_step {c : Cfg} {s : State} {t : Tid} {sl : Slot}
    (hpc : (s.th t).pc = .rdVer) (hsl : s.slots[((s.th t).idx + (s.th t).i) % c.cap]? = some sl)
    (hv : sl.ver = expVer c.cap ((s.th t).idx + (s.th t).i) (s.th t).dir) (ho : sl.owner = none) :
    stepThread c s t 0 false =
      some ((s.setSlot (((s.th t).idx + (s.th t).i) % c.cap)
          { sl with owner := some ⟨t, (s.th t).idx + (s.th t).i, (s.th t).dir⟩ }).setTh t
            (waitOrGo { s.th t with i := (s.th t).i + 1 }),
        ldSlot (((s.th t).idx + (s.th t).i) % c.cap) Gen.Pages.ordCompVer sl.ver) := by
  unfold stepThread; dsimp only
  rw [hpc]; dsimp only
  unfold stepRdVer acquire
  simp [hsl, hv, ho]
  rw [hpc]

/-- **compensation_terminates.**  Once the rest of its range is published, the compensating loop exits:
`num - i` steps, all of them matching version reads, lead to the fence in front of the callback; the ticket
counters, the hit counter and the upstream counters are untouched (no compensation happened). -/
theorem wait_exits_when_published {c : Cfg} (hcap : 0 < c.cap) :
    ∀ (k : Nat) (s : State) (t : Tid), (s.th t).pc = .rdVer → (s.th t).num ≤ c.cap → s.slots.length = c.cap →
      (s.th t).i < (s.th t).num → (s.th t).num - (s.th t).i = k → Published c s t →
      ∃ s', runThread c t k s = some s' ∧ (s'.th t).pc = .fAcq ∧ (s'.th t).hit = (s.th t).hit ∧
        s'.pushIdx = s.pushIdx ∧ s'.popIdx = s.popIdx ∧ s'.obtained = s.obtained ∧ s'.returned = s.returned ∧
        cacheToks s' = cacheToks s
  | 0, s, t, _, _, _, hi, hk, _ => by omega
  | k + 1, s, t, hpc, hnum, hlen, hi, hk, hpub => by
    obtain ⟨sl, hsl, hv, ho⟩ := hpub (s.th t).i (Nat.le_refl _) hi
    have hstep := rdVer_match_step hpc hsl hv ho
    simp only [runThread, hstep]
    by_cases hlast : (s.th t).i + 1 < (s.th t).num
    · -- more slots to check
      have hw : waitOrGo { s.th t with i := (s.th t).i + 1 } = { s.th t with i := (s.th t).i + 1, pc := .rdVer } := by
        unfold waitOrGo; simp [hlast, hpc]
      rw [hw]
      let S1 : State := (s.setSlot (((s.th t).idx + (s.th t).i) % c.cap)
          { sl with owner := some ⟨t, (s.th t).idx + (s.th t).i, (s.th t).dir⟩ }).setTh t
            { s.th t with i := (s.th t).i + 1, pc := .rdVer }
      have hth : S1.th t = { s.th t with i := (s.th t).i + 1, pc := .rdVer } := by simp [S1, State.setTh]
      have hpub1 : Published c S1 t := by
        intro i' h1 h2
        rw [hth] at h1 h2 ⊢
        simp only at h1 h2 ⊢
        obtain ⟨sl', hsl', hv', ho'⟩ := hpub i' (by omega) h2
        refine ⟨sl', ?_, hv', ho'⟩
        simp only [S1, State.setTh, State.setSlot]
        rw [List.getElem?_set_ne]
        · exact hsl'
        · intro hm
          have := window_inj (P0 := (s.th t).idx) hcap (by omega) (by omega) (by omega) (by omega) hm
          omega
      obtain ⟨s', hrun, h1, h2, h3, h4, h5, h6, h7⟩ :=
        wait_exits_when_published hcap k S1 t (by rw [hth]) (by rw [hth]; exact hnum) (by simp [S1, State.setTh, State.setSlot, hlen])
          (by rw [hth]; simpa using hlast) (by rw [hth]; simp only; omega) hpub1
      refine ⟨s', hrun, h1, by rw [h2, hth], by rw [h3]; rfl, by rw [h4]; rfl, by rw [h5]; rfl, by rw [h6]; rfl, ?_⟩
      rw [h7]
      exact cacheToks_set_owner s _ sl _ hsl
    · -- that was the last slot
      have hw : waitOrGo { s.th t with i := (s.th t).i + 1 } = { s.th t with i := (s.th t).i + 1, pc := .fAcq } := by
        unfold waitOrGo; simp [hlast]
      rw [hw]
      have hk0 : k = 0 := by omega
      subst hk0
      refine ⟨_, rfl, by simp [State.setTh], by simp [State.setTh], rfl, rfl, rfl, rfl, ?_⟩
      exact cacheToks_set_owner s _ sl _ hsl


theorem runThread_runT {c : Cfg} {t : Tid} : ∀ (n : Nat) (s s' : State), runThread c t n s = some s' → RunT c t s s'
  | 0, s, s', h => by simp only [runThread, Option.some.injEq] at h; subst h; exact .refl s
  | n + 1, s, s', h => by
    simp only [runThread] at h
    split at h
    · simp at h
    · rename_i s1 l hs
      exact .step 0 false l hs (runThread_runT n s1 s' h)

end Babylon.Pages
