/-
  C17 — basic lemmas of the token model: counting tokens place by place, the three slot primitives,
  and "every step is a move" (`Delta`): a step of thread `t` changes only the shared places and `t`'s own
  in-flight lists, and it either permutes the live tokens, brings exactly one token in from upstream
  (which was not live), or sends exactly one token back upstream.
-/
import Babylon.Pages.Model
import Babylon.Core.Reach

namespace Babylon.Pages
open Babylon.Core

/-! ### list facts -/
theorem count_optToList (a : Nat) (o : Option Nat) :
    o.toList.count a = if o = some a then 1 else 0 := by
  cases o with
  | none => simp
  | some p => by_cases h : p = a <;> simp [h]

theorem count_filterMap_set {α : Type} (f : α → Option Nat) (l : List α) (k : Nat) (x y : α) (a : Nat)
    (h : l[k]? = some x) :
    ((l.set k y).filterMap f).count a + (f x).toList.count a = (l.filterMap f).count a + (f y).toList.count a := by
  induction l generalizing k with
  | nil => simp at h
  | cons z zs ih =>
    cases k with
    | zero =>
      simp only [List.getElem?_cons_zero, Option.some.injEq] at h
      subst h
      simp only [List.set_cons_zero, List.filterMap_cons]
      cases hz : f z <;> cases hy : f y <;> simp [List.count_cons] <;> omega
    | succ k =>
      simp only [List.getElem?_cons_succ] at h
      have := ih k h
      simp only [List.set_cons_succ, List.filterMap_cons]
      cases hz : f z <;> simp [List.count_cons] <;> omega

theorem count_flatten_set (l : List (List Nat)) (k : Nat) (x y : List Nat) (a : Nat) (h : l[k]? = some x) :
    (l.set k y).flatten.count a + x.count a = l.flatten.count a + y.count a := by
  induction l generalizing k with
  | nil => simp at h
  | cons z zs ih =>
    cases k with
    | zero =>
      simp only [List.getElem?_cons_zero, Option.some.injEq] at h
      subst h
      simp [List.count_append]; omega
    | succ k =>
      simp only [List.getElem?_cons_succ] at h
      have := ih k h
      simp [List.count_append]; omega

/-- the list without `t` -/
def dropT (l : List Nat) (t : Nat) : List Nat := l.filter (fun u => u != t)

theorem count_flatMap_split (f : Nat → List Tok) (l : List Nat) (t : Nat) (a : Tok) (hn : l.Nodup) (ht : t ∈ l) :
    (l.flatMap f).count a = (f t).count a + ((dropT l t).flatMap f).count a := by
  unfold dropT
  induction l with
  | nil => simp at ht
  | cons z zs ih =>
    have hn' := List.nodup_cons.mp hn
    by_cases hz : z = t
    · subst hz
      have hf : zs.filter (fun u => u != z) = zs := by
        apply List.filter_eq_self.mpr
        intro x hx
        have : x ≠ z := fun e => hn'.1 (e ▸ hx)
        simpa using this
      have hzz : (z != z) = false := by simp
      rw [List.filter_cons, hzz]
      simp only [Bool.false_eq_true, if_false, hf, List.flatMap_cons, List.count_append]
    · have ht' : t ∈ zs := by
        rcases List.mem_cons.mp ht with h | h
        · exact absurd h.symm hz
        · exact h
      have h1 := ih hn'.2 ht'
      have hzt : (z != t) = true := by simpa using hz
      rw [List.filter_cons, hzt]
      simp only [if_true, List.flatMap_cons, List.count_append, h1]
      omega

theorem flatMap_congr_filter (f g : Nat → List Tok) (l : List Nat) (t : Nat) (h : ∀ u, u ≠ t → g u = f u) :
    (dropT l t).flatMap g = (dropT l t).flatMap f := by
  unfold dropT
  induction l with
  | nil => rfl
  | cons z zs ih =>
    by_cases hz : z = t
    · have hzt : (z != t) = false := by simp [hz]
      rw [List.filter_cons, hzt]
      simpa using ih
    · have hzt : (z != t) = true := by simpa using hz
      rw [List.filter_cons, hzt]
      simp only [if_true, List.flatMap_cons, ih, h z hz]

theorem takeMany_count : ∀ (held ps h' : List Nat) (a : Nat), takeMany held ps = some h' →
    held.count a = ps.count a + h'.count a
  | held, [], h', a, h => by simp [takeMany] at h; subst h; simp
  | held, p :: ps, h', a, h => by
    simp only [takeMany] at h
    split at h
    · rename_i hp
      have := takeMany_count (held.erase p) ps h' a h
      rw [List.count_erase] at this
      have h1 : 0 < held.count p := List.count_pos_iff.mpr hp
      by_cases e : p = a
      · subst e; simp [List.count_cons] at this ⊢; omega
      · have e' : ¬ (a = p) := fun x => e x.symm
        simp [List.count_cons, e, e'] at this ⊢; omega
    · simp at h

/-! ### counting tokens -/
/-- occurrences of token `a` in the shared places and in thread `t`'s in-flight lists -/
def coreCnt (s : State) (t : Tid) (a : Tok) : Nat :=
  (cacheToks s).count a + s.held.count a + s.bufs.flatten.count a +
    ((s.th t).pages.count a + (s.th t).out.count a + (s.th t).carry.count a)

def restToks (c : Cfg) (s : State) (t : Tid) : List Tok :=
  (dropT (List.range c.nthreads) t).flatMap (fun u => (s.th u).toks)

theorem toks_count (c : Cfg) (s : State) (t : Tid) (a : Tok) (ht : t < c.nthreads) :
    (toks c s).count a = coreCnt s t a + (restToks c s t).count a := by
  have h := count_flatMap_split (fun u => (s.th u).toks) (List.range c.nthreads) t a List.nodup_range
    (List.mem_range.mpr ht)
  have h2 : ((s.th t).toks).count a = (s.th t).pages.count a + (s.th t).out.count a + (s.th t).carry.count a := by
    simp [Th.toks, List.count_append, Nat.add_assoc]
  unfold toks thToks coreCnt restToks
  rw [List.count_append, List.count_append, List.count_append, h, h2]
  simp only [Nat.add_assoc]

/-- a step of thread `t` leaves every other thread alone -/
def Frame (s s' : State) (t : Tid) : Prop := ∀ u, u ≠ t → s'.th u = s.th u

theorem restToks_frame {c : Cfg} {s s' : State} {t : Tid} (h : Frame s s' t) :
    restToks c s' t = restToks c s t :=
  flatMap_congr_filter _ _ _ t (fun u hu => by simp [h u hu])

theorem frame_setTh (s : State) (t : Tid) (th : Th) : Frame s (s.setTh t th) t := by
  intro u hu; simp [State.setTh, hu]

/-- how one step changes the live tokens -/
inductive CoreDelta (c : Cfg) (s s' : State) (t : Tid) : Prop
  | move : (∀ a, coreCnt s' t a = coreCnt s t a) → s'.obtained = s.obtained → s'.returned = s.returned →
      CoreDelta c s s' t
  | alloc (p : Tok) : p ∉ toks c s → (∀ a, coreCnt s' t a = coreCnt s t a + if a = p then 1 else 0) →
      s'.obtained = s.obtained + 1 → s'.returned = s.returned → CoreDelta c s s' t
  | free (p : Tok) : (∀ a, coreCnt s t a = coreCnt s' t a + if a = p then 1 else 0) →
      s'.obtained = s.obtained → s'.returned = s.returned + 1 → CoreDelta c s s' t

/-- "Every step is a move": the step relation on live tokens, for the whole state. -/
inductive Delta (c : Cfg) (s s' : State) : Prop
  | move : (toks c s').Perm (toks c s) → s'.obtained = s.obtained → s'.returned = s.returned → Delta c s s'
  | alloc (p : Tok) : p ∉ toks c s → (toks c s').Perm (p :: toks c s) → s'.obtained = s.obtained + 1 →
      s'.returned = s.returned → Delta c s s'
  | free (p : Tok) : (toks c s).Perm (p :: toks c s') → s'.obtained = s.obtained →
      s'.returned = s.returned + 1 → Delta c s s'

theorem Delta.of_core {c : Cfg} {s s' : State} {t : Tid} (ht : t < c.nthreads) (hf : Frame s s' t)
    (h : CoreDelta c s s' t) : Delta c s s' := by
  have hr := restToks_frame (c := c) hf
  cases h with
  | move hc ho hr' =>
    refine .move (List.perm_iff_count.mpr fun a => ?_) ho hr'
    rw [toks_count c s' t a ht, toks_count c s t a ht, hc a, hr]
  | alloc p hp hc ho hr' =>
    refine .alloc p hp (List.perm_iff_count.mpr fun a => ?_) ho hr'
    rw [toks_count c s' t a ht, List.count_cons, toks_count c s t a ht, hc a, hr]
    by_cases e : a = p
    · subst e; simp; omega
    · have : ¬ (p = a) := fun x => e x.symm
      simp [e, this]
  | free p hc ho hr' =>
    refine .free p (List.perm_iff_count.mpr fun a => ?_) ho hr'
    rw [toks_count c s t a ht, List.count_cons, toks_count c s' t a ht, hc a, hr]
    by_cases e : a = p
    · subst e; simp; omega
    · have : ¬ (p = a) := fun x => e x.symm
      simp [e, this]

/-! ### the slot primitives -/
theorem acquire_spec {c : Cfg} {s s1 : State} {t : Tid} {i : Nat} {d : Dir} (h : acquire c s t i d = some s1) :
    ∃ sl, s.slots[i % c.cap]? = some sl ∧ sl.ver = expVer c.cap i d ∧
      (sl.owner = none ∨ sl.owner = some ⟨t, i, d⟩) ∧
      s1 = s.setSlot (i % c.cap) { sl with owner := some ⟨t, i, d⟩ } := by
  unfold acquire at h
  split at h
  · simp at h
  · rename_i sl hsl
    split at h
    · rename_i hc
      simp only [Option.some.injEq] at h
      exact ⟨sl, hsl, hc.1, hc.2, h.symm⟩
    · simp at h

theorem takeVal_spec {c : Cfg} {s s1 : State} {t : Tid} {i : Nat} {d : Dir} {p : Tok}
    (h : takeVal c s t i d = some (s1, p)) :
    ∃ sl, s.slots[i % c.cap]? = some sl ∧ sl.val = some p ∧ sl.owner = some ⟨t, i, d⟩ ∧
      s1 = s.setSlot (i % c.cap) { sl with val := none } := by
  unfold takeVal at h
  split at h
  · simp at h
  · rename_i sl hsl
    split at h
    · simp at h
    · rename_i q hq
      split at h
      · rename_i ho
        simp only [Option.some.injEq, Prod.mk.injEq] at h
        obtain ⟨h1, h2⟩ := h
        subst h2
        exact ⟨sl, hsl, hq, ho, h1.symm⟩
      · simp at h

theorem publish_spec {c : Cfg} {s s1 : State} {t : Tid} {i : Nat} {d : Dir} {put : Option Tok}
    (h : publish c s t i d put = some s1) :
    ∃ sl, s.slots[i % c.cap]? = some sl ∧ sl.owner = some ⟨t, i, d⟩ ∧ sl.val = none ∧
      s1 = s.setSlot (i % c.cap) { ver := sl.ver + 1, val := put, owner := none } := by
  unfold publish at h
  split at h
  · simp at h
  · rename_i sl hsl
    split at h
    · rename_i hc
      simp only [Option.some.injEq] at h
      exact ⟨sl, hsl, hc.1, hc.2, h.symm⟩
    · simp at h

/-- tokens in the cache after replacing one slot -/
theorem cacheToks_setSlot (s : State) (k : Nat) (sl sl' : Slot) (a : Tok) (h : s.slots[k]? = some sl) :
    (cacheToks (s.setSlot k sl')).count a + (if sl.val = some a then 1 else 0) =
      (cacheToks s).count a + (if sl'.val = some a then 1 else 0) := by
  have := count_filterMap_set (fun x : Slot => x.val) s.slots k sl sl' a h
  rw [count_optToList, count_optToList] at this
  simpa [cacheToks, State.setSlot] using this

end Babylon.Pages
